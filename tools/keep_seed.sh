#!/bin/bash
# usage: keep_seed.sh <prop> <k> <module dir> <demo dest dir> <go test args...>
# Confirms /tmp/sa/out/<prop>/<k> (see confirm_seed.sh) and, when confirmed, stores it as /verif/seeded/<prop>-s<k>/.
P="$1"; K="$2"; MOD="$3"; DEST="$4"; shift 4
SRC=/tmp/sa/out/$P/$K
OUT=$(/verif/tools/confirm_seed.sh "$SRC" "$MOD" "$DEST" "$@" 2>&1)
echo "$P/$K: $OUT" | head -12
V=$(echo "$OUT" | grep "^VERDICT")
if echo "$V" | grep -q "existing_tests_exit=0 demo_with_change_exit=[1-9][0-9]* demo_without_change_exit=0"; then
  D=/verif/seeded/$P-s$K; mkdir -p "$D"
  cp "$SRC/patch.diff" "$D/"; cp "$SRC"/*_test.go "$D/" 2>/dev/null; cp "$SRC/DEMO.txt" "$D/" 2>/dev/null
  python3 - "$SRC/meta.json" "$D/meta.json" "$P" "$MOD" "$DEST" "$*" "$V" <<'PY'
import json,sys
src,dst,prop,mod,dest,args,verdict=sys.argv[1:8]
m=json.load(open(src))
out={"property":prop,"summary":m.get("summary",""),"needs_to_manifest":m.get("needs_to_manifest",""),"files_changed":m.get("files_changed",[]),
 "origin":"independent sub-agent given only the property text and a private worktree",
 "confirmed_by_me":{"how":f"tools/confirm_seed.sh in a scratch worktree of /repo HEAD: git apply patch.diff; (cd {mod} && go build ./... && go vet ./... && go test -count=1 ./...); demo placed in {dest}; (cd {dest} && go test -count=1 {args}) with the patch and again after git apply -R","result":verdict}}
json.dump(out,open(dst,"w"),indent=1,ensure_ascii=False)
PY
  echo "KEPT $D"
else
  echo "NOT KEPT $P/$K"
fi
