#!/bin/bash
# Runs the pinned baseline suite on /repo (guard off: there are no hooks) and compares with BASELINE.json's stable_pass.
set -u
export GOFLAGS=-mod=mod GOPROXY=off GOSUMDB=off GOTOOLCHAIN=local
OUT=${1:-/tmp/baseline_run.json}
: > "$OUT"
for m in $(cat /w/out/gomods.txt); do
  (cd /repo/$m && GOWORK=off go test -mod=mod -json -vet=off -count=1 -timeout 25m ./... ) >> "$OUT" 2>/dev/null
done
python3 - "$OUT" <<'PY'
import json, sys
sys.path.insert(0, '/w/lib')
import parse_tests
passed, failed, other, note = parse_tests.parse_go([sys.argv[1]])
b = json.load(open('/root/.vp/BASELINE.json'))
stable = set(b['stable_pass'])
missing = sorted(stable - passed)
print(f"passed={len(passed)} failed={len(failed)} stable={len(stable)} stable-not-passed={len(missing)}")
for t in missing[:40]: print("  NOT PASSED:", t)
for t in sorted(failed)[:40]: print("  FAILED:", t)
PY
