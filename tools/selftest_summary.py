#!/usr/bin/env python3
"""Print the checker self-test summary of the evidence files (after thorough runs): by_status and every entry that is not ok."""
import json,sys,glob,os
props=sys.argv[1:] or sorted(os.path.basename(f)[:-5] for f in glob.glob('/verif/evidence/C*.json'))
for p in props:
    try: e=json.load(open(f'/verif/evidence/{p}.json'))
    except Exception as ex: print(p,'no evidence'); continue
    st=e['coverage'].get('checker_selftest')
    if not st or not st.get('run'): print(p,'(no self-test in this evidence: tier',e.get('tier'),')'); continue
    print(p,e.get('tier'),st['by_status'])
    for x in st['results']:
        s=x.get('status','')
        if s not in ('ok',) and not s.startswith('alarms on an equivalent') and not s.startswith('not-decided') and not s.startswith('ok'):
            print('    ',x.get('variant'),'| expect',x.get('expect'),'| fired',x.get('fired'),'|',s)
