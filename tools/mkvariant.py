#!/usr/bin/env python3
"""Create a checker self-test variant: apply text replacements to /repo, make sure it
still compiles, save the diff under /verif/variants/<prop>/<name>.diff with the
expectation (fire <rule> | silent), run the check and report, then revert /repo.

usage: mkvariant.py PROP NAME EXPECT FILE OLD NEW [FILE OLD NEW ...]
  EXPECT: fire:<rule>[,<rule>]  or  silent
"""
import subprocess, sys, os, re
prop, name, expect = sys.argv[1:4]
trip = sys.argv[4:]
assert len(trip) % 3 == 0 and trip
env = dict(os.environ, GOFLAGS="-mod=mod", GOPROXY="off", GOSUMDB="off", GOTOOLCHAIN="local", GOWORK="off")
def sh(cmd, **kw):
    return subprocess.run(cmd, shell=True, text=True, capture_output=True, env=env, **kw)
assert sh("git -C /repo status --porcelain").stdout.strip() == "", "/repo not clean"
dirs = set()
try:
    for i in range(0, len(trip), 3):
        f, old, new = trip[i:i+3]
        p = os.path.join("/repo", f)
        s = open(p).read()
        if s.count(old) != 1:
            print(f"ERROR: {f}: old text occurs {s.count(old)} times"); sys.exit(2)
        open(p, "w").write(s.replace(old, new))
        dirs.add(os.path.dirname(p))
    for d in dirs:
        r = sh("go build ./... && go vet .", cwd=d)
        if r.returncode != 0:
            print("ERROR: variant does not compile/vet:\n" + r.stdout + r.stderr); sys.exit(2)
    diff = sh("git -C /repo diff").stdout
    os.makedirs(f"/verif/variants/{prop}", exist_ok=True)
    with open(f"/verif/variants/{prop}/{name}.diff", "w") as fh:
        fh.write(f"# expect: {expect}\n" + diff)
    r = sh(f"/verif/bin/verifcheck -property {prop} -no-evidence", cwd="/verif")
    out = r.stdout + r.stderr
    fired = sorted(set(re.findall(r": (C\d+\.R\w+): (?:violation|undecided|anchor-missing)", out)))
    print(f"exit={r.returncode} fired={fired}")
    ok = (expect == "silent" and r.returncode == 0) or (expect.startswith("fire:") and r.returncode == 1 and all(f"{prop}.{x}" in fired for x in expect[5:].split(",")))
    print("RESULT:", "as expected" if ok else "UNEXPECTED")
    if not ok or os.environ.get("V"):
        print(out[-3000:])
finally:
    sh("git -C /repo checkout -- .")
