#!/bin/bash
# usage: confirm_seed.sh <srcdir with patch.diff + demo files> <module dir rel to repo root> <demo dest dir rel to repo root> <demo go test args...>
# Confirms in a scratch worktree of /repo HEAD (never /repo itself): patch applies, affected module builds/vets,
# its existing tests pass with the patch, the demo FAILS with the patch and PASSES without it. Prints a verdict line.
set -u
export GOFLAGS=-mod=mod GOPROXY=off GOSUMDB=off GOTOOLCHAIN=local GOWORK=off
SRC="$1"; MOD="$2"; DEST="$3"; shift 3
WT=/tmp/seedconfirm/$(basename "$(dirname "$SRC")")-$(basename "$SRC")-$$
mkdir -p /tmp/seedconfirm
git -C /repo worktree add -q --detach "$WT" HEAD || exit 2
cleanup() { git -C /repo worktree remove --force "$WT" >/dev/null 2>&1; git -C /repo worktree prune; }
trap cleanup EXIT
git -C "$WT" apply "$SRC/patch.diff" || { echo "VERDICT patch-does-not-apply"; exit 1; }
( cd "$WT/$MOD" && go build ./... && go vet ./... ) >/tmp/seedconfirm/build.log 2>&1 || { echo "VERDICT does-not-build"; tail -5 /tmp/seedconfirm/build.log; exit 1; }
( cd "$WT/$MOD" && go test -count=1 ./... ) >/tmp/seedconfirm/tests.log 2>&1; T=$?
cp "$SRC"/*_test.go "$WT/$DEST/" 2>/dev/null
( cd "$WT/$DEST" && timeout 600 go test -count=1 "$@" ) >/tmp/seedconfirm/demo_with.log 2>&1; W=$?
git -C "$WT" apply -R "$SRC/patch.diff"
( cd "$WT/$DEST" && timeout 600 go test -count=1 "$@" ) >/tmp/seedconfirm/demo_without.log 2>&1; O=$?
echo "VERDICT existing_tests_exit=$T demo_with_change_exit=$W demo_without_change_exit=$O"
[ $T -ne 0 ] && { echo "--- existing tests:"; grep -E "^(--- FAIL|FAIL|panic)" /tmp/seedconfirm/tests.log | head -8; }
[ $W -eq 0 ] && { echo "--- demo did not fail with change:"; tail -5 /tmp/seedconfirm/demo_with.log; }
[ $O -ne 0 ] && { echo "--- demo fails without change:"; tail -8 /tmp/seedconfirm/demo_without.log; }
exit 0
