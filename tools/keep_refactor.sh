#!/bin/bash
# usage: keep_refactor.sh <prop> <r1|r2>  — round-2 equivalent refactor from /tmp/sa2/out/<prop>/<name>: confirm in a scratch worktree
# that it applies, builds, vets and that the tests of the modules it names pass (with -race), then store it as
# /verif/variants/<prop>/agent-<name>.diff with expectation "silent" (+ .meta.json). Equivalence itself is reviewed by reading.
set -u
export GOFLAGS=-mod=mod GOPROXY=off GOSUMDB=off GOTOOLCHAIN=local GOWORK=off
P="$1"; N="$2"
SRC=${SA:-/tmp/sa2}/out/$P/$N; TAG=${TAG:-agent}
[ -f "$SRC/patch.diff" ] || { echo "$P/$N: no patch"; exit 1; }
WT=/tmp/refconfirm/$P-$N-$$
mkdir -p /tmp/refconfirm
git -C /repo worktree add -q --detach "$WT" HEAD || exit 2
trap 'git -C /repo worktree remove --force "$WT" >/dev/null 2>&1; git -C /repo worktree prune' EXIT
git -C "$WT" apply "$SRC/patch.diff" || { echo "$P/$N: VERDICT patch-does-not-apply"; exit 1; }
MODS=$(python3 - "$SRC/meta.json" "$WT" <<'PY'
import json,sys,os
m=json.load(open(sys.argv[1])); wt=sys.argv[2]
mods=set()
for f in m.get("files_changed",[]):
    d=os.path.dirname(os.path.join(wt,f))
    while d.startswith(wt) and not os.path.exists(os.path.join(d,"go.mod")): d=os.path.dirname(d)
    mods.add(os.path.relpath(d,wt))
print(" ".join(sorted(mods)))
PY
)
R=0
for m in $MODS; do
  ( cd "$WT/$m" && go build ./... && go vet ./... && go test -count=1 -race ./... ) > /tmp/refconfirm/$P-$N.log 2>&1 || { R=1; echo "--- $m:"; grep -E "^(--- FAIL|FAIL|panic|#)" /tmp/refconfirm/$P-$N.log | head -8; }
done
echo "$P/$N: VERDICT modules=[$MODS] build_vet_test_race_exit=$R"
if [ $R -eq 0 ]; then
  mkdir -p /verif/variants/$P
  { echo "# expect: silent"; cat "$SRC/patch.diff"; } > /verif/variants/$P/$TAG-$N.diff
  python3 - "$SRC/meta.json" /verif/variants/$P/$TAG-$N.meta.json "$MODS" <<'PY'
import json,sys
m=json.load(open(sys.argv[1]))
out={"origin":"independent sub-agent (second round): behaviour-preserving refactor of the code implementing the property","summary":m.get("summary",""),"why_equivalent":m.get("why_equivalent",""),"files_changed":m.get("files_changed",[]),
 "confirmed_by_me":f"applies to /repo HEAD in a scratch worktree; go build, go vet, go test -count=1 -race pass in modules [{sys.argv[3]}]; equivalence argument reviewed by reading"}
json.dump(out,open(sys.argv[2],"w"),indent=1,ensure_ascii=False)
PY
  echo "KEPT /verif/variants/$P/$TAG-$N.diff"
fi
