#!/usr/bin/env python3
"""Regenerate DESIGN.md Appendix C (rules as implemented) from the evidence of a quick run of every check."""
import json, glob, re, sys
V="/verif"
rows=[]
for p in sorted(glob.glob(f"{V}/evidence/C*.json")):
    e=json.load(open(p))
    if e.get("tier")!="quick":
        print(f"{p}: tier {e.get('tier')} — run the quick checks first", file=sys.stderr); sys.exit(1)
    for r in e["coverage"]["rules"]:
        rows.append(f"| {r['id']} | {r['engine']} | {r['decides'].replace('|','/')} | {r['min_instances']} | {r['instances']} |")
def key(row):
    m=re.match(r"\| C(\d+)\.R(\d+)",row); return (int(m.group(1)),int(m.group(2)))
rows.sort(key=key)
d=open(f"{V}/DESIGN.md").read()
i=d.index("## Appendix C")
head="""## Appendix C — rules as implemented (generated from the evidence of a quick run)

`min` is the vacuous-pass guard (the rule fails when it finds fewer instances);
"found" is the number of obligations the rule produced on the current tree.
Regenerate with `tools/gen_rules_table.py` after a quick run of every check.

| Rule | Engine | Decides | min | found on this tree |
|---|---|---|---|---|
"""
open(f"{V}/DESIGN.md","w").write(d[:i]+head+"\n".join(rows)+"\n")
print(len(rows),"rules")
