#!/bin/bash
# usage: [SA=/tmp/sa4 LET=u ROUND=4] keep_r2.sh <prop> <a1|a2>   — defect seed from $SA/out/<prop>/<name> (default: round 2, /tmp/sa2, letter t): confirm (tools/confirm_seed.sh) using the
# demo location/command recorded in its meta.json and, when confirmed, store it as /verif/seeded/<prop>-t<k>/.
P="$1"; N="$2"; K="${N#a}"
SRC=${SA:-/tmp/sa2}/out/$P/$N; LET=${LET:-t}; ROUND=${ROUND:-2}
[ -f "$SRC/patch.diff" ] || { echo "$P/$N: no patch"; exit 1; }
read -r MOD DEST CMD < <(python3 - "$SRC/meta.json" <<'PY'
import json,sys,shlex
m=json.load(open(sys.argv[1]))
mod=m.get("demo_module_dir",".").strip("/") or "."
dest=m.get("demo_dir",".").strip("/") or "."
cmd=m.get("demo_command","go test -count=1 .")
# strip leading "go test -count=1"
parts=shlex.split(cmd)
args=[a for a in parts[2:] if a!="-count=1"]
print(mod, dest, " ".join(shlex.quote(a) for a in args))
PY
)
# confirm_seed runs the demo from the demo directory: replace the package path by "."
ARGS=$(python3 - "$CMD" <<'PY'
import sys,shlex
a=shlex.split(sys.argv[1])
out=[]
for x in a:
    if x.startswith("./") or x=="." : continue
    out.append(x)
print(" ".join(shlex.quote(x) for x in out))
PY
)
OUT=$(eval /verif/tools/confirm_seed.sh "$SRC" "$MOD" "$DEST" $ARGS . 2>&1)
echo "$P/$N: $OUT" | head -12
V=$(echo "$OUT" | grep "^VERDICT")
if echo "$V" | grep -q "existing_tests_exit=0 demo_with_change_exit=[1-9][0-9]* demo_without_change_exit=0"; then
  D=/verif/seeded/$P-$LET$K; mkdir -p "$D"
  cp "$SRC/patch.diff" "$D/"; cp "$SRC"/*_test.go "$D/" 2>/dev/null
  python3 - "$SRC/meta.json" "$D/meta.json" "$P" "$MOD" "$DEST" "$ARGS" "$V" "$ROUND" <<'PY'
import json,sys
src,dst,prop,mod,dest,args,verdict,rnd=sys.argv[1:9]
m=json.load(open(src))
out={"property":prop,"round":int(rnd),"refactor_flavour":m.get("refactor_flavour",""),"summary":m.get("summary",""),"needs_to_manifest":m.get("needs_to_manifest",""),"files_changed":m.get("files_changed",[]),
 "demo_dir":dest,"demo_module_dir":mod,"demo_command":m.get("demo_command",""),
 "origin":"independent sub-agent (round %s) given only the property text and a private worktree" % rnd,
 "confirmed_by_me":{"how":f"tools/confirm_seed.sh in a scratch worktree of /repo HEAD: git apply patch.diff; (cd {mod} && go build ./... && go vet ./... && go test -count=1 ./...); demo placed in {dest}; (cd {dest} && go test -count=1 {args} .) with the patch and again after git apply -R","result":verdict}}
json.dump(out,open(dst,"w"),indent=1,ensure_ascii=False)
PY
  echo "KEPT $D"
else
  echo "NOT KEPT $P/$N"
fi
