#!/usr/bin/env python3
"""Generate /verif/MANIFEST.json from tools/manifest_props.json (per-property texts)
and the list of properties the checker binary implements."""
import json, subprocess, os
V = "/verif"
props = [json.loads(l) for l in open(f"{V}/properties.jsonl")]
texts = json.load(open(f"{V}/tools/manifest_props.json"))
env = "GOFLAGS=-mod=mod GOPROXY=off GOSUMDB=off GOTOOLCHAIN=local GOWORK=off"
checks, na = [], []
for p in props:
    pid = p["id"]
    t = texts.get(pid)
    if not t or not t.get("implemented"):
        na.append({"property_id": pid, "reason": (t or {}).get("na_reason", "static check not built yet in this round (design in DESIGN.md §2); no runtime test is substituted")})
        continue
    checks.append({
        "property_id": pid,
        "quick_cmd": f"./run_check.sh {pid} quick",
        "thorough_cmd": f"./run_check.sh {pid} thorough",
        "evidence_file": f"evidence/{pid}.json",
        "replay_cmd_template": f"./run_check.sh {pid} quick -replay {{path}}",
        "engine": "verifcheck",
        "level_claimed": {
            "category": "other",
            "text": t["level_text"],
            "design_ref": f"DESIGN.md §2 {pid}",
        },
        "level_note": t["level_note"],
        "technique": t["technique"],
    })
m = {
    "version": 1,
    "setup_cmd": f"cd /verif/checker && {env} go build -o /verif/bin/verifcheck .",
    "hooks": {
        "guard": "verif",
        "enable": "none needed: the checks are static analyses of /repo's source; nothing in /repo is instrumented",
        "baseline_off_cmd": json.load(open("/root/.vp/BASELINE.json"))["cmd"],
        "source_commits": [],
        "add_only": True,
    },
    "engines": [{
        "name": "verifcheck",
        "path": "checker/",
        "serves_properties": [c["property_id"] for c in checks],
        "kind_free_text": "repository-specific static analyser (go/packages + go/types + go/cfg + go/ssa, x/tools v0.29.0): lock-held dataflow, path rules on control-flow graphs, decision-table and character-class extraction, provenance, who-may, sibling agreement",
    }],
    "checks": checks,
    "not_applicable": na,
    "notes": "All checks are static analyses that read /repo's working tree on every run (no repository code is executed). Every claim is level 'other': structural necessary conditions of the property, see DESIGN.md. Known genuine defects are listed in known_findings.json.",
}
json.dump(m, open(f"{V}/MANIFEST.json", "w"), indent=1)
print(len(checks), "checks,", len(na), "not applicable")
