#!/bin/bash
# usage: r10_process.sh <prop>... — round 10 (three maintenance commits r1..r3 per property): first look with ALL the checks whose
# packages the patch touches (own property only here), then confirm and keep
export SA=/tmp/sa10 TAG=agent10
mkdir -p /tmp/sa10/firstlook
for P in "$@"; do
  /verif/tools/try_round.sh $P > /tmp/sa10/firstlook/$P.txt 2>&1
  for n in r1 r2 r3; do [ -d $SA/out/$P/$n ] && /verif/tools/keep_refactor.sh $P $n > /tmp/sa10/firstlook/$P.$n.keep 2>&1; done
  echo "$P processed: $(grep -h 'KEPT' /tmp/sa10/firstlook/$P.*.keep | tr '\n' ' ')"
done
