#!/usr/bin/env python3
"""Regenerate the seed table of DESIGN.md §8 from seeded/<id>/expect.txt (written by tools/seeded_eval.py), tools/seed_history.json
and each seed's meta.json. Run after seeded_eval."""
import json,glob,os,re
V="/verif"
hist=json.load(open(f"{V}/tools/seed_history.json"))
rows=[]
for d in sorted(glob.glob(f"{V}/seeded/*")):
    if not os.path.isdir(d): continue
    sid=os.path.basename(d)
    meta=json.load(open(d+"/meta.json"))
    exp=open(d+"/expect.txt").read().strip() if os.path.exists(d+"/expect.txt") else "?"
    if exp.startswith("fire:"): fired=exp[5:]
    elif exp.startswith("elsewhere:"): fired="elsewhere: "+exp[10:]
    else: fired="— (not decided)"
    summ=meta.get("summary","").replace("|","/").replace("\n"," ")
    if len(summ)>160: summ=summ[:160]+"…"
    rows.append(f"| {sid} | {fired} | {hist.get(sid,'')} | {summ} |")
d=open(f"{V}/DESIGN.md").read()
head="| change | rules that fire now | history | what it does |\n|---|---|---|---|\n"
i=d.index(head)
j=i+len(head)
# end of table: first line not starting with '|'
k=j
while d[k]=='|':
    k=d.index('\n',k)+1
d=d[:j]+"\n".join(rows)+"\n"+d[k:]
open(f"{V}/DESIGN.md","w").write(d)
print(len(rows),"rows")
