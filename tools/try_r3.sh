#!/bin/bash
# usage: try_r3.sh <prop> — run the property's check against each round-3 refactor (all should be silent)
P="$1"; shift
for n in r1 r2 r3; do
  f=/tmp/sa3/out/$P/$n/patch.diff
  [ -f "$f" ] || { echo "== $P/$n: (not delivered)"; continue; }
  echo "== $P/$n"
  /verif/tools/try_seed.sh "$P" "$f" "$@" 2>&1 | grep -v "discharged" | cut -c1-330
done
