#!/bin/bash
# usage: r7_process.sh <prop>... — round 8: first look (log kept), then confirm and keep each deliverable
export SA=/tmp/sa8 LET=y ROUND=8 TAG=agent8
mkdir -p /tmp/sa8/firstlook
for P in "$@"; do
  /verif/tools/try_round.sh $P > /tmp/sa8/firstlook/$P.txt 2>&1
  for n in a1 a2; do [ -d $SA/out/$P/$n ] && /verif/tools/keep_r2.sh $P $n > /tmp/sa8/firstlook/$P.$n.keep 2>&1; done
  [ -d $SA/out/$P/r1 ] && /verif/tools/keep_refactor.sh $P r1 > /tmp/sa8/firstlook/$P.r1.keep 2>&1
  echo "$P processed: $(grep -h 'KEPT' /tmp/sa8/firstlook/$P.*.keep | tr '\n' ' ')"
done
