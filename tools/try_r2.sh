#!/bin/bash
# usage: try_r2.sh <prop> [other props...] — run the check(s) against each round-2 deliverable of <prop> (a* should fire, r* should be silent)
P="$1"; shift
for n in a1 a2 r1 r2; do
  f=/tmp/sa2/out/$P/$n/patch.diff
  [ -f "$f" ] || { echo "== $P/$n: (not delivered)"; continue; }
  echo "== $P/$n"
  /verif/tools/try_seed.sh "$P" "$f" "$@" 2>&1 | grep -v "discharged" | cut -c1-330

done
