#!/bin/bash
# usage: cross_refactors.sh <out-file> <patch>...  — apply each behaviour-preserving patch to a scratch worktree and run ALL twenty
# checks against it; print every rule that fires (a patch written for one property must not alarm another property either).
OUT="$1"; shift
: > "$OUT"
for f in "$@"; do
  WT=/tmp/crossref/wt-$$
  mkdir -p /tmp/crossref
  git -C /repo worktree add -q --detach "$WT" HEAD || exit 2
  if ! sed '/^# expect:/d' "$f" | git -C "$WT" apply - 2>/dev/null; then echo "$f: does-not-apply" >> "$OUT"; git -C /repo worktree remove --force "$WT"; continue; fi
  fired=""
  for i in $(seq -w 1 20); do
    r=$(/verif/bin/verifcheck -property C$i -repo "$WT" -no-evidence 2>&1 | grep -o ": C[0-9][0-9]\.R[0-9]*: \(violation\|undecided\|anchor-missing\)" | sort -u | tr '\n' ' ')
    [ -n "$r" ] && fired="$fired C$i[$r]"
  done
  echo "$f:${fired:- silent}" >> "$OUT"
  git -C /repo worktree remove --force "$WT"
done
git -C /repo worktree prune
