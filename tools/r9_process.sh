#!/bin/bash
# usage: r9_process.sh <prop>... — round 9 (one fault a1, two maintenance commits r1/r2): first look (log kept), then confirm and keep
export SA=/tmp/sa9 LET=z ROUND=9 TAG=agent9
mkdir -p /tmp/sa9/firstlook
for P in "$@"; do
  /verif/tools/try_round.sh $P > /tmp/sa9/firstlook/$P.txt 2>&1
  [ -d $SA/out/$P/a1 ] && /verif/tools/keep_r2.sh $P a1 > /tmp/sa9/firstlook/$P.a1.keep 2>&1
  for n in r1 r2; do [ -d $SA/out/$P/$n ] && /verif/tools/keep_refactor.sh $P $n > /tmp/sa9/firstlook/$P.$n.keep 2>&1; done
  echo "$P processed: $(grep -h 'KEPT' /tmp/sa9/firstlook/$P.*.keep | tr '\n' ' ')"
done
