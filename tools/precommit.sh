#!/bin/bash
# Run every quick check on the current tree (no evidence written); exit non-zero if any alarms. Use before committing checker changes.
cd /verif/checker && GOFLAGS=-mod=mod GOPROXY=off GOSUMDB=off GOTOOLCHAIN=local GOWORK=off go build -o /verif/bin/verifcheck . || exit 2
cd /verif; rc=0
for i in $(seq -w 1 20); do
  out=$(./bin/verifcheck -property C$i -no-evidence 2>&1); r=$?
  if [ $r -ne 0 ]; then echo "C$i FAILS (exit $r)"; echo "$out" | grep -v KNOWN | grep "violation\|undecided\|missing" | head -5; rc=1; fi
done
[ $rc -eq 0 ] && echo "all 20 quick checks pass"
exit $rc
