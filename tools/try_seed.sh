#!/bin/bash
# usage: try_seed.sh <prop> <patch.diff> [other props...]  — apply the patch to a scratch worktree and run the check(s) with -repo.
set -u
P="$1"; PATCH="$2"; shift 2
WT=/tmp/seedtry/$P-$$
mkdir -p /tmp/seedtry
git -C /repo worktree add -q --detach "$WT" HEAD || exit 2
trap 'git -C /repo worktree remove --force "$WT" >/dev/null 2>&1; git -C /repo worktree prune' EXIT
git -C "$WT" apply "$PATCH" || { echo "patch does not apply"; exit 1; }
for q in "$P" "$@"; do
  /verif/bin/verifcheck -property "$q" -repo "$WT" -no-evidence 2>&1 | grep -v "^KNOWN-FINDING\|obligation:\|^VIOLATION" | cut -c1-400 | tail -6
done
