#!/bin/bash
# usage: [SA=/tmp/sa7] try_round.sh <prop> [other props...] — first look: run the check(s) against every deliverable of <prop> in $SA/out/<prop>
# (a* should fire, r* should be silent)
P="$1"; shift
for d in ${SA:-/tmp/sa10}/out/$P/*/; do
  n=$(basename "$d"); f=$d/patch.diff
  [ -f "$f" ] || continue
  echo "== $P/$n"
  /verif/tools/try_seed.sh "$P" "$f" "$@" 2>&1 | grep -v "discharged" | cut -c1-330
done
