package main

import (
	"go/ast"
	"go/constant"
	"go/token"
	"go/types"
)

const otelLog = "go.opentelemetry.io/otel/log"

func init() {
	register(&PropDoc{
		ID:         "C17",
		Modules:    []string{"sdk/log"},
		NotDecided: "the truncate algorithm beyond 'every kept character is counted', the dedup algorithm (index arithmetic); 'count + dropped = offered' as arithmetic; key order after arbitrary edit sequences.",
		Fn:         c17,
	})
}

func c17(c *Ctx) {
	ix := c.Index("sdk/log", sdkLog)
	if ix == nil {
		return
	}
	info := ix.Pkg.TypesInfo
	fFront := lookupField(ix.Pkg, "Record", "front")
	fBack := lookupField(ix.Pkg, "Record", "back")
	apply := ix.Func("(*Record).applyAttrLimits")
	if fFront == nil || fBack == nil || apply == nil {
		c.Missing("R1", "sdk/log Record.front/back/applyAttrLimits")
		return
	}
	isStore := func(e ast.Expr) bool { return isField(info, e, fFront) || isField(info, e, fBack) }
	isApply := func(e ast.Expr) bool { return callToDecl(info, apply)(unparen(e)) }

	// R1 must-sanitise
	c.Rule("R1", "E4 must-sanitise", "every log.KeyValue stored into Record.front[i] / Record.back has passed applyAttrLimits (direct result, or slice sanitised by a full range loop around the bulk copy)", 6)
	cnt := map[string]int{}
	for _, f := range ix.All {
		outer := ix.Outer(f)
		for _, n := range nodesIn(f, func(n ast.Node) bool {
			as, ok := n.(*ast.AssignStmt)
			if !ok {
				return false
			}
			for _, l := range as.Lhs {
				if isStore(l) {
					return true
				}
				if ie, ok := unparen(l).(*ast.IndexExpr); ok && isStore(ie.X) {
					return true
				}
			}
			return false
		}) {
			as := n.(*ast.AssignStmt)
			c.Analysed(outer)
			for i, l := range as.Lhs {
				var rhs ast.Expr
				if len(as.Lhs) == len(as.Rhs) {
					rhs = as.Rhs[i]
				}
				site := at(ix.M, as.Pos())
				if ie, ok := unparen(l).(*ast.IndexExpr); ok && isStore(ie.X) {
					fv, _ := fieldOf(info, ie.X)
					cnt[f.Name+fv.Name()]++
					key := "sdk/log|" + f.Name + "|element store into Record." + fv.Name() + " #" + itoa(cnt[f.Name+fv.Name()]) + " sanitised"
					okSan := rhs != nil && isApply(rhs)
					if !okSan && rhs != nil {
						// a variable whose last assignment on every path is v = applyAttrLimits(…)
						if vo := objOf(info, rhs); vo != nil {
							gg := ix.FG(f)
							okSan = sanitisedAt(gg, info, vo, gg.NodeOf(as), isApply)
						}
					}
					c.Check(okSan, "R1", key, site, "value is applyAttrLimits(…)",
						"an attribute is stored without applyAttrLimits: an over-long string value overwriting an existing key is kept untruncated")
					continue
				}
				if !isStore(l) || rhs == nil {
					continue
				}
				fv, _ := fieldOf(info, l)
				cnt[f.Name+fv.Name()]++
				key := "sdk/log|" + f.Name + "|bulk store into Record." + fv.Name() + " #" + itoa(cnt[f.Name+fv.Name()]) + " sanitised"
				g := ix.FG(f)
				x := g.NodeOf(as)
				call, _ := unparen(rhs).(*ast.CallExpr)
				// the stored slice itself, or a local that only ever holds it (possibly grown): o := r.back; o = slices.Grow(o, n)
				var fromStore func(e ast.Expr, depth int) bool
				fromStore = func(e ast.Expr, depth int) bool {
					if isStore(e) {
						return true
					}
					v, isV := objOf(info, e).(*types.Var)
					if !isV || v.IsField() || depth > 3 {
						return false
					}
					n, ok := 0, true
					inspectNoLit(f.Body(), func(m ast.Node) bool {
						a2, isAs := m.(*ast.AssignStmt)
						if !isAs || len(a2.Lhs) != len(a2.Rhs) {
							return true
						}
						for i, l2 := range a2.Lhs {
							if !sameVar(info, l2, v) {
								continue
							}
							n++
							r2 := unparen(a2.Rhs[i])
							if c2, isC := r2.(*ast.CallExpr); isC && isCallTo(info, c2, "slices.Grow") && len(c2.Args) > 0 && (sameVar(info, c2.Args[0], v) || fromStore(c2.Args[0], depth+1)) {
								continue
							}
							if !sameVar(info, r2, v) && fromStore(r2, depth+1) {
								continue
							}
							ok = false
						}
						return true
					})
					return ok && n > 0
				}
				switch {
				case call != nil && isCallTo(info, call, "slices.Grow") && len(call.Args) > 0 && fromStore(call.Args[0], 0):
					c.OK("R1", key, site, "capacity growth only")
				case call != nil && builtinName(info, call) == "append" && len(call.Args) == 2 && call.Ellipsis.IsValid() && fromStore(call.Args[0], 0):
					// the appended slice must have been sanitised in place by a dominating full range loop
					src := exprStr(call.Args[1])
					ok := false
					for _, rs := range nodesIn(f, func(n ast.Node) bool { r, ok := n.(*ast.RangeStmt); return ok && exprStr(r.X) == src }) {
						r := rs.(*ast.RangeStmt)
						if rangeSanitises(info, r, isApply) && !hasEarlyExit(r.Body) {
							// the loop dominates the append: its X vertex dominates
							if rx := g.NodeOf(r.X); rx != nil {
								if d, _ := g.DominatedByNodes(x, map[*GNode]bool{rx: true}); d {
									ok = true
								}
							}
						}
					}
					c.Check(ok, "R1", key, site, "appended slice "+src+" is sanitised element-wise by a dominating range loop", "a slice of attributes is appended without each element passing applyAttrLimits")
				case call != nil && isCallTo(info, call, "slices.Clone") && len(call.Args) == 1:
					// Clone(): copying an already sanitised Record.back is fine; otherwise a full range loop over the stored slice must follow on every path
					if isField(info, call.Args[0], fBack) {
						c.OK("R1", key, site, "copy of another record's (sanitised) back slice")
						continue
					}
					ok := false
					for _, rs := range nodesIn(f, func(n ast.Node) bool { r, ok := n.(*ast.RangeStmt); return ok && isStore(r.X) }) {
						r := rs.(*ast.RangeStmt)
						if rangeSanitises(info, r, isApply) && !hasEarlyExit(r.Body) {
							if rx := g.NodeOf(r.X); rx != nil {
								if must, _ := g.MustPassBeforeExit(x, map[*GNode]bool{rx: true}); must {
									ok = true
								}
							}
						}
					}
					c.Check(ok, "R1", key, site, "cloned slice is sanitised element-wise by a range loop on every path to the exit", "attributes are copied into the record without each element passing applyAttrLimits")
				case isEmptySliceExpr(info, rhs):
					c.OK("R1", key, site, "emptied")
				default:
					c.Undecided("R1", key, site, "store form not recognised: "+exprStr(rhs))
				}
			}
		}
	}

	// R2 count-limit table
	c.Rule("R2", "E2 decision table", "count limit semantics follow the documented table: > 0 caps, 0 records none, < 0 is unlimited (head and AddAttributes); de-duplication precedes the cut; the attribute walk of newRecord is total", 11)
	fLimit := lookupField(ix.Pkg, "Record", "attributeCountLimit")
	if fn := c.Fn(ix, "R2", "head"); fn != nil {
		g := ix.FG(fn)
		sig := fn.Obj.Type().(*types.Signature)
		kvs, n := sig.Params().At(0), sig.Params().At(1)
		for _, row := range []struct {
			name     string
			lim, len int64
			cut      bool
		}{{"limit<0", -1, 5, false}, {"limit=0", 0, 1, true}, {"limit>0 len>limit", 3, 4, true}, {"limit>0 len<=limit", 3, 3, false}} {
			env := func(e ast.Expr) (constant.Value, bool) {
				if sameVar(info, e, n) {
					return constant.MakeInt64(row.lim), true
				}
				if isLenOf(info, e, func(x ast.Expr) bool { return sameVar(info, x, kvs) }) {
					return constant.MakeInt64(row.len), true
				}
				return nil, false
			}
			seen := g.ReachUnder(env)
			cut, plain := false, false
			for x := range seen {
				if rs, ok := x.N.(*ast.ReturnStmt); ok && len(rs.Results) == 2 {
					// the returned list, seen through a local or the re-assigned parameter (kvs = kvs[:n]; return kvs, dropped)
					if _, isSl := unparen(g.ResolveUnder(env, seen, rs.Results[0], x)).(*ast.SliceExpr); isSl {
						cut = true
					} else {
						plain = true
					}
				}
			}
			c.Check(cut == row.cut && plain == !row.cut, "R2", "sdk/log|head|"+row.name, at(ix.M, fn.Pos()), "cut="+boolStr(cut),
				"count limit "+row.name+": code cuts="+boolStr(cut)+", documented behaviour cuts="+boolStr(row.cut)+" (WithAttributeCountLimit: zero means no attributes will be recorded)")
			if row.name != "limit>0 len>limit" {
				continue
			}
			// on the cutting path the same n is used for the slice and the dropped count, and len(kvs) is read before kvs is cut
			good := false
			for x := range seen {
				if rs, ok := x.N.(*ast.ReturnStmt); ok && len(rs.Results) == 2 {
					se, isSl := unparen(g.ResolveUnder(env, seen, rs.Results[0], x)).(*ast.SliceExpr)
					be, isB := unparen(g.ResolveUnder(env, seen, rs.Results[1], x)).(*ast.BinaryExpr)
					good = isSl && isB && se.Low == nil && sameVar(info, se.High, n) && sameVar(info, se.X, kvs) &&
						be.Op == token.SUB && sameVar(info, be.Y, n) && isLenOf(info, be.X, func(x ast.Expr) bool { return sameVar(info, x, kvs) })
				}
			}
			for _, asn := range g.Match(func(nd ast.Node) bool {
				as, ok := nd.(*ast.AssignStmt)
				if !ok {
					return false
				}
				for _, l := range as.Lhs {
					if sameVar(info, l, kvs) {
						return true
					}
				}
				return false
			}) {
				after, _ := g.Reach([]*GNode{asn}, nil, nil)
				for y := range after {
					if y.N == nil {
						continue
					}
					inspectNoLit(y.N, func(nd ast.Node) bool {
						if e, ok := nd.(ast.Expr); ok && isLenOf(info, e, func(x ast.Expr) bool { return sameVar(info, x, kvs) }) {
							good = false
						}
						return true
					})
				}
			}
			c.Check(good, "R4", "sdk/log|head|returns kvs[:n] with len(kvs) − n", at(ix.M, fn.Pos()), "kept + dropped = offered at this site", "head's dropped count does not match the cut")
		}
	}
	addA := c.Fn(ix, "R2", "(*Record).AddAttributes")
	addAttrsF := ix.Func("(*Record).addAttrs")
	if addA != nil && fLimit != nil {
		g := ix.FG(addA)
		// the cut: attrs = attrs[:last]
		cuts := toSet(g.Match(func(n ast.Node) bool {
			as, ok := n.(*ast.AssignStmt)
			if !ok || len(as.Lhs) != 1 || len(as.Rhs) != 1 {
				return false
			}
			se, ok := unparen(as.Rhs[0]).(*ast.SliceExpr)
			return ok && se.Low == nil && se.High != nil && sameVar(info, se.X, objOf(info, as.Lhs[0]))
		}))
		var nVar types.Object
		inspectNoLit(addA.Body(), func(nd ast.Node) bool {
			if as, ok := nd.(*ast.AssignStmt); ok && len(as.Lhs) == 1 && len(as.Rhs) == 1 {
				if call, ok := unparen(as.Rhs[0]).(*ast.CallExpr); ok {
					if cf := callee(info, call); cf != nil && cf.Name() == "AttributesLen" && nVar == nil {
						nVar = objOf(info, as.Lhs[0])
					}
				}
			}
			return true
		})
		// the offered attributes: the parameter, and locals that hold (a prefix of) it — unique := attrs[:0], filled from attrs
		offered := addA.Obj.Type().(*types.Signature).Params().At(0)
		offeredLocals := map[types.Object]bool{}
		inspectNoLit(addA.Body(), func(nd ast.Node) bool {
			if as, ok := nd.(*ast.AssignStmt); ok && len(as.Lhs) == len(as.Rhs) {
				for i, l := range as.Lhs {
					r := unparen(as.Rhs[i])
					if se, isSl := r.(*ast.SliceExpr); isSl {
						r = unparen(se.X)
					}
					if v, isV := objOf(info, l).(*types.Var); isV && !v.IsField() && v != offered && sameVar(info, r, offered) {
						offeredLocals[v] = true
					}
				}
			}
			return true
		})
		for _, row := range []struct {
			name        string
			lim, n, len int64
			cut         bool
		}{{"limit<0", -1, 2, 5, false}, {"limit=0", 0, 2, 1, true}, {"limit>0 n+len>limit", 4, 2, 3, true}, {"limit>0 n+len<=limit", 5, 2, 3, false}, {"limit>0 n=limit", 2, 2, 1, true}} {
			env := func(e ast.Expr) (constant.Value, bool) {
				if isField(info, e, fLimit) {
					return constant.MakeInt64(row.lim), true
				}
				if nVar != nil && sameVar(info, e, nVar) {
					return constant.MakeInt64(row.n), true
				}
				if call, ok := e.(*ast.CallExpr); ok && builtinName(info, call) == "len" {
					if sameVar(info, call.Args[0], offered) || (objOf(info, call.Args[0]) != nil && offeredLocals[objOf(info, call.Args[0])]) { // the offered attributes (parameter, or the de-duplicated list built in its array)
						return constant.MakeInt64(row.len), true
					}
				}
				return nil, false
			}
			seen := g.ReachUnder(env)
			cut := false
			for x := range cuts {
				if seen[x] {
					cut = true
				}
			}
			// without cut: the final addAttrs must be reachable without passing a cut
			s2, _ := g.ReachFromEntry(func(x *GNode) bool { return cuts[x] }, func(e *GEdge) bool { return !edgeOpen(info, e, g.withLocals(env)) })
			uncutExit := s2[g.Exit]
			// the cut may also be made in the call itself: addAttrs(attrs[:last]) — then the store calls reachable without an
			// assigned cut are examined: all of them sliced ⇒ cut, none ⇒ not cut
			if addAttrsF != nil {
				sliced, bare := 0, 0
				for x := range s2 {
					if x.N == nil {
						continue
					}
					inspectNoLit(x.N, func(n ast.Node) bool {
						if call, ok := n.(*ast.CallExpr); ok && callToDecl(info, addAttrsF)(call) && len(call.Args) == 1 {
							if se, isSl := unparen(call.Args[0]).(*ast.SliceExpr); isSl && se.Low == nil && se.High != nil {
								sliced++
							} else {
								bare++
							}
						}
						return true
					})
				}
				if sliced > 0 && bare == 0 {
					cut, uncutExit = true, false
				}
			}
			got := cut && !uncutExit
			c.Check(got == row.cut && (row.cut || !cut), "R2", "sdk/log|(*Record).AddAttributes|"+row.name, at(ix.M, addA.Pos()), "cut="+boolStr(got),
				"count limit "+row.name+" with "+itoa(int(row.n))+" existing and "+itoa(int(row.len))+" new attributes: code cuts="+boolStr(got)+", documented behaviour cuts="+boolStr(row.cut))
		}
	}

	// the count limit applies to distinct keys: wherever both are used, de-duplication precedes the cut
	ddF, headF := ix.Func("dedup"), ix.Func("head")
	for _, nm := range []string{"(*Record).AddAttributes", "(*Record).SetAttributes"} {
		fn := c.Fn(ix, "R2", nm)
		if fn == nil || ddF == nil || headF == nil {
			continue
		}
		g := ix.FG(fn)
		dds, hds := g.Match(callToDecl(info, ddF)), g.Match(callToDecl(info, headF))
		if len(hds) == 0 {
			continue
		}
		good := len(dds) > 0
		for _, h := range hds {
			if d, _ := g.DominatedByNodes(h, toSet(dds)); !d {
				good = false
			}
			// and no de-duplication after the cut (it would free slots the cut already spent on duplicates)
			after, _ := g.Reach([]*GNode{h}, nil, nil)
			for _, d := range dds {
				if after[d] {
					good = false
				}
			}
		}
		c.Check(good, "R2", "sdk/log|"+nm+"|dedup before head", at(ix.M, fn.Pos()), "the limit counts distinct keys", "the count limit is applied to the raw list before de-duplication: duplicates use up limit slots (fewer attributes kept than allowed, a later value of a kept key is lost)")
	}
	// every offered attribute is accounted for: the walk that copies the API record's attributes never stops early
	if fn := c.Fn(ix, "R2", "(*logger).newRecord"); fn != nil {
		n, good := 0, true
		for _, lf := range ix.All {
			if lf.Lit == nil || ix.Parent[lf.Lit] != fn {
				continue
			}
			// literal passed to WalkAttributes
			isWalkArg := false
			inspectNoLit(fn.Body(), func(nd ast.Node) bool {
				if call, ok := nd.(*ast.CallExpr); ok {
					if cf := callee(info, call); cf != nil && cf.Name() == "WalkAttributes" && len(call.Args) == 1 && unparen(call.Args[0]) == ast.Expr(lf.Lit) {
						isWalkArg = true
					}
				}
				return true
			})
			if !isWalkArg {
				continue
			}
			inspectNoLit(lf.Body(), func(nd ast.Node) bool {
				if rs, ok := nd.(*ast.ReturnStmt); ok {
					n++
					if len(rs.Results) != 1 {
						good = false
						return true
					}
					tv := info.Types[rs.Results[0]]
					if tv.Value == nil || tv.Value.Kind() != constant.Bool || !constant.BoolVal(tv.Value) {
						good = false
					}
				}
				return true
			})
		}
		c.Check(good && n > 0, "R2", "sdk/log|(*logger).newRecord|the attribute walk never stops early", at(ix.M, fn.Pos()), itoa(n)+" return(s), all constant true",
			"the copy of the emitted record's attributes stops before the end: attributes beyond that point are neither kept nor counted as dropped (kept + dropped < offered), and a later value for a kept key is lost")
	}

	// R3 Clone complete; limits initialised before the first AddAttributes
	c.Rule("R3", "E8 fieldcover + E3 ordering", "Record.Clone re-allocates every slice/map field (pointer fields frozen as shared-immutable); logger.newRecord sets both limits before the first AddAttributes", 3)
	ruleRecordClone(c, ix, "R3")
	if fn := c.Fn(ix, "R3", "(*logger).newRecord"); fn != nil {
		fVL := lookupField(ix.Pkg, "Record", "attributeValueLengthLimit")
		fPC := lookupField(ix.Pkg, "LoggerProvider", "attributeCountLimit")
		fPV := lookupField(ix.Pkg, "LoggerProvider", "attributeValueLengthLimit")
		var lit *ast.CompositeLit
		inspectNoLit(fn.Body(), func(n ast.Node) bool {
			if cl, ok := n.(*ast.CompositeLit); ok && typeIs(info.Types[cl].Type, sdkLog, "Record") {
				lit = cl
			}
			return true
		})
		okInit := lit != nil && compositeField(info, lit, fLimit) != nil && isField(info, compositeField(info, lit, fLimit), fPC) &&
			compositeField(info, lit, fVL) != nil && isField(info, compositeField(info, lit, fVL), fPV)
		// the AddAttributes calls come after the literal (in a nested literal or later statement)
		after := true
		for _, s := range ix.FindCalls(func(f *FuncInfo, call *ast.CallExpr) bool {
			return ix.Outer(f) == fn && callToDecl(info, addA)(call)
		}) {
			// in the flow graph, not by source position: the statement holding the call (or the function literal it sits in) is
			// dominated by the statement holding the Record literal
			if lit == nil {
				continue
			}
			g := ix.FG(fn)
			var holder ast.Node = s.N
			for f := s.F; f != nil && f != fn && f.Lit != nil; f = ix.Parent[f.Lit] {
				holder = f.Lit
			}
			ln, hn := g.NodeOf(lit), g.NodeOf(holder)
			if ln == nil || hn == nil {
				after = false
				continue
			}
			if d, _ := g.DominatedByNodes(hn, map[*GNode]bool{ln: true}); !d || hn == ln {
				after = false
			}
		}
		c.Check(okInit && after, "R3", "sdk/log|(*logger).newRecord|limits ← provider before the first AddAttributes", at(ix.M, fn.Pos()),
			"attributeCountLimit and attributeValueLengthLimit come from the provider in the Record literal", "the record's limits are not initialised from the provider before attributes are added (attributes added while emitting escape the limits)")
	}

	// R4 dropped accounting
	c.Rule("R4", "E3 pairing", "each overwrite/duplicate arm counts one drop; the limit cut drops len − last with the same last as the slice cut", 4)
	addDropped := ix.Func("(*Record).addDropped")
	if addA != nil && addDropped != nil {
		g := ix.FG(addA)
		// found variables: second result of a map index
		found := map[types.Object]bool{}
		inspectNoLit(addA.Body(), func(n ast.Node) bool {
			if as, ok := n.(*ast.AssignStmt); ok && len(as.Lhs) == 2 && len(as.Rhs) == 1 {
				if _, ok := unparen(as.Rhs[0]).(*ast.IndexExpr); ok {
					if o := objOf(info, as.Lhs[1]); o != nil {
						found[o] = true
					}
				}
			}
			return true
		})
		one := toSet(g.Match(func(n ast.Node) bool {
			call, ok := n.(*ast.CallExpr)
			if !ok || !callToDecl(info, addDropped)(call) || len(call.Args) != 1 {
				return false
			}
			v, isC := constInt(info, call.Args[0])
			return isC && v == 1
		}))
		// … or the arm bumps a local counter that is handed to addDropped once the loop is over: every increment is by one, the
		// counter starts at zero and is stored nowhere else, and from each increment every path to the exit passes the single
		// addDropped(counter) — or an edge on which the counter is known to be zero (if counter > 0 { addDropped(counter) })
		ctrs := map[types.Object][]*GNode{}
		for _, x := range g.Nodes {
			var id ast.Expr
			switch s := x.N.(type) {
			case *ast.IncDecStmt:
				if s.Tok == token.INC {
					id = s.X
				}
			case *ast.AssignStmt:
				if s.Tok == token.ADD_ASSIGN && len(s.Lhs) == 1 && len(s.Rhs) == 1 {
					if v, isC := constInt(info, s.Rhs[0]); isC && v == 1 {
						id = s.Lhs[0]
					}
				}
			}
			if id == nil {
				continue
			}
			if _, isID := unparen(id).(*ast.Ident); !isID {
				continue
			}
			if o := objOf(info, id); o != nil && definedIn(info, addA.Body(), o) {
				ctrs[o] = append(ctrs[o], x)
			}
		}
		for o, incs := range ctrs {
			incSet := toSet(incs)
			sound := true
			inspectNoLit(addA.Body(), func(n ast.Node) bool {
				switch s := n.(type) {
				case *ast.AssignStmt:
					for i, l := range s.Lhs {
						if objOf(info, l) != o {
							continue
						}
						if _, isID := unparen(l).(*ast.Ident); !isID {
							continue
						}
						if nd := g.NodeOf(s); nd != nil && incSet[nd] {
							continue
						}
						z := false
						if s.Tok == token.DEFINE && len(s.Lhs) == len(s.Rhs) {
							if v, isC := constInt(info, s.Rhs[i]); isC && v == 0 {
								z = true
							}
						}
						sound = sound && z
					}
				case *ast.ValueSpec:
					for i, nm := range s.Names {
						if info.Defs[nm] == o && i < len(s.Values) {
							if v, isC := constInt(info, s.Values[i]); !isC || v != 0 {
								sound = false
							}
						}
					}
				case *ast.UnaryExpr:
					if s.Op == token.AND && objOf(info, s.X) == o {
						sound = false
					}
				case *ast.IncDecStmt:
					if objOf(info, s.X) == o && s.Tok != token.INC {
						sound = false
					}
				}
				return true
			})
			flush := g.Match(func(n ast.Node) bool {
				call, ok := n.(*ast.CallExpr)
				return ok && callToDecl(info, addDropped)(call) && len(call.Args) == 1 && objOf(info, call.Args[0]) == o && unparen(call.Args[0]) == call.Args[0]
			})
			if !sound || len(flush) != 1 || g.InCycle(flush[0]) {
				continue
			}
			zeroEdge := func(e *GEdge) bool {
				if e.Cond == nil || e.Tag != nil {
					return false
				}
				at := func(k int64) (bool, bool) {
					v, ok := evalConst(info, e.Cond, func(x ast.Expr) (constant.Value, bool) {
						if id, isID := x.(*ast.Ident); isID && info.Uses[id] == o {
							return constant.MakeInt64(k), true
						}
						return nil, false
					})
					if !ok || v.Kind() != constant.Bool {
						return false, false
					}
					return constant.BoolVal(v) == (e.Pol > 0), true
				}
				a, okA := at(0)
				b, okB := at(1)
				d, okD := at(1 << 20)
				return okA && okB && okD && a && !b && !d
			}
			seen, _ := g.Reach(incs, func(y *GNode) bool { return y == flush[0] }, zeroEdge)
			if !seen[g.Exit] {
				for _, x := range incs {
					one[x] = true
				}
			}
		}
		nEdges, good := 0, true
		why := ""
		for _, x := range g.Nodes {
			for _, e := range x.Succs {
				if !edgeImplies(e, func(cnd ast.Expr, pol int) bool { o := objOf(info, cnd); return pol > 0 && o != nil && found[o] }) {
					continue
				}
				nEdges++
				// until the loop continues (range loop head) or exit, an addDropped(1) must be passed
				seen, par := g.ReachFromEdge(e, func(y *GNode) bool { return one[y] })
				for y := range seen {
					if y == g.Exit || (y.N == nil && y.Blk != nil && y.Blk.Kind.String() == "RangeLoop") {
						good = false
						why = g.pathLines(par, y)
					}
				}
			}
		}
		c.Check(nEdges >= 2 && good, "R4", "sdk/log|(*Record).AddAttributes|duplicate/overwrite arms call addDropped(1)", at(ix.M, addA.Pos()),
			itoa(nEdges)+" found-arms, each counts one drop before the next attribute", "a replaced attribute is not counted as dropped: "+why)
		// limit cut pairing
		okCut := false
		inspectNoLit(addA.Body(), func(n ast.Node) bool {
			blk, ok := n.(*ast.BlockStmt)
			if !ok {
				return true
			}
			var lastVar types.Object
			var dropOK, cutOK bool
			for _, st := range blk.List {
				switch s := st.(type) {
				case *ast.AssignStmt:
					if len(s.Lhs) == 1 && len(s.Rhs) == 1 {
						if se, ok := unparen(s.Rhs[0]).(*ast.SliceExpr); ok && lastVar != nil && se.Low == nil && sameVar(info, se.High, lastVar) && dropOK {
							cutOK = true
						} else if _, isCall := unparen(s.Rhs[0]).(*ast.CallExpr); isCall && s.Tok == token.DEFINE {
							lastVar = objOf(info, s.Lhs[0])
						}
					}
				case *ast.ExprStmt:
					// the cut made in the store call itself: addAttrs(attrs[:last]) after the count was taken
					if call, ok := s.X.(*ast.CallExpr); ok && len(call.Args) == 1 && lastVar != nil && dropOK {
						if se, isSl := unparen(call.Args[0]).(*ast.SliceExpr); isSl && se.Low == nil && sameVar(info, se.High, lastVar) {
							cutOK = true
						}
					}
					if call, ok := s.X.(*ast.CallExpr); ok && callToDecl(info, addDropped)(call) && len(call.Args) == 1 && lastVar != nil {
						if be, ok := unparen(call.Args[0]).(*ast.BinaryExpr); ok && be.Op == token.SUB && sameVar(info, be.Y, lastVar) {
							if lc, ok := unparen(be.X).(*ast.CallExpr); ok && builtinName(info, lc) == "len" {
								dropOK = true
							}
						}
					}
				}
			}
			if cutOK {
				okCut = true
			}
			return true
		})
		c.Check(okCut, "R4", "sdk/log|(*Record).AddAttributes|limit cut: addDropped(len(attrs) − last) then attrs[:last]", at(ix.M, addA.Pos()),
			"count computed from the uncut slice with the same bound", "the limit cut and its dropped count disagree (or the count is taken after the cut)")
	}
	if fn := c.Fn(ix, "R4", "dedup"); fn != nil {
		g := ix.FG(fn)
		found := map[types.Object]bool{}
		inspectNoLit(fn.Body(), func(n ast.Node) bool {
			if as, ok := n.(*ast.AssignStmt); ok && len(as.Lhs) == 2 && len(as.Rhs) == 1 {
				if _, ok := unparen(as.Rhs[0]).(*ast.IndexExpr); ok {
					if o := objOf(info, as.Lhs[1]); o != nil {
						found[o] = true
					}
				}
			}
			return true
		})
		res := fn.Obj.Type().(*types.Signature).Results()
		incs := toSet(g.Match(func(n ast.Node) bool {
			s, ok := n.(*ast.IncDecStmt)
			return ok && s.Tok == token.INC && res.Len() == 2 && sameVar(info, s.X, res.At(1))
		}))
		nEdges, good := 0, true
		for _, x := range g.Nodes {
			for _, e := range x.Succs {
				if edgeImplies(e, func(cnd ast.Expr, pol int) bool { o := objOf(info, cnd); return pol > 0 && o != nil && found[o] }) {
					nEdges++
					seen, _ := g.ReachFromEdge(e, func(y *GNode) bool { return incs[y] })
					for y := range seen {
						if y == g.Exit || (y.N == nil && y.Blk != nil && y.Blk.Kind.String() == "RangeLoop") {
							good = false
						}
					}
				}
			}
		}
		// … or the count is, by definition, what was offered minus what is handed back: return unique, len(kvs) − len(unique) with
		// kvs the parameter as received (never re-assigned; a slice of it shares the array, not the length)
		if !(nEdges == 1 && good) && res.Len() == 2 {
			kvs := fn.Obj.Type().(*types.Signature).Params().At(0)
			rets, byDef := 0, true
			inspectNoLit(fn.Body(), func(n ast.Node) bool {
				switch s := n.(type) {
				case *ast.AssignStmt:
					for _, l := range s.Lhs {
						if _, isID := unparen(l).(*ast.Ident); isID && sameVar(info, l, kvs) {
							byDef = false
						}
					}
				case *ast.ReturnStmt:
					rets++
					if len(s.Results) != 2 {
						byDef = false
						break
					}
					out := objOf(info, s.Results[0])
					be, isB := unparen(s.Results[1]).(*ast.BinaryExpr)
					if _, isID := unparen(s.Results[0]).(*ast.Ident); !isID || out == nil || !isB || be.Op != token.SUB ||
						!isLenOf(info, be.X, func(x ast.Expr) bool { return sameVar(info, x, kvs) }) ||
						!isLenOf(info, be.Y, func(x ast.Expr) bool { return objOf(info, x) == out }) {
						byDef = false
					}
				}
				return true
			})
			if rets >= 1 && byDef {
				nEdges, good = 1, true
			}
		}
		c.Check(nEdges == 1 && good, "R4", "sdk/log|dedup|duplicate key ⇒ dropped++", at(ix.M, fn.Pos()), "each replaced duplicate is counted", "duplicates removed by dedup are not counted")
	}

	// R6 index-map pairing
	c.Rule("R6", "E3 pairing", "de-duplication index maps record len(slice) − 1 right after the append they index (dedup, AddAttributes)", 2)
	for _, nm := range []string{"dedup", "(*Record).AddAttributes"} {
		fn := c.Fn(ix, "R6", nm)
		if fn == nil {
			continue
		}
		n, bad, pos := indexPairing(info, fn)
		site := at(ix.M, fn.Pos())
		if bad != "" {
			site = at(ix.M, pos)
		}
		c.Check(n >= 1 && bad == "", "R6", "sdk/log|"+nm+"|index map ← len(slice) − 1 after append", site, itoa(n)+" index store(s) paired with their append",
			"a later duplicate of that key overwrites another attribute (or indexes out of range): "+bad)
	}

	// R5 kinds covered
	c.Rule("R8", "E4 resolver chains (shared with C20.R4)", "the record limits reach the provider as given: their chains are option → environment → default with nothing that unsets or clamps a value (a length limit of 0 truncates to nothing, negative limits mean unlimited)", 2)
	ruleLogSettingChains(c, ix, "R8")

	c.Rule("R7", "E3 must-pass in loops", "truncate: every character the scan keeps is counted against the limit (range loop: each continuing iteration increments the counter; builder loop: an increment between any two writes)", 1)
	ruleTruncateCounts(c, ix, "R7", "sdk/log")
	c.Rule("R5", "E2 exhaustiveness", "applyValueLimits handles every log.Kind that can contain strings: String ↦ truncate(limit), Slice ↦ recursion, Map ↦ dedup + applyAttrLimits; other kinds unchanged", 3)
	if fn := c.Fn(ix, "R5", "(*Record).applyValueLimits"); fn != nil {
		g := ix.FG(fn)
		lp := ix.M.Pkg(otelLog)
		fVL := lookupField(ix.Pkg, "Record", "attributeValueLengthLimit")
		tr := ix.Func("truncate")
		dd := ix.Func("dedup")
		if lp == nil || tr == nil || dd == nil {
			c.Missing("R5", "log package / truncate / dedup")
		} else {
			kindT := lookupType(lp, "Kind")
			for _, k := range enumConsts(kindT) {
				env := func(e ast.Expr) (constant.Value, bool) {
					if call, ok := e.(*ast.CallExpr); ok && isCallTo(info, call, "("+otelLog+".Value).Kind") {
						return k.Val(), true
					}
					return nil, false
				}
				seen := g.ReachUnder(env)
				var truncates, recurses, applies, dedups bool
				// the record's limit, possibly read once into a local
				isLimitVal := func(e ast.Expr) bool {
					if isField(info, e, fVL) {
						return true
					}
					if id, ok := unparen(e).(*ast.Ident); ok {
						if def := g.LocalDef(info.Uses[id]); def != nil {
							return isField(info, def, fVL)
						}
					}
					return false
				}
				for x := range seen {
					if x.N == nil {
						continue
					}
					inspectNoLit(x.N, func(n ast.Node) bool {
						call, ok := n.(*ast.CallExpr)
						if !ok {
							return true
						}
						switch {
						case callToDecl(info, tr)(call) && len(call.Args) == 2 && isLimitVal(call.Args[0]):
							truncates = true
						case callToDecl(info, fn)(call):
							recurses = true
						case callToDecl(info, apply)(call):
							applies = true
						case callToDecl(info, dd)(call):
							dedups = true
						}
						return true
					})
				}
				key := "sdk/log|(*Record).applyValueLimits|" + k.Name()
				switch k.Name() {
				case "KindString":
					c.Check(truncates, "R5", key, at(ix.M, fn.Pos()), "→ truncate(attributeValueLengthLimit, s)", "string values are not truncated with the record's limit")
				case "KindSlice":
					c.Check(recurses, "R5", key, at(ix.M, fn.Pos()), "→ applyValueLimits on every element", "strings nested in slices escape the length limit")
				case "KindMap":
					c.Check(applies && dedups, "R5", key, at(ix.M, fn.Pos()), "→ dedup + applyAttrLimits on every entry", "strings nested in maps escape the length limit (or duplicate map keys survive)")
				}
			}
		}
	}
}

// rangeSanitises: the loop body assigns, for the ranged element, <slice>[…] = applyAttrLimits(<range value>).
func rangeSanitises(info *types.Info, r *ast.RangeStmt, isApply func(ast.Expr) bool) bool {
	val := objOf(info, r.Value)
	key := objOf(info, r.Key)
	ok := false
	// a value computed into a local of the loop body right before the store (kv := apply(a); X[i] = kv) stands for its definition
	bodyDef := func(e ast.Expr, before ast.Stmt) ast.Expr {
		v := objOf(info, e)
		if v == nil {
			return e
		}
		var def ast.Expr
		n := 0
		for _, st := range r.Body.List {
			if st == before {
				break
			}
			if as, isAs := st.(*ast.AssignStmt); isAs && len(as.Lhs) == len(as.Rhs) {
				for i, l := range as.Lhs {
					if sameVar(info, l, v) {
						def = as.Rhs[i]
						n++
					}
				}
			}
		}
		if n == 1 && def != nil && !assignedOutside(info, r.Body, v, def) {
			return def
		}
		return e
	}
	for _, st := range r.Body.List {
		as, isAs := st.(*ast.AssignStmt)
		if !isAs || len(as.Lhs) != 1 || len(as.Rhs) != 1 {
			continue
		}
		rhs := bodyDef(as.Rhs[0], st)
		if !isApply(rhs) {
			continue
		}
		ie, isIx := unparen(as.Lhs[0]).(*ast.IndexExpr)
		if !isIx {
			continue
		}
		call := unparen(rhs).(*ast.CallExpr)
		if len(call.Args) != 1 {
			continue
		}
		// argument is the range value, or <X>[key]
		argOK := val != nil && sameVar(info, call.Args[0], val)
		if ae, isIx2 := unparen(call.Args[0]).(*ast.IndexExpr); isIx2 && key != nil && sameVar(info, ae.Index, key) {
			argOK = true
		}
		// index mentions the range key
		idxOK := false
		ast.Inspect(ie.Index, func(n ast.Node) bool {
			if id, isId := n.(*ast.Ident); isId && key != nil && info.Uses[id] == key {
				idxOK = true
			}
			return true
		})
		if argOK && idxOK {
			ok = true
		}
	}
	return ok
}

func hasEarlyExit(b *ast.BlockStmt) bool {
	found := false
	ast.Inspect(b, func(n ast.Node) bool {
		switch x := n.(type) {
		case *ast.FuncLit:
			return false
		case *ast.BranchStmt:
			if x.Tok == token.BREAK || x.Tok == token.CONTINUE || x.Tok == token.GOTO {
				found = true
			}
		case *ast.ReturnStmt:
			found = true
		}
		return true
	})
	return found
}

// ruleRecordClone (C06.R8 / C17.R3): Clone re-allocates every slice/map field of Record.
func ruleRecordClone(c *Ctx, ix *PkgIndex, rule string) {
	info := ix.Pkg.TypesInfo
	fn := c.Fn(ix, rule, "(*Record).Clone")
	rec := lookupType(ix.Pkg, "Record")
	if fn == nil || rec == nil {
		c.Missing(rule, "sdk/log.Record / Clone")
		return
	}
	shared := map[string]string{
		"resource": "pointer to an immutable *resource.Resource shared by all records of the provider",
		"scope":    "pointer to the logger's instrumentation scope, never written after the logger is created",
	}
	st := rec.Underlying().(*types.Struct)
	for i := 0; i < st.NumFields(); i++ {
		f := st.Field(i)
		key := "sdk/log|(*Record).Clone|field " + f.Name()
		switch f.Type().Underlying().(type) {
		case *types.Slice, *types.Map:
			fresh := false
			inspectNoLit(fn.Body(), func(n ast.Node) bool {
				if r := assignRHS(n, func(e ast.Expr) bool { return isField(info, e, f) }); r != nil {
					if call, ok := unparen(r).(*ast.CallExpr); ok {
						if isCallTo(info, call, "slices.Clone") || isCallTo(info, call, "maps.Clone") || builtinName(info, call) == "make" || builtinName(info, call) == "append" {
							fresh = true
						}
					}
				}
				return true
			})
			// … on every returning path, for the very value that is returned (a fast path that hands out *r, or a copy whose field
			// was not re-allocated, shares the backing store — also when a copy-on-write flag is meant to make that safe:
			// appends into spare capacity are writes too)
			if fresh {
				g := ix.FG(fn)
				for _, x := range g.Nodes {
					rs, isR := x.N.(*ast.ReturnStmt)
					if !isR || len(rs.Results) != 1 {
						continue
					}
					rv := objOf(info, rs.Results[0])
					if rv == nil {
						fresh = false
						continue
					}
					through := toSet(g.Match(func(n ast.Node) bool {
						as, isAs := n.(*ast.AssignStmt)
						if !isAs || len(as.Lhs) != len(as.Rhs) {
							return false
						}
						for i, l := range as.Lhs {
							fv, base := fieldOf(info, l)
							if fv == nil || fv != f.Origin() || base == nil || !sameVar(info, base, rv) {
								continue
							}
							if call, ok := unparen(as.Rhs[i]).(*ast.CallExpr); ok && (isCallTo(info, call, "slices.Clone") || isCallTo(info, call, "maps.Clone") || builtinName(info, call) == "make" || builtinName(info, call) == "append") {
								return true
							}
						}
						return false
					}))
					if d, _ := g.DominatedByNodes(x, through); !d || len(through) == 0 {
						fresh = false
					}
				}
			}
			c.Check(fresh, rule, key, at(ix.M, fn.Pos()), "re-allocated in Clone", "Clone shares the "+f.Name()+" backing store with the original: editing one record changes the other (and the queued copy)")
		case *types.Pointer, *types.Chan, *types.Signature, *types.Interface:
			if r, ok := shared[f.Name()]; ok {
				c.OK(rule, key, at(ix.M, fn.Pos()), "shared by design: "+r)
			} else {
				c.Undecided(rule, key, at(ix.M, fn.Pos()), "reference-typed field not in the frozen table: decide whether Clone must copy it")
			}
		}
	}
}

// assignedOutside: is v assigned in body anywhere else than by the definition def?
func assignedOutside(info *types.Info, body *ast.BlockStmt, v types.Object, def ast.Expr) bool {
	n := 0
	ast.Inspect(body, func(m ast.Node) bool {
		switch s := m.(type) {
		case *ast.AssignStmt:
			for _, l := range s.Lhs {
				if sameVar(info, l, v) {
					n++
				}
			}
		case *ast.IncDecStmt:
			if sameVar(info, s.X, v) {
				n++
			}
		}
		return true
	})
	return n != 1
}
