package main

import (
	"flag"
	"fmt"
	"go/ast"
	"go/types"
	"os"
	"path/filepath"
	"runtime"
	"runtime/debug"
	"sort"
	"strings"
	"sync"
	"time"
)

// Ctx is what a property's rule set sees.
type Ctx struct {
	*Run
	Thorough bool
	Arch     string // GOARCH of this pass ("" = amd64)
	// FollowDelegates: Fn resolves a method that only forwards to another declared function (the embedded type's method it used
	// to duplicate) to that function. Set by the properties whose rules are about what a method does, not about how it is wired.
	FollowDelegates bool
	Overlay         map[string][]byte // file overlays (checker self-test variants)
	mu              sync.Mutex
	mods            map[string]*Module
	ixs             map[string]*PkgIndex
	les             map[string]*LockEngine
}

// Mod loads (once) the module at dir relative to the repository root.
func (c *Ctx) Mod(dir string) *Module {
	c.mu.Lock()
	if m, ok := c.mods[dir]; ok {
		c.mu.Unlock()
		return m
	}
	c.mu.Unlock()
	m, err := LoadModule(dir, c.Arch, c.Overlay)
	for attempt := 0; err != nil && attempt < 2; attempt++ {
		// the loader shells out to the go command; under heavy parallel load that can fail transiently (seen once with three
		// thorough runs side by side). A deterministic failure (type error in the tree) fails again and is reported.
		time.Sleep(time.Duration(attempt+1) * 2 * time.Second)
		m, err = LoadModule(dir, c.Arch, c.Overlay)
	}
	if err != nil {
		c.add("infra", VUndecided, "load|"+dir, "-", err.Error())
		m = nil
	}
	c.mu.Lock()
	c.mods[dir] = m
	c.mu.Unlock()
	return m
}

// Preload loads several modules in parallel.
func (c *Ctx) Preload(dirs ...string) {
	var wg sync.WaitGroup
	for _, d := range dirs {
		wg.Add(1)
		go func(d string) { defer wg.Done(); c.Mod(d) }(d)
	}
	wg.Wait()
}

// Index returns the package index for import path `path` inside module dir; nil (and an
// anchor-missing obligation) when absent.
func (c *Ctx) Index(dir, path string) *PkgIndex {
	k := dir + "|" + path
	c.mu.Lock()
	if ix, ok := c.ixs[k]; ok {
		c.mu.Unlock()
		return ix
	}
	c.mu.Unlock()
	m := c.Mod(dir)
	if m == nil {
		return nil
	}
	p := m.Pkg(path)
	if p == nil {
		c.Missing("infra", "package "+path+" in module "+dir)
		return nil
	}
	ix := NewPkgIndex(m, p)
	c.mu.Lock()
	c.ixs[k] = ix
	c.les[k] = NewLockEngine(ix)
	c.mu.Unlock()
	return ix
}

func (c *Ctx) Locks(ix *PkgIndex) *LockEngine {
	c.mu.Lock()
	defer c.mu.Unlock()
	for k, v := range c.ixs {
		if v == ix {
			return c.les[k]
		}
	}
	return NewLockEngine(ix)
}

// Fn finds a declaration; records anchor-missing under rule when absent.
func (c *Ctx) Fn(ix *PkgIndex, rule, name string) *FuncInfo {
	if ix == nil {
		return nil
	}
	f := ix.Func(name)
	if f == nil {
		f = promotedMethod(ix, name)
	}
	if f == nil {
		c.Missing(rule, shortPkg(ix.Pkg.PkgPath)+"."+name)
		return nil
	}
	c.Analysed(f)
	// a method that only forwards to another declared function of the package with its own parameters (typically to the
	// embedded type's method it used to duplicate) is judged on the function that does the work
	for i := 0; i < 2 && c.FollowDelegates; i++ {
		t := ix.pureDelegate(f)
		if t == nil {
			break
		}
		f = t
		c.Analysed(f)
	}
	// … and a method that selects a shared implementation by a constant argument is judged on that implementation
	// specialised to the argument
	if c.FollowDelegates {
		if t, _ := ix.delegateUnder(f); t != nil && t != f {
			f = t
			c.Analysed(f)
		}
	}
	return f
}

var props = map[string]*PropDoc{}

func register(p *PropDoc) { props[p.ID] = p }

func main() {
	prop := flag.String("property", "", "property id (C01…C20) or 'all'")
	tier := flag.String("tier", "quick", "quick|thorough")
	repo := flag.String("repo", "/repo", "repository root")
	verif := flag.String("verif", "", "verif directory (default: parent of the binary's directory)")
	replay := flag.String("replay", "", "replay file: re-run the property and show only that obligation")
	noEv := flag.Bool("no-evidence", false, "do not write evidence/replay files (used by the checker self-test)")
	flag.Parse()
	if t := os.Getenv("VERIF_TIER"); t != "" && *tier == "" {
		*tier = t
	}
	RepoRoot = *repo
	if *verif == "" {
		exe, _ := os.Executable()
		*verif = filepath.Dir(filepath.Dir(exe))
	}
	var ids []string
	if *prop == "all" {
		for id := range props {
			ids = append(ids, id)
		}
		sort.Strings(ids)
	} else if _, ok := props[*prop]; ok {
		ids = []string{*prop}
	} else {
		fmt.Fprintf(os.Stderr, "unknown property %q\n", *prop)
		os.Exit(2)
	}
	if d := os.Getenv("VERIF_LODUMP"); d != "" { // debug aid: VERIF_LODUMP=<module dir>|<package path> prints the lock-order edges
		parts := strings.SplitN(d, "|", 2)
		run := &Run{Prop: "DBG", rules: map[string]*RuleInfo{}}
		c := &Ctx{Run: run, mods: map[string]*Module{}, ixs: map[string]*PkgIndex{}, les: map[string]*LockEngine{}}
		ix := c.Index(parts[0], parts[1])
		lo := newLockOrder(ix, c.Locks(ix))
		lo.Build()
		for x, m := range lo.Edges {
			for y, w := range m {
				fmt.Printf("%s -> %s : %s\n", x, y, w)
			}
		}
		os.Exit(0)
	}
	exit := 0
	for _, id := range ids {
		if *noEv {
			*replay = "-"
		}
		if runProp(id, *tier, *verif, *replay) != 0 {
			exit = 1
		}
	}
	flushRecordedAnchors()
	os.Exit(exit)
}

// execPass runs the property's rule set once (one GOARCH, optional overlay) into run.
func execPass(run *Run, pd *PropDoc, arch string, overlay map[string][]byte) {
	c := &Ctx{Run: run, Thorough: run.Tier == "thorough", Arch: arch, Overlay: overlay, mods: map[string]*Module{}, ixs: map[string]*PkgIndex{}, les: map[string]*LockEngine{}}
	defer func() {
		if r := recover(); r != nil {
			run.add("infra", VUndecided, "analyser-panic", "-", fmt.Sprintf("analyser panic: %v\n%s", r, debug.Stack()))
		}
	}()
	// per-pass registries (passes run one after the other; holding the previous pass's packages would keep them alive)
	declRegistry = sync.Map{}
	guardGaps = map[*PkgIndex]map[string]string{}
	siblingGuards = map[*PkgIndex]map[string]string{}
	resetNormalised()
	definedCache = sync.Map{}
	fgByBody = sync.Map{}
	constTablesMu.Lock()
	constTables = map[*types.Var]*constTable{}
	structTables = map[*types.Var]*structTable{}
	tableLookupDefs = map[types.Object]ast.Expr{}
	constTablesMu.Unlock()
	c.Preload(pd.Modules...)
	pd.Fn(c)
	declRegistry = sync.Map{}
	guardGaps = map[*PkgIndex]map[string]string{}
	siblingGuards = map[*PkgIndex]map[string]string{}
	resetNormalised()
	definedCache = sync.Map{}
	fgByBody = sync.Map{}
	constTablesMu.Lock()
	constTables = map[*types.Var]*constTable{}
	structTables = map[*types.Var]*structTable{}
	tableLookupDefs = map[types.Object]ast.Expr{}
	constTablesMu.Unlock()
	runtime.GC()
}

func runProp(id, tier, verif, replay string) (code int) {
	pd := props[id]
	start := time.Now()
	run := NewRun(id, tier)
	execPass(run, pd, "", nil)
	if tier == "thorough" {
		// second build configuration: linux/386 (covers files selected by 32-bit build constraints)
		r2 := NewRun(id, tier)
		execPass(r2, pd, "386", nil)
		for _, o := range r2.obs {
			o.Msg = "[GOARCH=386] " + o.Msg
			run.obs = append(run.obs, o)
			if ri := run.rules[o.Rule]; ri != nil {
				ri.Found++
			}
		}
		run.Note(fmt.Sprintf("second configuration GOARCH=386: %d obligations", len(r2.obs)))
		// checker self-test over the recorded variants (in-memory overlays)
		st := runSelfTest(pd, verif, run.pkgs)
		run.selftest = st
		for _, s := range st {
			if s.Status == "MISSED" || s.Status == "FALSE-ALARM" {
				fmt.Printf("selftest %s: variant %s expected %s, fired %v\n", s.Status, s.Variant, s.Expect, s.Fired)
			}
		}
	}
	return run.Finish(verif, start, pd, replay)
}

// promotedMethod: "(*T).m" / "T.m" is not declared any more, but T still has the method through an embedded field whose type
// declares it in this package: calls of T.m run that declaration (a duplicate method deleted in favour of promotion).
func promotedMethod(ix *PkgIndex, name string) *FuncInfo {
	recv, meth, ok := strings.Cut(strings.TrimPrefix(name, "(*"), ").")
	if !ok {
		recv, meth, ok = strings.Cut(name, ".")
		if !ok {
			return nil
		}
	}
	tn, _ := ix.Pkg.Types.Scope().Lookup(recv).(*types.TypeName)
	if tn == nil {
		return nil
	}
	obj, index, _ := types.LookupFieldOrMethod(types.NewPointer(tn.Type()), true, ix.Pkg.Types, meth)
	fn, isFn := obj.(*types.Func)
	if !isFn || len(index) < 2 { // declared on T itself (then Func would have found it) or not a method
		return nil
	}
	return ix.declByObj(fn)
}
