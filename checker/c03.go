package main

import (
	"go/ast"
	"go/constant"
	"go/token"
	"go/types"
	"strings"
)

const otelProp = "go.opentelemetry.io/otel/propagation"

func init() {
	register(&PropDoc{
		ID:         "C03",
		Modules:    []string{".", "trace"},
		NotDecided: "round-trip equality and the index arithmetic of TraceState.Insert/Delete in general (decided is only that every capacity decision of Insert depends on whether the key is already a member, not that its arithmetic is right); that String() output re-parses (follows from the character classes only); hex.Decode itself (standard library).",
		Fn:         c03,
	})
}

// charSetDiff evaluates pred over pts and compares with spec; returns the first differing point description or "".
func charSetDiff(pts []int64, got func(int64) (bool, bool), spec func(int64) bool) (string, int) {
	n := 0
	for _, p := range pts {
		g, ok := got(p)
		n++
		if !ok {
			return "cannot fold the predicate for code point " + cpStr(p) + " (a condition on the character has no value there: for instance a table indexed beyond its length, which panics)", n
		}
		if g != spec(p) {
			if g {
				return "accepts " + cpStr(p) + ", which the grammar forbids", n
			}
			return "rejects " + cpStr(p) + ", which the grammar allows", n
		}
	}
	return "", n
}

func cpStr(p int64) string {
	const hexd = "0123456789ABCDEF"
	s := ""
	v := p
	if v == 0 {
		s = "0"
	}
	for v > 0 {
		s = string(hexd[v%16]) + s
		v /= 16
	}
	out := "U+" + strings.Repeat("0", max(0, 4-len(s))) + s
	if p >= 0x21 && p <= 0x7E {
		out += " '" + string(rune(p)) + "'"
	}
	return out
}

func inRange(p, lo, hi int64) bool { return p >= lo && p <= hi }

func c03(c *Ctx) {
	// the trace package is analysed in its own module load (module "trace"); propagation in the root module
	tx := c.Index("trace", otelTrace)
	px := c.Index(".", otelProp)
	if tx == nil || px == nil {
		return
	}
	tinfo := tx.Pkg.TypesInfo
	pinfo := px.Pkg.TypesInfo
	pe := &predEval{ix: tx}

	c.Rule("R1", "E6 charclass + E2 bounds", "tracestate validators accept exactly the W3C grammar's character sets over the rune domain; length and member-count bounds as specified", 11)
	lc := func(p int64) bool { return inRange(p, 'a', 'z') }
	dg := func(p int64) bool { return inRange(p, '0', '9') }
	specs := map[string]func(int64) bool{
		"checkValueChar": func(p int64) bool { return inRange(p, 0x20, 0x7E) && p != ',' && p != '=' },
		"checkValueLast": func(p int64) bool { return inRange(p, 0x21, 0x7E) && p != ',' && p != '=' },
		"isAlphaNum":     func(p int64) bool { return lc(p) || dg(p) },
	}
	for _, name := range []string{"checkValueChar", "checkValueLast", "isAlphaNum"} {
		fn := c.Fn(tx, "R1", name)
		if fn == nil {
			continue
		}
		consts := map[int64]bool{}
		tx.intConstsIn(fn, map[*FuncInfo]bool{}, consts)
		pt := fn.Obj.Type().(*types.Signature).Params().At(0).Type()
		diff, n := charSetDiff(charPoints(consts, pt), func(p int64) (bool, bool) {
			v, ok := pe.call(fn, []constant.Value{constant.MakeInt64(p)})
			if !ok || v.Kind() != constant.Bool {
				return false, false
			}
			return constant.BoolVal(v), true
		}, specs[name])
		c.Check(diff == "", "R1", "trace|"+name+"|accepted set = grammar ("+itoa(n)+" points)", at(tx.M, fn.Pos()), "equal on every representative point", name+" "+diff)
	}
	if fn := c.Fn(tx, "R1", "checkKeyRemain"); fn != nil {
		key := fn.Obj.Type().(*types.Signature).Params().At(0)
		subj := loopSubject(fn, key)
		if subj == nil {
			// the character is used as the expression key[i] without a variable of its own
			indexed := false
			isSubj := func(e ast.Expr) bool {
				ie, ok := unparen(e).(*ast.IndexExpr)
				return ok && sameVar(tinfo, ie.X, key)
			}
			inspectNoLit(fn.Body(), func(n ast.Node) bool {
				if e, ok := n.(ast.Expr); ok && isSubj(e) {
					indexed = true
				}
				return true
			})
			if !indexed {
				c.Undecided("R1", "trace|checkKeyRemain|accepted set = grammar", at(tx.M, fn.Pos()), "per-character variable not found")
			} else {
				consts := map[int64]bool{}
				tx.intConstsIn(fn, map[*FuncInfo]bool{}, consts)
				diff, n := charSetDiff(charPoints(consts, types.Typ[types.Uint8]), func(p int64) (bool, bool) {
					pe2 := &predEval{ix: tx, extra: func(e ast.Expr) (constant.Value, bool) {
						if isSubj(e) {
							return constant.MakeInt64(p), true
						}
						return nil, false
					}}
					return pe2.loopAccepts(fn, nil, p)
				}, func(p int64) bool { return lc(p) || dg(p) || p == '_' || p == '-' || p == '*' || p == '/' })
				c.Check(diff == "", "R1", "trace|checkKeyRemain|accepted set = lcalpha / DIGIT / _ - * / ("+itoa(n)+" points over byte)", at(tx.M, fn.Pos()),
					"equal on every representative point", "checkKeyRemain "+diff+" (a key with that character is accepted by ParseTraceState and re-injected)")
			}
		} else {
			consts := map[int64]bool{}
			tx.intConstsIn(fn, map[*FuncInfo]bool{}, consts)
			diff, n := charSetDiff(charPoints(consts, subj.Type()), func(p int64) (bool, bool) { return pe.loopAccepts(fn, subj, p) },
				func(p int64) bool { return lc(p) || dg(p) || p == '_' || p == '-' || p == '*' || p == '/' })
			c.Check(diff == "", "R1", "trace|checkKeyRemain|accepted set = lcalpha / DIGIT / _ - * / ("+itoa(n)+" points over "+subj.Type().String()+")", at(tx.M, fn.Pos()),
				"equal on every representative point", "checkKeyRemain "+diff+" (a key with that character is accepted by ParseTraceState and re-injected)")
		}
	}
	// key parts, judged at the calls checkKey makes: simple-key (no "@"), tenant-id and system-id (around the "@"). Each call
	// names the checker, the remainder bound and — when the checker takes the first-character predicate as a parameter — that
	// predicate; the checker's body is evaluated with its parameters bound to what this call passes.
	if fn := c.Fn(tx, "R1", "checkKey"); fn != nil {
		keyParam := fn.Obj.Type().(*types.Signature).Params().At(0)
		var tenantV, systemV types.Object
		inspectNoLit(fn.Body(), func(nd ast.Node) bool {
			if as, ok := nd.(*ast.AssignStmt); ok && len(as.Lhs) == 3 && len(as.Rhs) == 1 {
				if call, ok := unparen(as.Rhs[0]).(*ast.CallExpr); ok && isCallTo(tinfo, call, "strings.Cut") && len(call.Args) == 2 && sameVar(tinfo, call.Args[0], keyParam) {
					if s, isS := constString(tinfo, call.Args[1]); isS && s == "@" {
						tenantV, systemV = objOf(tinfo, as.Lhs[0]), objOf(tinfo, as.Lhs[1])
					}
				}
			}
			return true
		})
		type roleSpec struct {
			name, what string
			subject    types.Object
			spec       func(int64) bool
			bound      int64
		}
		roles := []roleSpec{
			{"simple-key", "lcalpha", keyParam, lc, 255},
			{"tenant-id", "lcalpha / DIGIT", tenantV, func(p int64) bool { return lc(p) || dg(p) }, 240},
			{"system-id", "lcalpha", systemV, lc, 13},
		}
		remain := tx.Func("checkKeyRemain")
		for _, role := range roles {
			keyOb := "trace|checkKey|" + role.name
			var calls []*ast.CallExpr
			if role.subject != nil {
				inspectNoLit(fn.Body(), func(nd ast.Node) bool {
					if call, ok := nd.(*ast.CallExpr); ok && len(call.Args) >= 1 && sameVar(tinfo, call.Args[0], role.subject) {
						if h := tx.declByObj(callee(tinfo, call)); h != nil && h != fn {
							calls = append(calls, call)
						}
					}
					return true
				})
			}
			if len(calls) != 1 {
				c.Undecided("R1", keyOb+": checked by one call", at(tx.M, fn.Pos()), itoa(len(calls))+" calls of a package function on this part of the key (one confirmed by reading)")
				continue
			}
			call := calls[0]
			h := tx.declByObj(callee(tinfo, call))
			c.Analysed(h)
			hs := h.Obj.Type().(*types.Signature)
			part := hs.Params().At(0)
			var nparam *types.Var
			var bound int64 = -1
			funcs := map[types.Object]*FuncInfo{}
			for i := 1; i < len(call.Args) && i < hs.Params().Len(); i++ {
				p := hs.Params().At(i)
				if v, isC := constInt(tinfo, call.Args[i]); isC {
					if b, isB := p.Type().Underlying().(*types.Basic); isB && b.Info()&types.IsInteger != 0 {
						nparam, bound = p, v
					}
				}
				if _, isSig := p.Type().Underlying().(*types.Signature); isSig {
					if f, isF := objOf(tinfo, call.Args[i]).(*types.Func); isF {
						if d := tx.declByObj(f); d != nil && !assignedIn(tinfo, h.Body(), p) {
							funcs[p] = d
						}
					}
				}
			}
			c.Check(bound == role.bound, "R1", keyOb+": remainder bound "+itoa(int(role.bound)), at(tx.M, call.Pos()), exprStr(call),
				"tracestate key length bounds differ from the W3C grammar ("+role.name+": "+itoa(int(bound))+")")
			// first character: h's body with part[0] = p
			var subjVar types.Object
			inspectNoLit(h.Body(), func(n ast.Node) bool {
				if as, ok := n.(*ast.AssignStmt); ok && len(as.Lhs) == 1 && len(as.Rhs) == 1 {
					if ie, ok := unparen(as.Rhs[0]).(*ast.IndexExpr); ok && sameVar(tinfo, ie.X, part) {
						if z, isC := constInt(tinfo, ie.Index); isC && z == 0 {
							subjVar = objOf(tinfo, as.Lhs[0])
						}
					}
				}
				return true
			})
			consts := map[int64]bool{}
			tx.intConstsIn(h, map[*FuncInfo]bool{}, consts)
			for _, d := range funcs {
				tx.intConstsIn(d, map[*FuncInfo]bool{}, consts)
			}
			diff, n := charSetDiff(charPoints(consts, types.Typ[types.Uint8]), func(p int64) (bool, bool) {
				pe2 := &predEval{ix: tx, funcs: funcs, extra: func(e ast.Expr) (constant.Value, bool) {
					if ie, ok := e.(*ast.IndexExpr); ok && sameVar(tinfo, ie.X, part) {
						if z, isC := constInt(tinfo, ie.Index); isC && z == 0 {
							return constant.MakeInt64(p), true
						}
					}
					return nil, false
				}}
				bind := map[types.Object]constant.Value{}
				if subjVar != nil {
					bind[subjVar] = constant.MakeInt64(p)
				}
				env := pe2.bindEnv(bind)
				rejected := false
				inspectNoLit(h.Body(), func(nd ast.Node) bool {
					var exprs []ast.Expr
					switch s := nd.(type) {
					case *ast.AssignStmt:
						exprs = s.Rhs
					case *ast.ReturnStmt:
						exprs = s.Results
					}
					for _, e := range exprs {
						if tv, ok := tinfo.Types[e]; ok && tv.Value == nil {
							if b, ok := tv.Type.Underlying().(*types.Basic); ok && b.Info()&types.IsBoolean != 0 {
								if v, known := evalConst(tinfo, e, env); known && !constant.BoolVal(v) {
									rejected = true
								}
							}
						}
					}
					return true
				})
				return !rejected, true
			}, role.spec)
			c.Check(diff == "", "R1", keyOb+": first character = "+role.what, at(tx.M, call.Pos()), h.Name+", equal on every byte ("+itoa(n)+" points)", role.name+": "+h.Name+" "+diff)
			// len(part[1:]) <= n, and the remainder goes through checkKeyRemain
			hg := tx.FG(h)
			isRest := func(e ast.Expr) bool {
				e = unparen(e)
				if id, isID := e.(*ast.Ident); isID {
					if def := hg.LocalDef(tinfo.Uses[id]); def != nil {
						e = unparen(def)
					}
				}
				se, ok := e.(*ast.SliceExpr)
				if !ok || !sameVar(tinfo, se.X, part) || se.High != nil {
					return false
				}
				lo, isC := constInt(tinfo, se.Low)
				return isC && lo == 1
			}
			okLen, okRemain := false, false
			// the bound in any linear spelling: len(part[1:]) <= n, len(part)-1 <= n, len(part) <= n+1, or the rejecting guard
			// len(part)-1 > n / len(part) > n+1 whose true outcome only returns false
			lenBound := func(x *ast.BinaryExpr) (accept, reject bool) {
				l, op, r, good := cmpNorm(x, 1)
				if !good || nparam == nil {
					return
				}
				tl, kl := linearForm(tinfo, l)
				tr, kr := linearForm(tinfo, r)
				diff := map[string]int{}
				for k, v := range tl {
					diff[k] += v
				}
				for k, v := range tr {
					diff[k] -= v
				}
				kd := kl - kr
				// len(part[1:]) counts as len(part) - 1
				partName := part.Name()
				if v := diff["len("+partName+"[1:])"]; v != 0 {
					delete(diff, "len("+partName+"[1:])")
					diff["len("+partName+")"] += v
					kd -= int64(v)
				}
				for k, v := range diff {
					if v == 0 {
						delete(diff, k)
					}
				}
				if len(diff) != 2 || diff["len("+partName+")"] != 1 || diff[nparam.Name()] != -1 {
					return
				}
				// diff + kd  op  0   with diff = len(part) − n
				switch {
				case op == token.LEQ && kd == -1, op == token.LSS && kd == -2:
					accept = true
				case op == token.GTR && kd == -1, op == token.GEQ && kd == -2:
					reject = true
				}
				return
			}
			hgr := tx.FG(h)
			inspectNoLit(h.Body(), func(nd ast.Node) bool {
				switch x := nd.(type) {
				case *ast.BinaryExpr:
					l, op, r, good := cmpNorm(x, 1)
					if good && op == token.LEQ && nparam != nil && sameVar(tinfo, r, nparam) {
						if lc, ok := l.(*ast.CallExpr); ok && builtinName(tinfo, lc) == "len" && isRest(lc.Args[0]) {
							okLen = true
						}
					}
					if acc, rej := lenBound(x); acc {
						okLen = true
					} else if rej {
						// the true outcome of the guard leads to `return false` only
						for _, y := range hgr.Nodes {
							for _, ed := range y.Succs {
								if ed.Cond == nil || ed.Pol < 0 || !containsNoLitOrIn(ed.Cond, x) {
									continue
								}
								sn, _ := hgr.ReachFromEdge(ed, nil)
								only := true
								for z := range sn {
									if rs, isR := z.N.(*ast.ReturnStmt); isR && len(rs.Results) == 1 {
										if tv := tinfo.Types[rs.Results[0]]; tv.Value == nil || constant.BoolVal(tv.Value) {
											only = false
										}
									}
								}
								if only {
									okLen = true
								}
							}
						}
					}
				case *ast.CallExpr:
					if remain != nil && callToDecl(tinfo, remain)(x) && len(x.Args) == 1 && isRest(x.Args[0]) {
						okRemain = true
					}
				}
				return true
			})
			c.Check(okLen && okRemain, "R1", keyOb+": len(part[1:]) <= n and the remainder is checked", at(tx.M, h.Pos()), h.Name+": length bound and character check apply to the remainder", "key length bound changed (or the remainder is no longer checked)")
		}
	}
	if fn := c.Fn(tx, "R1", "checkValue"); fn != nil {
		g := tx.FG(fn)
		var nvar types.Object
		inspectNoLit(fn.Body(), func(nd ast.Node) bool {
			if as, ok := nd.(*ast.AssignStmt); ok && len(as.Lhs) == 1 && len(as.Rhs) == 1 {
				if call, ok := unparen(as.Rhs[0]).(*ast.CallExpr); ok && builtinName(tinfo, call) == "len" {
					nvar = objOf(tinfo, as.Lhs[0])
				}
			}
			return true
		})
		val := fn.Obj.Type().(*types.Signature).Params().At(0)
		good := true
		for _, row := range []struct {
			n   int64
			rej bool
		}{{0, true}, {1, false}, {256, false}, {257, true}} {
			env := func(e ast.Expr) (constant.Value, bool) {
				if nvar != nil && sameVar(tinfo, e, nvar) {
					return constant.MakeInt64(row.n), true
				}
				if isLenOf(tinfo, e, func(x ast.Expr) bool { return sameVar(tinfo, x, val) }) {
					return constant.MakeInt64(row.n), true
				}
				return nil, false
			}
			vals, known := g.ReturnsUnder(env)
			rejected := known && len(vals) == 1 && vals[0].Kind() == constant.Bool && !constant.BoolVal(vals[0])
			if rejected != row.rej {
				good = false
			}
		}
		c.Check(good, "R1", "trace|checkValue|1 ≤ len ≤ 256", at(tx.M, fn.Pos()), "lengths 0 and 257 rejected, 1 and 256 not", "tracestate value length bound differs from the grammar (1..256)")
		// uses checkValueChar on val[i] in the loop and checkValueLast on the last byte
		usesChar, usesLast := false, false
		inspectNoLit(fn.Body(), func(nd ast.Node) bool {
			if call, ok := nd.(*ast.CallExpr); ok {
				if cf := callee(tinfo, call); cf != nil {
					if cf.Name() == "checkValueChar" && inLoop(fn, call) {
						usesChar = true
					}
					if cf.Name() == "checkValueLast" && !inLoop(fn, call) {
						usesLast = true
					}
				}
			}
			return true
		})
		c.Check(usesChar && usesLast, "R1", "trace|checkValue|every byte but the last through checkValueChar, the last through checkValueLast", at(tx.M, fn.Pos()), "structure as specified", "value validation no longer applies the two character classes")
		// … and what the loop accepts, over the domain of its per-character subject (a rune when the loop ranges over the string:
		// a narrowing conversion in front of the byte predicate then lets characters ≥ 0x100 through)
		specMid := func(p int64) bool { return inRange(p, 0x20, 0x7E) && p != ',' && p != '=' }
		if subj := loopSubject(fn, val); subj != nil {
			consts := map[int64]bool{}
			tx.intConstsIn(fn, map[*FuncInfo]bool{}, consts)
			diff, n := charSetDiff(charPoints(consts, subj.Type()), func(p int64) (bool, bool) { return pe.loopAccepts(fn, subj, p) }, specMid)
			c.Check(diff == "", "R1", "trace|checkValue|accepted set of every character but the last = 0x20-0x7E without , and = ("+itoa(n)+" points over "+subj.Type().String()+")", at(tx.M, fn.Pos()),
				"equal on every representative point", "checkValue "+diff+" (a value with that character is accepted by ParseTraceState / Insert and re-injected)")
		} else {
			isSubj := func(e ast.Expr) bool {
				ie, ok := unparen(e).(*ast.IndexExpr)
				return ok && sameVar(tinfo, ie.X, val) && inLoop(fn, ie)
			}
			indexed := false
			inspectNoLit(fn.Body(), func(n ast.Node) bool {
				if e, ok := n.(ast.Expr); ok && isSubj(e) {
					indexed = true
				}
				return true
			})
			if !indexed {
				c.Undecided("R1", "trace|checkValue|accepted set of every character but the last", at(tx.M, fn.Pos()), "per-character subject of the loop not found")
			} else {
				consts := map[int64]bool{}
				tx.intConstsIn(fn, map[*FuncInfo]bool{}, consts)
				diff, n := charSetDiff(charPoints(consts, types.Typ[types.Uint8]), func(p int64) (bool, bool) {
					pe2 := &predEval{ix: tx, extra: func(e ast.Expr) (constant.Value, bool) {
						if isSubj(e) {
							return constant.MakeInt64(p), true
						}
						return nil, false
					}}
					return pe2.loopAccepts(fn, nil, p)
				}, specMid)
				c.Check(diff == "", "R1", "trace|checkValue|accepted set of every character but the last = 0x20-0x7E without , and = ("+itoa(n)+" points over byte)", at(tx.M, fn.Pos()),
					"equal on every representative point", "checkValue "+diff+" (a value with that character is accepted by ParseTraceState / Insert and re-injected)")
			}
		}
	}
	if fn := c.Fn(tx, "R1", "ParseTraceState"); fn != nil {
		// member count: n > maxListMembers rejects, where maxListMembers == 32
		k, _ := tx.Pkg.Types.Scope().Lookup("maxListMembers").(*types.Const)
		okK := k != nil && constant.Compare(k.Val(), token.EQL, constant.MakeInt64(32))
		g := tx.FG(fn)
		okCmp := false
		for _, x := range g.Nodes {
			for _, e := range x.Succs {
				if edgeImplies(e, func(cnd ast.Expr, pol int) bool {
					l, op, r, ok := cmpNorm(cnd, pol)
					if !ok || constObj(tinfo, r) != k {
						return false
					}
					_ = l
					// n > 32 tested after the append, or len == 32 / len >= 32 tested in front of it
					return op == token.GTR || op == token.EQL || op == token.GEQ
				}) {
					// that edge must lead to an error return only
					s, _ := g.ReachFromEdge(e, nil)
					only := true
					for y := range s {
						if rs, ok := y.N.(*ast.ReturnStmt); ok && len(rs.Results) == 2 && isNilIdent(tinfo, rs.Results[1]) {
							only = false
						}
					}
					_, op0, _, _ := cmpNorm(e.Cond, e.Pol)
					if only && op0 != token.GTR {
						// the test in front: every append inside the loop is reached only past it (a list of 32 never grows)
						for _, y := range g.Nodes {
							as, isAs := y.N.(*ast.AssignStmt)
							if !isAs || len(as.Rhs) != 1 || !g.InCycle(y) {
								continue
							}
							if call, isCall := unparen(as.Rhs[0]).(*ast.CallExpr); isCall && builtinName(tinfo, call) == "append" {
								s2, _ := g.ReachFromEntry(func(z *GNode) bool { return z == e.From }, nil)
								if s2[y] {
									only = false // an append is reachable without passing the test
								}
							}
						}
					}
					if only {
						okCmp = true
					}
				}
			}
		}
		c.Check(okK && okCmp, "R1", "trace|ParseTraceState|more than 32 members rejected", at(tx.M, fn.Pos()), "n > maxListMembers(32) ⇒ error", "the 32-member limit is not enforced when parsing")
	}

	c.Rule("R2", "E6 + E3", "hex validators accept exactly 0-9a-f; field widths 2/32/16/2; ids from hex are returned only when valid", 6)
	if fn := c.Fn(tx, "R2", "decodeHex"); fn != nil {
		h := fn.Obj.Type().(*types.Signature).Params().At(0)
		subj := loopSubject(fn, h)
		if subj == nil && indexedOverAll(fn, h) {
			// the loop runs over the bytes by index — for i := 0; i < len(h); i++ { … h[i] … }: the subject is the expression h[i]
			// (every byte of a multi-byte character is above 0x7f, so the accepted strings are those of accepted bytes)
			tinfo := tx.Pkg.TypesInfo
			consts := map[int64]bool{}
			tx.intConstsIn(fn, map[*FuncInfo]bool{}, consts)
			diff, n := charSetDiff(charPoints(consts, types.Typ[types.Uint8]), func(p int64) (bool, bool) {
				pe2 := &predEval{ix: tx, extra: func(e ast.Expr) (constant.Value, bool) {
					if ie, ok := e.(*ast.IndexExpr); ok && sameVar(tinfo, ie.X, h) {
						return constant.MakeInt64(p), true
					}
					return nil, false
				}}
				return pe2.loopAccepts(fn, nil, p)
			}, func(p int64) bool { return inRange(p, '0', '9') || inRange(p, 'a', 'f') })
			c.Check(diff == "", "R2", "trace|decodeHex|accepted set = 0-9a-f ("+itoa(n)+" points)", at(tx.M, fn.Pos()), "upper-case and non-hex rejected before hex.DecodeString (byte loop)", "decodeHex "+diff)
		} else if subj == nil {
			c.Undecided("R2", "trace|decodeHex|accepted set = lower hex", at(tx.M, fn.Pos()), "per-character variable not found")
		} else {
			consts := map[int64]bool{}
			tx.intConstsIn(fn, map[*FuncInfo]bool{}, consts)
			diff, n := charSetDiff(charPoints(consts, subj.Type()), func(p int64) (bool, bool) { return pe.loopAccepts(fn, subj, p) },
				func(p int64) bool { return inRange(p, '0', '9') || inRange(p, 'a', 'f') })
			c.Check(diff == "", "R2", "trace|decodeHex|accepted set = 0-9a-f ("+itoa(n)+" points)", at(tx.M, fn.Pos()), "upper-case and non-hex rejected before hex.DecodeString", "decodeHex "+diff)
		}
	}
	for _, sp := range []struct {
		fn string
		n  int64
	}{{"TraceIDFromHex", 32}, {"SpanIDFromHex", 16}} {
		fn := c.Fn(tx, "R2", sp.fn)
		if fn == nil {
			continue
		}
		g := tx.FG(fn)
		good := true
		nOK := 0
		for _, x := range g.Nodes {
			rs, ok := x.N.(*ast.ReturnStmt)
			if !ok || len(rs.Results) != 2 {
				continue
			}
			if !isNilIdent(tinfo, rs.Results[1]) {
				// `return id, err` with err the result of a declared helper that fills the id: success is the helper's nil return,
				// judged there with the helper's parameters bound to this call's arguments
				if ev, isV := objOf(tinfo, rs.Results[1]).(*types.Var); isV && !ev.IsField() {
					if nn, _ := g.DominatedByEdges(x, func(e *GEdge) bool {
						return edgeImplies(e, func(cnd ast.Expr, pol int) bool {
							isNN, ok := nilCmp(tinfo, cnd, pol, func(z ast.Expr) bool { return sameVar(tinfo, z, ev) })
							return ok && isNN
						})
					}); nn {
						continue // an error return
					}
					if def := g.LocalDef(ev); def != nil && !g.staleAt(def, x) {
						if call, isC := unparen(def).(*ast.CallExpr); isC {
							if h := tx.declByObj(callee(tinfo, call)); h != nil && h != fn {
								nOK++
								if ok, _ := idHelperValid(tx, fn, h, call, objOf(tinfo, rs.Results[0]), sp.n); !ok {
									good = false
								}
							}
						}
					}
				}
				continue
			}
			nOK++
			v := objOf(tinfo, rs.Results[0])
			d1, _ := g.DominatedByEdges(x, func(e *GEdge) bool {
				return edgeImplies(e, func(cnd ast.Expr, pol int) bool {
					call, isCall := cnd.(*ast.CallExpr)
					if !isCall || pol < 0 {
						return false
					}
					cf := callee(tinfo, call)
					recv, _ := methodCall(tinfo, call)
					return cf != nil && cf.Name() == "IsValid" && v != nil && sameVar(tinfo, recv, v)
				})
			})
			d2, _ := g.DominatedByEdges(x, func(e *GEdge) bool {
				return edgeImplies(e, func(cnd ast.Expr, pol int) bool {
					l, op, r, ok := cmpNorm(cnd, pol)
					k, isC := constInt(tinfo, r)
					return ok && op == token.EQL && isC && k == sp.n && isLenOf(tinfo, l, func(ast.Expr) bool { return true })
				})
			})
			if !d1 || !d2 {
				good = false
			}
		}
		c.Check(good && nOK == 1, "R2", "trace|"+sp.fn+"|success only for len == "+itoa(int(sp.n))+" and a non-zero id", at(tx.M, fn.Pos()), "nil error dominated by the length test and IsValid()", "an all-zero or wrong-length id can be returned without error")
	}
	if fn := c.Fn(px, "R2", "upperHex"); fn != nil {
		v := fn.Obj.Type().(*types.Signature).Params().At(0)
		subj := loopSubject(fn, v)
		ppe := &predEval{ix: px}
		if set, ok := containsAnySet(pinfo, fn, v); ok && subj == nil {
			// library form: return strings.ContainsAny(v, "<set>") (or IndexAny(...) >= 0 / != -1)
			diff, n := charSetDiff(charPoints(map[int64]bool{'A': true, 'F': true, 'a': true, 'f': true, '0': true, '9': true}, types.Typ[types.Rune]), func(p int64) (bool, bool) {
				return p >= 0 && p < 0x110000 && strings.ContainsRune(set, rune(p)), true
			}, func(p int64) bool { return inRange(p, 'A', 'F') })
			c.Check(diff == "", "R2", "propagation|upperHex|detects exactly A-F ("+itoa(n)+" points)", at(px.M, fn.Pos()), "strings.ContainsAny(v, "+quote(set)+")", "upperHex "+diff+" (so upper-case hex passes extraction, or lower-case is refused)")
		} else if subj == nil {
			c.Undecided("R2", "propagation|upperHex|detects exactly A-F", at(px.M, fn.Pos()), "per-character variable not found")
		} else {
			consts := map[int64]bool{}
			px.intConstsIn(fn, map[*FuncInfo]bool{}, consts)
			g := px.FG(fn)
			diff, n := charSetDiff(charPoints(consts, subj.Type()), func(p int64) (bool, bool) {
				seen := g.ReachUnder(ppe.bindEnv(map[types.Object]constant.Value{subj: constant.MakeInt64(p)}))
				det := false
				for x := range seen {
					if rs, ok := x.N.(*ast.ReturnStmt); ok && len(rs.Results) == 1 && inLoop(fn, rs) {
						if tv := pinfo.Types[rs.Results[0]]; tv.Value != nil && constant.BoolVal(tv.Value) {
							det = true
						}
					}
				}
				return det, true
			}, func(p int64) bool { return inRange(p, 'A', 'F') })
			c.Check(diff == "", "R2", "propagation|upperHex|detects exactly A-F ("+itoa(n)+" points)", at(px.M, fn.Pos()), "with hex.Decode this leaves 0-9a-f", "upperHex "+diff+" (so upper-case hex passes extraction, or lower-case is refused)")
		}
	}
	if fn := c.Fn(px, "R2", "extractPart"); fn != nil {
		// len(part) != n || upperHex(part) ⇒ false ; hex.Decode error or p != n/2 ⇒ false
		g := px.FG(fn)
		nparam := fn.Obj.Type().(*types.Signature).Params().At(2)
		up := px.Func("upperHex")
		// structural: every return that can report success — `return true`, or `return <tests>` with the tests written into the
		// result — has len(part)==n, !upperHex(part) and err==nil established, by the branches leading to it or as conjuncts of the result
		okLen, okUp, okDec := true, true, true
		nSucc := 0
		atoms := []func(cnd ast.Expr, pol int) bool{
			func(cnd ast.Expr, pol int) bool {
				l, op, r, ok := cmpNorm(cnd, pol)
				return ok && op == token.EQL && sameVar(pinfo, r, nparam) && isLenOf(pinfo, l, func(ast.Expr) bool { return true })
			},
			func(cnd ast.Expr, pol int) bool { return pol < 0 && callToDecl(pinfo, up)(cnd) },
			func(cnd ast.Expr, pol int) bool {
				nn, ok := nilCmp(pinfo, cnd, pol, func(y ast.Expr) bool { return isErrVar(pinfo, y) })
				return ok && !nn
			},
		}
		for _, x := range g.Nodes {
			rs, ok := x.N.(*ast.ReturnStmt)
			if !ok || len(rs.Results) == 0 {
				continue
			}
			res := rs.Results[len(rs.Results)-1]
			tv := pinfo.Types[res]
			if b, isB := tv.Type.Underlying().(*types.Basic); !isB || b.Info()&types.IsBoolean == 0 {
				continue
			}
			if tv.Value != nil && tv.Value.Kind() == constant.Bool && !constant.BoolVal(tv.Value) {
				continue
			}
			nSucc++
			for k, atom := range atoms {
				held, _ := g.DominatedByEdges(x, func(e *GEdge) bool { return edgeImplies(e, atom) })
				if !held && tv.Value == nil {
					held = condHolds(res, +1, atom)
				}
				if !held {
					switch k {
					case 0:
						okLen = false
					case 1:
						okUp = false
					case 2:
						okDec = false
					}
				}
			}
		}
		if nSucc == 0 {
			okLen = false
		}
		c.Check(okLen && okUp && okDec, "R2", "propagation|extractPart|true only for exact width, no upper-case, hex.Decode success", at(px.M, fn.Pos()), "all three tests dominate the success return", "a traceparent field of the wrong width / with upper-case or non-hex characters is accepted")
	}
	if fn := c.Fn(px, "R2", "TraceContext.extract"); fn != nil {
		up := px.Func("extractPart")
		var widths []int64
		var dsts []string
		inspectNoLit(fn.Body(), func(nd ast.Node) bool {
			if call, ok := nd.(*ast.CallExpr); ok && callToDecl(pinfo, up)(call) && len(call.Args) == 3 {
				w, _ := constInt(pinfo, call.Args[2])
				widths = append(widths, w)
				// the destination is named by the type of what is sliced (trace.TraceID / trace.SpanID / a byte array)
				d := exprStr(call.Args[0])
				if se, isS := unparen(call.Args[0]).(*ast.SliceExpr); isS {
					if nm := namedTypeName(pinfo.TypeOf(se.X)); nm != "" {
						d = nm
					}
				}
				dsts = append(dsts, d)
			}
			return true
		})
		good := len(widths) == 4 && widths[0] == 2 && widths[1] == 32 && widths[2] == 16 && widths[3] == 2 &&
			dsts[1] == "TraceID" && dsts[2] == "SpanID"
		c.Check(good, "R2", "propagation|TraceContext.extract|fields version(2) trace-id(32) parent-id(16) flags(2) in order", at(px.M, fn.Pos()), strings.Join(dsts, ","), "traceparent field order/widths differ from the W3C format")
	}

	ruleInsertCapacity(c, tx, "R1")
	ruleInsertFront(c, tx, "R1")
	ruleInsertLookupKey(c, tx, "R1")
	ruleParseDupKey(c, tx, "R1")

	defer c03Carriers(c, px)
	c.Rule("R3", "E5 immutability (alias tracking)", "no method of TraceState writes through the receiver's list: element stores, append and copy destinations are rooted at fresh allocations", 4)
	ruleTraceStateImmutable(c, tx, "R3")

	c.Rule("R4", "E4 dependence + E3", "a bad tracestate never invalidates a good traceparent: ParseTraceState's error is ignored by extract and every error return carries the zero TraceState; only valid contexts are returned", 4)
	if fn := c.Fn(px, "R4", "TraceContext.extract"); fn != nil {
		ignored := false
		var errVar types.Object
		inspectNoLit(fn.Body(), func(nd ast.Node) bool {
			if as, ok := nd.(*ast.AssignStmt); ok && len(as.Rhs) == 1 && len(as.Lhs) == 2 {
				if call, ok := unparen(as.Rhs[0]).(*ast.CallExpr); ok && isCallTo(pinfo, call, otelTrace+".ParseTraceState") {
					if id, ok := as.Lhs[1].(*ast.Ident); ok && id.Name == "_" {
						ignored = true
					} else {
						errVar = objOf(pinfo, as.Lhs[1])
					}
				}
			}
			return true
		})
		if errVar != nil {
			// the variable must not influence control flow or results
			used := false
			inspectNoLit(fn.Body(), func(nd ast.Node) bool {
				switch s := nd.(type) {
				case *ast.IfStmt:
					ast.Inspect(s.Cond, func(m ast.Node) bool {
						if id, ok := m.(*ast.Ident); ok && pinfo.Uses[id] == errVar {
							used = true
						}
						return true
					})
				case *ast.ReturnStmt:
					ast.Inspect(s, func(m ast.Node) bool {
						if id, ok := m.(*ast.Ident); ok && pinfo.Uses[id] == errVar {
							used = true
						}
						return true
					})
				}
				return true
			})
			ignored = !used
		}
		c.Check(ignored, "R4", "propagation|TraceContext.extract|tracestate parse error does not affect the result", at(px.M, fn.Pos()), "error discarded", "an invalid tracestate header makes extraction drop a valid traceparent")
		g := px.FG(fn)
		good, n := true, 0
		for _, x := range g.Nodes {
			rs, ok := x.N.(*ast.ReturnStmt)
			if !ok {
				continue
			}
			val, acc, known := ctxReturn(pinfo, rs)
			if !known || !acc {
				continue // zero SpanContext / rejected
			}
			n++
			v := objOf(pinfo, val)
			d, _ := g.DominatedByEdges(x, func(e *GEdge) bool {
				return edgeImplies(e, func(cnd ast.Expr, pol int) bool {
					call, ok := cnd.(*ast.CallExpr)
					if !ok || pol < 0 || !isCallTo(pinfo, call, "("+otelTrace+".SpanContext).IsValid") {
						return false
					}
					recv, _ := methodCall(pinfo, call)
					return v != nil && sameVar(pinfo, recv, v)
				})
			})
			if !d {
				good = false
			}
		}
		c.Check(good && n == 1, "R4", "propagation|TraceContext.extract|non-zero result dominated by sc.IsValid()", at(px.M, fn.Pos()), "only valid span contexts leave extract", "extract can return an invalid (e.g. all-zero id) span context")
	}
	if fn := c.Fn(px, "R4", "TraceContext.Extract"); fn != nil {
		g := px.FG(fn)
		ctx := fn.Obj.Type().(*types.Signature).Params().At(0)
		good := true
		for _, x := range g.Nodes {
			for _, e := range x.Succs {
				if edgeImplies(e, func(cnd ast.Expr, pol int) bool {
					call, ok := cnd.(*ast.CallExpr)
					return ok && pol < 0 && isCallTo(pinfo, call, "("+otelTrace+".SpanContext).IsValid")
				}) {
					s, _ := g.ReachFromEdge(e, nil)
					for y := range s {
						if rs, ok := y.N.(*ast.ReturnStmt); ok && (len(rs.Results) != 1 || !sameVar(pinfo, rs.Results[0], ctx)) {
							good = false
						}
					}
				}
			}
		}
		c.Check(good, "R4", "propagation|TraceContext.Extract|invalid ⇒ the input context is returned unchanged", at(px.M, fn.Pos()), "context untouched", "a failed extraction alters the context")
	}
	if fn := c.Fn(tx, "R4", "ParseTraceState"); fn != nil {
		good, n := true, 0
		for _, f := range tx.All {
			if tx.Outer(f) != fn || f.Lit != nil {
				continue
			}
			inspectNoLit(f.Body(), func(nd ast.Node) bool {
				rs, ok := nd.(*ast.ReturnStmt)
				if !ok || len(rs.Results) != 2 {
					return true
				}
				if !isNilIdent(tinfo, rs.Results[1]) {
					n++
					cl, ok := unparen(rs.Results[0]).(*ast.CompositeLit)
					if !ok || len(cl.Elts) != 0 {
						good = false
					}
				}
				return true
			})
		}
		c.Check(good && n >= 1, "R4", "trace|ParseTraceState|every error return carries TraceState{}", at(tx.M, fn.Pos()), itoa(n)+" error returns, all zero-valued", "a partially parsed tracestate is returned together with an error (and would be used by extract)")
	}

	c.Rule("R5", "E4 + E2", "flags masked with FlagsSampled in Inject and extract; Inject writes nothing for an invalid context; version is 00 and the version gates are as specified", 5)
	if fn := c.Fn(px, "R5", "TraceContext.Inject"); fn != nil {
		g := px.FG(fn)
		sets := g.Match(func(n ast.Node) bool {
			call, ok := n.(*ast.CallExpr)
			return ok && isCallTo(pinfo, call, "("+otelProp+".TextMapCarrier).Set")
		})
		good := len(sets) == 2
		for _, x := range sets {
			d, _ := g.DominatedByEdges(x, func(e *GEdge) bool {
				return edgeImplies(e, func(cnd ast.Expr, pol int) bool {
					call, ok := cnd.(*ast.CallExpr)
					return ok && pol > 0 && isCallTo(pinfo, call, "("+otelTrace+".SpanContext).IsValid")
				})
			})
			if !d {
				good = false
			}
		}
		c.Check(good, "R5", "propagation|TraceContext.Inject|carrier written only for a valid span context", at(px.M, fn.Pos()), "both Set calls dominated by sc.IsValid()", "headers are injected for an invalid span context")
		masked := false
		inspectNoLit(fn.Body(), func(nd ast.Node) bool {
			if be, ok := nd.(*ast.BinaryExpr); ok && be.Op == token.AND {
				if k := constObj(pinfo, be.Y); k != nil && k.Name() == "FlagsSampled" {
					if call, ok := unparen(be.X).(*ast.CallExpr); ok && isCallTo(pinfo, call, "("+otelTrace+".SpanContext).TraceFlags") {
						masked = true
					}
				}
			}
			return true
		})
		c.Check(masked, "R5", "propagation|TraceContext.Inject|flags = TraceFlags() & FlagsSampled", at(px.M, fn.Pos()), "only the sampled bit is propagated", "unspecified flag bits are propagated")
	}
	if fn := c.Fn(px, "R5", "TraceContext.extract"); fn != nil {
		// every store into TraceFlags is the masked value (or the constant zero of a failure path); at least one is masked
		masked, unmasked := false, false
		inspectNoLit(fn.Body(), func(nd ast.Node) bool {
			as, ok := nd.(*ast.AssignStmt)
			if !ok || len(as.Lhs) != len(as.Rhs) {
				return true
			}
			for i, l := range as.Lhs {
				fv, _ := fieldOf(pinfo, l)
				if fv == nil || fv.Name() != "TraceFlags" {
					continue
				}
				if z, isZ := constInt(pinfo, as.Rhs[i]); isZ && z == 0 {
					continue
				}
				isMasked := false
				if be, ok := unparen(as.Rhs[i]).(*ast.BinaryExpr); ok && be.Op == token.AND {
					if k := constObj(pinfo, be.Y); k != nil && k.Name() == "FlagsSampled" {
						isMasked = true
					}
					if k := constObj(pinfo, be.X); k != nil && k.Name() == "FlagsSampled" {
						isMasked = true
					}
				}
				if isMasked {
					masked = true
				} else {
					unmasked = true
				}
			}
			return true
		})
		masked = masked && !unmasked
		c.Check(masked, "R5", "propagation|TraceContext.extract|TraceFlags = flags & FlagsSampled", at(px.M, fn.Pos()), "only the sampled bit is kept", "unknown flag bits survive extraction")
		// version gates
		g := px.FG(fn)
		var verVar types.Object
		inspectNoLit(fn.Body(), func(nd ast.Node) bool {
			if as, ok := nd.(*ast.AssignStmt); ok && len(as.Lhs) == 1 {
				// the parsed version: an integer local defined as int(<byte array>[0]) — by shape, not by name
				if v, ok := objOf(pinfo, as.Lhs[0]).(*types.Var); ok && len(as.Rhs) == 1 && verVar == nil {
					if conv, isCall := unparen(as.Rhs[0]).(*ast.CallExpr); isCall && len(conv.Args) == 1 {
						if tv, has := pinfo.Types[conv.Fun]; has && tv.IsType() {
							if ie, isIdx := unparen(conv.Args[0]).(*ast.IndexExpr); isIdx {
								if z, isC := constInt(pinfo, ie.Index); isC && z == 0 {
									verVar = v
								}
							}
						}
					}
				}
			}
			return true
		})
		// variables that receive the parsed version unchanged (the result of a phase helper handed to the caller's variable)
		verAlias := map[types.Object]bool{}
		if verVar != nil {
			verAlias[verVar] = true
			for changed := true; changed; {
				changed = false
				inspectNoLit(fn.Body(), func(nd ast.Node) bool {
					if as, ok := nd.(*ast.AssignStmt); ok && len(as.Lhs) == len(as.Rhs) {
						for i, r := range as.Rhs {
							if o := objOf(pinfo, r); o != nil && verAlias[o] {
								if l := objOf(pinfo, as.Lhs[i]); l != nil && !verAlias[l] {
									verAlias[l] = true
									changed = true
								}
							}
						}
					}
					return true
				})
			}
		}
		isVer := func(e ast.Expr) bool {
			o := objOf(pinfo, e)
			return o != nil && verAlias[o]
		}
		good := verVar != nil
		if good {
			for _, row := range []struct {
				v   int64
				rej bool
			}{{255, true}, {254, false}, {0, false}} {
				env := func(e ast.Expr) (constant.Value, bool) {
					if isVer(e) {
						return constant.MakeInt64(row.v), true
					}
					if call, ok := e.(*ast.CallExpr); ok && callToDecl(pinfo, px.Func("extractPart"))(call) {
						return constant.MakeBool(true), true
					}
					return nil, false
				}
				seen := g.ReachUnder(env)
				nonzero := false
				for x := range seen {
					if rs, ok := x.N.(*ast.ReturnStmt); ok {
						if _, acc, known := ctxReturn(pinfo, rs); known && acc {
							nonzero = true
						}
					}
				}
				if nonzero == row.rej {
					good = false
				}
			}
		}
		c.Check(good, "R5", "propagation|TraceContext.extract|version 255 (ff) rejected, 0..254 not", at(px.M, fn.Pos()), "version gate as specified", "version gate differs from the specification (ff is invalid; higher versions must be parsed)")
		// version 0 with trailing data (or unknown flag bits) rejected: with version = 0 and "rest != \"\"" (resp. "flags > 2")
		// taken as true, no return of a non-zero span context is reachable
		v0 := verVar != nil
		for _, which := range []string{"trailing", "flags"} {
			env := func(e ast.Expr) (constant.Value, bool) {
				e = unparen(e)
				if isVer(e) {
					return constant.MakeInt64(0), true
				}
				if be, ok := e.(*ast.BinaryExpr); ok {
					if which == "trailing" && be.Op == token.NEQ {
						if s, isS := constString(pinfo, be.Y); isS && s == "" {
							if tv, has := pinfo.Types[be.X]; has && types.Identical(tv.Type.Underlying(), types.Typ[types.String]) {
								return constant.MakeBool(true), true
							}
						}
					}
					if which == "flags" && be.Op == token.GTR {
						if z, isC := constInt(pinfo, be.Y); isC && z == 2 {
							return constant.MakeBool(true), true
						}
					}
				}
				return nil, false
			}
			seen := g.ReachUnder(env)
			for x := range seen {
				if rs, ok := x.N.(*ast.ReturnStmt); ok {
					if _, acc, known := ctxReturn(pinfo, rs); known && acc {
						v0 = false
					}
				}
			}
		}
		c.Check(v0, "R5", "propagation|TraceContext.extract|version 00 with trailing data or unknown flag bits rejected", at(px.M, fn.Pos()), "strict parsing of the only known version", "a version-00 traceparent with extra fields (or flag bits above 2) is accepted")
	}
	{
		k, _ := px.Pkg.Types.Scope().Lookup("supportedVersion").(*types.Const)
		good := k != nil && constant.Compare(k.Val(), token.EQL, constant.MakeInt64(0))
		// versionPart = fmt.Sprintf("%.2X", supportedVersion)
		fmtOK := false
		for _, f := range px.Pkg.Syntax {
			ast.Inspect(f, func(n ast.Node) bool {
				if vs, ok := n.(*ast.ValueSpec); ok {
					for i, nm := range vs.Names {
						if nm.Name == "versionPart" && i < len(vs.Values) {
							if call, ok := unparen(vs.Values[i]).(*ast.CallExpr); ok && isCallTo(pinfo, call, "fmt.Sprintf") && len(call.Args) == 2 {
								s, _ := constString(pinfo, call.Args[0])
								fmtOK = (s == "%.2X" || s == "%02x" || s == "%02X" || s == "%.2x") && constObj(pinfo, call.Args[1]) == k
							}
							if s, ok := constString(pinfo, vs.Values[i]); ok && s == "00" {
								fmtOK = true
							}
						}
					}
				}
				return true
			})
		}
		c.Check(good && fmtOK, "R5", "propagation|versionPart|= \"00\"", at(px.M, px.Pkg.Syntax[0].Pos()), "two hex digits of version 0", "the injected version field is not 00")
	}
}

// c03Carriers (R6): the stock carriers' Set replaces the value for a key and Get reads it back (a Set that appends breaks Inject→Extract on a re-used carrier).
func c03Carriers(c *Ctx, px *PkgIndex) {
	info := px.Pkg.TypesInfo
	c.Rule("R6", "E4 callee identity", "stock carriers: Set replaces the value stored for a key (http.Header.Set / map assignment), Get reads that value", 4)
	callsOnly := func(fname, want string) {
		fn := c.Fn(px, "R6", fname)
		if fn == nil {
			return
		}
		var got []string
		inspectNoLit(fn.Body(), func(n ast.Node) bool {
			if call, ok := n.(*ast.CallExpr); ok {
				if cf := callee(info, call); cf != nil {
					got = append(got, cf.FullName())
				}
			}
			return true
		})
		c.Check(len(got) == 1 && got[0] == want, "R6", "propagation|"+fname+"|delegates to "+want, at(px.M, fn.Pos()), "replace / first-value semantics", fname+" calls "+strings.Join(got, ",")+" instead of "+want+": a header injected into a carrier that already holds one is appended, and Extract reads the stale first value")
	}
	callsOnly("HeaderCarrier.Set", "(net/http.Header).Set")
	callsOnly("HeaderCarrier.Get", "(net/http.Header).Get")
	if fn := c.Fn(px, "R6", "MapCarrier.Set"); fn != nil {
		sig := fn.Obj.Type().(*types.Signature)
		good := false
		inspectNoLit(fn.Body(), func(n ast.Node) bool {
			if as, ok := n.(*ast.AssignStmt); ok && len(as.Lhs) == 1 && len(as.Rhs) == 1 && as.Tok == token.ASSIGN {
				if ie, ok := unparen(as.Lhs[0]).(*ast.IndexExpr); ok && sameVar(info, ie.X, sig.Recv()) && sameVar(info, ie.Index, sig.Params().At(0)) && sameVar(info, as.Rhs[0], sig.Params().At(1)) {
					good = true
				}
			}
			return true
		})
		c.Check(good, "R6", "propagation|MapCarrier.Set|c[key] = value", at(px.M, fn.Pos()), "replace semantics", "MapCarrier.Set does not store the value under its key")
	}
	if fn := c.Fn(px, "R6", "MapCarrier.Get"); fn != nil {
		sig := fn.Obj.Type().(*types.Signature)
		good := false
		inspectNoLit(fn.Body(), func(n ast.Node) bool {
			if rs, ok := n.(*ast.ReturnStmt); ok && len(rs.Results) == 1 {
				if ie, ok := unparen(rs.Results[0]).(*ast.IndexExpr); ok && sameVar(info, ie.X, sig.Recv()) && sameVar(info, ie.Index, sig.Params().At(0)) {
					good = true
				}
			}
			return true
		})
		c.Check(good, "R6", "propagation|MapCarrier.Get|returns c[key]", at(px.M, fn.Pos()), "reads what Set stored", "MapCarrier.Get does not read the value stored under its key")
	}
}

// ruleTraceStateImmutable: alias-tracking write check for methods with a TraceState receiver/parameter.
func ruleTraceStateImmutable(c *Ctx, tx *PkgIndex, rule string) {
	info := tx.Pkg.TypesInfo
	fList := lookupField(tx.Pkg, "TraceState", "list")
	if fList == nil {
		c.Missing(rule, "trace.TraceState.list")
		return
	}
	n := 0
	for _, fn := range sortedFuncs(tx.Funcs) {
		// shared roots: x.list where x is not a fresh local
		uses := false
		inspectNoLit(fn.Body(), func(nd ast.Node) bool {
			if e, ok := nd.(ast.Expr); ok && isField(info, e, fList) {
				uses = true
			}
			return true
		})
		if !uses {
			continue
		}
		bad := sharedSliceWrites(tx, fn, func(e ast.Expr) bool {
			if isField(info, e, fList) {
				_, base := fieldOf(info, e)
				return !tx.freshLocal(fn, base)
			}
			return false
		})
		n++
		c.Analysed(fn)
		c.Check(len(bad) == 0, rule, "trace|"+fn.Name+"|no write through a shared TraceState list", at(tx.M, fn.Pos()), "all writes target fresh allocations",
			"a TraceState held by other span contexts is modified in place: "+joinStr(bad))
	}
	if n == 0 {
		c.Missing(rule, "functions using TraceState.list")
	}
}

// sharedSliceWrites lists the writes in fn that go through a slice rooted at a shared root (isRoot, asked of expressions
// with slicing/indexing stripped) or at a local alias of one: element stores, copy destinations, append first arguments
// (may write into the shared backing array), clear and in-place slices/sort operations. Locals become aliases by plain
// assignment of a rooted slice expression or of append(rooted, ...).
func sharedSliceWrites(tx *PkgIndex, fn *FuncInfo, isRoot func(ast.Expr) bool) []string {
	info := tx.Pkg.TypesInfo
	strip := func(e ast.Expr) ast.Expr {
		for {
			switch x := unparen(e).(type) {
			case *ast.SliceExpr:
				e = x.X
				continue
			case *ast.IndexExpr:
				e = x.X
				continue
			}
			return unparen(e)
		}
	}
	alias := map[types.Object]bool{}
	rooted := func(e ast.Expr) bool {
		b := strip(e)
		if isRoot(b) {
			return true
		}
		o := objOf(info, b)
		return o != nil && alias[o]
	}
	for changed := true; changed; {
		changed = false
		ast.Inspect(fn.Body(), func(nd ast.Node) bool {
			mark := func(l ast.Expr, r ast.Expr) {
				o := objOf(info, l)
				if o == nil || alias[o] {
					return
				}
				r = unparen(r)
				isAlias := false
				switch x := r.(type) {
				case *ast.SliceExpr, *ast.SelectorExpr, *ast.Ident, *ast.StarExpr:
					isAlias = rooted(r) && !isIndexOnly(r)
				case *ast.CallExpr:
					if builtinName(info, x) == "append" && len(x.Args) > 0 && rooted(x.Args[0]) {
						isAlias = true
					} else if isRoot(x) {
						isAlias = true
					}
				}
				if isAlias {
					alias[o] = true
					changed = true
				}
			}
			switch s := nd.(type) {
			case *ast.AssignStmt:
				if len(s.Lhs) == len(s.Rhs) {
					for i, l := range s.Lhs {
						mark(l, s.Rhs[i])
					}
				}
			case *ast.ValueSpec:
				if len(s.Names) == len(s.Values) {
					for i, nm := range s.Names {
						mark(nm, s.Values[i])
					}
				}
			}
			return true
		})
	}
	var bad []string
	ast.Inspect(fn.Body(), func(nd ast.Node) bool {
		switch s := nd.(type) {
		case *ast.AssignStmt:
			for _, l := range s.Lhs {
				if ie, ok := unparen(l).(*ast.IndexExpr); ok && rooted(ie.X) {
					bad = append(bad, "element store "+exprStr(l)+" at "+tx.M.posStr(l.Pos()))
				}
			}
		case *ast.CallExpr:
			switch builtinName(info, s) {
			case "copy":
				if len(s.Args) == 2 && rooted(s.Args[0]) {
					bad = append(bad, "copy into "+exprStr(s.Args[0])+" at "+tx.M.posStr(s.Pos()))
				}
			case "append":
				if len(s.Args) > 0 && rooted(s.Args[0]) {
					bad = append(bad, "append to "+exprStr(s.Args[0])+" (may write into the shared backing array) at "+tx.M.posStr(s.Pos()))
				}
			case "clear":
				if len(s.Args) == 1 && rooted(s.Args[0]) {
					bad = append(bad, "clear of shared list")
				}
			}
			if isCallTo(info, s, "slices.Delete") || isCallTo(info, s, "slices.Insert") || isCallTo(info, s, "sort.Slice") || isCallTo(info, s, "slices.Sort") || isCallTo(info, s, "slices.Reverse") {
				if len(s.Args) > 0 && rooted(s.Args[0]) {
					bad = append(bad, "in-place slices operation on the shared list at "+tx.M.posStr(s.Pos()))
				}
			}
		}
		return true
	})
	return bad
}

func isIndexOnly(e ast.Expr) bool {
	_, ok := unparen(e).(*ast.IndexExpr)
	return ok
}

// containsAnySet recognises a function body of the form `return strings.ContainsAny(v, "set")`, `return strings.IndexAny(v, "set") >= 0`
// or `!= -1` over parameter v and returns the set.
func containsAnySet(info *types.Info, fn *FuncInfo, v *types.Var) (string, bool) {
	body := fn.Body()
	if body == nil || len(body.List) != 1 {
		return "", false
	}
	rs, ok := body.List[0].(*ast.ReturnStmt)
	if !ok || len(rs.Results) != 1 {
		return "", false
	}
	e := unparen(rs.Results[0])
	setOf := func(call *ast.CallExpr, name string) (string, bool) {
		if !isCallTo(info, call, name) || len(call.Args) != 2 || !sameVar(info, call.Args[0], v) {
			return "", false
		}
		return constString(info, call.Args[1])
	}
	if call, ok := e.(*ast.CallExpr); ok {
		return setOf(call, "strings.ContainsAny")
	}
	if be, ok := e.(*ast.BinaryExpr); ok {
		if call, ok := unparen(be.X).(*ast.CallExpr); ok {
			if s, ok := setOf(call, "strings.IndexAny"); ok {
				z, isC := constInt(info, be.Y)
				if isC && ((be.Op == token.GEQ && z == 0) || (be.Op == token.NEQ && z == -1) || (be.Op == token.GTR && z == -1)) {
					return s, true
				}
			}
		}
	}
	return "", false
}

// idHelperValid (C03.R2): fn returns (id, err) with err := h(…, id[:], …, text, …). h returns nil only when the text has exactly
// n characters and the decoded id has a non-zero byte: every `return nil` of h is dominated by an edge implying
// len(text) == E with E folding to n once len(id) is the array length (hex.EncodedLen(k) = 2k), and by an edge implying that an
// element of the id is non-zero.
func idHelperValid(ix *PkgIndex, fn, h *FuncInfo, call *ast.CallExpr, id types.Object, n int64) (bool, string) {
	info := ix.Pkg.TypesInfo
	if id == nil {
		return false, "returned id is not a variable"
	}
	arr, isArr := id.Type().Underlying().(*types.Array)
	if !isArr {
		return false, "returned id is not an array"
	}
	hs := h.Obj.Type().(*types.Signature)
	var idParam, textParam *types.Var
	for i, a := range call.Args {
		if i >= hs.Params().Len() {
			break
		}
		if se, ok := unparen(a).(*ast.SliceExpr); ok && se.Low == nil && se.High == nil && sameVar(info, se.X, id) {
			idParam = hs.Params().At(i)
		}
		if v, ok := objOf(info, a).(*types.Var); ok && isParamOf(v, fn) {
			if b, isB := v.Type().Underlying().(*types.Basic); isB && b.Kind() == types.String {
				textParam = hs.Params().At(i)
			}
		}
	}
	if idParam == nil || textParam == nil || assignedIn(info, h.Body(), idParam) || assignedIn(info, h.Body(), textParam) {
		return false, "helper is not handed the id's storage and the text unchanged"
	}
	var env Env
	env = func(e ast.Expr) (constant.Value, bool) {
		c, ok := unparen(e).(*ast.CallExpr)
		if !ok || len(c.Args) != 1 {
			return nil, false
		}
		if builtinName(info, c) == "len" && sameVar(info, c.Args[0], idParam) {
			return constant.MakeInt64(arr.Len()), true
		}
		if isCallTo(info, c, "encoding/hex.EncodedLen") {
			if v, known := evalConst(info, c.Args[0], env); known && v.Kind() == constant.Int {
				return constant.BinaryOp(v, token.MUL, constant.MakeInt64(2)), true
			}
		}
		return nil, false
	}
	hg := ix.FG(h)
	// variables ranging over the id's bytes
	elems := map[types.Object]bool{}
	inspectNoLit(h.Body(), func(m ast.Node) bool {
		if r, ok := m.(*ast.RangeStmt); ok && r.Value != nil && sameVar(info, r.X, idParam) {
			elems[objOf(info, r.Value)] = true
		}
		return true
	})
	isElem := func(e ast.Expr) bool {
		if o := objOf(info, e); o != nil && elems[o] {
			return true
		}
		ie, ok := unparen(e).(*ast.IndexExpr)
		return ok && sameVar(info, ie.X, idParam)
	}
	nNil := 0
	for _, y := range hg.Nodes {
		rs, ok := y.N.(*ast.ReturnStmt)
		if !ok || len(rs.Results) != 1 || !isNilIdent(info, rs.Results[0]) {
			if ok && len(rs.Results) == 1 {
				// a returned error variable that may be nil without the tests: only under err != nil
				if v, isV := objOf(info, rs.Results[0]).(*types.Var); isV && !v.IsField() && v.Parent() != v.Pkg().Scope() {
					nn, _ := hg.DominatedByEdges(y, func(e *GEdge) bool {
						return edgeImplies(e, func(cnd ast.Expr, pol int) bool {
							isNN, ok := nilCmp(info, cnd, pol, func(z ast.Expr) bool { return sameVar(info, z, v) })
							return ok && isNN
						})
					})
					if !nn && !isParamOf(v, h) {
						return false, "helper returns an error variable that may be nil"
					}
				}
			}
			continue
		}
		nNil++
		dLen, _ := hg.DominatedByEdges(y, func(e *GEdge) bool {
			return edgeImplies(e, func(cnd ast.Expr, pol int) bool {
				l, op, r, ok := cmpNorm(cnd, pol)
				if !ok || op != token.EQL {
					return false
				}
				for _, pr := range [][2]ast.Expr{{l, r}, {r, l}} {
					if isLenOf(info, pr[0], func(z ast.Expr) bool { return sameVar(info, z, textParam) }) {
						if v, known := evalConst(info, pr[1], env); known && v.Kind() == constant.Int {
							if k, exact := constant.Int64Val(v); exact && k == n {
								return true
							}
						}
					}
				}
				return false
			})
		})
		dNZ, _ := hg.DominatedByEdges(y, func(e *GEdge) bool {
			return edgeImplies(e, func(cnd ast.Expr, pol int) bool {
				l, op, r, ok := cmpNorm(cnd, pol)
				if !ok || op != token.NEQ {
					return false
				}
				zl, isZl := constInt(info, l)
				zr, isZr := constInt(info, r)
				return (isElem(l) && isZr && zr == 0) || (isElem(r) && isZl && zl == 0)
			})
		})
		if !dLen || !dNZ {
			return false, "a nil return of the helper is not dominated by the length and non-zero tests"
		}
	}
	return nNil > 0, ""
}

// ctxReturn: a return of extract seen as (value, accepted?): the historical single-result form returns the zero SpanContext
// literal to reject; the (SpanContext, bool) form says so in its second result. known=false for any other shape.
func ctxReturn(info *types.Info, rs *ast.ReturnStmt) (val ast.Expr, accepted, known bool) {
	switch len(rs.Results) {
	case 1:
		if cl, ok := unparen(rs.Results[0]).(*ast.CompositeLit); ok && len(cl.Elts) == 0 {
			return rs.Results[0], false, true
		}
		return rs.Results[0], true, true
	case 2:
		tv, has := info.Types[rs.Results[1]]
		if !has || tv.Value == nil || tv.Value.Kind() != constant.Bool {
			return rs.Results[0], true, true // a computed flag: treated as possibly accepted
		}
		return rs.Results[0], constant.BoolVal(tv.Value), true
	}
	return nil, false, false
}

// ruleInsertCapacity: Insert keeps the list's length when it updates a member and evicts the right-most one only when a new
// key meets a full list, so whatever it decides by comparing a length with the 32-member bound has to know whether the key is
// already there. The rule is a dependence check, not arithmetic: every branch condition of Insert that compares against the
// bound must depend on the key — in the condition itself, in a condition it sits under, or through the list it measures
// (a list the key was already removed from). A bound test on the list as received, with nothing about the key, treats
// "update" and "insert" alike: it either evicts a member on an update or lets a new key grow a full list.
// Not decided: that the arithmetic of a key-aware decision is right.
func ruleInsertCapacity(c *Ctx, tx *PkgIndex, rule string) {
	fn := c.Fn(tx, rule, "TraceState.Insert")
	if fn == nil {
		return
	}
	info := tx.Pkg.TypesInfo
	sig := fn.Obj.Type().(*types.Signature)
	if sig.Params().Len() < 1 {
		c.Missing(rule, "TraceState.Insert(key, value)")
		return
	}
	key := types.Object(sig.Params().At(0))
	bound, _ := tx.Pkg.Types.Scope().Lookup("maxListMembers").(*types.Const)
	if bound == nil {
		c.Missing(rule, "trace.maxListMembers")
		return
	}
	g := tx.FG(fn)
	// what depends on the key: data (assigned from an expression that mentions it) and control (assigned under a condition
	// that mentions it, or after a jump taken under one)
	// three kinds of dependence: on the key (K), on the receiver's list (L), and on whether the key is IN the list (M): an
	// expression that looks at both the key and the list (ts.list[i].Key == key, ts.Delete(key), old.Key != key with old ranging
	// over the list), or at something that already is M. Only M makes a capacity decision aware; checking the key's syntax does not.
	kset := map[types.Object]bool{key: true}
	lset := map[types.Object]bool{}
	if r := sig.Recv(); r != nil {
		lset[r] = true
	}
	dep := map[types.Object]bool{}
	capv := map[types.Object]bool{bound: true}
	mentions := func(e ast.Node, set map[types.Object]bool) bool {
		if e == nil {
			return false
		}
		hit := false
		ast.Inspect(e, func(n ast.Node) bool {
			if id, ok := n.(*ast.Ident); ok {
				if o := info.Uses[id]; o != nil && set[o] {
					hit = true
				}
			}
			return !hit
		})
		return hit
	}
	isM := func(e ast.Node) bool {
		return e != nil && (mentions(e, dep) || (mentions(e, kset) && mentions(e, lset)))
	}
	type site struct {
		cond  ast.Expr
		under bool
		body  ast.Stmt
		pos   token.Pos
	}
	var sites []site
	changed := true
	// walk returns what jumps the statements may take under a membership-dependent condition: 1 = break/continue (what follows
	// inside the enclosing loop is then control-dependent), 2 = return or a labelled jump (everything that follows is)
	var walk func(list []ast.Stmt, under bool, collect bool) int
	mark := func(l ast.Expr, set map[types.Object]bool) {
		for {
			switch x := unparen(l).(type) {
			case *ast.IndexExpr:
				l = x.X
				continue
			case *ast.SliceExpr:
				l = x.X
				continue
			case *ast.StarExpr:
				l = x.X
				continue
			case *ast.SelectorExpr:
				if _, isF := info.Uses[x.Sel].(*types.Var); isF {
					l = x.X
					continue
				}
			}
			break
		}
		if o := objOf(info, l); o != nil && !set[o] {
			if v, isV := o.(*types.Var); isV && !v.IsField() {
				set[o] = true
				changed = true
			}
		}
	}
	walk = func(list []ast.Stmt, under bool, collect bool) int {
		jumped := 0
		note := func(j int) {
			if j > jumped {
				jumped = j
			}
			if j > 0 {
				under = true
			}
		}
		for _, st := range list {
			switch s := st.(type) {
			case *ast.BranchStmt:
				if under {
					if s.Label != nil || s.Tok == token.GOTO {
						note(2)
					} else {
						note(1)
					}
				}
			case *ast.ReturnStmt:
				if under {
					note(2)
				}
			case *ast.AssignStmt:
				for i, l := range s.Lhs {
					var r ast.Node
					if len(s.Lhs) == len(s.Rhs) {
						r = s.Rhs[i]
					} else if len(s.Rhs) == 1 {
						r = s.Rhs[0]
					}
					if under || isM(r) {
						mark(l, dep)
					}
					if mentions(r, kset) {
						mark(l, kset)
					}
					if mentions(r, lset) {
						mark(l, lset)
					}
					if mentions(r, capv) && (s.Tok == token.DEFINE || s.Tok == token.ASSIGN) {
						mark(l, capv)
					}
				}
			case *ast.IncDecStmt:
				if under {
					mark(s.X, dep)
				}
			case *ast.DeclStmt:
				ast.Inspect(s, func(n ast.Node) bool {
					if vs, ok := n.(*ast.ValueSpec); ok {
						for i, nm := range vs.Names {
							if i < len(vs.Values) {
								if under || isM(vs.Values[i]) {
									mark(nm, dep)
								}
								if mentions(vs.Values[i], kset) {
									mark(nm, kset)
								}
								if mentions(vs.Values[i], lset) {
									mark(nm, lset)
								}
								if mentions(vs.Values[i], capv) {
									mark(nm, capv)
								}
							} else if under {
								mark(nm, dep)
							}
						}
					}
					return true
				})
			case *ast.ExprStmt:
				// copy(dst, src) under the key's control (or of key-dependent data) changes what dst holds
				if call, ok := s.X.(*ast.CallExpr); ok && len(call.Args) > 0 && builtinName(info, call) == "copy" {
					if under || isM(call) {
						mark(call.Args[0], dep)
					}
					if mentions(call, lset) {
						mark(call.Args[0], lset)
					}
				}
			case *ast.BlockStmt:
				note(walk(s.List, under, collect))
			case *ast.IfStmt:
				if s.Init != nil {
					walk([]ast.Stmt{s.Init}, under, collect)
				}
				u := under || isM(s.Cond)
				if collect {
					sites = append(sites, site{s.Cond, under, s.Body, s.Pos()})
				}
				j := walk(s.Body.List, u, collect)
				if s.Else != nil {
					if j2 := walk([]ast.Stmt{s.Else}, u, collect); j2 > j {
						j = j2
					}
				}
				note(j)
			case *ast.ForStmt:
				if s.Init != nil {
					walk([]ast.Stmt{s.Init}, under, collect)
				}
				u := under || isM(s.Cond)
				if collect && s.Cond != nil {
					sites = append(sites, site{s.Cond, under, s.Body, s.Pos()})
				}
				// a jump under the key's control inside the body makes the whole body (its next iterations) dependent
				if walk(s.Body.List, u, false) > 0 {
					u = true
				}
				j := walk(s.Body.List, u, collect)
				if s.Post != nil {
					walk([]ast.Stmt{s.Post}, u, collect)
				}
				if j == 2 {
					note(2)
				}
			case *ast.RangeStmt:
				u := under || isM(s.X)
				for _, kv := range []ast.Expr{s.Key, s.Value} {
					if kv == nil {
						continue
					}
					if u {
						mark(kv, dep)
					}
					if mentions(s.X, lset) {
						mark(kv, lset)
					}
					if mentions(s.X, kset) {
						mark(kv, kset)
					}
				}
				if walk(s.Body.List, u, false) > 0 {
					u = true
					// the loop variables stop where the key was met
					for _, kv := range []ast.Expr{s.Key, s.Value} {
						if kv != nil && s.Tok == token.ASSIGN {
							mark(kv, dep)
						}
					}
				}
				if walk(s.Body.List, u, collect) == 2 {
					note(2)
				}
			case *ast.SwitchStmt:
				if s.Init != nil {
					walk([]ast.Stmt{s.Init}, under, collect)
				}
				for _, cl := range s.Body.List {
					cc := cl.(*ast.CaseClause)
					u := under || isM(s.Tag)
					for _, e := range cc.List {
						u = u || isM(e) || (s.Tag != nil && isM(&ast.BinaryExpr{X: s.Tag, Op: token.EQL, Y: e}))
						if collect {
							sites = append(sites, site{e, under || isM(s.Tag), &ast.BlockStmt{List: cc.Body}, e.Pos()})
						}
					}
					// break inside a switch leaves the switch only
					if walk(cc.Body, u, collect) == 2 {
						note(2)
					}
				}
			case *ast.LabeledStmt:
				note(walk([]ast.Stmt{s.Stmt}, under, collect))
			}
		}
		return jumped
	}
	for round := 0; changed && round < 12; round++ {
		changed = false
		walk(fn.Body().List, false, false)
	}
	sites = nil
	walk(fn.Body().List, false, true)
	// a condition held in a local (full := len(ts.list) >= maxListMembers) is judged where it is tested, with its definition in view
	var expand func(e ast.Expr, d int) []ast.Expr
	expand = func(e ast.Expr, d int) []ast.Expr {
		out := []ast.Expr{e}
		if d > 3 {
			return out
		}
		ast.Inspect(e, func(n ast.Node) bool {
			if id, ok := n.(*ast.Ident); ok {
				if o, isV := info.Uses[id].(*types.Var); isV && !o.IsField() {
					if def := g.LocalDef(o); def != nil {
						out = append(out, expand(def, d+1)...)
					}
				}
			}
			return true
		})
		return out
	}
	n := 0
	for _, s := range sites {
		parts := expand(s.cond, 0)
		isCap := false
		for _, p := range parts {
			ast.Inspect(p, func(m ast.Node) bool {
				if be, ok := m.(*ast.BinaryExpr); ok {
					switch be.Op {
					case token.LSS, token.LEQ, token.GTR, token.GEQ, token.EQL, token.NEQ:
						if mentions(be.X, capv) || mentions(be.Y, capv) {
							isCap = true
						}
					}
				}
				return true
			})
		}
		if !isCap {
			continue
		}
		n++
		aware := s.under
		kk, ll := false, false
		for _, p := range parts {
			aware = aware || mentions(p, dep)
			kk = kk || mentions(p, kset)
			ll = ll || mentions(p, lset)
		}
		aware = aware || (kk && ll)
		// a plain rejection (if len(…) > max { return …, err }) decides nothing about eviction
		if !aware {
			if blk, ok := s.body.(*ast.BlockStmt); ok && len(blk.List) == 1 {
				if rs, isR := blk.List[0].(*ast.ReturnStmt); isR && len(rs.Results) >= 1 {
					if tv, has := info.Types[rs.Results[len(rs.Results)-1]]; has && !tv.IsNil() && types.Implements(tv.Type, errorIface()) {
						aware = true
					}
				}
			}
		}
		c.Check(aware, rule, "trace|TraceState.Insert|capacity decision #"+itoa(n)+" knows whether the key is already a member", at(tx.M, s.pos), exprStr(s.cond),
			"Insert compares against the "+itoa(int(constInt64(bound)))+"-member bound ("+exprStr(s.cond)+") with nothing that depends on whether the key is already a member: an update of an existing key on a full list is treated like the insertion of a new one (a member is evicted although the list keeps its length), or a new key is let into a full list")
	}
	if n == 0 {
		// the bound may also be applied without a branch (copy into a destination sized min(n+1, max)): nothing to judge here
		c.OK(rule, "trace|TraceState.Insert|capacity decisions", at(tx.M, fn.Pos()), "no branch compares against the bound")
	}
}

func errorIface() *types.Interface {
	return types.Universe.Lookup("error").Type().Underlying().(*types.Interface)
}

func constInt64(k *types.Const) int64 {
	v, _ := constant.Int64Val(constant.ToInt(k.Val()))
	return v
}

// ruleInsertFront: "the new or updated list-member is always moved to the beginning": every successful return of Insert hands
// back a TraceState whose list starts with the member built from (key, value) — a literal whose first element it is, or a
// fresh value/slice into whose index 0 (or first append) it was stored on every way to the return. Handing back the receiver
// is right only where it is known to start with that very member already (first key equals key, value equals value).
func ruleInsertFront(c *Ctx, tx *PkgIndex, rule string) {
	fn := tx.Func("TraceState.Insert")
	fList := lookupField(tx.Pkg, "TraceState", "list")
	if fn == nil || fList == nil {
		return
	}
	info := tx.Pkg.TypesInfo
	sig := fn.Obj.Type().(*types.Signature)
	if sig.Params().Len() != 2 || sig.Results().Len() != 2 {
		return
	}
	keyP, valP := sig.Params().At(0), sig.Params().At(1)
	g := tx.FG(fn)
	fromKV := func(call *ast.CallExpr) bool {
		k, v := false, false
		for _, a := range call.Args {
			k = k || sameVar(info, a, keyP)
			v = v || sameVar(info, a, valP)
		}
		return k && v
	}
	var isNew func(e ast.Expr, d int) bool
	isNew = func(e ast.Expr, d int) bool {
		e = unparen(e)
		switch x := e.(type) {
		case *ast.CompositeLit:
			k, v := false, false
			for _, el := range x.Elts {
				if kv, ok := el.(*ast.KeyValueExpr); ok {
					el = kv.Value
				}
				k = k || sameVar(info, el, keyP)
				v = v || sameVar(info, el, valP)
			}
			return k && v
		case *ast.CallExpr:
			return fromKV(x)
		case *ast.Ident:
			o := info.Uses[x]
			if o == nil || d > 3 {
				return false
			}
			if def := g.LocalDef(o); def != nil {
				return isNew(def, d+1)
			}
			if td, has := g.tupleDefs()[o]; has && td.i == 0 {
				return fromKV(td.call)
			}
		}
		return false
	}
	isZero := func(e ast.Expr) bool { v, ok := constInt(info, e); return ok && v == 0 }
	// frontStores(path): vertices after which the slice denoted by path starts with the new member
	frontStores := func(isSlice func(ast.Expr) bool) map[*GNode]bool {
		appends := g.Match(func(n ast.Node) bool {
			as, ok := n.(*ast.AssignStmt)
			if !ok || len(as.Lhs) != 1 || len(as.Rhs) != 1 || !isSlice(as.Lhs[0]) {
				return false
			}
			call, isC := unparen(as.Rhs[0]).(*ast.CallExpr)
			return isC && builtinName(info, call) == "append"
		})
		out := map[*GNode]bool{}
		for _, x := range g.Nodes {
			as, ok := x.N.(*ast.AssignStmt)
			if !ok || len(as.Lhs) != 1 || len(as.Rhs) != 1 {
				continue
			}
			if ie, isIx := unparen(as.Lhs[0]).(*ast.IndexExpr); isIx && isSlice(ie.X) && isZero(ie.Index) && isNew(as.Rhs[0], 0) {
				out[x] = true
				continue
			}
			if !isSlice(as.Lhs[0]) {
				continue
			}
			switch r := unparen(as.Rhs[0]).(type) {
			case *ast.CompositeLit:
				if len(r.Elts) >= 1 && isNew(r.Elts[0], 0) {
					out[x] = true
				}
			case *ast.CallExpr:
				if builtinName(info, r) == "append" && len(r.Args) >= 2 && isNew(r.Args[1], 0) {
					// the first append into an empty slice: no other append comes before it, and what it extends is empty
					first := true
					for _, a := range appends {
						if a == x {
							continue
						}
						if s, _ := g.Reach([]*GNode{a}, nil, nil); s[x] {
							first = false
						}
					}
					base := unparen(r.Args[0])
					empty := false
					if cl, isCL := base.(*ast.CompositeLit); isCL && len(cl.Elts) == 0 {
						empty = true
					}
					if mk, isMk := base.(*ast.CallExpr); isMk && builtinName(info, mk) == "make" && len(mk.Args) >= 2 && isZero(mk.Args[1]) {
						empty = true
					}
					if isSlice(base) {
						// extends itself: empty when its only earlier definition is an empty make/literal or the zero value
						empty = true
						for _, y := range g.Nodes {
							as2, ok2 := y.N.(*ast.AssignStmt)
							if !ok2 || y == x || len(as2.Lhs) != len(as2.Rhs) {
								continue
							}
							for i, l := range as2.Lhs {
								if !isSlice(l) {
									continue
								}
								d := unparen(as2.Rhs[i])
								okDef := false
								if cl, isCL := d.(*ast.CompositeLit); isCL && len(cl.Elts) == 0 {
									okDef = true
								}
								if mk, isMk := d.(*ast.CallExpr); isMk && builtinName(info, mk) == "make" && len(mk.Args) >= 2 && isZero(mk.Args[1]) {
									okDef = true
								}
								if s, _ := g.Reach([]*GNode{y}, nil, nil); s[x] && !okDef {
									empty = false
								}
							}
						}
					}
					if first && empty {
						out[x] = true
					}
				}
			}
		}
		return out
	}
	n := 0
	for _, x := range g.Nodes {
		rs, ok := x.N.(*ast.ReturnStmt)
		if !ok || len(rs.Results) != 2 {
			continue
		}
		if id, isID := unparen(rs.Results[1]).(*ast.Ident); !isID || id.Name != "nil" {
			continue
		}
		n++
		key := "trace|TraceState.Insert|successful return #" + itoa(n) + " starts with the inserted member"
		site := at(tx.M, rs.Pos())
		msg := "Insert can succeed with a tracestate that does not start with the inserted list-member: the newest member is not moved to the front (vendors read their own entry left-most; truncation downstream drops from the right)"
		// the list expression of the returned value
		var listOf func(e ast.Expr, d int) (good, decided bool)
		sliceFront := func(le ast.Expr) (bool, bool) {
			le = unparen(le)
			if cl, isCL := le.(*ast.CompositeLit); isCL {
				return len(cl.Elts) >= 1 && isNew(cl.Elts[0], 0), true
			}
			if so := objOf(info, le); so != nil {
				if _, isID := le.(*ast.Ident); isID && definedIn(info, fn.Body(), so) {
					fs := frontStores(func(e ast.Expr) bool { id, isID := unparen(e).(*ast.Ident); return isID && info.ObjectOf(id) == so })
					d, _ := g.DominatedByNodes(x, fs)
					return d && len(fs) > 0, true
				}
			}
			if call, isC := le.(*ast.CallExpr); isC && builtinName(info, call) == "append" && len(call.Args) >= 2 {
				if cl, isCL := unparen(call.Args[0]).(*ast.CompositeLit); isCL {
					if len(cl.Elts) >= 1 {
						return isNew(cl.Elts[0], 0), true
					}
					return isNew(call.Args[1], 0), true
				}
				if mk, isMk := unparen(call.Args[0]).(*ast.CallExpr); isMk && builtinName(info, mk) == "make" && len(mk.Args) >= 2 && isZero(mk.Args[1]) {
					return isNew(call.Args[1], 0), true
				}
			}
			return false, false
		}
		listOf = func(e ast.Expr, d int) (bool, bool) {
			e = unparen(e)
			switch y := e.(type) {
			case *ast.CompositeLit:
				for _, el := range y.Elts {
					if kv, isKV := el.(*ast.KeyValueExpr); isKV {
						if fv, _ := info.Uses[kv.Key.(*ast.Ident)].(*types.Var); fv != nil && fv.Origin() == fList.Origin() {
							return sliceFront(kv.Value)
						}
					}
				}
				return false, true // a literal without a list is empty
			case *ast.Ident:
				o := info.Uses[y]
				if o == nil {
					return false, false
				}
				if o == types.Object(fn.Recv()) {
					// the receiver as it is: only where it is known to start with this very member
					firstKey, sameVal := false, false
					eq := func(cnd ast.Expr, pol int, pred func(l, r ast.Expr) bool) bool {
						l, op, r, ok := cmpNorm(cnd, pol)
						return ok && op == token.EQL && (pred(l, r) || pred(r, l))
					}
					d1, _ := g.DominatedByEdges(x, func(ed *GEdge) bool {
						return g.edgeImpliesDeep(ed, func(cnd ast.Expr, pol int) bool {
							return eq(cnd, pol, func(l, r ast.Expr) bool {
								// ts.list[0].Key == key, or <index of the match> == 0
								if sameVar(info, r, keyP) {
									if se, isSel := unparen(l).(*ast.SelectorExpr); isSel && se.Sel.Name == "Key" {
										if ie, isIx := unparen(se.X).(*ast.IndexExpr); isIx && isZero(ie.Index) && isField(info, ie.X, fList) {
											return true
										}
									}
								}
								if isZero(r) {
									if lo := objOf(info, l); lo != nil && definedIn(info, fn.Body(), lo) {
										if b, isB := lo.Type().Underlying().(*types.Basic); isB && b.Info()&types.IsInteger != 0 {
											return true
										}
									}
								}
								return false
							})
						})
					})
					firstKey = d1
					d2, _ := g.DominatedByEdges(x, func(ed *GEdge) bool {
						return g.edgeImpliesDeep(ed, func(cnd ast.Expr, pol int) bool {
							return eq(cnd, pol, func(l, r ast.Expr) bool {
								if !sameVar(info, r, valP) {
									return false
								}
								se, isSel := unparen(l).(*ast.SelectorExpr)
								return isSel && se.Sel.Name == "Value"
							})
						})
					})
					sameVal = d2
					return firstKey && sameVal, true
				}
				if !definedIn(info, fn.Body(), o) || d > 2 {
					return false, false
				}
				// a local TraceState: its list field starts with the new member on every way here
				fs := frontStores(func(e ast.Expr) bool {
					if !isField(info, e, fList) {
						return false
					}
					_, base := fieldOf(info, e)
					return base != nil && objOf(info, base) == o
				})
				// … or it was defined by a literal that does
				for _, yn := range g.Nodes {
					if as, isAs := yn.N.(*ast.AssignStmt); isAs && len(as.Lhs) == len(as.Rhs) {
						for i, l := range as.Lhs {
							if id, isID := unparen(l).(*ast.Ident); isID && info.ObjectOf(id) == o {
								if gd, dec := listOf(as.Rhs[i], d+1); dec && gd {
									// valid only if nothing re-slices the list afterwards; stores into index 0 are judged above
									fs[yn] = true
								}
							}
						}
					}
				}
				dm, _ := g.DominatedByNodes(x, fs)
				return dm && len(fs) > 0, true
			}
			return false, false
		}
		good, decided := listOf(rs.Results[0], 0)
		if !decided {
			c.Undecided(rule, key, site, "the returned tracestate is not a form whose first member can be read off: "+exprStr(rs.Results[0]))
			continue
		}
		c.Check(good, rule, key, site, "list[0] is the member built from (key, value)", msg)
	}
	if n == 0 {
		c.Undecided(rule, "trace|TraceState.Insert|successful returns", at(tx.M, fn.Pos()), "no `return …, nil` found in Insert")
	}
}

// ruleInsertLookupKey: "each key once" after an edit. Insert and Delete find the member to replace by comparing stored keys with a
// key of their own; that key is the one the new member is stored under — the Key of the member newMember built, or the caller's
// argument provided newMember stores its argument unchanged. A constructor that normalises the key (trims, folds case) while the
// search still uses the caller's spelling misses the existing member and the list gets the key twice.
func ruleInsertLookupKey(c *Ctx, tx *PkgIndex, rule string) {
	info := tx.Pkg.TypesInfo
	ins := c.Fn(tx, rule, "TraceState.Insert")
	nm := tx.Func("newMember")
	if ins == nil {
		return
	}
	sig := ins.Obj.Type().(*types.Signature)
	if sig.Params().Len() < 1 {
		return
	}
	keyParam := sig.Params().At(0)
	// does newMember store its key argument as given?
	verbatim, why := true, ""
	if nm != nil {
		nsig := nm.Obj.Type().(*types.Signature)
		if nsig.Params().Len() >= 1 {
			kp := nsig.Params().At(0)
			if assignedIn(info, nm.Body(), kp) {
				verbatim, why = false, "newMember re-assigns its key parameter before storing it"
			}
			inspectNoLit(nm.Body(), func(n ast.Node) bool {
				cl, ok := n.(*ast.CompositeLit)
				if !ok {
					return true
				}
				if nn := namedOf(info.TypeOf(cl)); nn == nil || nn.Obj().Name() != "member" {
					return true
				}
				for i, el := range cl.Elts {
					var val ast.Expr
					if kv, isKV := el.(*ast.KeyValueExpr); isKV {
						if id, isID := kv.Key.(*ast.Ident); isID && id.Name == "Key" {
							val = kv.Value
						}
					} else if i == 0 {
						val = el
					}
					if val != nil && !sameVar(info, val, kp) {
						verbatim, why = false, "newMember stores "+exprStr(val)+" as the key"
					}
				}
				return true
			})
		}
	}
	// the member built for this call
	var built types.Object
	inspectNoLit(ins.Body(), func(n ast.Node) bool {
		if as, ok := n.(*ast.AssignStmt); ok && len(as.Rhs) == 1 && len(as.Lhs) >= 1 {
			if call, ok := unparen(as.Rhs[0]).(*ast.CallExpr); ok && nm != nil && callToDecl(info, nm)(call) {
				built = objOf(info, as.Lhs[0])
			}
		}
		return true
	})
	n, bad := 0, ""
	var badPos token.Pos
	inspectNoLit(ins.Body(), func(nd ast.Node) bool {
		be, ok := nd.(*ast.BinaryExpr)
		if !ok || (be.Op != token.EQL && be.Op != token.NEQ) {
			return true
		}
		for _, pair := range [][2]ast.Expr{{be.X, be.Y}, {be.Y, be.X}} {
			fv, base := fieldOf(info, pair[0])
			if fv == nil || fv.Name() != "Key" || base == nil {
				continue
			}
			if built != nil && sameVar(info, base, built) {
				continue // the other side is judged below
			}
			// pair[0] is a stored member's key; pair[1] is what it is compared with
			other := unparen(pair[1])
			n++
			if fo, bo := fieldOf(info, other); fo != nil && fo.Name() == "Key" && built != nil && sameVar(info, bo, built) {
				continue // compared with the key the new member is stored under
			}
			if sameVar(info, other, keyParam) {
				if !verbatim {
					bad, badPos = "the search compares stored keys with the caller's argument while "+why, be.Pos()
				}
				continue
			}
			bad, badPos = "the search compares stored keys with "+exprStr(other)+", which is neither the new member's key nor the key argument", be.Pos()
		}
		return true
	})
	if n == 0 {
		return // the search is delegated (judged where it lives) or written in a form this rule does not read
	}
	pos := ins.Pos()
	if bad != "" {
		pos = badPos
	}
	c.Check(bad == "", rule, "trace|TraceState.Insert|the member to replace is looked up by the key the new member is stored under", at(tx.M, pos), itoa(n)+" comparison(s) with the stored spelling of the key",
		"an existing member is missed and the key ends up in the list twice (the tracestate no longer re-parses): "+bad)
}

// ruleParseDupKey: "at most 32 unique members" on the parsing side. ParseTraceState rejects a repeated key by looking each
// member's key up among those seen so far; the key it looks up and records is the key of the member it stores (m.Key, after
// whatever trimming the member parser does) — a set keyed by the raw text cut from the header treats "foo" and " foo" as two
// keys and lets the key in twice.
func ruleParseDupKey(c *Ctx, tx *PkgIndex, rule string) {
	info := tx.Pkg.TypesInfo
	fn := c.Fn(tx, rule, "ParseTraceState")
	if fn == nil {
		return
	}
	// members built in this function: variables of type member
	isMemberKey := func(e ast.Expr) bool {
		fv, b := fieldOf(info, e)
		if fv == nil || fv.Name() != "Key" || b == nil {
			return false
		}
		nn := namedOf(info.TypeOf(b))
		return nn != nil && nn.Obj().Name() == "member"
	}
	n, bad := 0, ""
	var badPos token.Pos
	inspectNoLit(fn.Body(), func(nd ast.Node) bool {
		switch x := nd.(type) {
		case *ast.IndexExpr:
			tv, ok := info.Types[x.X]
			if !ok {
				return true
			}
			if mp, isMap := tv.Type.Underlying().(*types.Map); isMap {
				if b, isB := mp.Key().Underlying().(*types.Basic); isB && b.Info()&types.IsString != 0 {
					if v, isV := objOf(info, x.X).(*types.Var); isV && !v.IsField() {
						n++
						if !isMemberKey(x.Index) {
							bad, badPos = "the set of seen keys is indexed with "+exprStr(x.Index), x.Pos()
						}
					}
				}
			}
		}
		return true
	})
	if n == 0 {
		return // the look-up is written another way (a scan over the collected members compares their stored keys by construction)
	}
	pos := fn.Pos()
	if bad != "" {
		pos = badPos
	}
	c.Check(bad == "", rule, "trace|ParseTraceState|duplicates are detected on the key the member is stored under", at(tx.M, pos), itoa(n)+" access(es) of the seen-set, all by a member's Key",
		"a key that differs from an earlier one only in the optional whitespace the member parser strips is not recognised as a duplicate: the tracestate holds the key twice — "+bad)
}

// indexedOverAll: every element access over[...] in fn sits in a loop `for i := 0; i < len(over); i++` (or `for i := range over` /
// `range len(over)`) and is indexed by that loop's variable, which the body does not assign: the loop visits every element.
func indexedOverAll(fn *FuncInfo, over types.Object) bool {
	info := fn.Info()
	loopVars := map[types.Object]ast.Stmt{}
	inspectNoLit(fn.Body(), func(n ast.Node) bool {
		switch s := n.(type) {
		case *ast.ForStmt:
			as, ok := s.Init.(*ast.AssignStmt)
			if !ok || as.Tok != token.DEFINE || len(as.Lhs) != 1 || len(as.Rhs) != 1 {
				return true
			}
			if z, isC := constInt(info, as.Rhs[0]); !isC || z != 0 {
				return true
			}
			iv := objOf(info, as.Lhs[0])
			inc, ok := s.Post.(*ast.IncDecStmt)
			if iv == nil || !ok || inc.Tok != token.INC || !sameVar(info, inc.X, iv) {
				return true
			}
			l, op, r, ok := cmpNorm(s.Cond, +1)
			if !ok || op != token.LSS || !sameVar(info, l, iv) || !isLenOf(info, r, func(e ast.Expr) bool { return sameVar(info, e, over) }) {
				return true
			}
			if assignedIn(info, s.Body, iv) {
				return true
			}
			loopVars[iv] = s
		case *ast.RangeStmt:
			if s.Key == nil || s.Tok != token.DEFINE {
				return true
			}
			okX := sameVar(info, s.X, over) || isLenOf(info, s.X, func(e ast.Expr) bool { return sameVar(info, e, over) })
			if iv := objOf(info, s.Key); okX && iv != nil && !assignedIn(info, s.Body, iv) {
				loopVars[iv] = s
			}
		}
		return true
	})
	n, good := 0, true
	inspectNoLit(fn.Body(), func(nd ast.Node) bool {
		if ie, ok := nd.(*ast.IndexExpr); ok && sameVar(info, ie.X, over) {
			n++
			loop, isLoopVar := loopVars[objOf(info, ie.Index)]
			if !isLoopVar || !(loop.Pos() <= ie.Pos() && ie.End() <= loop.End()) {
				good = false
			}
		}
		return true
	})
	return n > 0 && good
}
