package main

import (
	"go/ast"
	"go/constant"
	"go/token"
	"go/types"
	"strings"
)

const (
	otelAttr    = "go.opentelemetry.io/otel/attribute"
	otelAttrInt = "go.opentelemetry.io/otel/attribute/internal"
)

func init() {
	register(&PropDoc{
		ID:         "C05",
		Modules:    []string{"."},
		NotDecided: "the backward de-duplication swap loop, MergeIterator, encoders, 'no input value is lost' — index arithmetic and algorithms over arbitrary slices.",
		Fn:         c05,
	})
}

func hasFloat(t types.Type, depth int) bool {
	if depth > 6 {
		return false
	}
	switch x := t.Underlying().(type) {
	case *types.Basic:
		return x.Info()&(types.IsFloat|types.IsComplex) != 0
	case *types.Array:
		return hasFloat(x.Elem(), depth+1)
	case *types.Struct:
		for i := 0; i < x.NumFields(); i++ {
			if hasFloat(x.Field(i).Type(), depth+1) {
				return true
			}
		}
	}
	return false
}

func c05(c *Ctx) {
	ax := c.Index(".", otelAttr)
	ix := c.Index(".", otelAttrInt)
	if ax == nil || ix == nil {
		return
	}
	ainfo := ax.Pkg.TypesInfo

	c.Rule("R1", "types (reflexive identity)", "every dynamic type stored behind Distinct.iface / Value.slice has reflexive ==: no floating-point element types in reflect.ArrayOf, scalar floats stored as bits, no float field in Value/KeyValue; slice values are stored as arrays of exactly len(slice) elements", 11)
	for _, px := range []*PkgIndex{ix, ax} {
		info := px.Pkg.TypesInfo
		for _, s := range px.FindCalls(func(f *FuncInfo, call *ast.CallExpr) bool {
			return isCallTo(info, call, "reflect.ArrayOf") && len(call.Args) == 2
		}) {
			call := s.N.(*ast.CallExpr)
			outer := px.Outer(s.F)
			c.Analysed(outer)
			key := shortPkg(px.Pkg.PkgPath) + "|" + outer.Name + "|reflect.ArrayOf element type has reflexive =="
			// element type: reflect.TypeOf(x) → static type of x; or a package-level var initialised with reflect.TypeOf(T{})
			var et types.Type
			arg := unparen(call.Args[1])
			resolve := func(e ast.Expr) types.Type {
				if tc, ok := unparen(e).(*ast.CallExpr); ok && isCallTo(info, tc, "reflect.TypeOf") && len(tc.Args) == 1 {
					return info.Types[tc.Args[0]].Type
				}
				return nil
			}
			et = resolve(arg)
			if et == nil {
				if v, ok := objOf(info, arg).(*types.Var); ok {
					for _, f := range px.Pkg.Syntax {
						ast.Inspect(f, func(n ast.Node) bool {
							if vs, ok := n.(*ast.ValueSpec); ok {
								for i, nm := range vs.Names {
									if info.Defs[nm] == v && i < len(vs.Values) {
										et = resolve(vs.Values[i])
									}
								}
							}
							return true
						})
					}
				}
			}
			if et == nil {
				c.Undecided("R1", key, px.at(s), "cannot determine the array element type "+exprStr(arg))
				continue
			}
			c.Check(!hasFloat(et, 0), "R1", key, px.at(s), "element type "+et.String(),
				"array of "+et.String()+" is compared with ==, which is not reflexive for NaN: a Set holding such a value is not equal to itself and is never found again as a map key")
			// the array holds exactly the slice's elements: its length is len(<the slice parameter>) (cap() pads with zero values,
			// a constant cuts or pads) — same in all sibling constructors
			if outer.Lit == nil && outer.Obj != nil {
				sig := outer.Obj.Type().(*types.Signature)
				if sig.Params().Len() == 1 {
					if _, isSlice := sig.Params().At(0).Type().Underlying().(*types.Slice); isSlice {
						p := sig.Params().At(0)
						okLen := isLenOf(info, call.Args[0], func(e ast.Expr) bool { return sameVar(info, e, p) })
						c.Check(okLen, "R1", shortPkg(px.Pkg.PkgPath)+"|"+outer.Name+"|array length is len of the slice", px.at(s), "reflect.ArrayOf(len("+p.Name()+"), …)",
							"the array is sized with "+exprStr(call.Args[0])+" instead of len("+p.Name()+"): the stored value gains or loses elements (e.g. a slice with spare capacity is padded with zero values and no longer equals the same elements supplied tightly)")
						// … on every path: a constructor that answers some inputs (the empty slice) with another representation (nil)
						// while a sibling constructor of the same attribute type keeps building the array gives one typed value two
						// identities
						badRet := ""
						var badPos token.Pos
						inspectNoLit(outer.Body(), func(n ast.Node) bool {
							if rs, ok := n.(*ast.ReturnStmt); ok && len(rs.Results) == 1 {
								if isNilIdent(info, rs.Results[0]) {
									badRet, badPos = "returns nil", rs.Pos()
								} else if tv, has := info.Types[rs.Results[0]]; has && tv.Value != nil {
									badRet, badPos = "returns the constant "+exprStr(rs.Results[0]), rs.Pos()
								}
							}
							return true
						})
						pos := px.at(s)
						if badRet != "" {
							pos = at(px.M, badPos)
						}
						c.Check(badRet == "", "R1", shortPkg(px.Pkg.PkgPath)+"|"+outer.Name+"|every input is stored as the array built here", pos, "no return of another representation",
							outer.Name+" "+badRet+" for some inputs instead of the array: the same typed value (an empty slice) built through a sibling constructor has another identity — two Sets with the same contents are not Equal")
					}
				}
			}
		}
	}
	// scalar floats as bits
	if fn := c.Fn(ax, "R1", "Float64Value"); fn != nil {
		fNum := lookupField(ax.Pkg, "Value", "numeric")
		good := false
		inspectNoLit(fn.Body(), func(n ast.Node) bool {
			if cl, ok := n.(*ast.CompositeLit); ok {
				if v := compositeField(ainfo, cl, fNum); v != nil {
					if call, ok := unparen(v).(*ast.CallExpr); ok {
						if cf := callee(ainfo, call); cf != nil && (cf.Name() == "float64ToRaw" || cf.FullName() == "math.Float64bits") {
							good = true
						}
					}
				}
			}
			return true
		})
		c.Check(good, "R1", "attribute|Float64Value|float stored as its bit pattern", at(ax.M, fn.Pos()), "numeric ← float64ToRaw(v)", "scalar floats are no longer stored as bits: NaN attributes break Set identity")
	}
	for _, tn := range []string{"Value", "KeyValue"} {
		t := lookupType(ax.Pkg, tn)
		if t == nil {
			c.Missing("R1", "attribute."+tn)
			continue
		}
		c.Check(!hasFloat(t, 0), "R1", "attribute|"+tn+"|no floating-point field", at(ax.M, ax.Pkg.Syntax[0].Pos()), "struct equality is reflexive for its static fields", tn+" has a floating-point field: == on it is not reflexive")
	}

	c.Rule("R2", "E5 immutability", "Set.Filter writes only into the fresh slice from ToSlice(); Iterator.ToSlice returns a new slice", 2)
	if fn := c.Fn(ax, "R2", "(*Set).Filter"); fn != nil {
		toSlice := ax.Func("(*Set).ToSlice")
		var fresh types.Object
		inspectNoLit(fn.Body(), func(n ast.Node) bool {
			if as, ok := n.(*ast.AssignStmt); ok && len(as.Lhs) == 1 && len(as.Rhs) == 1 && callToDecl(ainfo, toSlice)(unparen(as.Rhs[0])) {
				fresh = objOf(ainfo, as.Lhs[0])
			}
			return true
		})
		fg := ax.FG(fn)
		var rootOKd func(e ast.Expr, depth int) bool
		rootOKd = func(e ast.Expr, depth int) bool {
			for {
				switch x := unparen(e).(type) {
				case *ast.SliceExpr:
					e = x.X
					continue
				case *ast.IndexExpr:
					e = x.X
					continue
				}
				break
			}
			if fresh != nil && sameVar(ainfo, e, fresh) {
				return true
			}
			// a named window of the fresh slice (head := slice[:first+1]) is the fresh slice's storage
			if depth < 3 {
				if def := fg.LocalDef(objOf(ainfo, e)); def != nil {
					if _, isSl := unparen(def).(*ast.SliceExpr); isSl {
						return rootOKd(def, depth+1)
					}
				}
			}
			return false
		}
		rootOK := func(e ast.Expr) bool { return rootOKd(e, 0) }
		var bad []string
		f2f := ax.Func("filteredToFront")
		inspectNoLit(fn.Body(), func(n ast.Node) bool {
			switch s := n.(type) {
			case *ast.AssignStmt:
				for _, l := range s.Lhs {
					if ie, ok := unparen(l).(*ast.IndexExpr); ok && !rootOK(ie.X) {
						bad = append(bad, exprStr(l))
					}
				}
			case *ast.CallExpr:
				if builtinName(ainfo, s) == "copy" && len(s.Args) == 2 && !rootOK(s.Args[0]) {
					bad = append(bad, "copy into "+exprStr(s.Args[0]))
				}
				if callToDecl(ainfo, f2f)(s) && len(s.Args) > 0 && !rootOK(s.Args[0]) {
					bad = append(bad, "filteredToFront("+exprStr(s.Args[0])+")")
				}
			}
			return true
		})
		c.Check(fresh != nil && len(bad) == 0, "R2", "attribute|(*Set).Filter|in-place operations only on l.ToSlice()", at(ax.M, fn.Pos()), "the original Set is untouched", "Filter modifies storage that is not its own fresh copy: "+joinStr(bad))
	}
	if fn := c.Fn(ax, "R2", "(*Iterator).ToSlice"); fn != nil {
		// when the slice is collected by stepping the iterator itself, the iterator is rewound first
		g := ax.FG(fn)
		fIdx := lookupField(ax.Pkg, "Iterator", "idx")
		nexts := g.Match(func(n ast.Node) bool {
			call, ok := n.(*ast.CallExpr)
			if !ok {
				return false
			}
			cf := callee(ainfo, call)
			return cf != nil && cf.Name() == "Next" && cf.Pkg() == ax.Pkg.Types
		})
		if len(nexts) > 0 {
			rew := toSet(g.Match(func(n ast.Node) bool {
				r := assignRHS(n, func(e ast.Expr) bool { return isField(ainfo, e, fIdx) })
				if r == nil {
					return false
				}
				v, isC := constInt(ainfo, r)
				return isC && v == -1
			}))
			okR := len(rew) > 0
			for _, x := range nexts {
				if d, _ := g.DominatedByNodes(x, rew); !d {
					okR = false
				}
			}
			c.Check(okR, "R2", "attribute|(*Iterator).ToSlice|iterator rewound (idx = -1) before it is stepped", at(ax.M, fn.Pos()), "ToSlice returns the whole set wherever the iterator stands",
				"ToSlice steps the iterator from its current position: after a Next() the first attributes are missing, a second ToSlice returns nothing")
		}
		good := true
		n := 0
		inspectNoLit(fn.Body(), func(nd ast.Node) bool {
			if rs, ok := nd.(*ast.ReturnStmt); ok && len(rs.Results) == 1 {
				n++
				if isNilIdent(ainfo, rs.Results[0]) {
					return true
				}
				v := objOf(ainfo, rs.Results[0])
				if v == nil || !ax.freshSlice(fn, rs.Results[0]) {
					good = false
				}
			}
			return true
		})
		c.Check(good && n > 0, "R2", "attribute|(*Iterator).ToSlice|returns nil or a slice made here", at(ax.M, fn.Pos()), "callers cannot reach the Set's storage", "ToSlice exposes the Set's storage")
	}

	c.Rule("R3", "E4 callee identity", "NewSetWithFiltered sorts with a stable sort whose comparison reads only Key (last-value-wins depends on stability)", 1)
	if fn := c.Fn(ax, "R3", "NewSetWithFiltered"); fn != nil {
		stable := map[string]bool{"slices.SortStableFunc": true, "sort.Stable": true, "sort.SliceStable": true}
		unstable := map[string]bool{"slices.SortFunc": true, "sort.Sort": true, "sort.Slice": true, "slices.Sort": true}
		var found, bad string
		onlyKey := true
		for _, f := range ax.All {
			if ax.Outer(f) != fn {
				continue
			}
			inspectNoLit(f.Body(), func(n ast.Node) bool {
				call, ok := n.(*ast.CallExpr)
				if !ok {
					return true
				}
				cf := callee(ainfo, call)
				if cf == nil {
					return true
				}
				nm := cf.Origin().FullName()
				if stable[nm] {
					found = nm
					for _, a := range call.Args {
						if l, ok := unparen(a).(*ast.FuncLit); ok {
							ast.Inspect(l.Body, func(m ast.Node) bool {
								if sel, ok := m.(*ast.SelectorExpr); ok {
									if fv, _ := fieldOf(ainfo, sel); fv != nil && fv.Name() != "Key" {
										onlyKey = false
									}
								}
								return true
							})
						}
					}
				}
				if unstable[nm] {
					bad = nm
				}
				return true
			})
		}
		c.Check(found != "" && bad == "" && onlyKey, "R3", "attribute|NewSetWithFiltered|stable sort by Key only", at(ax.M, fn.Pos()), found,
			"the sort is not stable (or compares more than the key): among duplicate keys the surviving value is no longer the one supplied last ("+bad+")")
	}

	ruleNoUnstableAttrSort(c, ax, "R3")

	// merging: exhaustion of a set is a state of the iterator, not a property of the attribute it looks at — sets may hold
	// attributes with an empty key or an INVALID value, and those are merged like any other
	{
		var bad []string
		for _, f := range sortedFuncs(ax.Funcs) {
			if !strings.Contains(f.Name, "MergeIterator") && !strings.Contains(f.Name, "oneIterator") {
				continue
			}
			inspectNoLit(f.Body(), func(n ast.Node) bool {
				if call, ok := n.(*ast.CallExpr); ok && isCallTo(ainfo, call, "(go.opentelemetry.io/otel/attribute.KeyValue).Valid", "(go.opentelemetry.io/otel/attribute.Key).Defined") {
					bad = append(bad, exprStr(call)+" in "+f.Name)
				}
				return true
			})
		}
		// … and in methods of any other type of the package that NewMergeIterator's look-ahead is built from
		for _, f := range sortedFuncs(ax.Funcs) {
			if f.Recv() == nil {
				continue
			}
			if nn := namedOf(f.Recv().Type()); nn != nil && nn.Obj().Name() != "MergeIterator" && nn.Obj().Name() != "oneIterator" {
				if st, isS := nn.Underlying().(*types.Struct); isS && st.NumFields() >= 2 {
					hasIter, hasKV := false, false
					for i := 0; i < st.NumFields(); i++ {
						if tn := namedOf(st.Field(i).Type()); tn != nil {
							if tn.Obj().Name() == "Iterator" {
								hasIter = true
							}
							if tn.Obj().Name() == "KeyValue" {
								hasKV = true
							}
						}
					}
					if hasIter && hasKV {
						inspectNoLit(f.Body(), func(n ast.Node) bool {
							if call, ok := n.(*ast.CallExpr); ok && isCallTo(ainfo, call, "(go.opentelemetry.io/otel/attribute.KeyValue).Valid", "(go.opentelemetry.io/otel/attribute.Key).Defined") {
								bad = append(bad, exprStr(call)+" in "+f.Name)
							}
							return true
						})
					}
				}
			}
		}
		c.Check(len(bad) == 0, "R3", "attribute|MergeIterator|exhaustion is iterator state, not attribute validity", at(ax.M, ax.Pkg.Syntax[0].Pos()), "no validity test in the merge",
			"the merge consults the validity of the attribute it looks at ("+joinStr(bad)+"): an attribute with an empty key (which sorts first) or an INVALID value makes its whole set look exhausted and is dropped from the merge")
	}

	// merging: "the attribute emitted last" is no stand-in for "nothing emitted yet" — the zero KeyValue is a legal attribute
	// (empty key, sorts first). A decision of Next that compares with the emitted slot (MergeIterator.current) needs an explicit
	// boolean saying that something was emitted, in the same condition or on every way to it.
	if fCur := lookupField(ax.Pkg, "MergeIterator", "current"); fCur != nil {
		var bad []string
		n := 0
		for _, f := range sortedFuncs(ax.Funcs) {
			if !strings.Contains(f.Name, "MergeIterator") {
				continue
			}
			g := ax.FG(f)
			mentionsCur := func(e ast.Node) bool {
				hit := false
				ast.Inspect(e, func(m ast.Node) bool {
					if x, ok := m.(ast.Expr); ok && isField(ainfo, x, fCur) {
						hit = true
					}
					return !hit
				})
				return hit
			}
			isFlag := func(e ast.Expr) bool {
				e = unparen(e)
				if u, ok := e.(*ast.UnaryExpr); ok && u.Op == token.NOT {
					e = unparen(u.X)
				}
				switch e.(type) {
				case *ast.Ident, *ast.SelectorExpr:
				default:
					return false
				}
				if mentionsCur(e) {
					return false
				}
				tv, has := ainfo.Types[e]
				if !has || tv.Value != nil {
					return false
				}
				b, isB := tv.Type.Underlying().(*types.Basic)
				return isB && b.Kind() == types.Bool
			}
			for _, x := range g.Nodes {
				for _, e := range x.Succs {
					if e.Cond == nil || e.Tag != nil {
						continue
					}
					cmp := false
					ast.Inspect(e.Cond, func(m ast.Node) bool {
						if be, ok := m.(*ast.BinaryExpr); ok {
							switch be.Op {
							case token.EQL, token.NEQ, token.LSS, token.LEQ, token.GTR, token.GEQ:
								if mentionsCur(be.X) || mentionsCur(be.Y) {
									cmp = true
								}
							}
						}
						return !cmp
					})
					if !cmp || e.Pol < 0 {
						continue // each condition is judged once, on its true edge
					}
					n++
					guarded := false
					for _, cj := range conjuncts(e.Cond) {
						if isFlag(cj) {
							guarded = true
						}
					}
					if !guarded {
						guarded, _ = g.DominatedByEdges(x, func(d *GEdge) bool {
							return d.Cond != nil && d.Tag == nil && isFlag(d.Cond)
						})
					}
					if !guarded {
						bad = append(bad, exprStr(e.Cond)+" in "+f.Name)
					}
				}
			}
		}
		c.Check(len(bad) == 0, "R3", "attribute|MergeIterator|the emitted slot is not a sentinel for \"nothing emitted yet\"", at(ax.M, ax.Pkg.Syntax[0].Pos()), itoa(n)+" comparison(s) with MergeIterator.current, each under an explicit flag",
			"the merge decides by comparing with the attribute emitted last ("+joinStr(bad)+") without knowing that one was emitted: before the first emission that slot is the zero KeyValue, so an attribute with the empty key is taken for a repeat and dropped from the merge")
	}

	c.Rule("R4", "E2 table", "computeDistinctFixed: every `case n` returns an array of exactly n elements; other lengths fall to the reflect path", 10)
	if fn := c.Fn(ax, "R4", "computeDistinctFixed"); fn != nil {
		var sw *ast.SwitchStmt
		inspectNoLit(fn.Body(), func(n ast.Node) bool {
			if s, ok := n.(*ast.SwitchStmt); ok && sw == nil {
				sw = s
			}
			return true
		})
		// the tag is len(kvs), possibly held in a local (n := len(kvs))
		tagIsLen := false
		if sw != nil && sw.Tag != nil {
			tag := ast.Expr(sw.Tag)
			if def := ax.FG(fn).LocalDef(objOf(ainfo, tag)); def != nil {
				tag = def
			}
			tagIsLen = isLenOf(ainfo, tag, func(ast.Expr) bool { return true })
		}
		if sw == nil || !tagIsLen {
			c.Undecided("R4", "attribute|computeDistinctFixed|switch len(kvs)", at(ax.M, fn.Pos()), "not a switch over len(kvs)")
		} else {
			for _, cl := range sw.Body.List {
				cc := cl.(*ast.CaseClause)
				for _, e := range cc.List {
					n, _ := constInt(ainfo, e)
					good := false
					for _, st := range cc.Body {
						if rs, ok := st.(*ast.ReturnStmt); ok && len(rs.Results) >= 1 {
							if tv, ok := ainfo.Types[rs.Results[0]]; ok {
								if a, ok := tv.Type.Underlying().(*types.Array); ok && a.Len() == n {
									good = true
								}
							}
						}
					}
					c.Check(good, "R4", "attribute|computeDistinctFixed|case "+itoa(int(n)), at(ax.M, cc.Pos()), "returns ["+itoa(int(n))+"]KeyValue", "case "+itoa(int(n))+" returns an array of another length: the conversion panics or drops attributes")
				}
				if cc.List == nil {
					good := false
					// an empty default arm falls out of the switch: then every return after the switch must be nil
					if len(cc.Body) == 0 {
						good = true
						inspectNoLit(fn.Body(), func(n ast.Node) bool {
							if rs, ok := n.(*ast.ReturnStmt); ok && !containsNoLit(sw, rs) {
								if len(rs.Results) == 0 || !(isNilIdent(ainfo, rs.Results[0]) || (len(rs.Results) == 2 && ainfo.Types[rs.Results[1]].Value != nil && ainfo.Types[rs.Results[1]].Value.String() == "false")) {
									good = false
								}
							}
							return true
						})
					}
					for _, st := range cc.Body {
						if rs, ok := st.(*ast.ReturnStmt); ok && len(rs.Results) == 1 && isNilIdent(ainfo, rs.Results[0]) {
							good = true
						}
						// (value, ok) form: the default arm reports "not handled"
						if rs, ok := st.(*ast.ReturnStmt); ok && len(rs.Results) == 2 {
							if tv, has := ainfo.Types[rs.Results[1]]; has && tv.Value != nil && tv.Value.Kind() == constant.Bool && !constant.BoolVal(tv.Value) {
								good = true
							}
						}
					}
					c.Check(good, "R4", "attribute|computeDistinctFixed|default ⇒ nil (reflect path)", at(ax.M, cc.Pos()), "falls back", "default arm does not fall back to the reflect path")
				}
			}
		}
	}

	c.Rule("R6", "E6 character set + E3 dominance", "default encoder: copyAndEscape escapes exactly '=', ',' and the escape character, and copies a string wholesale only under a guard that excludes all three (the encoding is injective)", 1)
	ruleEncoderEscapes(c, ax, "R6")

	c.Rule("R5", "E3/E2", "Set.Value: lower-bound search on Key ≥ k confirmed by ==; Equals compares Equivalent() of both sides; Equivalent maps nil/invalid to the empty set's identity", 3)
	if fn := c.Fn(ax, "R5", "(*Set).Value"); fn != nil {
		geq, eq := false, false
		for _, f := range ax.All {
			if ax.Outer(f) != fn {
				continue
			}
			inspectNoLit(f.Body(), func(n ast.Node) bool {
				if be, ok := n.(*ast.BinaryExpr); ok {
					l, op, r, good := cmpNorm(be, 1)
					if !good {
						return true
					}
					isKeyField := func(e ast.Expr) bool { fv, _ := fieldOf(ainfo, e); return fv != nil && fv.Name() == "Key" }
					kParam := fn.Obj.Type().(*types.Signature).Params().At(0) // the key being looked up
					isK := func(e ast.Expr) bool { return sameVar(ainfo, e, kParam) }
					if (isKeyField(l) && isK(r) && op == token.GEQ) || (isK(l) && isKeyField(r) && op == token.LEQ) {
						geq = true
					}
					if op == token.EQL && ((isKeyField(l) && isK(r)) || (isK(l) && isKeyField(r))) {
						eq = true
					}
				}
				return true
			})
		}
		// the search written out as the canonical lower-bound loop: its "answer is at or left of mid" predicate is Key(mid) ≥ k
		ast.Inspect(fn.Body(), func(n ast.Node) bool {
			blk, isBlk := n.(*ast.BlockStmt)
			if !isBlk {
				return true
			}
			for i := range blk.List {
				_, _, mid, cond, pol, ok := lowerBoundLoop(ainfo, blk.List, i)
				if !ok {
					continue
				}
				l, op, r, good := cmpNorm(cond, pol)
				if !good {
					continue
				}
				kParam := fn.Obj.Type().(*types.Signature).Params().At(0)
				isK := func(e ast.Expr) bool { return sameVar(ainfo, e, kParam) }
				isKeyAtMid := func(e ast.Expr) bool {
					fv, _ := fieldOf(ainfo, e)
					uses := false
					ast.Inspect(e, func(m ast.Node) bool {
						if id, isID := m.(*ast.Ident); isID && ainfo.Uses[id] == mid {
							uses = true
						}
						return true
					})
					return fv != nil && fv.Name() == "Key" && uses
				}
				if (isKeyAtMid(l) && isK(r) && op == token.GEQ) || (isK(l) && isKeyAtMid(r) && op == token.LEQ) {
					geq = true
				}
			}
			return true
		})
		// the library forms that combine the search and the confirmation: sort.Find(n, func(i) int { return cmp(k, Key(i)) }) and
		// slices.BinarySearchFunc(list, k, func(e, t) int { return cmp(e.Key, t) }), with the `found` result in use
		{
			kParam := fn.Obj.Type().(*types.Signature).Params().At(0)
			isK := func(e ast.Expr) bool {
				if cv, ok := unparen(e).(*ast.CallExpr); ok && len(cv.Args) == 1 && ainfo.Types[cv.Fun].IsType() {
					e = cv.Args[0] // string(k)
				}
				return sameVar(ainfo, e, kParam)
			}
			isKeyField := func(e ast.Expr) bool {
				if cv, ok := unparen(e).(*ast.CallExpr); ok && len(cv.Args) == 1 && ainfo.Types[cv.Fun].IsType() {
					e = cv.Args[0]
				}
				fv, _ := fieldOf(ainfo, e)
				return fv != nil && fv.Name() == "Key"
			}
			threeWay := func(lit *ast.FuncLit) (a, b ast.Expr) {
				if lit == nil || len(lit.Body.List) != 1 {
					return nil, nil
				}
				rs, ok := lit.Body.List[0].(*ast.ReturnStmt)
				if !ok || len(rs.Results) != 1 {
					return nil, nil
				}
				call, ok := unparen(rs.Results[0]).(*ast.CallExpr)
				if !ok || len(call.Args) != 2 || !(isCallTo(ainfo, call, "cmp.Compare") || isCallTo(ainfo, call, "strings.Compare")) {
					return nil, nil
				}
				return call.Args[0], call.Args[1]
			}
			inspectNoLit(fn.Body(), func(n ast.Node) bool {
				as, ok := n.(*ast.AssignStmt)
				if !ok || len(as.Lhs) != 2 || len(as.Rhs) != 1 {
					return true
				}
				call, ok := unparen(as.Rhs[0]).(*ast.CallExpr)
				if !ok {
					return true
				}
				if id, isID := as.Lhs[1].(*ast.Ident); !isID || id.Name == "_" {
					return true
				}
				switch {
				case isCallTo(ainfo, call, "sort.Find") && len(call.Args) == 2:
					lit, _ := unparen(call.Args[1]).(*ast.FuncLit)
					if a, b := threeWay(lit); a != nil && isK(a) && isKeyField(b) {
						geq, eq = true, true
					}
				case isCallTo(ainfo, call, "slices.BinarySearchFunc") && len(call.Args) == 3 && isK(call.Args[1]):
					lit, _ := unparen(call.Args[2]).(*ast.FuncLit)
					if a, b := threeWay(lit); a != nil && isKeyField(a) && lit.Type.Params != nil && lit.Type.Params.NumFields() == 2 {
						var tgt types.Object
						for _, f := range lit.Type.Params.List {
							for _, nm := range f.Names {
								tgt = ainfo.Defs[nm]
							}
						}
						if tgt != nil && sameVar(ainfo, b, tgt) {
							geq, eq = true, true
						}
					}
				}
				return true
			})
		}
		c.Check(geq && eq, "R5", "attribute|(*Set).Value|search Key ≥ k, hit confirmed by Key == k", at(ax.M, fn.Pos()), "binary search over the sorted set", "lookup predicate changed: keys are not found or a neighbouring key's value is returned")
	}
	if fn := c.Fn(ax, "R5", "(*Set).Equals"); fn != nil {
		eqv := ax.Func("(*Set).Equivalent")
		good := false
		inspectNoLit(fn.Body(), func(n ast.Node) bool {
			if be, ok := n.(*ast.BinaryExpr); ok && be.Op == token.EQL && callToDecl(ainfo, eqv)(unparen(be.X)) && callToDecl(ainfo, eqv)(unparen(be.Y)) {
				good = true
			}
			return true
		})
		c.Check(good, "R5", "attribute|(*Set).Equals|l.Equivalent() == o.Equivalent()", at(ax.M, fn.Pos()), "equality is identity of the canonical form", "Equals no longer compares the canonical forms")
	}
	if fn := c.Fn(ax, "R5", "(*Set).Equivalent"); fn != nil {
		g := ax.FG(fn)
		good := false
		for _, x := range g.Nodes {
			for _, e := range x.Succs {
				if e.Cond != nil && e.Pol > 0 {
					// l == nil || !valid ⇒ returns emptySet.equivalent
					s, _ := g.ReachFromEdge(e, nil)
					for y := range s {
						if rs, ok := y.N.(*ast.ReturnStmt); ok && len(rs.Results) == 1 {
							if fv, b := fieldOf(ainfo, rs.Results[0]); fv != nil && fv.Name() == "equivalent" {
								if v, ok := objOf(ainfo, b).(*types.Var); ok && v.Name() == "emptySet" {
									good = true
								}
							}
						}
					}
				}
			}
		}
		c.Check(good, "R5", "attribute|(*Set).Equivalent|nil/invalid ⇒ emptySet.equivalent", at(ax.M, fn.Pos()), "all empty sets share one identity", "nil and empty sets no longer share an identity")
	}
	// … and that shared identity is the one computeDistinct builds for an empty list (Filter and NewSetWithFiltered reach
	// computeDistinct with nothing left): a [0]KeyValue array. A nil interface or any other value splits the empty sets in two.
	if ev, _ := ax.Pkg.Types.Scope().Lookup("emptySet").(*types.Var); ev == nil {
		c.Missing("R5", "attribute.emptySet")
	} else {
		var init ast.Expr
		for _, file := range ax.Pkg.Syntax {
			ast.Inspect(file, func(n ast.Node) bool {
				if vs, ok := n.(*ast.ValueSpec); ok {
					for i, nm := range vs.Names {
						if ainfo.Defs[nm] == types.Object(ev) && i < len(vs.Values) {
							init = vs.Values[i]
						}
					}
				}
				return true
			})
		}
		good, why := false, "emptySet has no initialiser: its identity is the nil interface"
		fEquiv, fIface := lookupField(ax.Pkg, "Set", "equivalent"), lookupField(ax.Pkg, "Distinct", "iface")
		if init != nil {
			why = "the identity stored in emptySet is not a [0]KeyValue array"
			e := unparen(init)
			if u, ok := e.(*ast.UnaryExpr); ok && u.Op == token.AND {
				e = unparen(u.X)
			}
			var ifaceVal ast.Expr
			if cl, ok := e.(*ast.CompositeLit); ok {
				for _, el := range cl.Elts {
					if kv, ok := el.(*ast.KeyValueExpr); ok {
						if id, ok := kv.Key.(*ast.Ident); ok && fEquiv != nil && ainfo.Uses[id] == types.Object(fEquiv) {
							switch d := unparen(kv.Value).(type) {
							case *ast.CompositeLit:
								for _, el2 := range d.Elts {
									if kv2, ok := el2.(*ast.KeyValueExpr); ok {
										if id2, ok := kv2.Key.(*ast.Ident); ok && fIface != nil && ainfo.Uses[id2] == types.Object(fIface) {
											ifaceVal = kv2.Value
										}
									}
								}
							case *ast.CallExpr:
								// computeDistinct(nil) / computeDistinct([]KeyValue{}) builds the same value
								if cd := ax.Func("computeDistinct"); cd != nil && callToDecl(ainfo, cd)(d) && len(d.Args) == 1 {
									if isNilIdent(ainfo, d.Args[0]) {
										good = true
									} else if al, ok := unparen(d.Args[0]).(*ast.CompositeLit); ok && len(al.Elts) == 0 {
										good = true
									}
								}
							}
						}
					}
				}
			}
			if ifaceVal != nil {
				if arr, ok := ainfo.TypeOf(ifaceVal).Underlying().(*types.Array); ok && arr.Len() == 0 {
					if nn := namedOf(arr.Elem()); nn != nil && nn.Obj().Name() == "KeyValue" {
						good = true
					}
				}
			}
		}
		c.Check(good, "R5", "attribute|emptySet|identity of the empty set = computeDistinct of an empty list ([0]KeyValue)", at(ax.M, ev.Pos()), "one identity for every empty set however it was produced",
			why+": a set emptied by Filter / NewSetWithFiltered (identity [0]KeyValue{} from computeDistinct) is no longer Equal to EmptySet(), NewSet() or the zero Set")
	}
}

// ruleEncoderEscapes: "encoding agrees with the contents" — the default encoder is injective because copyAndEscape puts the escape
// character in front of every '=', ',' and escape character. The per-rune switch lists exactly those three, and a path that
// copies the string wholesale is guarded by a test that excludes all three.
func ruleEncoderEscapes(c *Ctx, ax *PkgIndex, rule string) {
	info := ax.Pkg.TypesInfo
	fn := c.Fn(ax, rule, "copyAndEscape")
	if fn == nil {
		return
	}
	sig := fn.Obj.Type().(*types.Signature)
	val := sig.Params().At(sig.Params().Len() - 1)
	escaped := map[int64]bool{}
	inspectNoLit(fn.Body(), func(n ast.Node) bool {
		if cc, ok := n.(*ast.CaseClause); ok {
			for _, e := range cc.List {
				if v, isC := constInt(info, e); isC {
					escaped[v] = true
				}
			}
		}
		return true
	})
	want := map[int64]bool{'=': true, ',': true, '\\': true}
	same := len(escaped) == len(want)
	for k := range want {
		if !escaped[k] {
			same = false
		}
	}
	c.Check(same, rule, "attribute|copyAndEscape|escapes exactly '=', ',' and the escape character", at(ax.M, fn.Pos()), "three cases", "the set of escaped characters changed: two different attribute lists can encode to the same string")
	// wholesale copies
	g := ax.FG(fn)
	for _, x := range g.Nodes {
		if x.N == nil || g.InCycle(x) {
			continue
		}
		var whole *ast.CallExpr
		inspectNoLit(x.N, func(n ast.Node) bool {
			if call, ok := n.(*ast.CallExpr); ok {
				for _, a := range call.Args {
					if sameVar(info, a, val) {
						if _, m := methodCall(info, call); m != nil && (m.Name() == "WriteString" || m.Name() == "Write") {
							whole = call
						}
					}
				}
			}
			return true
		})
		if whole == nil {
			continue
		}
		ok, _ := g.DominatedByEdges(x, func(e *GEdge) bool {
			return edgeImplies(e, func(cnd ast.Expr, pol int) bool {
				call, isCall := cnd.(*ast.CallExpr)
				if !isCall || pol > 0 || len(call.Args) != 2 || !sameVar(info, call.Args[0], val) {
					return false
				}
				if !(isCallTo(info, call, "strings.ContainsAny") || isCallTo(info, call, "strings.IndexAny")) {
					return false
				}
				set, isS := constString(info, call.Args[1])
				if !isS {
					return false
				}
				for k := range want {
					if !strings.ContainsRune(set, rune(k)) {
						return false
					}
				}
				return true
			})
		})
		c.Check(ok, rule, "attribute|copyAndEscape|a wholesale copy happens only when none of the three characters occurs", at(ax.M, whole.Pos()), "guard excludes '=', ',' and the escape character",
			"the string is copied unescaped on a path whose guard does not exclude all of '=', ',' and '\\\\': a value ending in a backslash swallows the following separator and two different attribute lists encode alike")
	}
}

// ruleNoUnstableAttrSort: no unstable sort anywhere in the set code. After the initial stable sort every later step (the filter
// partition, Filter's rotation) has to keep the kept attributes in key order, because computeDistinct takes its input as
// sorted — an unstable sort by "dropped or kept" permutes keys on ranges longer than a dozen elements. Shared by C05 (a set's
// identity matches its contents) and C12 (streams that become identical under a view's filter are added together).
func ruleNoUnstableAttrSort(c *Ctx, ax *PkgIndex, rule string) {
	ainfo := ax.Pkg.TypesInfo
	unstableAny := map[string]bool{"slices.SortFunc": true, "sort.Sort": true, "sort.Slice": true, "slices.Sort": true}
	var bad []string
	for _, f := range sortedFuncs(ax.Funcs) {
		inspectNoLit(f.Body(), func(n ast.Node) bool {
			call, ok := n.(*ast.CallExpr)
			if !ok || len(call.Args) == 0 {
				return true
			}
			cf := callee(ainfo, call)
			if cf == nil || cf.Pkg() == nil || !unstableAny[cf.Pkg().Name()+"."+cf.Name()] {
				return true
			}
			// on a slice of KeyValue
			if sl, isSl := ainfo.TypeOf(call.Args[0]).Underlying().(*types.Slice); isSl {
				if nn := namedOf(sl.Elem()); nn != nil && nn.Obj().Name() == "KeyValue" {
					bad = append(bad, cf.Pkg().Name()+"."+cf.Name()+" in "+f.Name+" at "+ax.M.posStr(call.Pos()))
				}
			}
			return true
		})
	}
	c.Check(len(bad) == 0, rule, "attribute|package|no unstable sort on attribute slices", at(ax.M, ax.Pkg.Syntax[0].Pos()), "only stable sorts", "an unstable sort is applied to attributes ("+joinStr(bad)+"): the order of keys that compare equal under its comparator is not preserved — kept attributes leave key order, the set's identity no longer matches its contents")
}
