package main

import (
	"go/ast"
	"go/constant"
	"go/token"
	"go/types"
	"sort"
	"strings"
)

const otelTrace = "go.opentelemetry.io/otel/trace"

func init() {
	register(&PropDoc{
		ID:         "C09",
		Modules:    []string{"sdk"},
		NotDecided: "uniqueness of span ids (probabilistic); that the sampled share tracks the ratio; monotonicity of the ratio bound as a numeric fact beyond the expression shape.",
		Fn:         c09,
	})
}

// callTo returns a matcher for calls resolving to the given declaration.
func callToDecl(info *types.Info, f *FuncInfo) func(ast.Node) bool {
	return func(n ast.Node) bool {
		call, ok := n.(*ast.CallExpr)
		if !ok || f == nil {
			return false
		}
		cf := callee(info, call)
		return cf != nil && cf.Origin() == f.Obj.Origin()
	}
}

func c09(c *Ctx) {
	ix := c.Index("sdk", sdkTrace)
	if ix == nil {
		return
	}
	info := ix.Pkg.TypesInfo

	// R1 decision predicates
	c.Rule("R1", "E2 decision table", "isSampled(d) ⇔ d = RecordAndSample; isRecording(d) ⇔ d ∈ {RecordOnly, RecordAndSample}, over all SamplingDecision constants", 6)
	decT := lookupType(ix.Pkg, "SamplingDecision")
	fDec := lookupField(ix.Pkg, "SamplingResult", "Decision")
	if decT == nil || fDec == nil {
		c.Missing("R1", "sdk/trace.SamplingDecision / SamplingResult.Decision")
		return
	}
	decs := enumConsts(decT)
	c.Check(len(decs) == 3, "R1", "sdk/trace|SamplingDecision|three decisions", at(ix.M, ix.Pkg.Syntax[0].Pos()), "Drop, RecordOnly, RecordAndSample",
		"the set of SamplingDecision constants changed; the tables below must be re-read")
	spec := map[string]map[string]bool{
		"isSampled":   {"RecordAndSample": true},
		"isRecording": {"RecordOnly": true, "RecordAndSample": true},
	}
	for _, fname := range []string{"isRecording", "isSampled"} {
		fn := c.Fn(ix, "R1", fname)
		if fn == nil {
			continue
		}
		g := ix.FG(fn)
		for _, d := range decs {
			env := func(e ast.Expr) (constant.Value, bool) {
				if isField(info, e, fDec) {
					return d.Val(), true
				}
				return nil, false
			}
			vals, known := g.ReturnsUnder(env)
			key := "sdk/trace|" + fname + "|Decision=" + d.Name()
			if !known || len(vals) != 1 || vals[0].Kind() != constant.Bool {
				c.Undecided("R1", key, at(ix.M, fn.Pos()), "result cannot be folded for this decision")
				continue
			}
			got := constant.BoolVal(vals[0])
			c.Check(got == spec[fname][d.Name()], "R1", key, at(ix.M, fn.Pos()), fname+" = "+boolStr(got),
				fname+"("+d.Name()+") = "+boolStr(got)+", specification says "+boolStr(spec[fname][d.Name()]))
		}
	}

	// R2 newSpan coupling
	c.Rule("R2", "E2 reachability + E4 provenance", "newSpan: sampled flag set iff isSampled(result) (parent flags otherwise preserved); non-recording span iff !isRecording(result); TraceState from the sampler result; ids from generator / valid parent", 7)
	newSpan := c.Fn(ix, "R2", "(*tracer).newSpan")
	isSampledF, isRecordingF := ix.Func("isSampled"), ix.Func("isRecording")
	newNR, newRec := ix.Func("(*tracer).newNonRecordingSpan"), ix.Func("(*tracer).newRecordingSpan")
	if newSpan != nil && isSampledF != nil && isRecordingF != nil && newNR != nil && newRec != nil {
		g := ix.FG(newSpan)
		tp := ix.M.Pkg(otelTrace)
		var fFlags, fTS, fTID, fSID *types.Var
		if tp != nil {
			fFlags = lookupField(tp, "SpanContextConfig", "TraceFlags")
			fTS = lookupField(tp, "SpanContextConfig", "TraceState")
			fTID = lookupField(tp, "SpanContextConfig", "TraceID")
			fSID = lookupField(tp, "SpanContextConfig", "SpanID")
		}
		if fFlags == nil || fTS == nil || fTID == nil || fSID == nil {
			c.Missing("R2", "trace.SpanContextConfig fields")
		} else {
			// the values stored into SpanContextConfig.TraceFlags: assignments to the field and keyed composite literals
			type flagStore struct {
				x *GNode
				v ast.Expr
			}
			var flagStores []flagStore
			for _, x := range g.Nodes {
				if x.N == nil {
					continue
				}
				if r := assignRHS(x.N, func(e ast.Expr) bool { return isField(info, e, fFlags) }); r != nil {
					flagStores = append(flagStores, flagStore{x, r})
					continue
				}
				inspectNoLit(x.N, func(n ast.Node) bool {
					cl, ok := n.(*ast.CompositeLit)
					if !ok {
						return true
					}
					for _, el := range cl.Elts {
						if kv, ok := el.(*ast.KeyValueExpr); ok {
							if id, _ := kv.Key.(*ast.Ident); id != nil && info.Uses[id] == types.Object(fFlags) {
								flagStores = append(flagStores, flagStore{x, kv.Value})
							}
						}
					}
					return true
				})
			}
			isSampledConst := func(e ast.Expr) bool {
				k := constObj(info, e)
				return k != nil && k.Name() == "FlagsSampled" && k.Pkg().Path() == otelTrace
			}
			parentFlags := func(e ast.Expr) bool {
				call, ok := unparen(e).(*ast.CallExpr)
				return ok && isCallTo(info, call, "("+otelTrace+".SpanContext).TraceFlags")
			}
			form := func(v ast.Expr, env Env) string {
				v = unparen(v)
				if call, ok := v.(*ast.CallExpr); ok && isCallTo(info, call, "("+otelTrace+".TraceFlags).WithSampled") && len(call.Args) == 1 {
					// parent flags with the sampled bit set or cleared according to the argument
					if recv, _ := methodCall(info, call); recv != nil && parentFlags(recv) {
						if b, known := evalConst(info, call.Args[0], g.withLocals(env)); known && b.Kind() == constant.Bool {
							if constant.BoolVal(b) {
								return "set"
							}
							return "clear"
						}
					}
					return "other"
				}
				be, ok := v.(*ast.BinaryExpr)
				if !ok {
					return "other"
				}
				switch {
				case be.Op == token.OR && ((isSampledConst(be.Y) && parentFlags(be.X)) || (isSampledConst(be.X) && parentFlags(be.Y))):
					return "set"
				case be.Op == token.AND_NOT && isSampledConst(be.Y) && parentFlags(be.X):
					return "clear"
				}
				return "other"
			}
			for _, want := range []struct {
				sampled bool
				form    string
			}{{true, "set"}, {false, "clear"}} {
				env := func(e ast.Expr) (constant.Value, bool) {
					if callToDecl(info, isSampledF)(e) {
						return constant.MakeBool(want.sampled), true
					}
					return nil, false
				}
				seen := g.ReachUnder(env)
				var forms []string
				for _, fs := range flagStores {
					if seen[fs.x] {
						f := form(fs.v, env)
						if v, isV := objOf(info, fs.v).(*types.Var); isV && f == "other" && !v.IsField() {
							// a local built up in steps (flags := parent &^ S; if sampled { flags |= S }): its form on every path that is
							// open under this decision
							f = flagVarForm(g, info, v, fs.x, g.withLocals(env), func(e ast.Expr) string { return form(e, env) }, isSampledConst)
						}
						forms = append(forms, f)
					}
				}
				sort.Strings(forms)
				c.Check(len(forms) == 1 && forms[0] == want.form, "R2", "sdk/trace|(*tracer).newSpan|isSampled="+boolStr(want.sampled)+" ⇒ TraceFlags "+want.form+" FlagsSampled on the parent's flags",
					at(ix.M, newSpan.Pos()), "flags = parent flags with the sampled bit "+want.form,
					"sampled flag and sampling decision disagree: reachable flag stores "+strings.Join(forms, ","))
			}
			for _, rec := range []bool{true, false} {
				env := func(e ast.Expr) (constant.Value, bool) {
					if callToDecl(info, isRecordingF)(e) {
						return constant.MakeBool(rec), true
					}
					return nil, false
				}
				seen := g.ReachUnder(env)
				good, n := true, 0
				for x := range seen {
					rs, ok := x.N.(*ast.ReturnStmt)
					if !ok || len(rs.Results) != 1 {
						continue
					}
					n++
					wantF := newNR
					if rec {
						wantF = newRec
					}
					if !callToDecl(info, wantF)(unparen(rs.Results[0])) {
						good = false
					}
				}
				c.Check(good && n > 0, "R2", "sdk/trace|(*tracer).newSpan|isRecording="+boolStr(rec)+" ⇒ returns "+map[bool]string{true: "recording", false: "non-recording"}[rec]+" span",
					at(ix.M, newSpan.Pos()), "span kind follows the decision", "a span's recording state disagrees with the sampler's decision")
			}
			// TraceState provenance, ids
			var sr types.Object
			inspectNoLit(newSpan.Body(), func(n ast.Node) bool {
				if as, ok := n.(*ast.AssignStmt); ok && len(as.Lhs) == 1 && len(as.Rhs) == 1 {
					if call, ok := unparen(as.Rhs[0]).(*ast.CallExpr); ok && isCallTo(info, call, "("+sdkTrace+".Sampler).ShouldSample") {
						sr = objOf(info, as.Lhs[0])
					}
				}
				return true
			})
			fRT := lookupField(ix.Pkg, "SamplingResult", "Tracestate")
			tsOK := false
			var tidSrc, sidSrc ast.Expr
			inspectNoLit(newSpan.Body(), func(n ast.Node) bool {
				cl, ok := n.(*ast.CompositeLit)
				if !ok {
					return true
				}
				for _, el := range cl.Elts {
					kv, ok := el.(*ast.KeyValueExpr)
					if !ok {
						continue
					}
					id, _ := kv.Key.(*ast.Ident)
					if id == nil {
						continue
					}
					switch info.Uses[id] {
					case types.Object(fTS):
						if isField(info, kv.Value, fRT) {
							if _, b := fieldOf(info, kv.Value); b != nil && sr != nil && sameVar(info, b, sr) {
								tsOK = true
							}
						}
					case types.Object(fTID):
						tidSrc = kv.Value
					case types.Object(fSID):
						sidSrc = kv.Value
					}
				}
				return true
			})
			for _, x := range g.Nodes {
				if x.N == nil {
					continue
				}
				if r := assignRHS(x.N, func(e ast.Expr) bool { return isField(info, e, fTS) }); r != nil && isField(info, r, fRT) {
					tsOK = true
				}
			}
			c.Check(tsOK && sr != nil, "R2", "sdk/trace|(*tracer).newSpan|SpanContext.TraceState ← sampler result's Tracestate", at(ix.M, newSpan.Pos()),
				"tracestate chosen by the sampler is propagated", "the new span context does not carry the sampler result's tracestate")
			// ids: under parent-valid, tid ← psc.TraceID() and NewIDs unreachable; NewSpanID reachable. Otherwise NewIDs reachable.
			gen := "(" + sdkTrace + ".IDGenerator)."
			isNewIDs := func(n ast.Node) bool { call, ok := n.(*ast.CallExpr); return ok && isCallTo(info, call, gen+"NewIDs") }
			isNewSpanID := func(n ast.Node) bool {
				call, ok := n.(*ast.CallExpr)
				return ok && isCallTo(info, call, gen+"NewSpanID")
			}
			tidVar, sidVar := objOf(info, tidSrc), objOf(info, sidSrc)
			// the parent's trace id: psc.TraceID(), possibly held in a local with that single definition
			isParentTIDCall := func(e ast.Expr) bool {
				rc, ok := unparen(e).(*ast.CallExpr)
				return ok && isCallTo(info, rc, "("+otelTrace+".SpanContext).TraceID")
			}
			isParentTID := func(e ast.Expr) bool {
				e = unparen(e)
				if id, ok := e.(*ast.Ident); ok {
					if def := g.LocalDef(info.Uses[id]); def != nil {
						e = unparen(def)
					} else if o := info.Uses[id]; o != nil {
						// a variable with several assignments: at this use the only assignment that reaches it is the parent's id
						// (tid := psc.TraceID(); if tid.IsValid() { … } else { tid, sid = NewIDs() })
						use := g.NodeOf(id)
						var reaching []ast.Expr
						for _, x := range g.Nodes {
							as, isAs := x.N.(*ast.AssignStmt)
							if !isAs || use == nil {
								continue
							}
							for i, l := range as.Lhs {
								if objOf(info, l) != o {
									continue
								}
								if s, _ := g.Reach([]*GNode{x}, nil, nil); s[use] {
									if len(as.Lhs) == len(as.Rhs) {
										reaching = append(reaching, as.Rhs[i])
									} else {
										reaching = append(reaching, as.Rhs[0])
									}
								}
							}
						}
						if len(reaching) == 1 {
							e = unparen(reaching[0])
						}
					}
				}
				return isParentTIDCall(e)
			}
			for _, valid := range []bool{true, false} {
				env := func(e ast.Expr) (constant.Value, bool) {
					if call, ok := e.(*ast.CallExpr); ok && isCallTo(info, call, "("+otelTrace+".TraceID).IsValid") {
						if recv, _ := methodCall(info, call); recv != nil && isParentTID(recv) {
							return constant.MakeBool(valid), true
						}
					}
					return nil, false
				}
				seen := g.ReachUnder(env)
				newIDs, newSID, tidFromParent, other := false, false, false, false
				for x := range seen {
					if x.N == nil {
						continue
					}
					as, isAs := x.N.(*ast.AssignStmt)
					inspectNoLit(x.N, func(n ast.Node) bool {
						if isNewIDs(n) {
							newIDs = true
						}
						if isNewSpanID(n) {
							newSID = true
						}
						return true
					})
					if isAs && tidVar != nil {
						for i, l := range as.Lhs {
							if sameVar(info, l, tidVar) && len(as.Lhs) == len(as.Rhs) {
								if isParentTID(as.Rhs[i]) {
									tidFromParent = true
								} else {
									other = true
								}
							}
						}
					}
				}
				// judged on the value that reaches the new span context: resolve the TraceID source at its use under the row's facts
				if tidSrc != nil {
					if use := g.NodeOf(tidSrc); use != nil && seen[use] {
						rv := unparen(g.ResolveUnder(env, seen, tidSrc, use))
						if isParentTIDCall(rv) {
							tidFromParent, other = true, false
						} else if call, ok := rv.(*ast.CallExpr); ok && isNewIDs(call) {
							tidFromParent = false
						}
					}
				}
				if valid {
					c.Check(tidVar != nil && sidVar != nil && tidFromParent && !newIDs && newSID && !other, "R2", "sdk/trace|(*tracer).newSpan|valid parent trace id ⇒ trace id inherited, new span id generated",
						at(ix.M, newSpan.Pos()), "child stays in the parent's trace", "with a valid parent the trace id is not inherited (trace disconnected) or the span id is not fresh")
				} else {
					c.Check(tidVar != nil && sidVar != nil && newIDs && !tidFromParent, "R2", "sdk/trace|(*tracer).newSpan|no valid parent ⇒ NewIDs", at(ix.M, newSpan.Pos()),
						"root span gets generator ids", "root span ids do not come from the id generator")
				}
			}
		}
	}

	// R3 parentBased table
	c.Rule("R3", "E2 decision table", "parentBased.ShouldSample dispatch over (valid, remote, sampled) and the configured defaults / options", 16)
	// A slot of samplerConfig is named by its path below the config value: ".remoteParentSampled" on the pinned tree, or
	// ".delegates[0]" when the four samplers live in an array indexed by an enumeration. Which slot belongs to which case is
	// read off the option that sets it (With…ParentSampled → <case>Option.apply); dispatch and defaults must agree with that.
	var slotPath func(info *types.Info, e ast.Expr, root types.Object, env Env) (string, bool)
	slotPath = func(info *types.Info, e ast.Expr, root types.Object, env Env) (string, bool) {
		switch x := unparen(e).(type) {
		case *ast.Ident:
			if objOf(info, x) == root {
				return "", true
			}
			return "", false
		case *ast.SelectorExpr:
			if b, ok := slotPath(info, x.X, root, env); ok {
				return b + "." + x.Sel.Name, true
			}
		case *ast.IndexExpr:
			if b, ok := slotPath(info, x.X, root, env); ok {
				if env == nil {
					env = func(ast.Expr) (constant.Value, bool) { return nil, false }
				}
				if v, isC := evalConst(info, x.Index, env); isC {
					return b + "[" + v.ExactString() + "]", true
				}
			}
		}
		return "", false
	}
	cases := []string{"remoteParentSampled", "remoteParentNotSampled", "localParentSampled", "localParentNotSampled"}
	slotOf := map[string]string{}
	for _, o := range cases {
		fn := c.Fn(ix, "R3", o+"Option.apply")
		if fn == nil {
			continue
		}
		params := fn.Obj.Type().(*types.Signature).Params()
		fld := lookupField(ix.Pkg, "samplerConfig", o)
		n := 0
		okk := params.Len() == 1
		inspectNoLit(fn.Body(), func(nd ast.Node) bool {
			if as, ok := nd.(*ast.AssignStmt); ok && okk {
				for _, l := range as.Lhs {
					if _, isID := unparen(l).(*ast.Ident); isID {
						continue
					}
					p, isSlot := slotPath(info, l, params.At(0), nil)
					if !isSlot {
						continue
					}
					n++
					slotOf[o] = p
					// on a tree that still has the field of that name, it is that field
					if fv, _ := fieldOf(info, l); fld != nil && (fv == nil || fv != fld.Origin()) {
						okk = false
					}
				}
			}
			return true
		})
		for _, o2 := range cases {
			if o2 != o && slotOf[o2] != "" && slotOf[o2] == slotOf[o] {
				okk = false // two cases share a slot
			}
		}
		c.Check(okk && n == 1, "R3", "sdk/trace|"+o+"Option.apply|sets "+o, at(ix.M, fn.Pos()), "option writes its own slot ("+slotOf[o]+")", "option writes a different sampler slot")
	}
	if fn := c.Fn(ix, "R3", "parentBased.ShouldSample"); fn != nil {
		g := ix.FG(fn)
		sc := "(" + otelTrace + ".SpanContext)."
		fConfig := lookupField(ix.Pkg, "parentBased", "config")
		for _, row := range []struct {
			valid, remote, sampled bool
			want                   string
		}{
			{true, true, true, "remoteParentSampled"}, {true, true, false, "remoteParentNotSampled"},
			{true, false, true, "localParentSampled"}, {true, false, false, "localParentNotSampled"},
			{false, true, true, "root"}, {false, true, false, "root"}, {false, false, true, "root"}, {false, false, false, "root"},
		} {
			env := func(e ast.Expr) (constant.Value, bool) {
				call, ok := e.(*ast.CallExpr)
				if !ok {
					return nil, false
				}
				switch {
				case isCallTo(info, call, sc+"IsValid"):
					return constant.MakeBool(row.valid), true
				case isCallTo(info, call, sc+"IsRemote"):
					return constant.MakeBool(row.remote), true
				case isCallTo(info, call, sc+"IsSampled"):
					return constant.MakeBool(row.sampled), true
				}
				return nil, false
			}
			want := row.want
			if want != "root" {
				want = "config" + slotOf[row.want]
				if slotOf[row.want] == "" {
					want = "config." + row.want
				}
			}
			seen := g.ReachUnder(env)
			var got []string
			for x := range seen {
				rs, ok := x.N.(*ast.ReturnStmt)
				if !ok || len(rs.Results) != 1 {
					continue
				}
				call, ok := unparen(rs.Results[0]).(*ast.CallExpr)
				if !ok || !isCallTo(info, call, "("+sdkTrace+".Sampler).ShouldSample") {
					got = append(got, "?"+exprStr(rs.Results[0]))
					continue
				}
				recv, _ := methodCall(info, call)
				// a sampler chosen into a local first (switch / if-chain assigning `delegate`) is resolved under the row's facts
				recv = g.ResolveUnder(env, seen, recv, x)
				// pb.config<slot>, the index of an array slot folded under the row's facts
				rendered := chainAfter(info, recv, fn.Recv())
				for cur := unparen(recv); ; {
					var base ast.Expr
					switch y := cur.(type) {
					case *ast.SelectorExpr:
						base = y.X
					case *ast.IndexExpr:
						base = y.X
					}
					if base == nil {
						break
					}
					if fConfig != nil && isField(info, base, fConfig) {
						if _, root := fieldOf(info, base); root != nil && objOf(info, root) == types.Object(fn.Recv()) {
							// path of recv below pb.config
							var below func(e ast.Expr) (string, bool)
							below = func(e ast.Expr) (string, bool) {
								e = unparen(e)
								if e == unparen(base) {
									return "", true
								}
								switch y := e.(type) {
								case *ast.SelectorExpr:
									if b, ok := below(y.X); ok {
										return b + "." + y.Sel.Name, true
									}
								case *ast.IndexExpr:
									if b, ok := below(y.X); ok {
										if v, isC := evalConst(info, y.Index, g.withLocals(env)); isC {
											return b + "[" + v.ExactString() + "]", true
										}
									}
								}
								return "", false
							}
							if p, ok := below(recv); ok {
								rendered = "config" + p
							}
						}
						break
					}
					cur = unparen(base)
				}
				got = append(got, rendered)
			}
			sort.Strings(got)
			key := "sdk/trace|parentBased.ShouldSample|valid=" + boolStr(row.valid) + " remote=" + boolStr(row.remote) + " sampled=" + boolStr(row.sampled)
			c.Check(len(got) == 1 && got[0] == want, "R3", key, at(ix.M, fn.Pos()), "→ "+want,
				"delegates to "+strings.Join(got, ",")+", specification says "+want+" (the slot "+row.want+"Option sets)")
		}
	}
	if fn := c.Fn(ix, "R3", "configureSamplersForParentBased"); fn != nil {
		want := map[string]string{"remoteParentSampled": "AlwaysSample", "remoteParentNotSampled": "NeverSample", "localParentSampled": "AlwaysSample", "localParentNotSampled": "NeverSample"}
		got := map[string]string{}
		inspectNoLit(fn.Body(), func(n ast.Node) bool {
			switch x := n.(type) {
			case *ast.CompositeLit:
				if !typeIs(info.Types[x].Type, sdkTrace, "samplerConfig") {
					return true
				}
				for _, el := range x.Elts {
					if kv, ok := el.(*ast.KeyValueExpr); ok {
						if call, ok := unparen(kv.Value).(*ast.CallExpr); ok {
							if f := callee(info, call); f != nil {
								got["."+kv.Key.(*ast.Ident).Name] = f.Name()
							}
						}
					}
				}
			case *ast.AssignStmt:
				// c.<slot> = AlwaysSample() on a local config value
				if len(x.Lhs) == 1 && len(x.Rhs) == 1 {
					root := ast.Expr(x.Lhs[0])
					for {
						switch y := unparen(root).(type) {
						case *ast.SelectorExpr:
							root = y.X
							continue
						case *ast.IndexExpr:
							root = y.X
							continue
						}
						break
					}
					if ro := objOf(info, root); ro != nil && typeIs(ro.Type(), sdkTrace, "samplerConfig") && unparen(root) != unparen(x.Lhs[0]) {
						if p, ok := slotPath(info, x.Lhs[0], ro, nil); ok {
							if call, isC := unparen(x.Rhs[0]).(*ast.CallExpr); isC {
								if f := callee(info, call); f != nil {
									got[p] = f.Name()
								}
							}
						}
					}
				}
			}
			return true
		})
		for _, k := range []string{"localParentNotSampled", "localParentSampled", "remoteParentNotSampled", "remoteParentSampled"} {
			slot := slotOf[k]
			if slot == "" {
				slot = "." + k
			}
			c.Check(got[slot] == want[k], "R3", "sdk/trace|configureSamplersForParentBased|default "+k, at(ix.M, fn.Pos()), "= "+want[k]+"()",
				"default for "+k+" is "+got[slot]+"(), specification says "+want[k]+"()")
		}
	}

	// R4 ratio sampler
	c.Rule("R4", "E4 slice + comparison form", "ratio sampler: decision depends only on the trace id and the fixed bound; strict x < bound; bound is fraction × positive constant with ≥1 ↦ always-on and ≤0 ↦ 0", 4)
	if fn := c.Fn(ix, "R4", "traceIDRatioSampler.ShouldSample"); fn != nil {
		g := ix.FG(fn)
		fBound := lookupField(ix.Pkg, "traceIDRatioSampler", "traceIDUpperBound")
		fTraceID := lookupField(ix.Pkg, "SamplingParameters", "TraceID")
		allowed := map[string]bool{
			otelTrace + ".SpanContextFromContext": true, "(" + otelTrace + ".SpanContext).TraceState": true, "(encoding/binary.bigEndian).Uint64": true,
		}
		var badCalls []string
		inspectNoLit(fn.Body(), func(n ast.Node) bool {
			if call, ok := n.(*ast.CallExpr); ok {
				if f := callee(info, call); f != nil {
					if !allowed[f.FullName()] {
						badCalls = append(badCalls, f.FullName())
					}
				} else if builtinName(info, call) == "" {
					if tv, ok := info.Types[call.Fun]; !ok || !tv.IsType() {
						badCalls = append(badCalls, exprStr(call.Fun))
					}
				}
			}
			return true
		})
		c.Check(len(badCalls) == 0, "R4", "sdk/trace|traceIDRatioSampler.ShouldSample|no other inputs than the trace id", at(ix.M, fn.Pos()),
			"only SpanContextFromContext/TraceState/BigEndian.Uint64 are called", "decision may depend on "+strings.Join(badCalls, ",")+" (not a pure function of the trace id: spans of one trace can disagree)")
		// the branch
		var conds []*GEdge
		for _, x := range g.Nodes {
			for _, e := range x.Succs {
				if e.Cond != nil && e.Pol > 0 {
					conds = append(conds, e)
				}
			}
		}
		okCond := false
		var xvar types.Object
		if len(conds) == 1 {
			l, op, r, ok := cmpNorm(conds[0].Cond, 1)
			if ok && op == token.LSS && isField(info, r, fBound) {
				xvar = objOf(info, l)
				okCond = xvar != nil
			}
			if ok && op == token.GTR && isField(info, l, fBound) {
				xvar = objOf(info, r)
				okCond = xvar != nil
			}
		}
		// true edge returns RecordAndSample, false edge returns Drop
		if okCond {
			for _, pol := range []bool{true, false} {
				env := func(e ast.Expr) (constant.Value, bool) {
					if e == unparen(conds[0].Cond) {
						return constant.MakeBool(pol), true
					}
					return nil, false
				}
				seen := g.ReachUnder(env)
				for x := range seen {
					rs, ok := x.N.(*ast.ReturnStmt)
					if !ok || len(rs.Results) != 1 {
						continue
					}
					d := compositeField(info, rs.Results[0], fDec)
					if d == nil {
						// `res := SamplingResult{Decision: A, …}; if cond { res.Decision = B }; return res`: under the facts of this
						// row the stores to res.Decision that are reachable decide (exactly one, else the literal's field)
						if v := objOf(info, rs.Results[0]); v != nil {
							var stores []ast.Expr
							for y := range seen {
								if as, ok := y.N.(*ast.AssignStmt); ok && len(as.Lhs) == len(as.Rhs) {
									for i, l := range as.Lhs {
										if fv, b := fieldOf(info, l); fv != nil && fDec != nil && fv.Origin() == fDec.Origin() && sameVar(info, b, v) {
											stores = append(stores, as.Rhs[i])
										}
									}
								}
							}
							switch len(stores) {
							case 1:
								d = stores[0]
							case 0:
								if def := g.LocalDef(v); def != nil {
									d = compositeField(info, def, fDec)
								}
							}
						}
					}
					if d != nil {
						d = g.ResolveUnder(env, seen, d, x)
					}
					k := constObj(info, d)
					want := "Drop"
					if pol {
						want = "RecordAndSample"
					}
					if k == nil || k.Name() != want {
						okCond = false
					}
				}
			}
		}
		// x's definition mentions p.TraceID and no other variable
		xOK := false
		if xvar != nil {
			inspectNoLit(fn.Body(), func(n ast.Node) bool {
				as, ok := n.(*ast.AssignStmt)
				if !ok || len(as.Lhs) != 1 || !sameVar(info, as.Lhs[0], xvar) {
					return true
				}
				usesTID, usesOther := false, false
				ast.Inspect(as.Rhs[0], func(m ast.Node) bool {
					switch y := m.(type) {
					case *ast.SelectorExpr:
						if isField(info, y, fTraceID) {
							usesTID = true
							return false
						}
					case *ast.Ident:
						if v, ok := info.Uses[y].(*types.Var); ok && !v.IsField() && v.Pkg() == ix.Pkg.Types {
							usesOther = true
						}
					}
					return true
				})
				xOK = usesTID && !usesOther
				return true
			})
		}
		c.Check(okCond && xOK, "R4", "sdk/trace|traceIDRatioSampler.ShouldSample|sample ⇔ f(traceID) < traceIDUpperBound (strict)", at(ix.M, fn.Pos()),
			"single strict comparison of a trace-id-derived value with the fixed bound", "comparison is not the strict `x < bound` on a value derived only from the trace id (bound 0 must sample nothing; children must agree with parents)")
	}
	if fn := c.Fn(ix, "R4", "TraceIDRatioBased"); fn != nil {
		g := ix.FG(fn)
		frac := fn.Obj.Type().(*types.Signature).Params().At(0)
		always := ix.Func("AlwaysSample")
		// fraction >= 1 ⇒ return AlwaysSample()
		okHi, okLo, okBound := false, false, false
		for _, x := range g.Nodes {
			for _, e := range x.Succs {
				if edgeImplies(e, func(cnd ast.Expr, pol int) bool {
					l, op, r, ok := cmpNorm(cnd, pol)
					v, isC := constFloat(info, r)
					return ok && op == token.GEQ && sameVar(info, l, frac) && isC && v == 1
				}) {
					seen, _ := g.ReachFromEdge(e, nil)
					good := true
					for y := range seen {
						if rs, ok := y.N.(*ast.ReturnStmt); ok {
							if len(rs.Results) != 1 || !callToDecl(info, always)(unparen(rs.Results[0])) {
								good = false
							}
						}
					}
					okHi = good
				}
				if edgeImplies(e, func(cnd ast.Expr, pol int) bool {
					l, op, r, ok := cmpNorm(cnd, pol)
					v, isC := constFloat(info, r)
					return ok && (op == token.LEQ || op == token.LSS) && sameVar(info, l, frac) && isC && v == 0
				}) {
					// next statement assigns fraction = 0
					seen, _ := g.ReachFromEdge(e, nil)
					for y := range seen {
						if r := assignRHS(y.N, func(e ast.Expr) bool { return sameVar(info, e, frac) }); r != nil {
							if v, isC := constFloat(info, r); isC && v == 0 {
								okLo = true
							}
						}
					}
				}
			}
		}
		fBound := lookupField(ix.Pkg, "traceIDRatioSampler", "traceIDUpperBound")
		inspectNoLit(fn.Body(), func(n ast.Node) bool {
			cl, ok := n.(*ast.CompositeLit)
			if !ok {
				return true
			}
			v := compositeField(info, cl, fBound)
			if v == nil {
				return true
			}
			conv, ok := unparen(v).(*ast.CallExpr)
			if !ok || len(conv.Args) != 1 {
				return true
			}
			if tv, ok := info.Types[conv.Fun]; !ok || !tv.IsType() {
				return true
			}
			be, ok := unparen(conv.Args[0]).(*ast.BinaryExpr)
			if !ok || be.Op != token.MUL {
				return true
			}
			if sameVar(info, be.X, frac) {
				if k, isC := constFloat(info, be.Y); isC && k > 0 {
					okBound = true
				}
			} else if sameVar(info, be.Y, frac) {
				if k, isC := constFloat(info, be.X); isC && k > 0 {
					okBound = true
				}
			}
			return true
		})
		c.Check(okHi, "R4", "sdk/trace|TraceIDRatioBased|fraction >= 1 ⇒ AlwaysSample()", at(ix.M, fn.Pos()), "ratio 1 samples every trace", "fraction >= 1 no longer maps to the always-on sampler")
		c.Check(okLo, "R4", "sdk/trace|TraceIDRatioBased|fraction <= 0 ⇒ bound 0", at(ix.M, fn.Pos()), "ratio 0 samples nothing", "non-positive fraction is not clamped to 0 (a negative fraction converts to a huge unsigned bound)")
		c.Check(okBound, "R4", "sdk/trace|TraceIDRatioBased|bound = T(fraction × positive constant)", at(ix.M, fn.Pos()), "bound is monotone in the fraction", "bound is not a positive-constant multiple of the fraction (traces sampled at ratio r must be sampled at every larger ratio)")
	}

	// R5 id generator
	c.Rule("R5", "E3 dominance + E1 guarded-by", "generated ids are returned only after IsValid(); the random source is used only under the generator's mutex", 5)
	le := c.Locks(ix)
	le.GuardedBy(c.Run, "R5", GuardSpec{Type: "randomIDGenerator", Mutex: ".Mutex", Fields: []string{"randSource"}})
	for _, name := range []string{"(*randomIDGenerator).NewSpanID", "(*randomIDGenerator).NewIDs"} {
		fn := c.Fn(ix, "R5", name)
		if fn == nil {
			continue
		}
		g := ix.FG(fn)
		for _, x := range g.Nodes {
			rs, ok := x.N.(*ast.ReturnStmt)
			if !ok {
				continue
			}
			for i, res := range rs.Results {
				key := "sdk/trace|" + name + "|result " + itoa(i) + " validated"
				ok, why := validIDResult(ix, fn, res, x, 2)
				c.Check(ok, "R5", key, at(ix.M, rs.Pos()), "returned only after IsValid() (here or in the helper that produced it)", "an all-zero (invalid) id can be returned: "+why)
			}
		}
	}

	// the random source is seeded from crypto/rand (a clock seed gives providers created in the same instant identical id sequences)
	if fn := c.Fn(ix, "R5", "defaultIDGenerator"); fn != nil {
		var seedVar types.Object
		inspectNoLit(fn.Body(), func(n ast.Node) bool {
			if call, ok := n.(*ast.CallExpr); ok && isCallTo(info, call, "math/rand.NewSource") && len(call.Args) == 1 {
				seedVar = objOf(info, call.Args[0])
			}
			return true
		})
		fromCrypto, otherWrites := false, 0
		if seedVar != nil {
			inspectNoLit(fn.Body(), func(n ast.Node) bool {
				switch x := n.(type) {
				case *ast.CallExpr:
					if isCallTo(info, x, "encoding/binary.Read") && len(x.Args) == 3 {
						var rv *types.Var
						if sel, ok := unparen(x.Args[0]).(*ast.SelectorExpr); ok {
							rv, _ = info.Uses[sel.Sel].(*types.Var)
						}
						if v := rv; v != nil && v.Pkg() != nil && v.Pkg().Path() == "crypto/rand" && v.Name() == "Reader" {
							if u, ok := unparen(x.Args[2]).(*ast.UnaryExpr); ok && u.Op == token.AND && sameVar(info, u.X, seedVar) {
								fromCrypto = true
							}
						}
					}
				case *ast.AssignStmt:
					for _, l := range x.Lhs {
						if sameVar(info, l, seedVar) {
							otherWrites++
						}
					}
				}
				return true
			})
		}
		c.Check(seedVar != nil && fromCrypto && otherWrites == 0, "R5", "sdk/trace|defaultIDGenerator|random source seeded from crypto/rand only", at(ix.M, fn.Pos()), "seed ← binary.Read(crypto/rand.Reader)",
			"the id generator's seed does not come (only) from crypto/rand: generators created close together produce identical trace and span id sequences")
	}

	// R6 processors forward only sampled spans
	c.Rule("R6", "E3 dominance", "the simple processor exports only sampled spans (the batch processor's gate is C01.R5, re-checked here)", 3)
	fSspExp := lookupField(ix.Pkg, "simpleSpanProcessor", "exporter")
	fQueue := lookupField(ix.Pkg, "batchSpanProcessor", "queue")
	sampledEdge := func(fi *FuncInfo) func(*GEdge) bool {
		return func(e *GEdge) bool {
			return edgeImplies(e, func(cnd ast.Expr, pol int) bool {
				call, ok := cnd.(*ast.CallExpr)
				return pol > 0 && ok && (isCallTo(info, call, "("+otelTrace+".SpanContext).IsSampled") || isCallTo(info, call, "("+otelTrace+".TraceFlags).IsSampled"))
			})
		}
	}
	for _, s := range ix.FindCalls(func(f *FuncInfo, call *ast.CallExpr) bool {
		if !isCallTo(info, call, "("+sdkTrace+".SpanExporter).ExportSpans") {
			return false
		}
		recv, _ := methodCall(info, call)
		return isField(info, recv, fSspExp)
	}) {
		dominatedUpExempt = flushMarkerCall
		ok, why := ix.DominatedUp(s.F, s.N, sampledEdge, 0)
		dominatedUpExempt = nil
		c.Check(ok, "R6", "sdk/trace|"+s.F.Name+"|ExportSpans only for sampled spans", ix.at(s), "export dominated by IsSampled()", "an unsampled (record-only) span reaches the exporter: "+why)
	}
	for _, s := range ix.FindNodes(func(f *FuncInfo, n ast.Node) bool {
		st, ok := n.(*ast.SendStmt)
		return ok && isField(info, st.Chan, fQueue)
	}) {
		dominatedUpExempt = flushMarkerCall
		ok, why := ix.DominatedUp(s.F, s.N, sampledEdge, 0)
		dominatedUpExempt = nil
		c.Check(ok, "R6", "sdk/trace|"+s.F.Name+"|enqueue only sampled spans", ix.at(s), "send dominated by IsSampled()", "an unsampled span can be enqueued: "+why)
	}

	// R7 tracestate from the parent in every stock sampler result
	c.Rule("R7", "E4 provenance", "every SamplingResult built by a stock sampler takes Tracestate from the parent span context", 3)
	fRT := lookupField(ix.Pkg, "SamplingResult", "Tracestate")
	fPC := lookupField(ix.Pkg, "SamplingParameters", "ParentContext")
	cnt := map[string]int{}
	for _, s := range ix.FindNodes(func(f *FuncInfo, n ast.Node) bool {
		cl, ok := n.(*ast.CompositeLit)
		return ok && typeIs(info.Types[cl].Type, sdkTrace, "SamplingResult")
	}) {
		cl := s.N.(*ast.CompositeLit)
		cnt[s.F.Name]++
		key := "sdk/trace|" + s.F.Name + "|SamplingResult literal #" + itoa(cnt[s.F.Name]) + " Tracestate ← parent"
		v := compositeField(info, cl, fRT)
		good := false
		if call, ok := unparen(v).(*ast.CallExpr); ok && isCallTo(info, call, "("+otelTrace+".SpanContext).TraceState") {
			recv, _ := methodCall(info, call)
			fromParent := func(e ast.Expr) bool {
				pc, ok := unparen(e).(*ast.CallExpr)
				return ok && isCallTo(info, pc, otelTrace+".SpanContextFromContext") && len(pc.Args) == 1 && isField(info, pc.Args[0], fPC)
			}
			if fromParent(recv) {
				good = true
			} else if rv := objOf(info, recv); rv != nil {
				inspectNoLit(s.F.Body(), func(n ast.Node) bool {
					if as, ok := n.(*ast.AssignStmt); ok && len(as.Lhs) == 1 && len(as.Rhs) == 1 && sameVar(info, as.Lhs[0], rv) && fromParent(as.Rhs[0]) {
						good = true
					}
					return true
				})
			}
		}
		c.Check(good, "R7", key, ix.at(s), "Tracestate: SpanContextFromContext(p.ParentContext).TraceState()", "sampler result drops or replaces the parent's tracestate")
	}
}

// compositeField returns the value given for field fld in a keyed composite literal (also &T{…}), or nil.
func compositeField(info *types.Info, e ast.Expr, fld *types.Var) ast.Expr {
	e = unparen(e)
	if u, ok := e.(*ast.UnaryExpr); ok && u.Op == token.AND {
		e = unparen(u.X)
	}
	cl, ok := e.(*ast.CompositeLit)
	if !ok {
		return nil
	}
	for _, el := range cl.Elts {
		if kv, ok := el.(*ast.KeyValueExpr); ok {
			if id, ok := kv.Key.(*ast.Ident); ok && fld != nil && info.Uses[id] == types.Object(fld) {
				return kv.Value
			}
		}
	}
	return nil
}

func constFloat(info *types.Info, e ast.Expr) (float64, bool) {
	tv, ok := info.Types[e]
	if !ok || tv.Value == nil {
		return 0, false
	}
	v := constant.ToFloat(tv.Value)
	if v.Kind() != constant.Float {
		return 0, false
	}
	f, _ := constant.Float64Val(v)
	return f, true
}

// validIDResult: is the id returned at vertex x valid on every path? Either the returned variable passed v.IsValid() (the
// return is dominated by that edge), or the value comes — directly, or through a local with that single definition — from a
// declared function of the package all of whose returns satisfy the same (depth levels).
func validIDResult(ix *PkgIndex, fn *FuncInfo, res ast.Expr, x *GNode, depth int) (bool, string) {
	info := ix.Pkg.TypesInfo
	g := ix.FG(fn)
	res = unparen(res)
	viaHelper := func(e ast.Expr) (bool, string, bool) {
		call, ok := unparen(e).(*ast.CallExpr)
		if !ok || depth <= 0 {
			return false, "", false
		}
		h := ix.declByObj(callee(info, call))
		if h == nil || h == fn {
			return false, "", false
		}
		hg := ix.FG(h)
		n := 0
		for _, y := range hg.Nodes {
			rs, isRet := y.N.(*ast.ReturnStmt)
			if !isRet {
				continue
			}
			if len(rs.Results) != 1 {
				return false, h.Name + " returns several values", true
			}
			n++
			if ok, why := validIDResult(ix, h, rs.Results[0], y, depth-1); !ok {
				return false, "in " + h.Name + ": " + why, true
			}
		}
		return n > 0, "", true
	}
	if ok, why, is := viaHelper(res); is {
		return ok, why
	}
	v := objOf(info, res)
	if v == nil {
		return false, "returned id is neither a variable nor a call of a package function"
	}
	ok, why := g.DominatedByEdges(x, func(e *GEdge) bool {
		return edgeImplies(e, func(cnd ast.Expr, pol int) bool {
			call, isCall := cnd.(*ast.CallExpr)
			if !isCall || pol < 0 {
				return false
			}
			f := callee(info, call)
			if f == nil || f.Name() != "IsValid" {
				return false
			}
			recv, _ := methodCall(info, call)
			return sameVar(info, recv, v)
		})
	})
	if ok {
		return true, ""
	}
	if def := g.LocalDef(v); def != nil {
		if ok2, why2, is := viaHelper(def); is {
			return ok2, why2
		}
		// a copy of another variable (tid := tid, the result variable of a helper written out in place): that variable was
		// valid where the copy was made
		if w := objOf(info, def); w != nil && w != v && depth > 0 {
			if at := g.NodeOf(def); at != nil {
				return validIDResult(ix, fn, def, at, depth-1)
			}
		}
	}
	return false, why
}

// flagVarForm: the form ("set" / "clear" / "other") of flag variable v when control reaches vertex at, over the paths that are
// open under env. v starts from an expression classified by form and may then be updated by v |= S (set) / v &^= S (clear),
// also spelled v = v | S / v = v &^ S; any other write makes it "other". Paths disagreeing give "other".
func flagVarForm(g *FG, info *types.Info, v *types.Var, at *GNode, env Env, form func(ast.Expr) string, isS func(ast.Expr) bool) string {
	state := map[*GNode]string{} // form on entry to the vertex; "" = not reached yet, "?" = unassigned
	apply := func(x *GNode, in string) string {
		out := in
		if x.N == nil {
			return out
		}
		inspectNoLit(x.N, func(n ast.Node) bool {
			as, ok := n.(*ast.AssignStmt)
			if !ok {
				return true
			}
			for i, l := range as.Lhs {
				if !sameVar(info, l, v) {
					continue
				}
				switch {
				case as.Tok == token.OR_ASSIGN && len(as.Rhs) == 1 && isS(as.Rhs[0]):
					if out == "set" || out == "clear" {
						out = "set"
					} else {
						out = "other"
					}
				case as.Tok == token.AND_NOT_ASSIGN && len(as.Rhs) == 1 && isS(as.Rhs[0]):
					if out == "set" || out == "clear" {
						out = "clear"
					} else {
						out = "other"
					}
				case (as.Tok == token.ASSIGN || as.Tok == token.DEFINE) && len(as.Lhs) == len(as.Rhs):
					r := unparen(as.Rhs[i])
					if be, isB := r.(*ast.BinaryExpr); isB && sameVar(info, be.X, v) && isS(be.Y) && (be.Op == token.OR || be.Op == token.AND_NOT) {
						switch {
						case out != "set" && out != "clear":
							out = "other"
						case be.Op == token.OR:
							out = "set"
						default:
							out = "clear"
						}
					} else {
						out = form(as.Rhs[i])
					}
				default:
					out = "other"
				}
			}
			return true
		})
		return out
	}
	merge := func(a, b string) string {
		switch {
		case a == "":
			return b
		case b == "" || a == b:
			return a
		}
		return "other"
	}
	state[g.Entry] = "?"
	work := []*GNode{g.Entry}
	for len(work) > 0 {
		x := work[len(work)-1]
		work = work[:len(work)-1]
		out := apply(x, state[x])
		for _, e := range x.Succs {
			if !edgeOpen(info, e, env) {
				continue
			}
			if m := merge(state[e.To], out); m != state[e.To] {
				state[e.To] = m
				work = append(work, e.To)
			}
		}
	}
	s := state[at]
	if s == "" || s == "?" {
		return "other"
	}
	return s
}
