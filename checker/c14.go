package main

import (
	"go/ast"
	"go/constant"
	"go/token"
	"go/types"
	"golang.org/x/tools/go/packages"
	"os"
	"sort"
	"strings"
)

const otlpBase = "go.opentelemetry.io/otel/exporters/otlp/"

type otlpMod struct{ dir, pkg, kind, signal string }

var otlpClients = []otlpMod{
	{"exporters/otlp/otlptrace/otlptracehttp", otlpBase + "otlptrace/otlptracehttp", "http", "trace"},
	{"exporters/otlp/otlpmetric/otlpmetrichttp", otlpBase + "otlpmetric/otlpmetrichttp", "http", "metric"},
	{"exporters/otlp/otlplog/otlploghttp", otlpBase + "otlplog/otlploghttp", "http", "log"},
	{"exporters/otlp/otlptrace/otlptracegrpc", otlpBase + "otlptrace/otlptracegrpc", "grpc", "trace"},
	{"exporters/otlp/otlpmetric/otlpmetricgrpc", otlpBase + "otlpmetric/otlpmetricgrpc", "grpc", "metric"},
	{"exporters/otlp/otlplog/otlploggrpc", otlpBase + "otlplog/otlploggrpc", "grpc", "log"},
}

func otlpDirs() []string {
	var d []string
	for _, m := range otlpClients {
		d = append(d, m.dir)
	}
	return d
}

func init() {
	register(&PropDoc{
		ID:         "C14",
		Modules:    otlpDirs(),
		NotDecided: "timing as a measured quantity ('never waits less than': decided are the unit of the throttle and the max(throttle, backoff) shape); attempt counts; the back-off library; transport behaviour.",
		Fn:         c14,
	})
}

func short(m otlpMod) string { return m.pkg[strings.LastIndex(m.pkg, "/")+1:] }

func c14(c *Ctx) {
	c.Rule("R1", "E2 decision tables + E9 siblings", "retryable classification: HTTP 429/502/503/504 (after the 2xx success arm) and temporary url.Error; gRPC Canceled, DeadlineExceeded, Aborted, OutOfRange, Unavailable, DataLoss always, ResourceExhausted iff RetryInfo; nothing else; evaluate reports retryable only for the dedicated error type", 90)
	c.Rule("R2", "E7 unit rule", "the throttle handed to the retry loop is a time.Duration with a unit: Retry-After seconds × time.Second; gRPC RetryDelay.AsDuration()", 6)
	c.Rule("R3", "E3 path shape in six copies", "Config.RequestFunc: disabled ⇒ exactly one attempt; success ⇒ nil; not retryable ⇒ the error is returned before any wait; both elapsed-time tests precede the wait; wait argument is max(throttle, backoff); the wait's context error returns", 36)
	c.Rule("R4", "E3 ordering + E5", "HTTP: payload marshalled once outside the retried closure, request.reset(ctx) before client.Do on every attempt, 2xx never returns the partial-success error (it is handed to otel.Handle); gRPC: partial success handled, not returned", 12)
	c.Rule("R5", "E3 must-pass", "a client that interrupts in-flight retries through a stop channel closes it on every path of Stop (Stop is called once: an early return before the close leaves a retrying export running until MaxElapsedTime)", 1)
	c.Rule("R6", "E5 ownership", "the request body that is re-sent on every attempt does not alias memory that goes back to a sync.Pool when newRequest returns (a concurrent export would overwrite the bytes a pending retry is going to send)", 3)
	for _, m := range otlpClients {
		ix := c.Index(m.dir, m.pkg)
		if ix == nil {
			continue
		}
		if m.kind == "http" {
			c14PooledBody(c, ix, m)
			c14Stop(c, ix, m)
			c14HTTP(c, ix, m)
		} else {
			c14StopCtx(c, ix, m)
			c14GRPC(c, ix, m)
		}
		rx := c.Index(m.dir, m.pkg+"/internal/retry")
		if rx != nil {
			c14Retry(c, rx, m)
		}
	}
}

// retriedClosure finds the function literal that contains the (*http.Client).Do call.
func retriedClosure(ix *PkgIndex) *FuncInfo {
	info := ix.Pkg.TypesInfo
	for _, f := range ix.All {
		if f.Lit == nil {
			continue
		}
		found := false
		inspectNoLit(f.Body(), func(n ast.Node) bool {
			if call, ok := n.(*ast.CallExpr); ok && isCallTo(info, call, "(*net/http.Client).Do") {
				found = true
			}
			return true
		})
		if found {
			return f
		}
	}
	return nil
}

func c14HTTP(c *Ctx, ix *PkgIndex, m otlpMod) {
	info := ix.Pkg.TypesInfo
	sp := short(m)
	cl := retriedClosure(ix)
	if cl == nil {
		c.Missing("R1", sp+": retried closure (literal calling http.Client.Do)")
		return
	}
	c.Analysed(ix.Outer(cl))
	g := ix.FG(cl)
	newRespErr := ix.Func("newResponseError")
	if newRespErr == nil {
		c.Missing("R1", sp+".newResponseError")
		return
	}
	// variables defined from resp.StatusCode
	scVars := map[types.Object]bool{}
	isStatus := func(e ast.Expr) bool {
		if fv, _ := fieldOf(info, e); fv != nil && fv.Name() == "StatusCode" && fv.Pkg() != nil && fv.Pkg().Path() == "net/http" {
			return true
		}
		o := objOf(info, e)
		return o != nil && scVars[o]
	}
	// … in the retried closure and in the declared functions of the package (response handling may live in helpers)
	for _, f := range ix.All {
		inspectNoLit(f.Body(), func(n ast.Node) bool {
			if as, ok := n.(*ast.AssignStmt); ok && len(as.Lhs) == 1 && len(as.Rhs) == 1 && isStatus(as.Rhs[0]) {
				if o := objOf(info, as.Lhs[0]); o != nil {
					scVars[o] = true
				}
			}
			return true
		})
	}
	// the Do error variable: nil on the status paths
	var doErr types.Object
	inspectNoLit(cl.Body(), func(n ast.Node) bool {
		if as, ok := n.(*ast.AssignStmt); ok && len(as.Lhs) == 2 && len(as.Rhs) == 1 {
			if call, ok := unparen(as.Rhs[0]).(*ast.CallExpr); ok && isCallTo(info, call, "(*net/http.Client).Do") {
				doErr = objOf(info, as.Lhs[1])
			}
		}
		return true
	})
	classify := func(rs *ast.ReturnStmt) string {
		if len(rs.Results) != 1 {
			return "other"
		}
		r := unparen(rs.Results[0])
		if isNilIdent(info, r) {
			return "nil"
		}
		if callToDecl(info, newRespErr)(r) {
			return "retryable"
		}
		return "error"
	}
	retrySet := map[int64]bool{429: true, 502: true, 503: true, 504: true}
	for _, code := range []int64{100, 199, 200, 202, 204, 299, 300, 301, 304, 400, 401, 403, 404, 408, 413, 429, 500, 501, 502, 503, 504, 505, 507, 511, 599} {
		env := func(e ast.Expr) (constant.Value, bool) {
			if isStatus(e) {
				return constant.MakeInt64(code), true
			}
			// the transport error is nil on these paths
			if be, ok := e.(*ast.BinaryExpr); ok && doErr != nil {
				if nn, isCmp := nilCmp(info, be, 1, func(x ast.Expr) bool { return sameVar(info, x, doErr) }); isCmp {
					return constant.MakeBool(nn == false && false || nn && false), true // err != nil is false, err == nil is true
				}
			}
			if call, ok := e.(*ast.CallExpr); ok && isCallTo(info, call, "errors.As") {
				return constant.MakeBool(false), true
			}
			return nil, false
		}
		// fix nilCmp polarity handling: evaluate err==nil → true, err!=nil → false
		env2 := func(e ast.Expr) (constant.Value, bool) {
			if be, ok := e.(*ast.BinaryExpr); ok && doErr != nil && (be.Op == token.EQL || be.Op == token.NEQ) {
				if (sameVar(info, be.X, doErr) && isNilIdent(info, be.Y)) || (sameVar(info, be.Y, doErr) && isNilIdent(info, be.X)) {
					return constant.MakeBool(be.Op == token.EQL), true
				}
			}
			return env(e)
		}
		// the outcomes reachable for this status: returns of the closure, and — where a return hands back the result of a
		// response-handling helper of the package — the returns of that helper under the same facts (one level)
		got := map[string]bool{}
		var collect func(f *FuncInfo, depth int)
		collect = func(f *FuncInfo, depth int) {
			fg := ix.FG(f)
			for x := range fg.ReachUnder(env2) {
				rs, ok := x.N.(*ast.ReturnStmt)
				if !ok {
					continue
				}
				if len(rs.Results) == 1 && depth > 0 {
					if call, isCall := unparen(rs.Results[0]).(*ast.CallExpr); isCall && !callToDecl(info, newRespErr)(call) {
						if h := ix.declByObj(callee(info, call)); h != nil && h != f {
							collect(h, depth-1)
							continue
						}
					}
				}
				got[classify(rs)] = true
			}
		}
		collect(cl, 1)
		wantRetry := retrySet[code]
		want2xx := code >= 200 && code <= 299
		okk := got["retryable"] == wantRetry && got["nil"] == want2xx
		c.Check(okk, "R1", sp+"|UploadX$closure|HTTP status "+itoa(int(code)), at(ix.M, cl.Pos()),
			"retryable="+boolStr(got["retryable"])+" success="+boolStr(got["nil"]),
			"HTTP "+itoa(int(code))+": retryable="+boolStr(got["retryable"])+" (OTLP/HTTP says "+boolStr(wantRetry)+"), success="+boolStr(got["nil"])+" (should be "+boolStr(want2xx)+")")
	}
	// temporary url.Error is retryable
	{
		good := false
		for _, x := range g.Nodes {
			for _, e := range x.Succs {
				if e.Cond == nil || e.Pol < 0 {
					continue
				}
				hasAs, hasTemp := false, false
				ast.Inspect(e.Cond, func(n ast.Node) bool {
					if call, ok := n.(*ast.CallExpr); ok {
						if isCallTo(info, call, "errors.As") {
							hasAs = true
						}
						if isCallTo(info, call, "(*net/url.Error).Temporary") {
							hasTemp = true
						}
					}
					return true
				})
				if hasAs && hasTemp {
					s, _ := g.ReachFromEdge(e, nil)
					only := true
					n := 0
					for y := range s {
						if rs, ok := y.N.(*ast.ReturnStmt); ok {
							n++
							if classify(rs) != "retryable" {
								only = false
							}
						}
					}
					good = only && n > 0
				}
			}
		}
		c.Check(good, "R1", sp+"|UploadX$closure|temporary url.Error ⇒ retryable", at(ix.M, cl.Pos()), "transient transport errors are retried", "a temporary transport error is not classified retryable")
	}
	// evaluate
	if ev := c.Fn(ix, "R1", "evaluate"); ev != nil {
		eg := ix.FG(ev)
		var okVar types.Object
		inspectNoLit(ev.Body(), func(n ast.Node) bool {
			if as, ok := n.(*ast.AssignStmt); ok && len(as.Lhs) == 2 && len(as.Rhs) == 1 {
				if _, isTA := unparen(as.Rhs[0]).(*ast.TypeAssertExpr); isTA {
					okVar = objOf(info, as.Lhs[1])
				}
				if call, isCall := unparen(as.Rhs[0]).(*ast.CallExpr); isCall && isCallTo(info, call, "errors.As") {
					okVar = objOf(info, as.Lhs[0])
				}
			}
			return true
		})
		firstResults := func(okv bool) []string {
			env := func(e ast.Expr) (constant.Value, bool) {
				if okVar != nil && sameVar(info, e, okVar) {
					return constant.MakeBool(okv), true
				}
				if call, ok := e.(*ast.CallExpr); ok && isCallTo(info, call, "errors.As") {
					return constant.MakeBool(okv), true
				}
				if be, ok := e.(*ast.BinaryExpr); ok && isNilIdent(info, be.Y) {
					if isErrVar(info, be.X) {
						return constant.MakeBool(be.Op == token.NEQ), true
					}
				}
				return nil, false
			}
			var out []string
			for x := range eg.ReachUnder(env) {
				if rs, ok := x.N.(*ast.ReturnStmt); ok && len(rs.Results) == 2 {
					if tv := info.Types[rs.Results[0]]; tv.Value != nil {
						out = append(out, tv.Value.String())
					} else {
						out = append(out, "?")
					}
				}
			}
			sort.Strings(out)
			return out
		}
		no, yes := firstResults(false), firstResults(true)
		c.Check(len(no) == 1 && no[0] == "false" && len(yes) == 1 && yes[0] == "true", "R1", sp+"|evaluate|retryable ⇔ the error is the dedicated retryable type", at(ix.M, ev.Pos()),
			"other errors are final", "evaluate classifies errors of another type as retryable (or the retryable type as final): "+strings.Join(no, ",")+" / "+strings.Join(yes, ","))
		// R2: unit of the throttle
		var thr ast.Expr
		inspectNoLit(ev.Body(), func(n ast.Node) bool {
			if rs, ok := n.(*ast.ReturnStmt); ok && len(rs.Results) == 2 {
				if tv := info.Types[rs.Results[0]]; tv.Value != nil && constant.BoolVal(tv.Value) {
					thr = rs.Results[1]
				}
			}
			return true
		})
		good, why := durationHasUnit(info, thr)
		c.Check(good, "R2", sp+"|evaluate|throttle carries a time unit", at(ix.M, ev.Pos()), "Retry-After seconds × time.Second",
			"the Retry-After value (delta-seconds, RFC 7231 §7.1.3) is converted with "+why+": the exporter waits that many NANOSECONDS, i.e. ignores the server's throttling request")
	}
	// Retry-After parsed as an integer number of seconds into the throttle field
	{
		good := false
		inspectNoLit(newRespErr.Body(), func(n ast.Node) bool {
			if call, ok := n.(*ast.CallExpr); ok && (isCallTo(info, call, "strconv.ParseInt") || isCallTo(info, call, "strconv.Atoi")) {
				good = true
			}
			return true
		})
		hdr := false
		ast.Inspect(newRespErr.Body(), func(n ast.Node) bool {
			if s, ok := n.(*ast.BasicLit); ok && s.Value == `"Retry-After"` {
				hdr = true
			}
			return true
		})
		c.Check(good && hdr, "R2", sp+"|newResponseError|throttle ← integer Retry-After header", at(ix.M, newRespErr.Pos()), "delta-seconds parsed", "the Retry-After header is no longer read into the throttle")
	}

	// R4
	outer := ix.Outer(cl)
	{
		marsh := ix.FindCalls(func(f *FuncInfo, call *ast.CallExpr) bool {
			return ix.Outer(f) == outer && isCallTo(info, call, "google.golang.org/protobuf/proto.Marshal")
		})
		good := len(marsh) == 1 && marsh[0].F == outer && !inLoop(outer, marsh[0].N)
		c.Check(good, "R4", sp+"|"+outer.Name+"|payload marshalled once, outside the retried closure", at(ix.M, outer.Pos()), "every attempt sends the same bytes", "the payload is (re)built inside the retry loop or more than once")
		reset := ix.Func("(*request).reset")
		rs := g.Match(callToDecl(info, reset))
		do := g.Match(func(n ast.Node) bool {
			call, ok := n.(*ast.CallExpr)
			return ok && isCallTo(info, call, "(*net/http.Client).Do")
		})
		okR := len(rs) == 1 && len(do) == 1
		if okR {
			okR, _ = g.DominatedByNodes(do[0], toSet(rs))
		}
		c.Check(okR, "R4", sp+"|UploadX$closure|request.reset(ctx) precedes client.Do", at(ix.M, cl.Pos()), "the body reader is rewound for every attempt", "a retried attempt re-sends a consumed (empty) body")
		// … and binds the request to the closure's own context (the one the retry loop and the stop signal cancel)
		if len(rs) == 1 && len(cl.Lit.Type.Params.List) == 1 && len(cl.Lit.Type.Params.List[0].Names) == 1 {
			p := info.Defs[cl.Lit.Type.Params.List[0].Names[0]]
			argOK := false
			inspectNoLit(rs[0].N, func(n ast.Node) bool {
				if call, ok := n.(*ast.CallExpr); ok && callToDecl(info, reset)(call) && len(call.Args) == 1 {
					argOK = sameVar(info, call.Args[0], p)
				}
				return true
			})
			c.Check(argOK, "R4", sp+"|UploadX$closure|request.reset receives the attempt's own context", at(ix.M, rs[0].N.Pos()), "the in-flight request is cancelled with the attempt",
				"the HTTP request is bound to another context than the one handed to the attempt: shutdown or deadline no longer interrupts an in-flight request")
			// and every ctx.Done()/Err() inside the closure is the parameter's
			okCtx := true
			inspectNoLit(cl.Body(), func(n ast.Node) bool {
				if call, ok := n.(*ast.CallExpr); ok && (isCallTo(info, call, "(context.Context).Done") || isCallTo(info, call, "(context.Context).Err")) {
					if recv, _ := methodCall(info, call); recv != nil && !sameVar(info, recv, p) {
						okCtx = false
					}
				}
				return true
			})
			c.Check(okCtx, "R4", sp+"|UploadX$closure|cancellation tests use the attempt's own context", at(ix.M, cl.Pos()), "ctx parameter", "the closure tests another context than the one it was given")
		}
		// partial success: handled, never returned
		found, handled, returned := partialSuccessArm(info, cl)
		if !found {
			// the 2xx handling may live in a helper of the package the closure returns through
			inspectNoLit(cl.Body(), func(n ast.Node) bool {
				if call, ok := n.(*ast.CallExpr); ok && !found {
					if h := ix.declByObj(callee(info, call)); h != nil {
						if f2, h2, r2 := partialSuccessArm(info, h); f2 {
							found, handled, returned = f2, h2, r2
						}
					}
				}
				return true
			})
		}
		// … and the message is decoded from the whole response body: a read that stops after N bytes hands proto.Unmarshal a
		// truncated message, a delivered export is then reported as failed and the rejection never reaches the handler
		{
			truncating := func(n ast.Node, depth int) bool { return false }
			truncating = func(n ast.Node, depth int) bool {
				hit := false
				inspectNoLit(n, func(m ast.Node) bool {
					call, ok := m.(*ast.CallExpr)
					if !ok {
						return true
					}
					if isCallTo(info, call, "io.LimitReader") || isCallTo(info, call, "io.CopyN") || isCallTo(info, call, "net/http.MaxBytesReader") {
						hit = true
					}
					if depth < 2 {
						if d := ix.declByObj(callee(info, call)); d != nil && d.Body() != nil && truncating(d.Body(), depth+1) {
							hit = true
						}
					}
					return true
				})
				return hit
			}
			var cut, decode []*GNode
			for _, x := range g.Nodes {
				if x.N == nil {
					continue
				}
				if truncating(x.N, 0) {
					cut = append(cut, x)
				}
				inspectNoLit(x.N, func(m ast.Node) bool {
					if call, ok := m.(*ast.CallExpr); ok && isCallTo(info, call, "google.golang.org/protobuf/proto.Unmarshal") {
						decode = append(decode, x)
					}
					return true
				})
			}
			bad := ""
			for _, ct := range cut {
				r, _ := g.Reach([]*GNode{ct}, nil, nil)
				for _, d := range decode {
					if r[d] {
						bad = "a size-limited read at " + ix.M.posStr(ct.N.Pos()) + " feeds proto.Unmarshal at " + ix.M.posStr(d.N.Pos())
					}
				}
			}
			if len(decode) > 0 {
				c.Check(bad == "", "R4", sp+"|UploadX$closure|the response message is decoded from the whole body", at(ix.M, decode[0].N.Pos()), itoa(len(decode))+" decode site(s), none behind a size-limited read",
					"a partial-success message longer than the limit is cut, Unmarshal fails and the export that the collector accepted is reported as an error (and the rejection is never handed to otel.Handle): "+bad)
			}
		}
		ps := found
		c.Check(ps && handled && !returned, "R4", sp+"|UploadX$closure|partial success reported through otel.Handle, not returned", at(ix.M, cl.Pos()), "a 2xx response is a success for the retry loop", "a partially successful export is returned as an error (and would be retried, duplicating accepted data) or silently ignored")
	}
}

// durationHasUnit: e is time.Duration(x) * <time unit> (either order), a Duration-typed call result, or the constant 0.
func durationHasUnit(info *types.Info, e ast.Expr) (bool, string) {
	if e == nil {
		return false, "no throttle expression"
	}
	e = unparen(e)
	if tv := info.Types[e]; tv.Value != nil {
		return true, ""
	}
	isUnit := func(x ast.Expr) bool {
		k := constObj(info, x)
		return k != nil && k.Pkg() != nil && k.Pkg().Path() == "time"
	}
	if be, ok := e.(*ast.BinaryExpr); ok && be.Op == token.MUL {
		if isUnit(be.X) || isUnit(be.Y) {
			return true, ""
		}
	}
	if call, ok := e.(*ast.CallExpr); ok {
		if tv, isT := info.Types[call.Fun]; isT && tv.IsType() {
			// bare conversion: acceptable only if the operand is itself a Duration
			if at := info.Types[call.Args[0]].Type; at != nil && typeIs(at, "time", "Duration") {
				return true, ""
			}
			return false, "a bare " + exprStr(e) + " (no unit)"
		}
		return true, "" // function result typed time.Duration (e.g. AsDuration())
	}
	if id, ok := e.(*ast.Ident); ok {
		_ = id
		return true, ""
	}
	return true, ""
}

func c14GRPC(c *Ctx, ix *PkgIndex, m otlpMod) {
	info := ix.Pkg.TypesInfo
	sp := short(m)
	fn := c.Fn(ix, "R1", "retryableGRPCStatus")
	td := c.Fn(ix, "R1", "throttleDelay")
	if fn == nil || td == nil {
		return
	}
	g := ix.FG(fn)
	codesPkg := ix.M.Pkg("google.golang.org/grpc/codes")
	if codesPkg == nil {
		c.Missing("R1", "google.golang.org/grpc/codes in the import graph of "+sp)
		return
	}
	always := map[string]bool{"Canceled": true, "DeadlineExceeded": true, "Aborted": true, "OutOfRange": true, "Unavailable": true, "DataLoss": true}
	// locals holding throttleDelay's first result ("the status carries a RetryInfo")
	hasInfo := map[types.Object]bool{}
	inspectNoLit(fn.Body(), func(n ast.Node) bool {
		if as, ok := n.(*ast.AssignStmt); ok && len(as.Lhs) == 2 && len(as.Rhs) == 1 && callToDecl(info, td)(unparen(as.Rhs[0])) {
			if o := objOf(info, as.Lhs[0]); o != nil {
				// assigned once
				n := 0
				inspectNoLit(fn.Body(), func(m ast.Node) bool {
					if a2, ok := m.(*ast.AssignStmt); ok {
						for _, l := range a2.Lhs {
							if objOf(info, l) == o {
								n++
							}
						}
					}
					return true
				})
				if n == 1 {
					hasInfo[o] = true
				}
			}
		}
		return true
	})
	for _, k := range enumConsts(lookupType(codesPkg, "Code")) {
		if k.Name() == "_maxCode" {
			continue
		}
		env := func(e ast.Expr) (constant.Value, bool) {
			if call, ok := e.(*ast.CallExpr); ok && func() bool {
				cf := callee(info, call)
				return cf != nil && cf.Name() == "Code" && strings.HasSuffix(cf.FullName(), "status.Status).Code")
			}() {
				return k.Val(), true
			}
			return nil, false
		}
		var got []string
		seenK := g.ReachUnder(env)
		// a boolean local that is only ever assigned constants (var always bool; case …: always = true): under this code its
		// value is the constant the reachable assignments agree on, or its zero value when none is reachable
		flagVal := func(e ast.Expr) (string, bool) {
			v, ok := objOf(info, e).(*types.Var)
			if !ok || v.IsField() {
				return "", false
			}
			if b, isB := v.Type().Underlying().(*types.Basic); !isB || b.Info()&types.IsBoolean == 0 {
				return "", false
			}
			vals := map[string]bool{}
			allConst := true
			for _, y := range g.Nodes {
				as, isAs := y.N.(*ast.AssignStmt)
				if !isAs || len(as.Lhs) != len(as.Rhs) {
					continue
				}
				for i, l := range as.Lhs {
					if !sameVar(info, l, v) {
						continue
					}
					tv := info.Types[as.Rhs[i]]
					if tv.Value == nil {
						allConst = false
						continue
					}
					if seenK[y] {
						vals[tv.Value.String()] = true
					}
				}
			}
			if !allConst || len(vals) > 1 {
				return "", false
			}
			for k := range vals {
				return k, true
			}
			return "false", true
		}
		for x := range seenK {
			rs, ok := x.N.(*ast.ReturnStmt)
			if !ok {
				continue
			}
			// the first result under this code: a constant, the RetryInfo flag, or `A || flag` / `A && flag` with A folding
			var classify func(e ast.Expr, depth int) string
			classify = func(e ast.Expr, depth int) string {
				e = unparen(e)
				if v, known := evalConst(info, e, g.withLocals(env)); known && v.Kind() == constant.Bool {
					return v.String()
				}
				if hasInfo[objOf(info, e)] {
					return "iff-RetryInfo"
				}
				if fv, ok := flagVal(e); ok {
					return fv
				}
				if be, isB := e.(*ast.BinaryExpr); isB && depth < 3 && (be.Op == token.LOR || be.Op == token.LAND) {
					l, r := classify(be.X, depth+1), classify(be.Y, depth+1)
					unit, zero := "false", "true"
					if be.Op == token.LAND {
						unit, zero = "true", "false"
					}
					switch {
					case l == zero || r == zero:
						return zero
					case l == unit:
						return r
					case r == unit:
						return l
					}
				}
				return "?"
			}
			switch {
			case len(rs.Results) == 2 && info.Types[rs.Results[0]].Value != nil:
				got = append(got, info.Types[rs.Results[0]].Value.String())
			case len(rs.Results) == 2 && classify(rs.Results[0], 0) != "?":
				got = append(got, classify(rs.Results[0], 0))
			case len(rs.Results) == 1 && callToDecl(info, td)(unparen(rs.Results[0])):
				got = append(got, "iff-RetryInfo")
			case len(rs.Results) == 2 && hasInfo[objOf(info, rs.Results[0])]:
				got = append(got, "iff-RetryInfo")
			default:
				got = append(got, "?")
			}
		}
		sort.Strings(got)
		want := "false"
		if always[k.Name()] {
			want = "true"
		}
		if k.Name() == "ResourceExhausted" {
			want = "iff-RetryInfo"
		}
		c.Check(len(got) == 1 && got[0] == want, "R1", sp+"|retryableGRPCStatus|"+k.Name(), at(ix.M, fn.Pos()), "→ "+want,
			"gRPC code "+k.Name()+" is classified "+strings.Join(got, ",")+", OTLP specification says "+want)
	}
	// throttleDelay: true only for a RetryInfo detail, delay from RetryDelay.AsDuration()
	{
		tg := ix.FG(td)
		good, n := true, 0
		for _, x := range tg.Nodes {
			rs, ok := x.N.(*ast.ReturnStmt)
			if !ok || len(rs.Results) != 2 {
				continue
			}
			tv := info.Types[rs.Results[0]]
			if tv.Value == nil {
				good = false
				continue
			}
			if constant.BoolVal(tv.Value) {
				n++
				call, ok := unparen(rs.Results[1]).(*ast.CallExpr)
				if !ok || !isCallTo(info, call, "(*google.golang.org/protobuf/types/known/durationpb.Duration).AsDuration") {
					good = false
				}
				// dominated by the RetryInfo type assertion ok
				d, _ := tg.DominatedByEdges(x, func(e *GEdge) bool {
					return edgeImplies(e, func(cnd ast.Expr, pol int) bool {
						return pol > 0 && isBoolVar(info, cnd)
					})
				})
				if !d {
					good = false
				}
			}
		}
		c.Check(good && n == 1, "R2", sp+"|throttleDelay|delay = RetryInfo.RetryDelay.AsDuration(), only when the detail is present", at(ix.M, td.Pos()), "server-provided delay with its unit", "the gRPC throttle delay is not the server's RetryDelay (or is reported without a RetryInfo detail)")
	}
	// R4: partial success handled, not returned
	handled, returned := false, false
	for _, f := range ix.All {
		fd, h, r := partialSuccessArm(info, f)
		if fd {
			if os.Getenv("VERIF_DBG14") != "" {
				println("PSA", sp, f.Name, h, r)
			}
			c.Analysed(ix.Outer(f))
			handled = handled || h
			returned = returned || r
		}
	}
	c.Check(handled && !returned, "R4", sp+"|upload|partial success reported through otel.Handle, not returned", at(ix.M, fn.Pos()), "a successful RPC is a success for the retry loop", "a partially successful export is returned as an error (and retried) or ignored")
	// status OK ⇒ nil
	{
		good := false
		for _, f := range ix.All {
			inspectNoLit(f.Body(), func(n ast.Node) bool {
				be, ok := n.(*ast.BinaryExpr)
				if !ok || be.Op != token.EQL {
					return true
				}
				k := constObj(info, be.Y)
				call, isCall := unparen(be.X).(*ast.CallExpr)
				if k != nil && k.Name() == "OK" && isCall && isCallTo(info, call, "google.golang.org/grpc/status.Code") {
					good = true
				}
				return true
			})
		}
		c.Check(good, "R4", sp+"|upload|status.Code(err) == codes.OK ⇒ success", at(ix.M, fn.Pos()), "OK status is not an error", "an OK status is no longer mapped to success")
	}
}

// c14Retry checks the shape of Config.RequestFunc in one copy of internal/retry.
func c14Retry(c *Ctx, rx *PkgIndex, m otlpMod) {
	info := rx.Pkg.TypesInfo
	sp := short(m) + "/internal/retry"
	fn := c.Fn(rx, "R3", "Config.RequestFunc")
	if fn == nil {
		return
	}
	evalP := fn.Obj.Type().(*types.Signature).Params().At(0)
	fEnabled := lookupField(rx.Pkg, "Config", "Enabled")
	// literals returned
	var lits []*FuncInfo
	for _, f := range rx.All {
		if f.Lit != nil && rx.Parent[f.Lit] == fn {
			lits = append(lits, f)
		}
	}
	var disabled, enabled *FuncInfo
	g0 := rx.FG(fn)
	for _, pol := range []bool{false, true} {
		env := func(e ast.Expr) (constant.Value, bool) {
			if isField(info, e, fEnabled) {
				return constant.MakeBool(pol), true
			}
			return nil, false
		}
		for x := range g0.ReachUnder(env) {
			if rs, ok := x.N.(*ast.ReturnStmt); ok && len(rs.Results) == 1 {
				if l, ok := unparen(rs.Results[0]).(*ast.FuncLit); ok {
					if pol {
						enabled = rx.OfLit[l]
					} else {
						disabled = rx.OfLit[l]
					}
				}
			}
		}
	}
	if disabled == nil || enabled == nil || disabled == enabled {
		c.Violation("R3", sp+"|Config.RequestFunc|two literals selected by Enabled", at(rx.M, fn.Pos()), "cannot identify the disabled / enabled request functions")
		return
	}
	paramN := func(f *FuncInfo, i int) types.Object {
		k := 0
		for _, fl := range f.Lit.Type.Params.List {
			for _, nm := range fl.Names {
				if k == i {
					return info.Defs[nm]
				}
				k++
			}
		}
		return nil
	}
	// disabled: exactly one call of fn, not in a loop
	{
		fnP := paramN(disabled, 1)
		n := 0
		loop := false
		inspectNoLit(disabled.Body(), func(nd ast.Node) bool {
			if call, ok := nd.(*ast.CallExpr); ok && fnP != nil && sameVar(info, call.Fun, fnP) {
				n++
				if inLoop(disabled, call) {
					loop = true
				}
			}
			return true
		})
		c.Check(n == 1 && !loop, "R3", sp+"|Config.RequestFunc|retry disabled ⇒ exactly one attempt", at(rx.M, disabled.Pos()), "fn(ctx) once", "with retry disabled the request is attempted "+itoa(n)+" times / in a loop")
	}
	g := rx.FG(enabled)
	fnP := paramN(enabled, 1)
	attempts := g.Match(func(n ast.Node) bool {
		call, ok := n.(*ast.CallExpr)
		return ok && fnP != nil && sameVar(info, call.Fun, fnP)
	})
	var errVar, retryVar, thrVar types.Object
	inspectNoLit(enabled.Body(), func(n ast.Node) bool {
		as, ok := n.(*ast.AssignStmt)
		if !ok || len(as.Rhs) != 1 {
			return true
		}
		call, ok := unparen(as.Rhs[0]).(*ast.CallExpr)
		if !ok {
			return true
		}
		if fnP != nil && sameVar(info, call.Fun, fnP) && len(as.Lhs) == 1 {
			errVar = objOf(info, as.Lhs[0])
		}
		if sameVar(info, call.Fun, evalP) && len(as.Lhs) == 2 {
			retryVar, thrVar = objOf(info, as.Lhs[0]), objOf(info, as.Lhs[1])
		}
		return true
	})
	isWait := func(n ast.Node) bool {
		call, ok := n.(*ast.CallExpr)
		if !ok {
			return false
		}
		// the wait: time.Sleep, or a call — directly or through a package-level function variable — of a function of this
		// package with the shape func(context.Context, time.Duration) error (identified by signature, not by name)
		isWaitSig := func(t types.Type) bool {
			sig, ok := t.Underlying().(*types.Signature)
			if !ok || sig.Params().Len() != 2 || sig.Results().Len() != 1 {
				return false
			}
			return typeIs(sig.Params().At(0).Type(), "context", "Context") && typeIs(sig.Params().At(1).Type(), "time", "Duration")
		}
		if v, ok := objOf(info, call.Fun).(*types.Var); ok && !v.IsField() && v.Pkg() != nil && v.Parent() == v.Pkg().Scope() && isWaitSig(v.Type()) {
			return true
		}
		if cf := callee(info, call); cf != nil {
			if cf.FullName() == "time.Sleep" {
				return true
			}
			if cf.Pkg() == rx.Pkg.Types && cf.Type().(*types.Signature).Recv() == nil && isWaitSig(cf.Type()) {
				return true
			}
		}
		return false
	}
	waits := g.Match(isWait)
	if len(attempts) != 1 || errVar == nil || retryVar == nil || thrVar == nil || len(waits) != 1 {
		c.Violation("R3", sp+"|Config.RequestFunc$enabled|loop anchors", at(rx.M, enabled.Pos()), "attempt / evaluate / wait call sites not found as expected")
		return
	}
	att, wt := attempts[0], waits[0]
	edges := func(pred func(cnd ast.Expr, pol int) bool) []*GEdge {
		var out []*GEdge
		for _, x := range g.Nodes {
			for _, e := range x.Succs {
				if edgeImplies(e, pred) {
					out = append(out, e)
				}
			}
		}
		return out
	}
	// success ⇒ nil
	{
		es := edges(func(cnd ast.Expr, pol int) bool {
			nn, ok := nilCmp(info, cnd, pol, func(x ast.Expr) bool { return sameVar(info, x, errVar) })
			return ok && !nn
		})
		good := len(es) > 0
		for _, e := range es {
			s, _ := g.ReachFromEdge(e, nil)
			for y := range s {
				if y == att || y == wt {
					good = false
				}
				if rs, ok := y.N.(*ast.ReturnStmt); ok && (len(rs.Results) != 1 || !isNilIdent(info, rs.Results[0])) {
					good = false
				}
			}
		}
		c.Check(good, "R3", sp+"|Config.RequestFunc$enabled|err == nil ⇒ return nil at once", at(rx.M, enabled.Pos()), "a successful attempt ends the loop", "a successful attempt is followed by another attempt or a wait, or returns an error")
	}
	// not retryable ⇒ return err before any wait (negative form: from the evaluate call, the wait is reachable only across an edge implying retryable)
	{
		evalNode := g.Match(func(n ast.Node) bool { call, ok := n.(*ast.CallExpr); return ok && sameVar(info, call.Fun, evalP) })[0]
		s, _ := g.Reach([]*GNode{evalNode}, nil, func(e *GEdge) bool {
			return edgeImplies(e, func(cnd ast.Expr, pol int) bool { return pol > 0 && sameVar(info, cnd, retryVar) })
		})
		bad := s[wt] || s[att]
		// and the non-retryable return returns the error itself
		es := edges(func(cnd ast.Expr, pol int) bool { return pol < 0 && sameVar(info, cnd, retryVar) })
		retErr := len(es) > 0
		for _, e := range es {
			s2, _ := g.ReachFromEdge(e, nil)
			for y := range s2 {
				if rs, ok := y.N.(*ast.ReturnStmt); ok && (len(rs.Results) != 1 || !sameVar(info, rs.Results[0], errVar)) {
					retErr = false
				}
			}
		}
		c.Check(!bad && retErr, "R3", sp+"|Config.RequestFunc$enabled|not retryable ⇒ the error is returned before any wait or further attempt", at(rx.M, enabled.Pos()), "final errors are final", "a non-retryable failure is retried or waited on")
	}
	// elapsed-time tests precede the wait; their true outcome returns an error without waiting
	{
		var conds []*GNode
		for _, x := range g.Nodes {
			e, ok := x.N.(ast.Expr)
			if !ok {
				continue
			}
			mentions := false
			ast.Inspect(e, func(n ast.Node) bool {
				if be, ok := n.(*ast.BinaryExpr); ok && be.Op == token.GTR {
					// the configured limit: the MaxElapsedTime field itself or a local holding it
					y := unparen(be.Y)
					if id, isID := y.(*ast.Ident); isID {
						if def := g.LocalDef(info.Uses[id]); def != nil {
							y = unparen(def)
						}
					}
					// … or a field of a small local struct that was given it (budget.limit)
					if fd, _ := g.FieldDef(y); fd != nil {
						y = unparen(fd)
					}
					if sel, isSel := y.(*ast.SelectorExpr); isSel && sel.Sel.Name == "MaxElapsedTime" {
						mentions = true
					}
				}
				return true
			})
			isCond := false
			for _, ed := range x.Succs {
				if ed.Cond != nil {
					isCond = true
				}
			}
			if mentions && isCond {
				conds = append(conds, x)
			}
		}
		good := len(conds) == 2
		for _, x := range conds {
			if d, _ := g.DominatedByNodes(wt, map[*GNode]bool{x: true}); !d {
				good = false
			}
			for _, ed := range x.Succs {
				if ed.Pol > 0 {
					s, _ := g.ReachFromEdge(ed, nil)
					for y := range s {
						if y == wt || y == att {
							good = false
						}
						if rs, ok := y.N.(*ast.ReturnStmt); ok && (len(rs.Results) != 1 || isNilIdent(info, rs.Results[0])) {
							good = false
						}
					}
				}
			}
		}
		// the second test adds the throttle
		addsThrottle := false
		for _, x := range conds {
			ast.Inspect(x.N, func(n ast.Node) bool {
				if be, ok := n.(*ast.BinaryExpr); ok && be.Op == token.ADD && (sameVar(info, be.X, thrVar) || sameVar(info, be.Y, thrVar)) {
					addsThrottle = true
				}
				return true
			})
		}
		c.Check(good && addsThrottle, "R3", sp+"|Config.RequestFunc$enabled|both max-elapsed-time tests (elapsed, elapsed+throttle) precede the wait and end the loop", at(rx.M, enabled.Pos()), "the deadline is honoured before sleeping", "the retry loop can wait or retry past MaxElapsedTime")
	}
	// the time budget is per request: the start time (and every variable the deadline tests read) is set inside the per-request closure
	{
		var bad []string
		n := 0
		inspectNoLit(enabled.Body(), func(nd ast.Node) bool {
			call, ok := nd.(*ast.CallExpr)
			if !ok || !isCallTo(info, call, "time.Since") || len(call.Args) != 1 {
				return true
			}
			n++
			// the start may be kept in a small local struct built at the start of the request (budget.start)
			if fd, st := g.FieldDef(call.Args[0]); fd != nil && st != nil {
				if c2, ok := unparen(fd).(*ast.CallExpr); ok && isCallTo(info, c2, "time.Now") && !inLoop(enabled, st) {
					return true
				}
				bad = append(bad, exprStr(call.Args[0])+" (not time.Now() at the start of the request)")
				return true
			}
			v, isV := objOf(info, call.Args[0]).(*types.Var)
			if !isV || !definedIn(info, enabled.Body(), v) {
				bad = append(bad, exprStr(call.Args[0]))
				return true
			}
			// defined from time.Now() inside the closure, outside the retry loop
			okDef := false
			inspectNoLit(enabled.Body(), func(m ast.Node) bool {
				if as, ok := m.(*ast.AssignStmt); ok && as.Tok == token.DEFINE && len(as.Lhs) == 1 && len(as.Rhs) == 1 && objOf(info, as.Lhs[0]) == types.Object(v) {
					if c2, ok := unparen(as.Rhs[0]).(*ast.CallExpr); ok && isCallTo(info, c2, "time.Now") && !inLoop(enabled, as) {
						okDef = true
					}
				}
				return true
			})
			if !okDef {
				bad = append(bad, exprStr(call.Args[0])+" (not := time.Now() at the start of the request)")
			}
			return true
		})
		c.Check(n >= 1 && len(bad) == 0, "R3", sp+"|Config.RequestFunc$enabled|elapsed time measured from the start of this request", at(rx.M, enabled.Pos()), "startTime := time.Now() inside the per-request closure",
			"the retry time budget is measured from "+strings.Join(bad, ", ")+", not from the start of the request: once the exporter is older than MaxElapsedTime every retryable failure gives up after one attempt (or the budget restarts on every attempt)")
	}
	// wait argument is max(throttle, backoff)
	{
		var delay ast.Expr
		inspectNoLit(wt.N, func(n ast.Node) bool {
			if call, ok := n.(*ast.CallExpr); ok && isWait(call) && len(call.Args) >= 1 {
				delay = call.Args[len(call.Args)-1]
			}
			return true
		})
		isMax := func(e ast.Expr) bool {
			call, ok := unparen(e).(*ast.CallExpr)
			if !ok || builtinName(info, call) != "max" || len(call.Args) != 2 {
				return false
			}
			hasThr, hasBO := false, false
			for _, a := range call.Args {
				if sameVar(info, a, thrVar) {
					hasThr = true
				} else {
					hasBO = true
				}
			}
			return hasThr && hasBO
		}
		good := false
		if delay != nil {
			if isMax(delay) {
				good = true
			} else if v := objOf(info, delay); v != nil {
				n := 0
				inspectNoLit(enabled.Body(), func(nd ast.Node) bool {
					if as, ok := nd.(*ast.AssignStmt); ok {
						for i, l := range as.Lhs {
							if sameVar(info, l, v) && len(as.Lhs) == len(as.Rhs) {
								n++
								if isMax(as.Rhs[i]) {
									good = true
								}
							}
						}
					}
					return true
				})
				if n != 1 {
					good = false
				}
			}
		}
		c.Check(good, "R3", sp+"|Config.RequestFunc$enabled|wait(max(throttle, backoff))", at(rx.M, wt.N.Pos()), "never waits less than the server asked for", "the wait ignores the server's throttle delay (or the back-off)")
	}
	// the wait's context error returns
	{
		var ctxErr types.Object
		inspectNoLit(enabled.Body(), func(n ast.Node) bool {
			if as, ok := n.(*ast.AssignStmt); ok && len(as.Lhs) == 1 && len(as.Rhs) == 1 && isWait(unparen(as.Rhs[0])) {
				ctxErr = objOf(info, as.Lhs[0])
			}
			return true
		})
		es := edges(func(cnd ast.Expr, pol int) bool {
			nn, ok := nilCmp(info, cnd, pol, func(x ast.Expr) bool { return ctxErr != nil && sameVar(info, x, ctxErr) })
			return ok && nn
		})
		good := len(es) > 0
		for _, e := range es {
			s, _ := g.ReachFromEdge(e, nil)
			for y := range s {
				if y == att {
					good = false
				}
				if rs, ok := y.N.(*ast.ReturnStmt); ok && (len(rs.Results) != 1 || isNilIdent(info, rs.Results[0])) {
					good = false
				}
			}
		}
		c.Check(good, "R3", sp+"|Config.RequestFunc$enabled|cancelled wait ⇒ error returned, no further attempt", at(rx.M, enabled.Pos()), "cancellation ends the loop", "after the context is cancelled during the wait the loop keeps retrying")
	}
	// wait helper selects on ctx.Done() and the timer
	if w := c.Fn(rx, "R3", "wait"); w != nil {
		hasDone, hasTimer := false, false
		inspectNoLit(w.Body(), func(n ast.Node) bool {
			if cc, ok := n.(*ast.CommClause); ok && cc.Comm != nil {
				ast.Inspect(cc.Comm, func(m ast.Node) bool {
					if call, ok := m.(*ast.CallExpr); ok && isCallTo(info, call, "(context.Context).Done") {
						hasDone = true
					}
					if sel, ok := m.(*ast.SelectorExpr); ok && sel.Sel.Name == "C" {
						hasTimer = true
					}
					return true
				})
			}
			return true
		})
		c.Check(hasDone && hasTimer, "R3", sp+"|wait|selects on ctx.Done() and the timer", at(rx.M, w.Pos()), "interruptible sleep", "the wait is not interruptible by the context (or does not wait at all)")
	}
}

// partialSuccessArm: f has an `if … .PartialSuccess != nil …` arm; inside it otel.Handle is called (handled) and/or an error is returned (returned).
func partialSuccessArm(info *types.Info, f *FuncInfo) (found, handled, returned bool) {
	// The arm is recognised by what it does, not by the shape of its guard (field test, nil-safe getter, early return, helper):
	// a *PartialSuccessError value is built; it is handled when it reaches otel.Handle and returned when it reaches a return
	// statement or a variable of an enclosing scope.
	// values read out of the response's partial-success message (field or nil-safe getter), followed through local variables
	tainted := map[types.Object]bool{}
	mentions := func(e ast.Node) bool {
		hit := false
		ast.Inspect(e, func(m ast.Node) bool {
			switch x := m.(type) {
			case *ast.FuncLit:
				return false
			case *ast.SelectorExpr:
				if x.Sel.Name == "PartialSuccess" || x.Sel.Name == "GetPartialSuccess" {
					hit = true
				}
			case *ast.Ident:
				if tainted[info.Uses[x]] {
					hit = true
				}
			}
			return true
		})
		return hit
	}
	for changed := true; changed; {
		changed = false
		inspectNoLit(f.Body(), func(n ast.Node) bool {
			if as, ok := n.(*ast.AssignStmt); ok && len(as.Lhs) == len(as.Rhs) {
				for i, r := range as.Rhs {
					if o := objOf(info, as.Lhs[i]); o != nil && !tainted[o] && mentions(r) {
						tainted[o] = true
						changed = true
					}
				}
			}
			return true
		})
	}
	errT := types.Universe.Lookup("error").Type()
	isPSE := func(e ast.Expr) bool {
		call, ok := unparen(e).(*ast.CallExpr)
		if !ok {
			return false
		}
		if tv, ok := info.Types[call]; !ok || tv.Type == nil || !types.Identical(tv.Type, errT) {
			return false
		}
		for _, a := range call.Args {
			if mentions(a) {
				return true
			}
		}
		return false
	}
	holders := map[types.Object]bool{}
	inspectNoLit(f.Body(), func(n ast.Node) bool {
		switch s := n.(type) {
		case *ast.AssignStmt:
			if len(s.Lhs) == len(s.Rhs) {
				for i, r := range s.Rhs {
					if isPSE(r) {
						found = true
						if o := objOf(info, s.Lhs[i]); o != nil {
							if s.Tok == token.DEFINE {
								holders[o] = true
							} else {
								returned = true // stored into a variable that outlives the arm
							}
						}
					}
				}
			}
		case *ast.ValueSpec:
			for i, r := range s.Values {
				if isPSE(r) && i < len(s.Names) {
					found = true
					if o := info.Defs[s.Names[i]]; o != nil {
						holders[o] = true
					}
				}
			}
		case *ast.CallExpr:
			if isPSE(s) {
				found = true
			}
		}
		return true
	})
	flows := func(e ast.Expr) bool {
		if isPSE(e) {
			return true
		}
		hit := false
		ast.Inspect(e, func(m ast.Node) bool {
			if _, ok := m.(*ast.FuncLit); ok {
				return false
			}
			if id, ok := m.(*ast.Ident); ok && holders[info.Uses[id]] {
				hit = true
			}
			return true
		})
		return hit
	}
	inspectNoLit(f.Body(), func(n ast.Node) bool {
		switch s := n.(type) {
		case *ast.CallExpr:
			if isCallTo(info, s, "go.opentelemetry.io/otel.Handle") && len(s.Args) == 1 && flows(s.Args[0]) {
				handled = true
			}
		case *ast.ReturnStmt:
			for _, r := range s.Results {
				if flows(r) {
					returned = true
				}
			}
		case *ast.AssignStmt:
			if s.Tok != token.DEFINE && len(s.Lhs) == len(s.Rhs) {
				for i, r := range s.Rhs {
					if !isPSE(r) && flows(r) {
						if o := objOf(info, s.Lhs[i]); o != nil && !holders[o] {
							returned = true
						}
					}
				}
			}
		}
		return true
	})
	return
}

// c14Stop: if the client type has a stop channel (a chan field that a retry wait selects on and Stop closes), every
// entry→exit path of Stop passes the close (directly or inside the sync.Once literal passed to Do).
func c14Stop(c *Ctx, ix *PkgIndex, m otlpMod) {
	info := ix.Pkg.TypesInfo
	fStop := lookupField(ix.Pkg, "client", "stopCh")
	if fStop == nil {
		return // this client has no stop channel (shutdown swaps the client instead)
	}
	fn := c.Fn(ix, "R5", "(*client).Stop")
	if fn == nil {
		return
	}
	g := ix.FG(fn)
	closes := func(n ast.Node) bool {
		call, ok := n.(*ast.CallExpr)
		return ok && builtinName(info, call) == "close" && len(call.Args) == 1 && isField(info, call.Args[0], fStop)
	}
	through := toSet(g.Match(func(n ast.Node) bool {
		if closes(n) {
			return true
		}
		// X.Do(func() { … close(stopCh) … })
		call, ok := n.(*ast.CallExpr)
		if !ok || !isCallTo(info, call, "(*sync.Once).Do") || len(call.Args) != 1 {
			return false
		}
		arg := unparen(call.Args[0])
		if lit, ok := arg.(*ast.FuncLit); ok {
			hit := false
			ast.Inspect(lit.Body, func(m ast.Node) bool {
				if closes(m) {
					hit = true
				}
				return true
			})
			return hit
		}
		// a method value or function name: X.Do(d.signalStop) with the close on every path of that function
		var fobj *types.Func
		switch a := arg.(type) {
		case *ast.SelectorExpr:
			fobj, _ = info.Uses[a.Sel].(*types.Func)
		case *ast.Ident:
			fobj, _ = info.Uses[a].(*types.Func)
		}
		if h := ix.declByObj(fobj); h != nil {
			hg := ix.FG(h)
			th := toSet(hg.Match(closes))
			s, _ := hg.ReachFromEntry(func(x *GNode) bool { return th[x] }, nil)
			return len(th) > 0 && !s[hg.Exit]
		}
		return false
	}))
	seen, parent := g.ReachFromEntry(func(x *GNode) bool { return through[x] }, nil)
	c.Analysed(fn)
	c.Check(len(through) > 0 && !seen[g.Exit], "R5", short(m)+"|(*client).Stop|stop channel closed on every path", at(ix.M, fn.Pos()), itoa(len(through))+" close site(s) cut every entry→exit path",
		"Stop can return without closing the stop channel ("+g.pathLines(parent, g.Exit)+"): an export that is waiting to retry is not interrupted by Shutdown")
}

// c14PooledBody: in newRequest, no slice view of a pooled *bytes.Buffer (Bytes/Next/AvailableBuffer) is taken unless it is
// copied on the spot: the buffer is handed back to its pool (deferred Put) while the request — and its retries — still read
// the body.
func c14PooledBody(c *Ctx, ix *PkgIndex, m otlpMod) {
	info := ix.Pkg.TypesInfo
	var fn *FuncInfo
	for _, f := range sortedFuncs(ix.Funcs) {
		if strings.HasSuffix(f.Name, ").newRequest") || f.Name == "newRequest" {
			fn = f
		}
	}
	if fn == nil {
		c.Missing("R6", short(m)+": newRequest")
		return
	}
	pooled := map[types.Object]bool{}
	inspectNoLit(fn.Body(), func(n ast.Node) bool {
		as, ok := n.(*ast.AssignStmt)
		if !ok || len(as.Rhs) != 1 || len(as.Lhs) < 1 {
			return true
		}
		r := unparen(as.Rhs[0])
		if ta, ok := r.(*ast.TypeAssertExpr); ok {
			r = unparen(ta.X)
		}
		if call, ok := r.(*ast.CallExpr); ok && isCallTo(info, call, "(*sync.Pool).Get") {
			if o := objOf(info, as.Lhs[0]); o != nil {
				pooled[o] = true
			}
		}
		return true
	})
	bad := ""
	var stack []ast.Node
	ast.Inspect(fn.Body(), func(n ast.Node) bool {
		if n == nil {
			stack = stack[:len(stack)-1]
			return true
		}
		stack = append(stack, n)
		call, ok := n.(*ast.CallExpr)
		if !ok {
			return true
		}
		recv, meth := methodCall(info, call)
		if meth == nil || recv == nil {
			return true
		}
		// the pooled object itself or something it holds (gz.buf.Bytes())
		root := unparen(recv)
		for {
			switch x := root.(type) {
			case *ast.SelectorExpr:
				if s := info.Selections[x]; s != nil && s.Kind() == types.FieldVal {
					root = unparen(x.X)
					continue
				}
			case *ast.StarExpr:
				root = unparen(x.X)
				continue
			case *ast.UnaryExpr:
				if x.Op == token.AND {
					root = unparen(x.X)
					continue
				}
			}
			break
		}
		if !pooled[objOf(info, root)] {
			return true
		}
		switch meth.FullName() {
		case "(*bytes.Buffer).Bytes", "(*bytes.Buffer).Next", "(*bytes.Buffer).AvailableBuffer":
		default:
			return true
		}
		// copied on the spot?
		copied := false
		if len(stack) >= 2 {
			if outer, ok := stack[len(stack)-2].(*ast.CallExpr); ok {
				if isCallTo(info, outer, "bytes.Clone") || isCallTo(info, outer, "slices.Clone") {
					copied = true
				}
				if builtinName(info, outer) == "append" && len(outer.Args) >= 2 && outer.Ellipsis.IsValid() && unparen(outer.Args[1]) == ast.Expr(call) {
					copied = true
				}
				if builtinName(info, outer) == "copy" && len(outer.Args) == 2 && unparen(outer.Args[1]) == ast.Expr(call) {
					copied = true
				}
			}
		}
		if !copied {
			bad = exprStr(call) + " at " + ix.M.posStr(call.Pos())
		}
		return true
	})
	c.Analysed(fn)
	c.Check(bad == "", "R6", short(m)+"|newRequest|request body does not alias pooled memory", at(ix.M, fn.Pos()), itoa(len(pooled))+" pooled object(s), none exposes its bytes",
		"the body handed to the request is a view of a pooled buffer ("+bad+"): after newRequest returns the buffer is reused by other exports while this request may still be retried with it")
}

// lookupFieldQuiet: like lookupField, for a field that only some of the sibling packages have.
func lookupFieldQuiet(p *packages.Package, typ, name string) *types.Var {
	n := lookupType(p, typ)
	if n == nil {
		return nil
	}
	st, ok := n.Underlying().(*types.Struct)
	if !ok {
		return nil
	}
	for i := 0; i < st.NumFields(); i++ {
		if st.Field(i).Name() == name {
			return st.Field(i)
		}
	}
	return nil
}

// c14StopCtx: see the comment inside.
func c14StopCtx(c *Ctx, ix *PkgIndex, m otlpMod) {
	info := ix.Pkg.TypesInfo
	// a client that interrupts exports through a stop context: every context exportContext hands out is tied to it — each path
	// from entry to a return passes the construct that mentions stopCtx (the watcher goroutine, context.AfterFunc …), whatever
	// the timeout configuration
	if fSC := lookupFieldQuiet(ix.Pkg, "client", "stopCtx"); fSC != nil {
		if fn := ix.Func("(*client).exportContext"); fn != nil {
			g := ix.FG(fn)
			links := map[*GNode]bool{}
			for _, x := range g.Nodes {
				if x.N == nil {
					continue
				}
				hit := false
				ast.Inspect(x.N, func(n ast.Node) bool {
					if e, ok := n.(ast.Expr); ok && isField(info, e, fSC) {
						hit = true
					}
					return true
				})
				if hit {
					links[x] = true
				}
			}
			key := shortPkg(ix.Pkg.PkgPath) + "|(*client).exportContext|every context handed out is tied to the stop context"
			if len(links) == 0 {
				c.Violation("R5", key, at(ix.M, fn.Pos()), "exportContext no longer refers to stopCtx: Shutdown cannot interrupt an export that is in flight or waiting to retry")
			} else {
				seen, par := g.ReachFromEntry(func(y *GNode) bool { return links[y] }, nil)
				c.Check(!seen[g.Exit], "R5", key, at(ix.M, fn.Pos()), "no return before the link to stopCtx",
					"a path returns the export context without tying it to stopCtx ("+g.pathLines(par, g.Exit)+"): with that configuration a Shutdown whose deadline expires does not interrupt the export, which keeps blocking or retrying (forever with MaxElapsedTime 0)")
			}
		}
	}
}
