package main

import (
	"go/ast"
	"go/constant"
	"go/token"
	"go/types"
	"sort"
	"strings"
)

const (
	otlpTraceMod  = "exporters/otlp/otlptrace"
	traceXform    = otlpBase + "otlptrace/internal/tracetransform"
	protoPrefix   = "go.opentelemetry.io/proto/otlp/"
	zipkinMod     = "exporters/zipkin"
	zipkinPkg     = "go.opentelemetry.io/otel/exporters/zipkin"
	sdkInstrument = "go.opentelemetry.io/otel/sdk/instrumentation"
)

type xformCopy struct{ dir, pkg, signal, kind string }

var xformCopies = []xformCopy{
	{otlpTraceMod, traceXform, "trace", "shared"},
	{"exporters/otlp/otlpmetric/otlpmetricgrpc", otlpBase + "otlpmetric/otlpmetricgrpc/internal/transform", "metric", "grpc"},
	{"exporters/otlp/otlpmetric/otlpmetrichttp", otlpBase + "otlpmetric/otlpmetrichttp/internal/transform", "metric", "http"},
	{"exporters/otlp/otlplog/otlploggrpc", otlpBase + "otlplog/otlploggrpc/internal/transform", "log", "grpc"},
	{"exporters/otlp/otlplog/otlploghttp", otlpBase + "otlplog/otlploghttp/internal/transform", "log", "http"},
}

func init() {
	dirs := []string{zipkinMod}
	for _, x := range xformCopies {
		dirs = append(dirs, x.dir)
	}
	register(&PropDoc{
		ID:      "C13",
		Modules: dirs,
		NotDecided: "the protobuf wire round trip (library); numeric conversions and clamps; 'exactly once under its own resource and scope' as a value property (decided: the grouping loops are total and keyed by resource identity and scope); " +
			"that the gRPC and HTTP clients put the same bytes on the wire (decided: their transform packages extract to identical fact tables).",
		Fn: c13,
	})
}

// protoFieldsUnset: proto message fields the transforms leave unset on purpose (frozen, one reason each).
var protoFieldsUnset = map[string]string{
	"Span.TraceState?": "",
	"ExponentialHistogramDataPoint.ZeroThreshold": "SDK always uses threshold 0 (proto default)",
	"NumberDataPoint.Flags":                       "no-recorded-value flag is not used by the SDK",
	"HistogramDataPoint.Flags":                    "no-recorded-value flag is not used by the SDK",
	"ExponentialHistogramDataPoint.Flags":         "no-recorded-value flag is not used by the SDK",
	"SummaryDataPoint.Flags":                      "no-recorded-value flag is not used by the SDK",
	"Span_Event.*":                                "",
	"InstrumentationScope.DroppedAttributesCount": "SDK scopes never drop attributes",
	"Resource.DroppedAttributesCount":             "SDK resources never drop attributes",
	"KeyValueList.*":                              "",
	"Metric.Metadata":                             "SDK metrics carry no metadata attributes",
	"Exemplar.Value":                              "oneof: set through the typed wrapper after the literal",
	"NumberDataPoint.Value":                       "oneof: set through the typed wrapper after the literal",
	"Metric.Data":                                 "oneof: set in the type switch after the literal",
	"AnyValue.Value":                              "oneof: set in the type switch after new(AnyValue)",
	"ScopeLogs.*":                                 "",
	"ResourceLogs.*":                              "",
	"Resource.EntityRefs":                         "entities are not produced by this SDK version",
	"ScopeSpans.*":                                "",
}

func isProtoMsg(t types.Type) *types.Named {
	n := namedOf(t)
	if n == nil || n.Obj().Pkg() == nil || !strings.HasPrefix(n.Obj().Pkg().Path(), protoPrefix) {
		return nil
	}
	if _, ok := n.Underlying().(*types.Struct); !ok {
		return nil
	}
	return n
}

// protoAssignments collects, per function, proto message type → field → source expression
// (composite literal keys plus later `x.F = e` assignments on a value of that message type).
// guardGaps (package-level result of the last protoAssignments call per package): for a guarded assignment of a proto field,
// the fields of a source variable that the guarded block encodes but the guard does not examine.
var guardGaps = map[*PkgIndex]map[string]string{}

// siblingGuards: guarded later assignments whose guard neither creates the message nor looks at the value's own source.
var siblingGuards = map[*PkgIndex]map[string]string{}

func protoAssignments(ix *PkgIndex) (map[string]map[string]string, map[string]string) {
	info := ix.Pkg.TypesInfo
	out := map[string]map[string]string{}
	guards := map[string]string{}
	gaps := map[string]string{}
	guardGaps[ix] = gaps
	sibs := map[string]string{}
	siblingGuards[ix] = sibs
	var curFn *FuncInfo
	put := func(msg, fld string, e ast.Expr) {
		if out[msg] == nil {
			out[msg] = map[string]string{}
		}
		s := expandExpr(info, curFn, e, 0)
		if prev, ok := out[msg][fld]; ok && prev != s {
			s = prev + " | " + s
		}
		out[msg][fld] = s
	}
	for _, f := range ix.All {
		curFn = f
		inspectNoLit(f.Body(), func(n ast.Node) bool {
			switch x := n.(type) {
			case *ast.CompositeLit:
				if m := isProtoMsg(info.Types[x].Type); m != nil {
					if out[m.Obj().Name()] == nil {
						out[m.Obj().Name()] = map[string]string{}
					}
					for _, el := range x.Elts {
						if kv, ok := el.(*ast.KeyValueExpr); ok {
							put(m.Obj().Name(), kv.Key.(*ast.Ident).Name, kv.Value)
							// an optional value produced by a helper that returns nil exactly when its argument's Value() reports
							// "not set": the field is guarded by that flag
							if call, ok := unparen(kv.Value).(*ast.CallExpr); ok && len(call.Args) == 1 {
								if h := ix.declByObj(callee(info, call)); h != nil && optionalValueHelper(ix, h) {
									guards[m.Obj().Name()+"."+kv.Key.(*ast.Ident).Name] = exprStr(call.Args[0]) + ".Value()"
								}
							}
						}
					}
				}
			case *ast.CallExpr:
				if builtinName(info, x) == "new" && len(x.Args) == 1 {
					if m := isProtoMsg(info.Types[x.Args[0]].Type); m != nil && out[m.Obj().Name()] == nil {
						out[m.Obj().Name()] = map[string]string{}
					}
				}
			case *ast.AssignStmt:
				for i, l := range x.Lhs {
					sel, ok := unparen(l).(*ast.SelectorExpr)
					if !ok {
						continue
					}
					if m := isProtoMsg(info.Types[sel.X].Type); m != nil {
						var r ast.Expr
						if len(x.Rhs) == len(x.Lhs) {
							r = x.Rhs[i]
						} else if len(x.Rhs) == 1 {
							r = x.Rhs[0]
						}
						if r != nil {
							put(m.Obj().Name(), sel.Sel.Name, r)
							// the guard under which this later assignment happens (innermost enclosing if in this function)
							if g := enclosingIfCond(f, x); g != nil {
								guards[m.Obj().Name()+"."+sel.Sel.Name] = expandExpr(info, f, g, 0)
								if gap := guardGap(info, g, r); gap != "" {
									gaps[m.Obj().Name()+"."+sel.Sel.Name] = gap
								}
								// does the guard create the message (the variable is defined under it), or look at what the value is
								// read from? Otherwise it tests something else — a sibling field
								if is := enclosingIf(f, x); is != nil {
									created := false
									if base := objOf(info, sel.X); base != nil && definedIn(info, is.Body, base) {
										created = true
									}
									if base := objOf(info, sel.X); base != nil {
										inspectNoLit(is.Body, func(k ast.Node) bool {
											if as2, ok := k.(*ast.AssignStmt); ok {
												for _, l2 := range as2.Lhs {
													if sameVar(info, l2, base) {
														created = true
													}
												}
											}
											return true
										})
									}
									shared := false
									roots := map[types.Object]bool{}
									ast.Inspect(r, func(k ast.Node) bool {
										if id, ok := k.(*ast.Ident); ok {
											if v, isV := info.Uses[id].(*types.Var); isV && !v.IsField() {
												roots[v] = true
											}
										}
										return true
									})
									ast.Inspect(g, func(k ast.Node) bool {
										if id, ok := k.(*ast.Ident); ok {
											if v, isV := info.Uses[id].(*types.Var); isV && roots[v] {
												shared = true
											}
										}
										return true
									})
									if !created && !shared && exprStr(unparen(g)) != "" && !strings.Contains(expandExpr(info, f, g, 0), rootCallText(r)) {
										sibs[m.Obj().Name()+"."+sel.Sel.Name] = expandExpr(info, f, g, 0)
									}
								}
							}
						}
					}
				}
			}
			return true
		})
	}
	return out, guards
}

// enclosingIfCond returns the condition of the innermost if statement of f whose body contains n, or nil.
// rootCallText: the text of the value's source for a textual "the guard mentions it" test (r.Resource().SchemaURL() → itself).
func rootCallText(e ast.Expr) string { return exprStr(unparen(e)) }

func enclosingIf(f *FuncInfo, n ast.Node) *ast.IfStmt {
	var best *ast.IfStmt
	inspectNoLit(f.Body(), func(m ast.Node) bool {
		if is, ok := m.(*ast.IfStmt); ok && containsNoLitOrIn(is.Body, n) {
			if best == nil || containsNoLitOrIn(best.Body, is) {
				best = is
			}
		}
		return true
	})
	return best
}

func enclosingIfCond(f *FuncInfo, n ast.Node) ast.Expr {
	var best *ast.IfStmt
	inspectNoLit(f.Body(), func(m ast.Node) bool {
		if is, ok := m.(*ast.IfStmt); ok && containsNoLitOrIn(is.Body, n) {
			if best == nil || containsNoLitOrIn(best.Body, is) {
				best = is
			}
		}
		return true
	})
	if best == nil {
		return nil
	}
	return best.Cond
}

// enumMapOf evaluates fn (single enum parameter) for every constant of its parameter type and returns const name → result description.
func enumMapOf(ix *PkgIndex, fn *FuncInfo) map[string]string {
	info := ix.Pkg.TypesInfo
	sig := fn.Obj.Type().(*types.Signature)
	p := sig.Params().At(0)
	pt := namedOf(p.Type())
	out := map[string]string{}
	if pt == nil {
		return out
	}
	g := ix.FG(fn)
	for _, k := range enumConsts(pt) {
		env := func(e ast.Expr) (constant.Value, bool) {
			if sameVar(info, e, p) {
				return k.Val(), true
			}
			return nil, false
		}
		seen := g.ReachUnder(env)
		var res []string
		for x := range seen {
			switch s := x.N.(type) {
			case *ast.ReturnStmt:
				if len(s.Results) >= 1 {
					if kc := constObj(info, s.Results[0]); kc != nil {
						res = append(res, kc.Name())
					} else if len(s.Results) == 2 && !isNilIdent(info, s.Results[1]) {
						res = append(res, "error")
					}
				}
			case *ast.AssignStmt:
				if len(s.Lhs) == 1 && len(s.Rhs) == 1 {
					if kc := constObj(info, s.Rhs[0]); kc != nil && kc.Pkg() != nil && strings.HasPrefix(kc.Pkg().Path(), protoPrefix) {
						res = append(res, kc.Name())
					}
				}
			}
		}
		sort.Strings(res)
		out[k.Name()] = strings.Join(res, ",")
	}
	return out
}

// variantTable: for a value switch (attribute.Type / log.Kind), per constant: accessor methods applied to the switched value and AnyValue wrapper types built.
func variantTable(ix *PkgIndex, fn *FuncInfo, kindCall string) map[string]string {
	info := ix.Pkg.TypesInfo
	v := fn.Obj.Type().(*types.Signature).Params().At(0)
	g := ix.FG(fn)
	out := map[string]string{}
	var kt *types.Named
	inspectNoLit(fn.Body(), func(n ast.Node) bool {
		if call, ok := n.(*ast.CallExpr); ok {
			if cf := callee(info, call); cf != nil && cf.Name() == kindCall {
				if recv, _ := methodCall(info, call); recv != nil && sameVar(info, recv, v) {
					kt = namedOf(cf.Type().(*types.Signature).Results().At(0).Type())
				}
			}
		}
		return true
	})
	if kt == nil {
		return out
	}
	for _, k := range enumConsts(kt) {
		env := func(e ast.Expr) (constant.Value, bool) {
			if call, ok := e.(*ast.CallExpr); ok {
				if cf := callee(info, call); cf != nil && cf.Name() == kindCall {
					if recv, _ := methodCall(info, call); recv != nil && sameVar(info, recv, v) {
						return k.Val(), true
					}
				}
			}
			return nil, false
		}
		var acc, wrap []string
		for x := range g.ReachUnder(env) {
			if x.N == nil {
				continue
			}
			if _, isRet := x.N.(*ast.ReturnStmt); isRet {
				continue
			}
			inspectNoLit(x.N, func(n ast.Node) bool {
				switch y := n.(type) {
				case *ast.CallExpr:
					if recv, m := methodCall(info, y); m != nil && sameVar(info, recv, v) && strings.HasPrefix(m.Name(), "As") {
						acc = append(acc, m.Name())
					}
				case *ast.CompositeLit:
					if nn := namedOf(info.Types[y].Type); nn != nil && strings.HasPrefix(nn.Obj().Name(), "AnyValue_") {
						wrap = append(wrap, nn.Obj().Name())
					}
				}
				return true
			})
		}
		sort.Strings(acc)
		sort.Strings(wrap)
		out[k.Name()] = strings.Join(acc, ",") + " → " + strings.Join(wrap, ",")
	}
	return out
}

func c13(c *Ctx) {
	c.Rule("R1", "E8 accessor coverage", "every data accessor of the SDK read side (ReadOnlySpan, sdk/log.Record, exported metricdata fields) is consumed by the transform package", 60)
	c.Rule("R2", "E8 + E4 field provenance", "every field of each OTLP message the transforms build is populated (frozen exclusions), and the fields with a confusable sibling come from the like-named source", 40)
	c.Rule("R3", "E2 enum tables", "enumerations are mapped one-to-one: SpanKind, status code, temporality, the 24 severities, attribute.Type and log.Kind with the accessor and AnyValue variant of the same type; the metric type switch covers every Aggregation implementer", 60)
	c.Rule("R4", "E3 total fan-out", "grouping loops append every input item on every iteration (skip only nil / the reported-error arm) and key the groups by resource identity and scope", 5)
	c.Rule("R5", "E9 siblings", "the gRPC and HTTP copies of the metric and log transforms extract to identical fact tables", 2)
	c.Rule("R6", "E4 + E2 (Zipkin)", "Zipkin: trace id high/low halves, span and parent ids, name, timestamp = start, duration = end − start, kind table", 7)

	digests := map[string][]string{}
	for _, xc := range xformCopies {
		ix := c.Index(xc.dir, xc.pkg)
		if ix == nil {
			continue
		}
		digests[xc.signal+"/"+xc.kind] = c13Copy(c, ix, xc)
	}
	for _, sig := range []string{"metric", "log"} {
		a, b := digests[sig+"/grpc"], digests[sig+"/http"]
		diff := ""
		if len(a) != len(b) {
			diff = itoa(len(a)) + " vs " + itoa(len(b)) + " facts"
		}
		for i := 0; i < len(a) && i < len(b) && diff == ""; i++ {
			if a[i] != b[i] {
				diff = "grpc: " + a[i] + "  ≠  http: " + b[i]
			}
		}
		c.Check(diff == "" && len(a) > 10, "R5", "otlp"+sig+"|transform|gRPC copy = HTTP copy ("+itoa(len(a))+" facts)", obSite{}, "identical extracted tables",
			"the gRPC and HTTP "+sig+" exporters encode the same telemetry differently: "+diff)
	}
	c13Zipkin(c)
}

func c13Copy(c *Ctx, ix *PkgIndex, xc xformCopy) []string {
	info := ix.Pkg.TypesInfo
	sp := "otlp" + xc.signal + "/" + xc.kind
	var facts []string
	site := at(ix.M, ix.Pkg.Syntax[0].Pos())

	// ---- R1 accessor coverage
	calledOn := func(typPath, typName string) map[string]bool {
		used := map[string]bool{}
		for _, f := range ix.All {
			inspectNoLit(f.Body(), func(n ast.Node) bool {
				switch x := n.(type) {
				case *ast.CallExpr:
					if recv, m := methodCall(info, x); m != nil {
						if tv, ok := info.Types[recv]; ok && typeIs(tv.Type, typPath, typName) {
							used[m.Name()] = true
						}
					}
				case *ast.SelectorExpr:
					if fv, b := fieldOf(info, x); fv != nil {
						if tv, ok := info.Types[b]; ok && typeIs(tv.Type, typPath, typName) {
							used[fv.Name()] = true
						}
					}
				}
				return true
			})
		}
		return used
	}
	switch xc.signal {
	case "trace":
		p := ix.M.Pkg(sdkTrace)
		if p == nil {
			c.Missing("R1", "sdk/trace in the import graph of "+xc.dir)
			break
		}
		it := lookupType(p, "ReadOnlySpan").Underlying().(*types.Interface)
		used := calledOn(sdkTrace, "ReadOnlySpan")
		excl := map[string]string{"ChildSpanCount": "no OTLP field", "InstrumentationLibrary": "deprecated alias of InstrumentationScope", "private": "sealing method"}
		for i := 0; i < it.NumMethods(); i++ {
			m := it.Method(i).Name()
			key := sp + "|ReadOnlySpan." + m + "|consumed by the transform"
			if r, ok := excl[m]; ok {
				c.OK("R1", key, site, "excluded: "+r)
				continue
			}
			c.Check(used[m], "R1", key, site, "read", "the exported span silently loses "+m+"(): no code in the transform reads it")
		}
	case "log":
		p := ix.M.Pkg(sdkLog)
		if p == nil {
			c.Missing("R1", "sdk/log in the import graph of "+xc.dir)
			break
		}
		rec := lookupType(p, "Record")
		used := calledOn(sdkLog, "Record")
		excl := map[string]string{"AttributesLen": "size hint only (read, but carries no data)", "Clone": "not an accessor"}
		ms := types.NewMethodSet(types.NewPointer(rec))
		for i := 0; i < ms.Len(); i++ {
			m := ms.At(i).Obj().(*types.Func)
			sig := m.Type().(*types.Signature)
			if !m.Exported() || strings.HasPrefix(m.Name(), "Set") || strings.HasPrefix(m.Name(), "Add") {
				continue
			}
			if sig.Results().Len() == 0 && m.Name() != "WalkAttributes" {
				continue
			}
			key := sp + "|Record." + m.Name() + "|consumed by the transform"
			if r, ok := excl[m.Name()]; ok {
				c.OK("R1", key, site, "excluded: "+r)
				continue
			}
			c.Check(used[m.Name()], "R1", key, site, "read", "the exported log record silently loses "+m.Name()+"(): no code in the transform reads it")
		}
	case "metric":
		p := ix.M.Pkg(metricdata)
		if p == nil {
			c.Missing("R1", "metricdata in the import graph of "+xc.dir)
			break
		}
		for _, tn := range p.Types.Scope().Names() {
			n := lookupType(p, tn)
			if n == nil {
				continue
			}
			st, ok := n.Underlying().(*types.Struct)
			if !ok || !n.Obj().Exported() {
				continue
			}
			used := calledOn(metricdata, tn)
			for i := 0; i < st.NumFields(); i++ {
				f := st.Field(i)
				if !f.Exported() {
					continue
				}
				key := sp + "|metricdata." + tn + "." + f.Name() + "|consumed by the transform"
				if tn == "Extrema" {
					continue
				}
				if tn == "ExponentialHistogramDataPoint" && f.Name() == "ZeroThreshold" {
					c.OK("R1", key, site, "excluded: the SDK always produces threshold 0, the proto default")
					continue
				}
				c.Check(used[f.Name()], "R1", key, site, "read", "exported metric data silently loses "+tn+"."+f.Name())
			}
		}
	}

	// ---- R2 proto coverage and provenance
	pa, guards := protoAssignments(ix)
	{
		var gk []string
		for k := range guards {
			gk = append(gk, k)
		}
		sort.Strings(gk)
		for _, k := range gk {
			facts = append(facts, "guard "+k+" if "+guards[k])
		}
		// a guard that decides on part of a value while the guarded encoding carries more of it drops the rest
		{
			var gk2 []string
			for k := range guards {
				gk2 = append(gk2, k)
			}
			sort.Strings(gk2)
			for _, k := range gk2 {
				gap := guardGaps[ix][k]
				c.Check(gap == "", "R2", sp+"|"+k+"|the guard examines everything the guarded encoding reads", site, "guard: "+guards[k],
					k+" is encoded only if ("+guards[k]+") but carries "+gap+" as well: a value that differs from the zero value only there is exported without it (e.g. an unnamed scope with a version or attributes loses its identity)")
			}
		}
		// a schema URL qualifies the data whether or not the resource / scope it came with has an encoding of its own: it is
		// written with the message, or later under a test of the URL itself — not under a test of a sibling field
		for _, m := range []string{"ResourceSpans", "ScopeSpans", "ResourceMetrics", "ScopeMetrics", "ResourceLogs", "ScopeLogs"} {
			if _, has := pa[m]; !has {
				continue
			}
			gtxt, guarded := siblingGuards[ix][m+".SchemaUrl"]
			c.Check(!guarded || strings.Contains(gtxt, "SchemaURL") || strings.Contains(gtxt, "SchemaUrl"), "R2", sp+"|"+m+".SchemaUrl|not conditional on a sibling field", site, "guard: "+gtxt,
				m+".SchemaUrl is written only if ("+gtxt+"): data whose resource or scope has a schema URL but fails that test is exported without it (e.g. a resource with a schema URL and no attributes)")
		}
		// optional extrema are present exactly when the SDK says so
		for _, gm := range []struct{ key, must string }{
			{"HistogramDataPoint.Min", "Min.Value()"}, {"HistogramDataPoint.Max", "Max.Value()"},
			{"ExponentialHistogramDataPoint.Min", "Min.Value()"}, {"ExponentialHistogramDataPoint.Max", "Max.Value()"},
		} {
			if xc.signal != "metric" {
				continue
			}
			gtxt, has := guards[gm.key]
			c.Check(has && strings.Contains(gtxt, gm.must) && !strings.Contains(gtxt, "&&") && !strings.Contains(gtxt, "||"), "R2", sp+"|"+gm.key+"|set exactly when "+gm.must+" reports a value", site, "guard: "+gtxt,
				gm.key+" is encoded under the condition '"+gtxt+"' instead of the extremum's own defined-flag: an unset min/max is exported as 0 (or a set one is dropped)")
		}
	}
	var msgs []string
	for m := range pa {
		msgs = append(msgs, m)
	}
	sort.Strings(msgs)
	for _, m := range msgs {
		// find the message type to enumerate its fields
		var mt *types.Named
		for path, p := range ix.M.ByPath {
			if strings.HasPrefix(path, protoPrefix) {
				if n := lookupType(p, m); n != nil {
					mt = n
				}
			}
		}
		if mt == nil {
			continue
		}
		st := mt.Underlying().(*types.Struct)
		for i := 0; i < st.NumFields(); i++ {
			f := st.Field(i)
			if !f.Exported() {
				continue
			}
			key := sp + "|" + m + "." + f.Name() + "|populated"
			src, set := pa[m][f.Name()]
			if set {
				facts = append(facts, "field "+m+"."+f.Name()+" ← "+src)
				c.OK("R2", key, site, "← "+src)
				continue
			}
			if r, ok := protoFieldsUnset[m+"."+f.Name()]; ok && r != "" {
				c.OK("R2", key, site, "left at its default: "+r)
				continue
			}
			c.Violation("R2", key, site, "OTLP field "+m+"."+f.Name()+" is never set by the transform: the corresponding SDK data is not exported")
		}
	}
	// confusable pairs
	prov := []struct{ msg, fld, must string }{
		{"Span", "StartTimeUnixNano", "StartTime"}, {"Span", "EndTimeUnixNano", "EndTime"}, {"Span", "TraceId", "SpanContext().TraceID()"}, {"Span", "SpanId", "SpanContext().SpanID()"}, {"Span", "ParentSpanId", "Parent().SpanID()"},
		{"Span", "DroppedAttributesCount", "DroppedAttributes"}, {"Span", "DroppedEventsCount", "DroppedEvents"}, {"Span", "DroppedLinksCount", "DroppedLinks"},
		{"HistogramDataPoint", "Min", "Min"}, {"HistogramDataPoint", "Max", "Max"}, {"HistogramDataPoint", "StartTimeUnixNano", "StartTime"}, {"HistogramDataPoint", "TimeUnixNano", ".Time"},
		{"HistogramDataPoint", "Count", "Count"}, {"HistogramDataPoint", "BucketCounts", "BucketCounts"}, {"HistogramDataPoint", "ExplicitBounds", "Bounds"}, {"HistogramDataPoint", "Sum", "Sum"},
		{"NumberDataPoint", "StartTimeUnixNano", "StartTime"}, {"NumberDataPoint", "TimeUnixNano", ".Time"},
		{"ExponentialHistogramDataPoint", "Positive", "PositiveBucket"}, {"ExponentialHistogramDataPoint", "Negative", "NegativeBucket"}, {"ExponentialHistogramDataPoint", "Min", "Min"}, {"ExponentialHistogramDataPoint", "Max", "Max"},
		{"ExponentialHistogramDataPoint", "Scale", "Scale"}, {"ExponentialHistogramDataPoint", "ZeroCount", "ZeroCount"}, {"ExponentialHistogramDataPoint", "Count", "Count"},
		{"ExponentialHistogramDataPoint", "StartTimeUnixNano", "StartTime"}, {"ExponentialHistogramDataPoint", "TimeUnixNano", ".Time"},
		{"ExponentialHistogramDataPoint_Buckets", "Offset", "Offset"}, {"ExponentialHistogramDataPoint_Buckets", "BucketCounts", "Counts"},
		{"LogRecord", "TimeUnixNano", "Timestamp"}, {"LogRecord", "ObservedTimeUnixNano", "ObservedTimestamp"}, {"LogRecord", "SeverityText", "SeverityText"}, {"LogRecord", "SeverityNumber", "Severity()"},
		{"LogRecord", "Body", "Body"}, {"LogRecord", "TraceId", "TraceID()"}, {"LogRecord", "SpanId", "SpanID()"}, {"LogRecord", "Flags", "TraceFlags"}, {"LogRecord", "EventName", "EventName"},
		{"Exemplar", "SpanId", "SpanID"}, {"Exemplar", "TraceId", "TraceID"}, {"Exemplar", "TimeUnixNano", ".Time"}, {"Exemplar", "FilteredAttributes", "FilteredAttributes"},
		{"Sum", "IsMonotonic", "IsMonotonic"}, {"Metric", "Name", "Name"}, {"Metric", "Description", "Description"}, {"Metric", "Unit", "Unit"},
		{"SummaryDataPoint", "Count", "Count"}, {"SummaryDataPoint", "Sum", "Sum"}, {"SummaryDataPoint_ValueAtQuantile", "Quantile", "Quantile"}, {"SummaryDataPoint_ValueAtQuantile", "Value", "Value"},
		{"Span_Link", "TraceId", "SpanContext.TraceID()"}, {"Span_Link", "SpanId", "SpanContext.SpanID()"}, {"Span_Link", "TraceState", "SpanContext.TraceState()"}, {"Span", "TraceState", "SpanContext().TraceState()"}, {"Span_Event", "TimeUnixNano", ".Time"}, {"Span_Event", "Name", "Name"},
		{"ScopeSpans", "SchemaUrl", "SchemaURL"}, {"ResourceSpans", "SchemaUrl", "SchemaURL"},
	}
	for _, pv := range prov {
		src, ok := pa[pv.msg][pv.fld]
		if _, has := pa[pv.msg]; !has {
			continue
		}
		key := sp + "|" + pv.msg + "." + pv.fld + "|source mentions " + pv.must
		// the source is the like-named value alone: a start time folded into the end time (or the reverse) rewrites what the SDK
		// recorded
		sibling := map[string]string{"Span.EndTimeUnixNano": "StartTime", "Span.StartTimeUnixNano": "EndTime",
			"HistogramDataPoint.TimeUnixNano": "StartTime", "NumberDataPoint.TimeUnixNano": "StartTime", "ExponentialHistogramDataPoint.TimeUnixNano": "StartTime",
			"HistogramDataPoint.StartTimeUnixNano": ".Time", "NumberDataPoint.StartTimeUnixNano": ".Time", "ExponentialHistogramDataPoint.StartTimeUnixNano": ".Time"}
		mixed := ""
		if sib, has := sibling[pv.msg+"."+pv.fld]; has && ok && strings.Contains(src, sib) {
			mixed = sib
		}
		c.Check(ok && strings.Contains(src, pv.must) && !strings.Contains(src, " | ") && mixed == "", "R2", key, site, "← "+src,
			pv.msg+"."+pv.fld+" is populated from '"+src+"', expected the SDK's "+strings.Trim(pv.must, ".()")+" alone (fields with a same-typed sibling are easy to swap or mix and still type-check)")
	}
	// per-iteration ownership: a slice of an array local that is stored inside a loop must slice an array declared in that loop body
	for _, f := range ix.All {
		ast.Inspect(f.Body(), func(n ast.Node) bool {
			var body *ast.BlockStmt
			switch l := n.(type) {
			case *ast.ForStmt:
				body = l.Body
			case *ast.RangeStmt:
				body = l.Body
			}
			if body == nil {
				return true
			}
			ast.Inspect(body, func(m ast.Node) bool {
				se, ok := m.(*ast.SliceExpr)
				if !ok || se.Low != nil || se.High != nil {
					return true
				}
				v, isV := objOf(info, se.X).(*types.Var)
				if !isV {
					return true
				}
				if _, isArr := v.Type().Underlying().(*types.Array); !isArr {
					return true
				}
				inside := definedIn(info, body, v)
				c.Check(inside, "R2", sp+"|"+ix.Outer(f).Name+"|"+exprStr(se)+" slices an array owned by this loop iteration", at(ix.M, se.Pos()), "fresh array per element",
					"every element produced by this loop slices the SAME array "+v.Name()+" (declared outside the loop): after the loop all of them carry the last element's bytes (e.g. every link gets the last link's ids)")
				return true
			})
			return true
		})
	}

	// ---- R3 enum tables
	upperSnake := func(s string) string { return strings.ToUpper(s) }
	enumCheck := func(fname string, want func(k string) string) {
		fn := c.Fn(ix, "R3", fname)
		if fn == nil {
			return
		}
		m := enumMapOf(ix, fn)
		var ks []string
		for k := range m {
			ks = append(ks, k)
		}
		sort.Strings(ks)
		for _, k := range ks {
			w := want(k)
			facts = append(facts, "enum "+fname+" "+k+" → "+m[k])
			c.Check(m[k] == w, "R3", sp+"|"+fname+"|"+k, at(ix.M, fn.Pos()), "→ "+m[k], fname+"("+k+") yields "+m[k]+", the OTLP mapping is "+w)
		}
		if len(ks) == 0 {
			c.Violation("R3", sp+"|"+fname+"|table", at(ix.M, fn.Pos()), "no enumeration constants found for the parameter type")
		}
	}
	switch xc.signal {
	case "trace":
		enumCheck("spanKind", func(k string) string {
			if k == "SpanKindUnspecified" {
				return "Span_SPAN_KIND_UNSPECIFIED"
			}
			return "Span_SPAN_KIND_" + upperSnake(strings.TrimPrefix(k, "SpanKind"))
		})
		enumCheck("status", func(k string) string { return "Status_STATUS_CODE_" + upperSnake(k) })
	case "metric":
		enumCheck("Temporality", func(k string) string {
			switch k {
			case "DeltaTemporality":
				return "AggregationTemporality_AGGREGATION_TEMPORALITY_DELTA"
			case "CumulativeTemporality":
				return "AggregationTemporality_AGGREGATION_TEMPORALITY_CUMULATIVE"
			}
			return "AggregationTemporality_AGGREGATION_TEMPORALITY_UNSPECIFIED"
		})
	case "log":
		enumCheck("SeverityNumber", func(k string) string {
			if k == "SeverityUndefined" {
				return "SeverityNumber_SEVERITY_NUMBER_UNSPECIFIED"
			}
			// SeverityTrace1 … are aliases (same value) of SeverityTrace …
			return "SeverityNumber_SEVERITY_NUMBER_" + strings.TrimSuffix(upperSnake(strings.TrimPrefix(k, "Severity")), "1")
		})
	}
	variant := func(fname, kindCall string, want map[string]string) {
		fn := c.Fn(ix, "R3", fname)
		if fn == nil {
			return
		}
		m := variantTable(ix, fn, kindCall)
		var ks []string
		for k := range m {
			ks = append(ks, k)
		}
		sort.Strings(ks)
		for _, k := range ks {
			facts = append(facts, "variant "+fname+" "+k+" "+m[k])
			w, known := want[k]
			if !known {
				w = " → AnyValue_StringValue" // INVALID / empty
			}
			c.Check(m[k] == w, "R3", sp+"|"+fname+"|"+k, at(ix.M, fn.Pos()), m[k], "in case "+k+" the code applies "+m[k]+"; expected "+w+" (accessor of another type returns a zero value: the attribute is exported empty)")
		}
		if len(ks) < len(want) {
			c.Violation("R3", sp+"|"+fname+"|table", at(ix.M, fn.Pos()), "value switch not recognised")
		}
	}
	attrWant := map[string]string{
		"BOOL": "AsBool → AnyValue_BoolValue", "INT64": "AsInt64 → AnyValue_IntValue", "FLOAT64": "AsFloat64 → AnyValue_DoubleValue", "STRING": "AsString → AnyValue_StringValue",
		"BOOLSLICE": "AsBoolSlice → AnyValue_ArrayValue", "INT64SLICE": "AsInt64Slice → AnyValue_ArrayValue", "FLOAT64SLICE": "AsFloat64Slice → AnyValue_ArrayValue", "STRINGSLICE": "AsStringSlice → AnyValue_ArrayValue",
	}
	switch xc.signal {
	case "trace", "metric":
		variant("Value", "Type", attrWant)
	case "log":
		variant("AttrValue", "Type", attrWant)
		variant("LogAttrValue", "Kind", map[string]string{
			"KindBool": "AsBool → AnyValue_BoolValue", "KindInt64": "AsInt64 → AnyValue_IntValue", "KindFloat64": "AsFloat64 → AnyValue_DoubleValue", "KindString": "AsString → AnyValue_StringValue",
			"KindBytes": "AsBytes → AnyValue_BytesValue", "KindSlice": "AsSlice → AnyValue_ArrayValue", "KindMap": "AsMap → AnyValue_KvlistValue",
		})
	}
	if xc.signal == "metric" {
		// the metric() type switch covers every implementer of metricdata.Aggregation
		if fn := c.Fn(ix, "R3", "metric"); fn != nil {
			p := ix.M.Pkg(metricdata)
			var cases []string
			inspectNoLit(fn.Body(), func(n ast.Node) bool {
				if ts, ok := n.(*ast.TypeSwitchStmt); ok {
					for _, cl := range ts.Body.List {
						for _, e := range cl.(*ast.CaseClause).List {
							if nn := namedOf(info.Types[e].Type); nn != nil {
								cases = append(cases, nn.Obj().Name())
							}
						}
					}
				}
				return true
			})
			have := map[string]int{}
			for _, cn := range cases {
				have[cn]++
			}
			agg := lookupType(p, "Aggregation")
			good := agg != nil
			missing := ""
			if good {
				it := agg.Underlying().(*types.Interface)
				for _, tn := range p.Types.Scope().Names() {
					n := lookupType(p, tn)
					if n == nil || n == agg {
						continue
					}
					if _, isStruct := n.Underlying().(*types.Struct); !isStruct {
						continue
					}
					impl := false
					if n.TypeParams().Len() == 0 {
						impl = types.Implements(n, it)
					} else {
						inst, err := types.Instantiate(nil, n, []types.Type{types.Typ[types.Int64]}, false)
						impl = err == nil && types.Implements(inst, it)
					}
					if !impl {
						continue
					}
					wantN := 1
					if n.TypeParams().Len() > 0 {
						wantN = 2 // int64 and float64
					}
					if have[tn] != wantN {
						good = false
						missing += tn + " "
					}
				}
			}
			sort.Strings(cases)
			facts = append(facts, "metric switch "+strings.Join(cases, ","))
			c.Check(good, "R3", sp+"|metric|type switch covers every metricdata.Aggregation (both number types)", at(ix.M, fn.Pos()), strings.Join(cases, ","), "aggregation types without an encoder: "+missing+"(such metrics are dropped with an error)")
		}
	}

	// ---- R4 grouping loops
	appendTotal := func(fname, callName string, skipOK func(cnd ast.Expr, pol int) bool) {
		fn := c.Fn(ix, "R4", fname)
		if fn == nil {
			return
		}
		g := ix.FG(fn)
		// is e the encoded item: callName(…) or a local assigned from it?
		isEncoded := func(e ast.Expr) bool {
			if inner, ok := unparen(e).(*ast.CallExpr); ok {
				if cf := callee(info, inner); cf != nil && cf.Name() == callName {
					return true
				}
			}
			if v := objOf(info, e); v != nil {
				hit := false
				inspectNoLit(fn.Body(), func(m ast.Node) bool {
					if as2, ok := m.(*ast.AssignStmt); ok && len(as2.Rhs) == 1 {
						for _, l := range as2.Lhs {
							if sameVar(info, l, v) {
								if inner, ok := unparen(as2.Rhs[0]).(*ast.CallExpr); ok {
									if cf := callee(info, inner); cf != nil && cf.Name() == callName {
										hit = true
									}
								}
							}
						}
					}
					return true
				})
				return hit
			}
			return false
		}
		// the vertices at which an item enters the output: X = append(X, item) or a slice literal {item} (a group created with
		// its first element)
		apps := g.Match(func(n ast.Node) bool {
			switch s := n.(type) {
			case *ast.AssignStmt:
				if len(s.Rhs) != 1 {
					return false
				}
				call, ok := unparen(s.Rhs[0]).(*ast.CallExpr)
				if !ok || builtinName(info, call) != "append" || len(call.Args) != 2 {
					return false
				}
				return callName == "" || isEncoded(call.Args[1])
			case *ast.CompositeLit:
				if callName == "" {
					return false
				}
				if _, isSlice := info.Types[s].Type.Underlying().(*types.Slice); !isSlice || len(s.Elts) != 1 {
					return false
				}
				return isEncoded(s.Elts[0])
			}
			return false
		})
		key := sp + "|" + fname + "|every item appended once per iteration"
		if len(apps) < 1 {
			c.Violation("R4", key, at(ix.M, fn.Pos()), "no append of "+callName+"(item) found in the loop")
			return
		}
		through := toSet(apps)
		x := apps[0]
		// negative form: from the loop body head, the loop head / exit is reachable without an append only across an allowed skip edge
		var body *GNode
		for b, h := range g.head {
			if k := b.Kind.String(); (k == "RangeBody" || k == "ForBody") && b.Stmt != nil && containsNoLit(b.Stmt, x.N) {
				if body == nil || nodeCount(b.Stmt) < nodeCount(body.Blk.Stmt) {
					body = h
				}
			}
		}
		if body == nil {
			c.Violation("R4", key, at(ix.M, x.N.Pos()), "append is not inside a loop")
			return
		}
		loopStmt := body.Blk.Stmt
		isLoopEdge := func(y *GNode) bool {
			if y.N == nil && y.Blk != nil && y.Blk.Stmt == loopStmt {
				k := y.Blk.Kind.String()
				return k == "RangeLoop" || k == "RangeDone" || k == "ForLoop" || k == "ForDone" || k == "ForPost"
			}
			return false
		}
		seen, par := g.Reach([]*GNode{body}, func(y *GNode) bool { return through[y] }, func(e *GEdge) bool { return edgeImplies(e, skipOK) })
		bad := ""
		for y := range seen {
			if y == g.Exit {
				bad = "an iteration can return before the append: " + g.pathLines(par, y)
			}
			if isLoopEdge(y) {
				bad = "an iteration can skip the append: " + g.pathLines(par, y)
			}
		}
		// at most once per iteration: from one append no other (nor itself) is reached before the iteration ends
		for _, a := range apps {
			s2, _ := g.Reach([]*GNode{a}, isLoopEdge, nil)
			for y := range s2 {
				if through[y] {
					bad = "an item can be appended twice in one iteration (" + ix.M.posStr(a.N.Pos()) + " then " + ix.M.posStr(y.N.Pos()) + ")"
				}
			}
		}
		c.Check(bad == "", "R4", key, at(ix.M, x.N.Pos()), "skipped only on the allowed arm", "an input item is not encoded: "+bad)
	}
	isNilCheck := func(cnd ast.Expr, pol int) bool {
		nn, ok := nilCmp(info, cnd, pol, func(ast.Expr) bool { return true })
		return ok && !nn
	}
	isErrArm := func(cnd ast.Expr, pol int) bool {
		nn, ok := nilCmp(info, cnd, pol, func(x ast.Expr) bool {
			return isErrVar(info, x)
		})
		return ok && nn
	}
	never := func(ast.Expr, int) bool { return false }
	switch xc.signal {
	case "trace":
		appendTotal("Spans", "span", isNilCheck)
	case "log":
		appendTotal("ResourceLogs", "LogRecord", never)
	case "metric":
		appendTotal("ScopeMetrics", "", isErrArm)
		appendTotal("Metrics", "", isErrArm)
	}
	// group key = (resource identity, scope)
	if xc.signal == "trace" || xc.signal == "log" {
		fname := map[string]string{"trace": "Spans", "log": "ResourceLogs"}[xc.signal]
		if fn := ix.Func(fname); fn != nil {
			good := false
			inspectNoLit(fn.Body(), func(n ast.Node) bool {
				cl, ok := n.(*ast.CompositeLit)
				if !ok || len(cl.Elts) != 2 {
					return true
				}
				s := exprStr(cl)
				_ = s
				var hasRes, hasScope bool
				for _, el := range cl.Elts {
					if kv, ok := el.(*ast.KeyValueExpr); ok {
						// locals are expanded to their (single) definitions: the key parts are recognised by what they are, not by the
						// names of the variables that carry them
						v := expandExpr(info, fn, kv.Value, 0)
						if strings.Contains(v, "Equivalent()") {
							hasRes = true
						}
						if strings.Contains(v, "InstrumentationScope()") {
							hasScope = true
						}
					}
				}
				if hasRes && hasScope {
					good = true
				}
				return true
			})
			if !good {
				// nested form: the resource's group is looked up by Equivalent(), and the scope's entry is looked up by the
				// instrumentation scope in a map reached through that group (g, ok := groups[rKey]; sl, ok := g.scopes[scope])
				groupVars := map[types.Object]bool{}
				lookups := func(visit func(lhs ast.Expr, ie *ast.IndexExpr)) {
					inspectNoLit(fn.Body(), func(n ast.Node) bool {
						as, ok := n.(*ast.AssignStmt)
						if !ok || len(as.Rhs) != 1 || len(as.Lhs) < 1 {
							return true
						}
						ie, isIx := unparen(as.Rhs[0]).(*ast.IndexExpr)
						if !isIx {
							return true
						}
						if _, isMap := info.TypeOf(ie.X).Underlying().(*types.Map); isMap {
							visit(as.Lhs[0], ie)
						}
						return true
					})
				}
				lookups(func(lhs ast.Expr, ie *ast.IndexExpr) {
					if strings.Contains(expandExpr(info, fn, ie.Index, 0), "Equivalent()") {
						if o := objOf(info, lhs); o != nil {
							groupVars[o] = true
						}
					}
				})
				lookups(func(lhs ast.Expr, ie *ast.IndexExpr) {
					if !strings.Contains(expandExpr(info, fn, ie.Index, 0), "InstrumentationScope()") {
						return
					}
					root := ast.Expr(ie.X)
					for {
						if se, ok := unparen(root).(*ast.SelectorExpr); ok {
							root = se.X
							continue
						}
						break
					}
					if unparen(root) != unparen(ie.X) && groupVars[objOf(info, root)] {
						good = true
					}
				})
			}
			// the item goes into the group of THIS iteration's key: the variable it is appended through is defined inside the iteration
			// (looked up or created under the key just computed), or — if it lives across iterations, a "same group as the previous
			// item" cache — it is re-assigned on every path on which the remembered key is
			{
				g := ix.FG(fn)
				itemField := map[string]string{"trace": "Spans", "log": "LogRecords"}[xc.signal]
				var loops []*ast.RangeStmt
				inspectNoLit(fn.Body(), func(n ast.Node) bool {
					if r, ok := n.(*ast.RangeStmt); ok {
						loops = append(loops, r)
					}
					return true
				})
				nApp := 0
				stale := ""
				for _, x := range g.Nodes {
					as, ok := x.N.(*ast.AssignStmt)
					if !ok || len(as.Lhs) != 1 || len(as.Rhs) != 1 {
						continue
					}
					se, isSel := unparen(as.Lhs[0]).(*ast.SelectorExpr)
					call, isC := unparen(as.Rhs[0]).(*ast.CallExpr)
					if !isSel || !isC || se.Sel.Name != itemField || builtinName(info, call) != "append" {
						continue
					}
					tv := objOf(info, se.X)
					if _, isID := unparen(se.X).(*ast.Ident); !isID || tv == nil {
						continue
					}
					var loop *ast.RangeStmt
					for _, r := range loops {
						if containsNoLitOrIn(r.Body, as) && (loop == nil || containsNoLitOrIn(loop.Body, r)) {
							loop = r
						}
					}
					if loop == nil {
						continue
					}
					nApp++
					if definedIn(info, loop.Body, tv) {
						continue
					}
					// a cache: find the remembered key (compared with a value of this iteration on the way to the append)
					var kept types.Object
					_, _ = g.DominatedByEdges(x, func(ed *GEdge) bool {
						return edgeImplies(ed, func(cnd ast.Expr, pol int) bool {
							l, op, r, okc := cmpNorm(cnd, pol)
							if !okc || op != token.EQL {
								return false
							}
							for _, pair := range [][2]ast.Expr{{l, r}, {r, l}} {
								a, b := objOf(info, pair[0]), objOf(info, pair[1])
								if a != nil && b != nil && !definedIn(info, loop.Body, a) && definedIn(info, fn.Body(), a) && definedIn(info, loop.Body, b) {
									kept = a
									return true
								}
							}
							return false
						})
					})
					if kept == nil {
						stale = "the group variable " + tv.Name() + " lives across iterations and is not tied to a remembered key"
						continue
					}
					assigns := func(o types.Object) map[*GNode]bool {
						return toSet(g.Match(func(n ast.Node) bool {
							a2, ok2 := n.(*ast.AssignStmt)
							if !ok2 || !containsNoLitOrIn(loop.Body, a2) {
								return false
							}
							for _, l := range a2.Lhs {
								if id, isID := unparen(l).(*ast.Ident); isID && info.ObjectOf(id) == o {
									return true
								}
							}
							return false
						}))
					}
					keyAs, grpAs := assigns(kept), assigns(tv)
					isLoopHead := func(y *GNode) bool {
						return y.N == nil && y.Blk != nil && y.Blk.Kind.String() == "RangeLoop"
					}
					for ka := range keyAs {
						// from the point the key is remembered to the end of the iteration, the group is remembered too
						seen, par := g.Reach([]*GNode{ka}, func(y *GNode) bool { return grpAs[y] }, nil)
						back := false
						if grpAs[ka] {
							continue
						}
						// … unless it was remembered just before, with no way in between to skip this assignment
						if d, _ := g.DominatedByNodes(ka, grpAs); d {
							okPrev := true
							for ga := range grpAs {
								s2, _ := g.Reach([]*GNode{ga}, func(y *GNode) bool { return y == ka }, nil)
								for y := range s2 {
									if isLoopHead(y) || y == g.Exit {
										okPrev = false
									}
								}
							}
							if okPrev {
								continue
							}
						}
						for y := range seen {
							if isLoopHead(y) || y == g.Exit {
								back = true
								stale = "the remembered key " + kept.Name() + " is updated without the remembered group " + tv.Name() + " (" + g.pathLines(par, y) + "): the next item with that key is appended to another key's group"
							}
						}
						_ = back
					}
					// … and the other way round: wherever the remembered group changes, the remembered key changes with it
					for ga := range grpAs {
						if keyAs[ga] {
							continue
						}
						if d, _ := g.DominatedByNodes(ga, keyAs); d {
							okPrev := true
							for ka := range keyAs {
								s2, _ := g.Reach([]*GNode{ka}, func(y *GNode) bool { return y == ga }, nil)
								for y := range s2 {
									if isLoopHead(y) || y == g.Exit {
										okPrev = false
									}
								}
							}
							if okPrev {
								continue
							}
						}
						seen, par := g.Reach([]*GNode{ga}, func(y *GNode) bool { return keyAs[y] }, nil)
						for y := range seen {
							if isLoopHead(y) || y == g.Exit {
								stale = "the remembered group " + tv.Name() + " is updated without the remembered key " + kept.Name() + " (" + g.pathLines(par, y) + "): the next item with the old key is appended to the new group"
							}
						}
					}
				}
				if nApp > 0 {
					c.Check(stale == "", "R4", sp+"|"+fname+"|items are appended to the group of their own (resource, scope)", at(ix.M, fn.Pos()), itoa(nApp)+" item append(s), each through this iteration's group",
						"an item can be encoded under another item's resource or scope: "+stale)
				}
			}
			c.Check(good, "R4", sp+"|"+fname+"|groups keyed by (resource.Equivalent(), instrumentation scope)", at(ix.M, fn.Pos()), "one ScopeX per resource × scope", "items of different resources or scopes are merged into one group (or split)")
		}
	}
	sort.Strings(facts)
	return facts
}

func c13Zipkin(c *Ctx) {
	zx := c.Index(zipkinMod, zipkinPkg)
	if zx == nil {
		return
	}
	info := zx.Pkg.TypesInfo
	fn := c.Fn(zx, "R6", "toZipkinSpanModel")
	if fn == nil {
		return
	}
	var lit *ast.CompositeLit
	inspectNoLit(fn.Body(), func(n ast.Node) bool {
		if cl, ok := n.(*ast.CompositeLit); ok {
			if nn := namedOf(info.Types[cl].Type); nn != nil && nn.Obj().Name() == "SpanModel" {
				lit = cl
			}
		}
		return true
	})
	if lit == nil {
		c.Violation("R6", "zipkin|toZipkinSpanModel|SpanModel literal", at(zx.M, fn.Pos()), "SpanModel literal not found")
		return
	}
	fields := map[string]string{}
	var ctxLit *ast.CompositeLit
	ctxFn := fn
	for _, el := range lit.Elts {
		if kv, ok := el.(*ast.KeyValueExpr); ok {
			fields[kv.Key.(*ast.Ident).Name] = expandExpr(info, fn, kv.Value, 0)
			if cl, ok := unparen(kv.Value).(*ast.CompositeLit); ok && kv.Key.(*ast.Ident).Name == "SpanContext" {
				ctxLit = cl
			}
		}
	}
	site := at(zx.M, lit.Pos())
	c.Check(strings.Contains(fields["Name"], "Name()"), "R6", "zipkin|SpanModel.Name|← Name()", site, fields["Name"], "span name not preserved")
	c.Check(strings.Contains(fields["Timestamp"], "StartTime()") && !strings.Contains(fields["Timestamp"], "EndTime"), "R6", "zipkin|SpanModel.Timestamp|← StartTime()", site, fields["Timestamp"], "Zipkin timestamp must be the span's start time")
	d := fields["Duration"]
	c.Check(strings.Contains(d, "EndTime().Sub(") && strings.Contains(d[strings.Index(d+"Sub(", "Sub("):], "StartTime()"), "R6", "zipkin|SpanModel.Duration|← EndTime().Sub(StartTime())", site, d, "duration must be end − start (receiver/argument roles matter: swapped gives a negative duration)")
	c.Check(strings.Contains(fields["Kind"], "toZipkinKind("), "R6", "zipkin|SpanModel.Kind|← toZipkinKind(SpanKind())", site, fields["Kind"], "span kind not mapped")
	for _, f := range zx.All {
		inspectNoLit(f.Body(), func(n ast.Node) bool {
			if cl, ok := n.(*ast.CompositeLit); ok {
				if nn := namedOf(info.Types[cl].Type); nn != nil && nn.Obj().Name() == "SpanContext" && ctxLit == nil {
					ctxLit = cl
					ctxFn = f
				}
			}
			return true
		})
	}
	var inlineParentAssign ast.Node
	var inlineParentFn *FuncInfo
	if ctxLit != nil {
		cf := map[string]string{}
		for _, el := range ctxLit.Elts {
			if kv, ok := el.(*ast.KeyValueExpr); ok {
				cf[kv.Key.(*ast.Ident).Name] = expandExpr(info, ctxFn, kv.Value, 0)
			}
		}
		// a field given after the literal (zsc.ParentID = &pid under the validity test)
		parentInline := false
		var parentAssign ast.Node
		inspectNoLit(ctxFn.Body(), func(n ast.Node) bool {
			if as, ok := n.(*ast.AssignStmt); ok && len(as.Lhs) == len(as.Rhs) {
				for i, l := range as.Lhs {
					if sel, isSel := unparen(l).(*ast.SelectorExpr); isSel {
						if nn := namedOf(info.TypeOf(sel.X)); nn != nil && nn.Obj().Name() == "SpanContext" {
							if _, given := cf[sel.Sel.Name]; !given {
								cf[sel.Sel.Name] = expandExpr(info, ctxFn, as.Rhs[i], 0)
								if sel.Sel.Name == "ParentID" {
									parentInline = true
									parentAssign = as
								}
							}
						}
					}
				}
			}
			return true
		})
		if parentInline {
			inlineParentAssign, inlineParentFn = parentAssign, ctxFn
		}
		if parentInline && strings.Contains(cf["ParentID"], "toZipkinID(") && strings.Contains(cf["ParentID"], "Parent().SpanID()") && !strings.Contains(cf["ParentID"], "SpanContext()") {
			// the helper written out in place: the same conversion of the parent's span id
			cf["ParentID"] = "toZipkinParentID(" + cf["ParentID"] + ")"
		}
		c.Check(strings.Contains(cf["TraceID"], "toZipkinTraceID(") && strings.Contains(cf["TraceID"], "SpanContext().TraceID()"), "R6", "zipkin|SpanContext.TraceID|← toZipkinTraceID(SpanContext().TraceID())", site, cf["TraceID"], "trace id not preserved")
		c.Check(strings.Contains(cf["ID"], "toZipkinID(") && strings.Contains(cf["ID"], "SpanContext().SpanID()") && !strings.Contains(cf["ID"], "Parent()"), "R6", "zipkin|SpanContext.ID|← toZipkinID(SpanContext().SpanID())", site, cf["ID"], "span id not preserved (or taken from the parent)")
		c.Check(strings.Contains(cf["ParentID"], "toZipkinParentID(") && strings.Contains(cf["ParentID"], "Parent().SpanID()"), "R6", "zipkin|SpanContext.ParentID|← toZipkinParentID(Parent().SpanID())", site, cf["ParentID"], "parent id not preserved (or taken from the span itself)")
	} else {
		c.Violation("R6", "zipkin|SpanContext literal", site, "zipkin SpanContext literal not found")
	}
	validParent := func(e *GEdge) bool {
		return edgeImplies(e, func(cnd ast.Expr, pol int) bool {
			call, ok := cnd.(*ast.CallExpr)
			if !ok || pol < 0 {
				return false
			}
			cf := callee(info, call)
			return cf != nil && cf.Name() == "IsValid"
		})
	}
	if inlineParentAssign != nil && zx.Func("toZipkinParentID") == nil {
		// the helper written out in place: the assignment itself is the non-nil case
		g := zx.FG(inlineParentFn)
		good := false
		for _, x := range g.Nodes {
			if x.N == inlineParentAssign {
				good, _ = g.DominatedByEdges(x, validParent)
			}
		}
		c.Check(good, "R6", "zipkin|toZipkinParentID|non-nil only for a valid parent span id", at(zx.M, inlineParentAssign.Pos()), "root spans have no parent id", "an all-zero parent id is exported for root spans")
	} else if f := c.Fn(zx, "R6", "toZipkinParentID"); f != nil {
		g := zx.FG(f)
		good, n := true, 0
		for _, x := range g.Nodes {
			if rs, ok := x.N.(*ast.ReturnStmt); ok && len(rs.Results) == 1 && !isNilIdent(info, rs.Results[0]) {
				n++
				d, _ := g.DominatedByEdges(x, func(e *GEdge) bool {
					return edgeImplies(e, func(cnd ast.Expr, pol int) bool {
						call, ok := cnd.(*ast.CallExpr)
						if !ok || pol < 0 {
							return false
						}
						cf := callee(info, call)
						return cf != nil && cf.Name() == "IsValid"
					})
				})
				if !d {
					good = false
				}
			}
		}
		c.Check(good && n == 1, "R6", "zipkin|toZipkinParentID|non-nil only for a valid parent span id", at(zx.M, f.Pos()), "root spans have no parent id", "an all-zero parent id is exported for root spans")
	}
	// id helpers: big-endian halves
	if f := c.Fn(zx, "R6", "toZipkinTraceID"); f != nil {
		hi, lo := "", ""
		inspectNoLit(f.Body(), func(n ast.Node) bool {
			if cl, ok := n.(*ast.CompositeLit); ok {
				for _, el := range cl.Elts {
					if kv, ok := el.(*ast.KeyValueExpr); ok {
						switch kv.Key.(*ast.Ident).Name {
						case "High":
							hi = exprStr(kv.Value)
						case "Low":
							lo = exprStr(kv.Value)
						}
					}
				}
			}
			return true
		})
		src := "High: " + hi + ", Low: " + lo
		good := hi == "binary.BigEndian.Uint64(traceID[:8])" && lo == "binary.BigEndian.Uint64(traceID[8:])"
		c.Check(good, "R6", "zipkin|toZipkinTraceID|High ← BigEndian(traceID[:8]), Low ← BigEndian(traceID[8:])", at(zx.M, f.Pos()), src, "the 128-bit trace id halves are swapped or decoded with the wrong byte order")
	}
	if f := c.Fn(zx, "R6", "toZipkinKind"); f != nil {
		m := map[string]string{}
		sig := f.Obj.Type().(*types.Signature)
		p := sig.Params().At(0)
		g := zx.FG(f)
		for _, k := range enumConsts(namedOf(p.Type())) {
			env := func(e ast.Expr) (constant.Value, bool) {
				if sameVar(info, e, p) {
					return k.Val(), true
				}
				return nil, false
			}
			var res []string
			for x := range g.ReachUnder(env) {
				if rs, ok := x.N.(*ast.ReturnStmt); ok && len(rs.Results) == 1 {
					if kc := constObj(info, rs.Results[0]); kc != nil {
						res = append(res, kc.Name())
					} else {
						res = append(res, exprStr(rs.Results[0]))
					}
				}
			}
			sort.Strings(res)
			m[k.Name()] = strings.Join(res, ",")
		}
		want := map[string]string{"SpanKindClient": "Client", "SpanKindServer": "Server", "SpanKindProducer": "Producer", "SpanKindConsumer": "Consumer", "SpanKindInternal": "Undetermined", "SpanKindUnspecified": "Undetermined"}
		good := len(m) == 6
		for k, w := range want {
			if m[k] != w {
				good = false
			}
		}
		c.Check(good, "R6", "zipkin|toZipkinKind|kind table", at(zx.M, f.Pos()), "client/server/producer/consumer preserved, others undetermined", "span kind table differs from the Zipkin mapping")
	}
	_ = token.NoPos
}

// expandExpr renders e with every local variable that has exactly one defining assignment in fn replaced by (the rendering of) its definition.
func expandExpr(info *types.Info, fn *FuncInfo, e ast.Expr, depth int) string {
	if depth > 4 || fn == nil {
		return exprStr(e)
	}
	defs := map[types.Object][]ast.Expr{}
	ast.Inspect(fn.Body(), func(n ast.Node) bool {
		switch as := n.(type) {
		case *ast.AssignStmt:
			for i, l := range as.Lhs {
				o := objOf(info, l)
				if o == nil {
					continue
				}
				var rhs ast.Expr
				if len(as.Lhs) == len(as.Rhs) {
					rhs = as.Rhs[i]
				} else if len(as.Rhs) == 1 {
					rhs = as.Rhs[0]
				}
				selfRef := false
				if rhs != nil {
					ast.Inspect(rhs, func(m ast.Node) bool {
						if id, ok := m.(*ast.Ident); ok && info.Uses[id] == o {
							selfRef = true
						}
						return true
					})
				}
				if as.Tok != token.DEFINE && as.Tok != token.ASSIGN || selfRef || rhs == nil {
					// compound assignment / accumulation: the variable is not a plain alias of one expression
					defs[o] = append(defs[o], nil, nil)
					continue
				}
				defs[o] = append(defs[o], rhs)
			}
		case *ast.IncDecStmt:
			if o := objOf(info, as.X); o != nil {
				defs[o] = append(defs[o], nil, nil)
			}
		}
		return true
	})
	var render func(e ast.Expr, d int) string
	render = func(e ast.Expr, d int) string {
		switch x := e.(type) {
		case *ast.Ident:
			if v, ok := info.Uses[x].(*types.Var); ok && !v.IsField() && len(defs[v]) == 1 && d < 4 {
				if definedIn(info, fn.Body(), v) {
					return render(defs[v][0], d+1)
				}
			}
			return x.Name
		case *ast.ParenExpr:
			return "(" + render(x.X, d) + ")"
		case *ast.UnaryExpr:
			return x.Op.String() + render(x.X, d)
		case *ast.StarExpr:
			return "*" + render(x.X, d)
		case *ast.SelectorExpr:
			return render(x.X, d) + "." + x.Sel.Name
		case *ast.SliceExpr:
			out := render(x.X, d) + "["
			if x.Low != nil {
				out += render(x.Low, d)
			}
			out += ":"
			if x.High != nil {
				out += render(x.High, d)
			}
			return out + "]"
		case *ast.IndexExpr:
			return render(x.X, d) + "[" + render(x.Index, d) + "]"
		case *ast.CallExpr:
			var as []string
			for _, a := range x.Args {
				as = append(as, render(a, d))
			}
			return render(x.Fun, d) + "(" + strings.Join(as, ", ") + ")"
		case *ast.BinaryExpr:
			return render(x.X, d) + " " + x.Op.String() + " " + render(x.Y, d)
		}
		return exprStr(e)
	}
	return render(e, depth)
}

// optionalValueHelper: h(e) with `v, ok := e.Value()` returns nil on every path where ok is false and, where ok is true, the
// address of a fresh local holding v (possibly converted); nothing else.
func optionalValueHelper(ix *PkgIndex, h *FuncInfo) bool {
	info := ix.Pkg.TypesInfo
	sig := h.Obj.Type().(*types.Signature)
	if sig.Params().Len() != 1 || sig.Results().Len() != 1 {
		return false
	}
	if _, isPtr := sig.Results().At(0).Type().Underlying().(*types.Pointer); !isPtr {
		return false
	}
	p := sig.Params().At(0)
	var v, okv types.Object
	inspectNoLit(h.Body(), func(n ast.Node) bool {
		if as, ok := n.(*ast.AssignStmt); ok && len(as.Lhs) == 2 && len(as.Rhs) == 1 {
			if call, ok := unparen(as.Rhs[0]).(*ast.CallExpr); ok {
				if recv, m := methodCall(info, call); m != nil && m.Name() == "Value" && sameVar(info, recv, p) {
					v, okv = objOf(info, as.Lhs[0]), objOf(info, as.Lhs[1])
				}
			}
		}
		return true
	})
	if v == nil || okv == nil {
		return false
	}
	g := ix.FG(h)
	edge := func(pol int) func(*GEdge) bool {
		return func(e *GEdge) bool {
			return edgeImplies(e, func(cnd ast.Expr, p int) bool { return p == pol && sameVar(info, cnd, okv) })
		}
	}
	n := 0
	for _, x := range g.Nodes {
		rs, isRet := x.N.(*ast.ReturnStmt)
		if !isRet {
			continue
		}
		n++
		if len(rs.Results) != 1 {
			return false
		}
		r := unparen(rs.Results[0])
		unset, _ := g.DominatedByEdges(x, edge(-1))
		set, _ := g.DominatedByEdges(x, edge(1))
		switch {
		case unset:
			if !isNilIdent(info, r) {
				return false
			}
		case set:
			u, ok := r.(*ast.UnaryExpr)
			if !ok || u.Op != token.AND {
				return false
			}
			loc := objOf(info, u.X)
			// the local's only assignment (its address is taken, so it is not a LocalDef)
			var def ast.Expr
			nAssign := 0
			inspectNoLit(h.Body(), func(m ast.Node) bool {
				if as, ok := m.(*ast.AssignStmt); ok && len(as.Lhs) == len(as.Rhs) {
					for i, l := range as.Lhs {
						if loc != nil && objOf(info, l) == loc {
							nAssign++
							def = as.Rhs[i]
						}
					}
				}
				return true
			})
			if def == nil || nAssign != 1 {
				return false
			}
			d := unparen(def)
			if conv, ok := d.(*ast.CallExpr); ok && len(conv.Args) == 1 {
				if tv, has := info.Types[conv.Fun]; has && tv.IsType() {
					d = unparen(conv.Args[0])
				}
			}
			if !sameVar(info, d, v) {
				return false
			}
		default:
			return false
		}
	}
	return n >= 2
}

// guardGap: the guard examines some fields of a struct-typed local s (s.F op …) while the guarded value reads other fields of
// the same s: returns a description of the unexamined fields ("" when the guard looks at s as a whole, or at every field read).
func guardGap(info *types.Info, guard, value ast.Expr) string {
	whole := map[types.Object]bool{}
	tested := map[types.Object]map[string]bool{}
	var walk func(n ast.Node, into map[types.Object]map[string]bool, wholeInto map[types.Object]bool)
	walk = func(n ast.Node, into map[types.Object]map[string]bool, wholeInto map[types.Object]bool) {
		ast.Inspect(n, func(m ast.Node) bool {
			switch x := m.(type) {
			case *ast.SelectorExpr:
				if id, ok := unparen(x.X).(*ast.Ident); ok {
					if v, ok := info.Uses[id].(*types.Var); ok && !v.IsField() {
						if _, isStruct := v.Type().Underlying().(*types.Struct); isStruct {
							if _, isFld := info.Uses[x.Sel].(*types.Var); isFld {
								if into[v] == nil {
									into[v] = map[string]bool{}
								}
								into[v][x.Sel.Name] = true
								return false
							}
						}
					}
				}
			case *ast.Ident:
				if v, ok := info.Uses[x].(*types.Var); ok && !v.IsField() {
					if _, isStruct := v.Type().Underlying().(*types.Struct); isStruct {
						wholeInto[v] = true
					}
				}
			}
			return true
		})
	}
	walk(guard, tested, whole)
	read := map[types.Object]map[string]bool{}
	walk(value, read, map[types.Object]bool{})
	var missing []string
	for v, fs := range tested {
		if whole[v] {
			continue
		}
		for f := range read[v] {
			if !fs[f] {
				missing = append(missing, v.Name()+"."+f)
			}
		}
	}
	sort.Strings(missing)
	return strings.Join(missing, ", ")
}
