package main

import (
	"go/ast"
	"go/constant"
	"go/token"
	"go/types"
	"sort"
	"strings"
)

func init() {
	register(&PropDoc{
		ID:      "C04",
		Modules: []string{"sdk"},
		NotDecided: "truncate() beyond 'every kept character is counted' (byte-level cut positions, removal of invalid bytes), the in-place de-duplication index arithmetic, exact dropped counts as numbers, " +
			"the full product of call sequences against a reference model.",
		Fn: c04,
	})
}

// observable span fields whose mutation must be gated by isRecording.
var spanObservable = []string{"name", "endTime", "status", "childSpanCount", "attributes", "droppedAttributes"}

var recordingGuardExempt = map[string]string{
	"(*recordingSpan).dedupeAttrs":           "content-preserving normalisation (last value per key kept), runs under the lock from readers too",
	"(*recordingSpan).dedupeAttrsFromRecord": "content-preserving normalisation",
	"(*recordingSpan).snapshot":              "read side; only calls the normalisation",
	"(*recordingSpan).Attributes":            "read side; only calls the normalisation",
}

// ruleRecordingGuard (C04.R1 / C10.R5): every write to an observable field of recordingSpan is
// dominated — in its function or at every static call site — by the true outcome of s.isRecording().
func ruleRecordingGuard(c *Ctx, ix *PkgIndex, rule string) {
	info := ix.Pkg.TypesInfo
	isRec := ix.Func("(*recordingSpan).isRecording")
	if isRec == nil {
		c.Missing(rule, "sdk/trace.(*recordingSpan).isRecording")
		return
	}
	// isRecording itself must be "endTime is zero"
	{
		g := ix.FG(isRec)
		fEnd := lookupField(ix.Pkg, "recordingSpan", "endTime")
		good := false
		for _, x := range g.Nodes {
			if rs, ok := x.N.(*ast.ReturnStmt); ok && len(rs.Results) == 1 {
				// an even number of negations around the test cancels (!reached() with reached = !IsZero())
				res, neg := unparen(rs.Results[0]), false
				for {
					u, isU := res.(*ast.UnaryExpr)
					if !isU || u.Op != token.NOT {
						break
					}
					res, neg = unparen(u.X), !neg
				}
				if call, ok := res.(*ast.CallExpr); ok && !neg && isCallTo(info, call, "(time.Time).IsZero") {
					if recv, _ := methodCall(info, call); recv != nil && isField(info, recv, fEnd) {
						good = true
					}
				}
			}
		}
		c.Check(good, rule, "sdk/trace|(*recordingSpan).isRecording|recording ⇔ endTime.IsZero()", at(ix.M, isRec.Pos()),
			"a span stops recording exactly when End stores endTime", "isRecording no longer reflects the ended state")
	}
	gen := func(fi *FuncInfo) func(*GEdge) bool {
		return func(e *GEdge) bool {
			return edgeImplies(e, func(cnd ast.Expr, pol int) bool {
				call, ok := cnd.(*ast.CallExpr)
				if !ok || pol < 0 {
					return false
				}
				f := callee(info, call)
				return f != nil && f.Origin() == isRec.Obj.Origin()
			})
		}
	}
	fields := map[*types.Var]bool{}
	for _, n := range spanObservable {
		if v := lookupField(ix.Pkg, "recordingSpan", n); v != nil {
			fields[v.Origin()] = true
		} else {
			c.Missing(rule, "sdk/trace.recordingSpan."+n)
		}
	}
	type wsite struct {
		f    *FuncInfo
		n    ast.Node
		what string
	}
	var ws []wsite
	for _, a := range ix.fieldAccesses(fields) {
		if a.Write {
			ws = append(ws, wsite{a.F, a.Sel, "write recordingSpan." + a.Field.Name()})
		}
	}
	// events.add / links.add
	fEv, fLk := lookupField(ix.Pkg, "recordingSpan", "events"), lookupField(ix.Pkg, "recordingSpan", "links")
	for _, s := range ix.FindCalls(func(f *FuncInfo, call *ast.CallExpr) bool {
		recv, m := methodCall(info, call)
		if m == nil || m.Name() != "add" {
			return false
		}
		return isField(info, recv, fEv) || isField(info, recv, fLk)
	}) {
		recv, _ := methodCall(info, s.N.(*ast.CallExpr))
		fv, _ := fieldOf(info, recv)
		ws = append(ws, wsite{s.F, s.N, "write recordingSpan." + fv.Name() + " (add)"})
	}
	cnt := map[string]int{}
	for _, w := range ws {
		outer := ix.Outer(w.f)
		c.Analysed(outer)
		k := "sdk/trace|" + w.f.Name + "|" + w.what + " only while recording"
		cnt[k]++
		key := k + " #" + itoa(cnt[k])
		if r, ok := exemptReason(ix, recordingGuardExempt, outer); ok {
			c.OK(rule, key, at(ix.M, w.n.Pos()), "exempt: "+r)
			continue
		}
		if sel, ok := w.n.(*ast.SelectorExpr); ok && ix.freshLocal(w.f, sel.X) {
			c.OK(rule, key, at(ix.M, w.n.Pos()), "constructor")
			continue
		}
		ok, why := ix.DominatedUp(w.f, w.n, gen, 0)
		c.Check(ok, rule, key, at(ix.M, w.n.Pos()), "dominated by the true outcome of isRecording() on every call chain",
			"the span can be changed after End (calls made after End must change nothing): "+why)
	}
}

// ruleSnapshotComplete (C04.R6): snapshot() assigns every field of struct snapshot from the like-named span state.
func ruleSnapshotComplete(c *Ctx, ix *PkgIndex, rule string) {
	info := ix.Pkg.TypesInfo
	fn := c.Fn(ix, rule, "(*recordingSpan).snapshot")
	st := lookupType(ix.Pkg, "snapshot")
	if fn == nil || st == nil {
		c.Missing(rule, "sdk/trace.snapshot")
		return
	}
	// expected source (selector chain after the receiver); alternatives separated by |
	want := map[string]string{
		"name": "name", "spanContext": "spanContext", "parent": "parent", "spanKind": "spanKind", "startTime": "startTime", "endTime": "endTime",
		"attributes": "attributes", "events": "events.copy()|slices.Clone(events.queue)", "links": "links.copy()|slices.Clone(links.queue)", "status": "status",
		"childSpanCount": "childSpanCount", "droppedAttributeCount": "droppedAttributes", "droppedEventCount": "events.droppedCount",
		"droppedLinkCount": "links.droppedCount", "resource": "tracer.provider.resource", "instrumentationScope": "tracer.instrumentationScope",
	}
	conditional := map[string]bool{"attributes": true, "events": true, "links": true, "droppedEventCount": true, "droppedLinkCount": true}
	g := ix.FG(fn)
	recv := fn.Recv()
	stS := st.Underlying().(*types.Struct)
	for i := 0; i < stS.NumFields(); i++ {
		fld := stS.Field(i)
		key := "sdk/trace|(*recordingSpan).snapshot|snapshot." + fld.Name() + " populated"
		var nodes []*GNode
		var rhs ast.Expr
		for _, x := range g.Nodes {
			if x.N == nil {
				continue
			}
			if r := assignRHS(x.N, func(e ast.Expr) bool { return isField(info, e, fld) }); r != nil {
				nodes = append(nodes, x)
				rhs = r
			}
			// the field given in the composite literal that creates the snapshot value
			inspectNoLit(x.N, func(n ast.Node) bool {
				cl, ok := n.(*ast.CompositeLit)
				if !ok {
					return true
				}
				if nn := namedOf(info.TypeOf(cl)); nn == nil || nn.Obj() != st.Obj() {
					return true
				}
				for _, el := range cl.Elts {
					if kv, isKV := el.(*ast.KeyValueExpr); isKV {
						if id, isID := kv.Key.(*ast.Ident); isID && info.Uses[id] == types.Object(fld) {
							nodes = append(nodes, x)
							rhs = kv.Value
						}
					}
				}
				return true
			})
		}
		w, known := want[fld.Name()]
		if !known {
			c.Undecided(rule, key, at(ix.M, fn.Pos()), "snapshot has a field the checker has no source mapping for; add it to the table after reading")
			continue
		}
		if len(nodes) == 0 {
			c.Violation(rule, key, at(ix.M, fn.Pos()), "field is never assigned: the exported span silently loses "+fld.Name())
			continue
		}
		src := chainAfter(info, rhs, recv)
		match := false
		for _, alt := range strings.Split(w, "|") {
			if src == alt {
				match = true
			}
			// the same field path under today's names (renamed fields, fields moved into a nested struct)
			if !strings.Contains(alt, "(") && src == strings.TrimPrefix(resolvePath(ix.Pkg, "recordingSpan", "."+alt), ".") {
				match = true
			}
		}
		if !match {
			c.Violation(rule, key, at(ix.M, nodes[0].N.Pos()), "snapshot."+fld.Name()+" is populated from '"+src+"', expected the span's "+w)
			continue
		}
		if !conditional[fld.Name()] {
			set := map[*GNode]bool{}
			for _, x := range nodes {
				set[x] = true
			}
			seen, _ := g.ReachFromEntry(func(x *GNode) bool { return set[x] }, nil)
			if seen[g.Exit] {
				c.Violation(rule, key, at(ix.M, nodes[0].N.Pos()), "field is not assigned on every path through snapshot()")
				continue
			}
		}
		c.OK(rule, key, at(ix.M, nodes[0].N.Pos()), "← s."+src)
	}
}

// chainAfter renders a selector/call chain rooted at variable root as "a.b.c()" (without the root); other shapes are rendered with ExprString.
func chainAfter(info *types.Info, e ast.Expr, root *types.Var) string {
	e = unparen(e)
	switch x := e.(type) {
	case *ast.Ident:
		if objOf(info, x) == types.Object(root) {
			return ""
		}
		return x.Name
	case *ast.SelectorExpr:
		b := chainAfter(info, x.X, root)
		if b == "" {
			return x.Sel.Name
		}
		return b + "." + x.Sel.Name
	case *ast.CallExpr:
		var args []string
		for _, a := range x.Args {
			args = append(args, chainAfter(info, a, root))
		}
		return chainAfter(info, x.Fun, root) + "(" + strings.Join(args, ",") + ")"
	}
	return exprStr(e)
}

func c04(c *Ctx) {
	ix := c.Index("sdk", sdkTrace)
	if ix == nil {
		return
	}
	info := ix.Pkg.TypesInfo

	c.Rule("R1", "E3 dominance (interprocedural) + E1", "every write to an observable span field happens under s.mu and after isRecording() returned true", 14)
	ruleRecordingGuard(c, ix, "R1")
	le := c.Locks(ix)
	g1 := spanMuGuard()
	g1.Fields = spanObservable
	le.GuardedBy(c.Run, "R1", g1)

	// "calls made after End change nothing" includes a second End: the test-and-mark of End is one critical section
	c.Rule("R10", "E1 atomic section", "in End the isRecording() test and the store to endTime are in one critical section of s.mu on every path (a concurrent or later End is a no-op: no second end time, no second export)", 1)
	ruleEndAtomic(c, ix, le, "R10")

	// R2 status precedence table
	c.Rule("R2", "E2 decision table", "SetStatus stores the new status iff not (current code > new code) under Unset<Error<Ok; Description kept only for codes.Error", 10)
	if fn := c.Fn(ix, "R2", "(*recordingSpan).SetStatus"); fn != nil {
		g := ix.FG(fn)
		fStatus := lookupField(ix.Pkg, "recordingSpan", "status")
		fCode := lookupField(ix.Pkg, "Status", "Code")
		fDesc := lookupField(ix.Pkg, "Status", "Description")
		isRec := ix.Func("(*recordingSpan).isRecording")
		sig := fn.Obj.Type().(*types.Signature)
		if fStatus == nil || fCode == nil || fDesc == nil || isRec == nil || sig.Params().Len() != 2 {
			c.Missing("R2", "sdk/trace Status/recordingSpan.status/SetStatus(code, description)")
		} else {
			pCode := sig.Params().At(0)
			codesPkg := namedOf(pCode.Type())
			consts := enumConsts(codesPkg)
			val := map[string]constant.Value{}
			for _, k := range consts {
				val[k.Name()] = k.Val()
			}
			specOK := len(consts) == 3 && val["Unset"] != nil && val["Error"] != nil && val["Ok"] != nil &&
				constant.Compare(val["Unset"], token.LSS, val["Error"]) && constant.Compare(val["Error"], token.LSS, val["Ok"])
			c.Check(specOK, "R2", "codes|Code|constant order Unset < Error < Ok", at(ix.M, fn.Pos()), "status precedence is the numeric order of codes.Code",
				"codes.Code constants no longer ordered Unset < Error < Ok: the comparison in SetStatus does not implement the specified precedence")
			storeStatus := g.Match(func(n ast.Node) bool {
				return assignRHS(n, func(e ast.Expr) bool { return isField(info, e, fStatus) }) != nil
			})
			storeDesc := g.Match(func(n ast.Node) bool {
				if assignRHS(n, func(e ast.Expr) bool { return isField(info, e, fDesc) }) != nil {
					return true
				}
				// Status{Code: c, Description: d} literal with a Description key
				if cl, ok := n.(*ast.CompositeLit); ok {
					for _, el := range cl.Elts {
						if kv, ok := el.(*ast.KeyValueExpr); ok {
							if id, ok := kv.Key.(*ast.Ident); ok && info.Uses[id] == types.Object(fDesc) {
								return true
							}
						}
					}
				}
				return false
			})
			for _, cur := range consts {
				for _, nw := range consts {
					env := func(e ast.Expr) (constant.Value, bool) {
						if sameVar(info, e, pCode) {
							return nw.Val(), true
						}
						if isField(info, e, fCode) {
							if _, b := fieldOf(info, e); b != nil && isField(info, b, fStatus) {
								return cur.Val(), true
							}
						}
						if call, ok := e.(*ast.CallExpr); ok {
							if f := callee(info, call); f != nil && f.Origin() == isRec.Obj.Origin() {
								return constant.MakeBool(true), true
							}
						}
						if be, ok := e.(*ast.BinaryExpr); ok && (be.Op == token.EQL || be.Op == token.NEQ) {
							if isNilIdent(info, be.Y) && sameVar(info, be.X, fn.Recv()) {
								return constant.MakeBool(be.Op == token.NEQ), true
							}
						}
						return nil, false
					}
					seen := g.ReachUnder(env)
					stored := false
					for _, x := range storeStatus {
						if seen[x] {
							stored = true
						}
					}
					descStored := false
					for _, x := range storeDesc {
						if seen[x] {
							descStored = true
						}
					}
					wantStore := !constant.Compare(cur.Val(), token.GTR, nw.Val())
					wantDesc := wantStore && nw.Name() == "Error"
					key := "sdk/trace|(*recordingSpan).SetStatus|current=" + cur.Name() + " new=" + nw.Name()
					okk := stored == wantStore && (!wantStore || descStored == wantDesc)
					c.Check(okk, "R2", key, at(ix.M, fn.Pos()),
						"store="+boolStr(stored)+" description="+boolStr(descStored),
						"status table differs from the specification: with current="+cur.Name()+" and new="+nw.Name()+" the code stores="+boolStr(stored)+" (want "+boolStr(wantStore)+"), description="+boolStr(descStored)+" (want "+boolStr(wantDesc)+")")
				}
			}
		}
	}

	// R3 must-sanitise before storing attributes
	c.Rule("R9", "E3 must-pass in loops", "truncate: every character the scan keeps is counted against the limit (range loop: each continuing iteration increments the counter; builder loop: an increment between any two writes)", 1)
	ruleTruncateCounts(c, ix, "R9", "sdk/trace")
	c.Rule("R3", "E4 must-sanitise (CFG must-flow)", "every attribute stored into recordingSpan.attributes is the result of truncateAttr and passed the Valid() test", 3)
	fAttrs := lookupField(ix.Pkg, "recordingSpan", "attributes")
	trunc := ix.Func("truncateAttr")
	if fAttrs == nil || trunc == nil {
		c.Missing("R3", "sdk/trace recordingSpan.attributes / truncateAttr")
	} else {
		isAttrs := func(e ast.Expr) bool { return isField(info, e, fAttrs) }
		cnt := map[string]int{}
		for _, f := range ix.All {
			outer := ix.Outer(f)
			if _, ex := exemptReason(ix, recordingGuardExempt, outer); ex {
				continue
			}
			var g *FG
			for _, n := range nodesIn(f, func(n ast.Node) bool {
				as, ok := n.(*ast.AssignStmt)
				if !ok {
					return false
				}
				for i, l := range as.Lhs {
					if isAttrs(l) && len(as.Rhs) == len(as.Lhs) && isAppendTo(info, as.Rhs[i], isAttrs) {
						return true
					}
					if ie, ok := unparen(l).(*ast.IndexExpr); ok && isAttrs(ie.X) {
						return true
					}
				}
				return false
			}) {
				if g == nil {
					g = ix.FG(f)
				}
				as := n.(*ast.AssignStmt)
				var vals []ast.Expr
				for i, l := range as.Lhs {
					if isAttrs(l) {
						call := unparen(as.Rhs[i]).(*ast.CallExpr)
						if call.Ellipsis.IsValid() {
							vals = append(vals, nil)
						} else {
							vals = append(vals, call.Args[1:]...)
						}
					} else if ie, ok := unparen(l).(*ast.IndexExpr); ok && isAttrs(ie.X) {
						vals = append(vals, as.Rhs[i])
					}
				}
				cnt[f.Name]++
				key := "sdk/trace|" + f.Name + "|store into attributes #" + itoa(cnt[f.Name]) + " sanitised"
				site := at(ix.M, n.Pos())
				c.Analysed(outer)
				for _, v := range vals {
					if v == nil {
						c.Violation("R3", key, site, "a whole slice is appended to the span's attributes without per-element truncation/validation")
						continue
					}
					// direct call truncateAttr(...) as the stored value
					if call, ok := unparen(v).(*ast.CallExpr); ok {
						if cf := callee(info, call); cf != nil && cf.Origin() == trunc.Obj.Origin() && len(call.Args) == 2 {
							v = call.Args[1]
							ok2, why := validDominates(g, info, n, v)
							c.Check(ok2, "R3", key, site, "truncateAttr(…) stored; Valid() dominates", "an invalid attribute can be stored: "+why)
							continue
						}
					}
					vo := objOf(info, v)
					if vo == nil {
						c.Undecided("R3", key, site, "stored value "+exprStr(v)+" is not a variable or a truncateAttr call")
						continue
					}
					facts := g.MustFlow(nil, nil, func(x *GNode, in FactSet) FactSet {
						inspectNoLit(x.N, func(m ast.Node) bool {
							switch s := m.(type) {
							case *ast.AssignStmt:
								for i, l := range s.Lhs {
									if sameVar(info, l, vo) {
										delete(in, "san")
										if len(s.Lhs) == len(s.Rhs) {
											if call, ok := unparen(s.Rhs[i]).(*ast.CallExpr); ok {
												if cf := callee(info, call); cf != nil && cf.Origin() == trunc.Obj.Origin() && len(call.Args) == 2 && sameVar(info, call.Args[1], vo) {
													in["san"] = true
												}
											}
										}
									}
								}
							case *ast.UnaryExpr:
								if s.Op == token.AND && sameVar(info, s.X, vo) {
									delete(in, "san")
								}
							}
							return true
						})
						return in
					})
					x := g.NodeOf(n)
					san := facts[x]["san"]
					okV, whyV := validDominates(g, info, n, v)
					switch {
					case !san:
						c.Violation("R3", key, site, "the stored attribute has not passed truncateAttr on every path: an over-long string value reaches the exported span")
					case !okV:
						c.Violation("R3", key, site, "an invalid attribute can be stored instead of being dropped and counted: "+whyV)
					default:
						c.OK("R3", key, site, exprStr(v)+" = truncateAttr(limit, "+exprStr(v)+") reaches the store on every path; Valid() dominates")
					}
				}
			}
		}
		// truncateAttr uses its limit parameter for the value length (strings and string slices)
		ruleTruncateAttr(c, ix, "R3", trunc)
	}

	// R4 evictedQueue.add
	c.Rule("R4", "E3 pairing", "evictedQueue.add: capacity 0 ⇒ count a drop, no append; full ⇒ evict the oldest and count a drop, then append; otherwise append", 3)
	if fn := c.Fn(ix, "R4", "(*evictedQueue).add"); fn != nil {
		g := ix.FG(fn)
		fQ := lookupField(ix.Pkg, "evictedQueue", "queue")
		fCap := lookupField(ix.Pkg, "evictedQueue", "capacity")
		fDrop := lookupField(ix.Pkg, "evictedQueue", "droppedCount")
		if fQ == nil || fCap == nil || fDrop == nil {
			c.Missing("R4", "sdk/trace evictedQueue fields")
		} else {
			isQ := func(e ast.Expr) bool { return isField(info, e, fQ) }
			isCap := func(e ast.Expr) bool { return isField(info, e, fCap) }
			appends := toSet(g.Match(func(n ast.Node) bool {
				r := assignRHS(n, isQ)
				return r != nil && isAppendTo(info, r, isQ)
			}))
			// ring representation: at capacity the value overwrites a slot in place (queue[i] = value) — a store and an eviction in one
			valueP := fn.Obj.Type().(*types.Signature).Params().At(0)
			overwrites := toSet(g.Match(func(n ast.Node) bool {
				as, ok := n.(*ast.AssignStmt)
				if !ok || as.Tok != token.ASSIGN || len(as.Lhs) != 1 || len(as.Rhs) != 1 {
					return false
				}
				ie, isIx := unparen(as.Lhs[0]).(*ast.IndexExpr)
				return isIx && isQ(ie.X) && sameVar(info, as.Rhs[0], valueP)
			}))
			stored := map[*GNode]bool{}
			for x := range appends {
				stored[x] = true
			}
			for x := range overwrites {
				stored[x] = true
			}
			// a drop is counted directly or through a helper that counts on every path (e.g. count + log once)
			drops := toSet(g.Match(ix.mustEffect(fn, func(n ast.Node) bool {
				if s, ok := n.(*ast.IncDecStmt); ok && s.Tok == token.INC && isField(info, s.X, fDrop) {
					return true
				}
				if s, ok := n.(*ast.AssignStmt); ok && s.Tok == token.ADD_ASSIGN && len(s.Lhs) == 1 && isField(info, s.Lhs[0], fDrop) {
					if v, isC := constInt(info, s.Rhs[0]); isC && v == 1 {
						return true
					}
				}
				return false
			})))
			evicts := toSet(g.Match(func(n ast.Node) bool {
				r := assignRHS(n, isQ)
				if r == nil {
					return false
				}
				if _, isSl := unparen(r).(*ast.SliceExpr); isSl {
					return true
				}
				// library form: queue = slices.Delete(queue, 0, k) removes the oldest k
				if call, ok := unparen(r).(*ast.CallExpr); ok && isCallTo(info, call, "slices.Delete") && len(call.Args) == 3 && isQ(call.Args[0]) {
					if z, isC := constInt(info, call.Args[1]); isC && z == 0 {
						return true
					}
				}
				return false
			}))
			capZero := func(e *GEdge) bool {
				return edgeImplies(e, func(cnd ast.Expr, pol int) bool {
					l, op, r, ok := cmpNorm(cnd, pol)
					if !ok || op != token.EQL {
						return false
					}
					if v, isC := constInt(info, r); isC && v == 0 && isCap(l) {
						return true
					}
					if v, isC := constInt(info, l); isC && v == 0 && isCap(r) {
						return true
					}
					return false
				})
			}
			capNonZero := func(e *GEdge) bool {
				return edgeImplies(e, func(cnd ast.Expr, pol int) bool {
					l, op, r, ok := cmpNorm(cnd, pol)
					if !ok || op != token.NEQ {
						return false
					}
					if v, isC := constInt(info, r); isC && v == 0 && isCap(l) {
						return true
					}
					if v, isC := constInt(info, l); isC && v == 0 && isCap(r) {
						return true
					}
					return false
				})
			}
			full := func(e *GEdge) bool {
				return edgeImplies(e, func(cnd ast.Expr, pol int) bool {
					l, op, r, ok := cmpNorm(cnd, pol)
					if !ok || (op != token.EQL && op != token.GEQ && op != token.LEQ) {
						return false
					}
					if isLenOf(info, l, isQ) && isCap(r) && op != token.LEQ {
						return true
					}
					if isLenOf(info, r, isQ) && isCap(l) && op != token.GEQ {
						return true
					}
					return false
				})
			}
			var zeroOK, nonzeroOK, fullOK = -1, -1, -1
			why := ""
			for _, x := range g.Nodes {
				for _, e := range x.Succs {
					if capZero(e) {
						seen, _ := g.ReachFromEdge(e, nil)
						app := false
						for y := range seen {
							if stored[y] {
								app = true
							}
						}
						s2, par := g.ReachFromEdge(e, func(y *GNode) bool { return drops[y] })
						if app || s2[g.Exit] {
							zeroOK = 0
							why = g.pathLines(par, g.Exit)
						} else if zeroOK < 0 {
							zeroOK = 1
						}
					}
					if capNonZero(e) {
						s2, par := g.ReachFromEdge(e, func(y *GNode) bool { return stored[y] })
						if s2[g.Exit] {
							nonzeroOK = 0
							why = g.pathLines(par, g.Exit)
						} else if nonzeroOK < 0 {
							nonzeroOK = 1
						}
					}
					if full(e) {
						// before the append: an eviction and a drop
						s2, _ := g.ReachFromEdge(e, func(y *GNode) bool { return evicts[y] || overwrites[y] })
						s3, _ := g.ReachFromEdge(e, func(y *GNode) bool { return drops[y] })
						bad := false
						for y := range s2 {
							if appends[y] || y == g.Exit {
								bad = true
							}
						}
						for y := range s3 {
							if appends[y] || y == g.Exit {
								bad = true
							}
						}
						if bad {
							fullOK = 0
						} else if fullOK < 0 {
							fullOK = 1
						}
					}
				}
			}
			// a value that overwrote a slot is stored: an append after it would store it twice and grow the queue
			for x := range overwrites {
				after, _ := g.Reach([]*GNode{x}, nil, nil)
				for y := range after {
					if appends[y] {
						fullOK = 0
					}
				}
			}
			c.Check(zeroOK == 1, "R4", "sdk/trace|(*evictedQueue).add|capacity == 0 ⇒ droppedCount++ and no append", at(ix.M, fn.Pos()),
				"zero-capacity arm counts and stores nothing", "with capacity 0 an item is stored or its drop is not counted "+why)
			c.Check(nonzeroOK == 1, "R4", "sdk/trace|(*evictedQueue).add|capacity != 0 ⇒ value appended", at(ix.M, fn.Pos()),
				"every other path appends the value", "an event/link is lost without being counted "+why)
			c.Check(fullOK == 1, "R4", "sdk/trace|(*evictedQueue).add|len == capacity ⇒ evict oldest, droppedCount++, then append", at(ix.M, fn.Pos()),
				"full arm evicts and counts before appending", "at capacity the queue grows beyond its limit or the eviction is not counted")
		}
	}

	// R5 per-event / per-link attribute caps
	c.Rule("R5", "E3 pairing + ordering", "per-event and per-link caps: over the limit ⇒ DroppedAttributeCount = len − limit computed before the cut to [:limit]; limit 0 ⇒ count = len, attributes emptied", 4)
	for _, spec := range []struct{ fn, typ, limitField string }{
		{"(*recordingSpan).addEvent", "Event", "AttributePerEventCountLimit"},
		{"(*recordingSpan).AddLink", "Link", "AttributePerLinkCountLimit"},
	} {
		fn := c.Fn(ix, "R5", spec.fn)
		fA := lookupField(ix.Pkg, spec.typ, "Attributes")
		fD := lookupField(ix.Pkg, spec.typ, "DroppedAttributeCount")
		fL := lookupField(ix.Pkg, "SpanLimits", spec.limitField)
		if fn == nil || fA == nil || fD == nil || fL == nil {
			c.Missing("R5", "sdk/trace "+spec.typ+" cap anchors")
			continue
		}
		g := ix.FG(fn)
		isAField := func(e ast.Expr) bool { return isField(info, e, fA) }
		// the attributes being capped: the record's own field, or the expression that is stored into it whole on the keep-all
		// path (X.Attributes = src — the caller's slice before it is copied over)
		srcKeys := map[string]bool{}
		inspectNoLit(fn.Body(), func(n ast.Node) bool {
			as, ok := n.(*ast.AssignStmt)
			if !ok || len(as.Lhs) != len(as.Rhs) {
				return true
			}
			for i, l := range as.Lhs {
				if !isAField(l) {
					continue
				}
				if k := pathKey(info, as.Rhs[i]); k != "" && !isAField(as.Rhs[i]) {
					srcKeys[k] = true
				}
			}
			return true
		})
		isA := func(e ast.Expr) bool {
			if isAField(e) {
				return true
			}
			k := pathKey(info, e)
			return k != "" && srcKeys[k]
		}
		// the limit variable: assigned from …spanLimits.<limitField>
		var limitVar types.Object
		inspectNoLit(fn.Body(), func(n ast.Node) bool {
			if as, ok := n.(*ast.AssignStmt); ok && len(as.Lhs) == 1 && len(as.Rhs) == 1 && isField(info, as.Rhs[0], fL) {
				limitVar = objOf(info, as.Lhs[0])
			}
			return true
		})
		isLimit := func(e ast.Expr) bool {
			return (limitVar != nil && sameVar(info, e, limitVar)) || isField(info, e, fL)
		}
		// return-form: X.Attributes, X.DroppedAttributeCount = helper(limit, attrs) with the cap logic in a pure helper
		if h, ok := capHelperCall(ix, fn, fA, fD, isLimit); ok {
			zeroOK, overOK, restOK, why := capReturnForm(ix, h)
			c.Check(overOK, "R5", "sdk/trace|"+spec.fn+"|len(Attributes) > limit ⇒ dropped = len − limit, then [:limit]", at(ix.M, fn.Pos()), "through "+h.Name+": returns (attrs[:limit], len(attrs) − limit)",
				"cap arm missing or wrong in "+h.Name+" "+why)
			c.Check(zeroOK && restOK, "R5", "sdk/trace|"+spec.fn+"|limit == 0 ⇒ dropped = len, then emptied", at(ix.M, fn.Pos()), "through "+h.Name+": returns (nil, len(attrs)); otherwise (attrs, 0)",
				"cap arm missing or wrong in "+h.Name+" "+why)
			continue
		}
		if limitVar == nil && len(nodesIn(fn, func(n ast.Node) bool { e, ok := n.(ast.Expr); return ok && isField(info, e, fL) })) == 0 {
			c.Violation("R5", "sdk/trace|"+spec.fn+"|limit source", at(ix.M, fn.Pos()), "the cap is not taken from SpanLimits."+spec.limitField)
			continue
		}
		over := func(e *GEdge) bool {
			return edgeImplies(e, func(cnd ast.Expr, pol int) bool {
				l, op, r, ok := cmpNorm(cnd, pol)
				if !ok {
					return false
				}
				return (isLenOf(info, l, isA) && isLimit(r) && op == token.GTR) || (isLimit(l) && isLenOf(info, r, isA) && op == token.LSS)
			})
		}
		zero := func(e *GEdge) bool {
			return edgeImplies(e, func(cnd ast.Expr, pol int) bool {
				l, op, r, ok := cmpNorm(cnd, pol)
				if !ok || op != token.EQL {
					return false
				}
				if v, isC := constInt(info, r); isC && v == 0 && isLimit(l) {
					return true
				}
				v, isC := constInt(info, l)
				return isC && v == 0 && isLimit(r)
			})
		}
		cntOver := toSet(g.Match(func(n ast.Node) bool {
			r := assignRHS(n, func(e ast.Expr) bool { return isField(info, e, fD) })
			be, ok := r.(*ast.BinaryExpr)
			return r != nil && ok && be.Op == token.SUB && isLenOf(info, be.X, isA) && isLimit(be.Y)
		}))
		cut := toSet(g.Match(func(n ast.Node) bool {
			r := assignRHS(n, isAField)
			if r == nil {
				return false
			}
			se, ok := unparen(r).(*ast.SliceExpr)
			return ok && isA(se.X) && se.Low == nil && se.High != nil && isLimit(se.High)
		}))
		cntAll := toSet(g.Match(func(n ast.Node) bool {
			r := assignRHS(n, func(e ast.Expr) bool { return isField(info, e, fD) })
			return r != nil && isLenOf(info, r, isA)
		}))
		empty := toSet(g.Match(func(n ast.Node) bool {
			r := assignRHS(n, isAField)
			return r != nil && (isEmptySliceExpr(info, r) || isNilIdent(info, r))
		}))
		anyA := toSet(g.Match(func(n ast.Node) bool { return assignRHS(n, isAField) != nil }))
		check := func(name string, edge func(*GEdge) bool, count, shrink map[*GNode]bool) {
			n, good := 0, true
			why := ""
			for _, x := range g.Nodes {
				for _, e := range x.Succs {
					if !edge(e) {
						continue
					}
					n++
					// count before any change of Attributes; then shrink before exit
					s1, p1 := g.ReachFromEdge(e, func(y *GNode) bool { return count[y] })
					for y := range s1 {
						// (a parallel assignment that takes the count and cuts in one statement reads the uncut slice for both)
						if y == g.Exit || (anyA[y] && !count[y]) {
							good = false
							why = "count not computed first: " + g.pathLines(p1, y)
						}
					}
					s2, p2 := g.ReachFromEdge(e, func(y *GNode) bool { return shrink[y] })
					if s2[g.Exit] {
						good = false
						why = "attributes not cut: " + g.pathLines(p2, g.Exit)
					}
				}
			}
			c.Check(n > 0 && good, "R5", "sdk/trace|"+spec.fn+"|"+name, at(ix.M, fn.Pos()), "count taken from the uncut slice, then the slice is cut with the same limit",
				"cap arm missing or wrong ("+itoa(n)+" matching branches) "+why)
		}
		check("len(Attributes) > limit ⇒ dropped = len − limit, then [:limit]", over, cntOver, cut)
		check("limit == 0 ⇒ dropped = len, then emptied", zero, cntAll, empty)
	}

	// the "link carries no information" early return of AddLink looks at the link the caller supplied, not at a copy whose
	// attributes were already capped (with a per-link limit of 0 every link would look empty and vanish uncounted)
	if fn := c.Fn(ix, "R5", "(*recordingSpan).AddLink"); fn != nil {
		param := fn.Obj.Type().(*types.Signature).Params().At(0)
		n, good, bad := 0, true, ""
		inspectNoLit(fn.Body(), func(nd ast.Node) bool {
			ifs, ok := nd.(*ast.IfStmt)
			if !ok || len(ifs.Body.List) == 0 {
				return true
			}
			// a body that only returns (possibly wrapped in blocks by the normalisation)
			onlyReturn := true
			ast.Inspect(ifs.Body, func(m ast.Node) bool {
				switch m.(type) {
				case *ast.BlockStmt, *ast.ReturnStmt, nil:
					return true
				}
				onlyReturn = false
				return false
			})
			if !onlyReturn {
				return true
			}
			for _, cj := range conjuncts(ifs.Cond) {
				l, op, r, okc := cmpNorm(cj, 1)
				if !okc || op != token.EQL {
					continue
				}
				z, isZ := constInt(info, r)
				call, isC := unparen(l).(*ast.CallExpr)
				if !isZ || z != 0 || !isC || builtinName(info, call) != "len" || len(call.Args) != 1 {
					continue
				}
				fv, base := fieldOf(info, call.Args[0])
				if fv == nil || fv.Name() != "Attributes" {
					continue
				}
				n++
				if base == nil || !sameVar(info, base, param) {
					good, bad = false, exprStr(call.Args[0])
				}
			}
			return true
		})
		if n > 0 {
			c.Check(good, "R5", "sdk/trace|(*recordingSpan).AddLink|the no-information guard reads the supplied link", at(ix.M, fn.Pos()), "len(link.Attributes) of the parameter",
				"a link is ignored because "+bad+" is empty, but that is not the link the caller supplied (its attributes may already be capped: with a per-link limit of 0 an attribute-only link vanishes without being counted)")
		}
	}

	// R8 index-map pairing in the de-duplication code
	c.Rule("R8", "E3 pairing", "de-duplication index maps record len(slice) − 1 right after the append they index (dedupeAttrsFromRecord, addOverCapAttrs)", 2)
	isIndexStore := func(n ast.Node) bool {
		as, ok := n.(*ast.AssignStmt)
		if !ok || len(as.Lhs) != 1 {
			return false
		}
		ie, ok := unparen(as.Lhs[0]).(*ast.IndexExpr)
		if !ok {
			return false
		}
		mt, ok := info.Types[ie.X].Type.Underlying().(*types.Map)
		if !ok {
			return false
		}
		b, ok := mt.Elem().Underlying().(*types.Basic)
		return ok && b.Kind() == types.Int
	}
	r8names := []string{"(*recordingSpan).dedupeAttrsFromRecord", "(*recordingSpan).addOverCapAttrs"}
	for _, nm := range r8names {
		fn := ix.Func(nm)
		if fn == nil {
			// the function is gone (merged into its callers, or rewritten with another signature): the de-duplication index
			// is then judged wherever an int-valued index map is maintained outside the other anchor
			var found []*FuncInfo
			for _, f := range ix.All {
				if f.Decl == nil {
					continue
				}
				other := false
				for _, o := range r8names {
					if g := ix.Func(o); g != nil && g == f {
						other = true
					}
				}
				has := false
				inspectNoLit(f.Body(), func(n ast.Node) bool {
					if isIndexStore(n) {
						has = true
					}
					return !has
				})
				if has && !other {
					found = append(found, f)
				}
			}
			if len(found) == 0 {
				c.Missing("R8", shortPkg(ix.Pkg.PkgPath)+"."+nm)
				continue
			}
			for _, f := range found {
				c.Analysed(f)
				n, bad, pos := indexPairing(info, f)
				site := at(ix.M, f.Pos())
				if bad != "" {
					site = at(ix.M, pos)
				}
				c.Check(n >= 1 && bad == "", "R8", "sdk/trace|"+nm+"|index map ← len(slice) − 1 after append (now in "+f.Name+")", site, itoa(n)+" index store(s) paired with their append",
					"later updates of that key overwrite another attribute or index out of range: "+bad)
			}
			continue
		}
		c.Analysed(fn)
		// the index map may be maintained in a helper the loop body was moved to
		fn, _ = ix.workFunc(fn, func(n ast.Node) bool {
			as, ok := n.(*ast.AssignStmt)
			if !ok || len(as.Lhs) != 1 {
				return false
			}
			ie, ok := unparen(as.Lhs[0]).(*ast.IndexExpr)
			if !ok {
				return false
			}
			mt, ok := info.Types[ie.X].Type.Underlying().(*types.Map)
			if !ok {
				return false
			}
			b, ok := mt.Elem().Underlying().(*types.Basic)
			return ok && b.Kind() == types.Int
		})
		n, bad, pos := indexPairing(info, fn)
		site := at(ix.M, fn.Pos())
		if bad != "" {
			site = at(ix.M, pos)
		}
		c.Check(n >= 1 && bad == "", "R8", "sdk/trace|"+nm+"|index map ← len(slice) − 1 after append", site, itoa(n)+" index store(s) paired with their append",
			"later updates of that key overwrite another attribute or index out of range: "+bad)
	}

	// R11 readers de-duplicate: the de-duplication that Attributes() and snapshot() rely on runs whenever a key may be held twice
	c.Rule("R11", "E3 must-pass + dominance (cache invalidation)", "dedupeAttrs de-duplicates on every call, or skips it only under a boolean span field that every append to attributes resets (before the append, unconditionally, or on every path after it): the exported span holds each key once", 1)
	if fn := c.Fn(ix, "R11", "(*recordingSpan).dedupeAttrs"); fn != nil {
		g := ix.FG(fn)
		fAttrs := lookupField(ix.Pkg, "recordingSpan", "attributes")
		// the work: a call of a declared function that rebuilds the attribute slice (stores the field), wherever it lives now
		rebuilds := func(d *FuncInfo) bool {
			hit := false
			if d != nil && d.Body() != nil {
				inspectNoLit(d.Body(), func(m ast.Node) bool {
					if assignRHS(m, func(e ast.Expr) bool { return isField(info, e, fAttrs) }) != nil {
						hit = true
					}
					return true
				})
			}
			return hit
		}
		var work *FuncInfo
		isWork := func(n ast.Node) bool {
			call, ok := n.(*ast.CallExpr)
			if !ok {
				return false
			}
			d := ix.declByObj(callee(info, call))
			if d == nil || d == fn || !rebuilds(d) {
				return false
			}
			work = d
			return true
		}
		through := toSet(g.Match(isWork))
		if len(through) == 0 {
			// the de-duplication is written out in dedupeAttrs itself: a store to s.attributes
			through = toSet(g.Match(func(n ast.Node) bool {
				return assignRHS(n, func(e ast.Expr) bool { return isField(info, e, fAttrs) }) != nil
			}))
		}
		key := "sdk/trace|(*recordingSpan).dedupeAttrs|no call returns without de-duplicating on stale knowledge"
		// exits that avoid the work: the edges that let them through name the guard
		var guardFields []*types.Var
		undecidedGuard := ""
		seen, _ := g.ReachFromEntry(func(x *GNode) bool { return through[x] }, nil)
		if len(through) == 0 {
			c.Violation("R11", key, at(ix.M, fn.Pos()), "dedupeAttrs no longer de-duplicates")
		} else if !seen[g.Exit] {
			c.OK("R11", key, at(ix.M, fn.Pos()), "every path through dedupeAttrs de-duplicates")
		} else {
			for x := range seen {
				for _, e := range x.Succs {
					if e.Cond == nil || !seen[e.To] {
						continue
					}
					// does this edge lead to the exit without the work while its sibling leads to the work?
					s2, _ := g.ReachFromEdge(e, func(y *GNode) bool { return through[y] })
					if !s2[g.Exit] {
						continue
					}
					reachesWork := false
					for y := range s2 {
						for _, e2 := range y.Succs {
							if through[e2.To] {
								reachesWork = true
							}
						}
					}
					if reachesWork {
						continue // not the deciding edge
					}
					// the deciding condition
					cond := unparen(e.Cond)
					if u, ok := cond.(*ast.UnaryExpr); ok && u.Op == token.NOT {
						cond = unparen(u.X)
					}
					if isLenCmp(info, cond, func(z ast.Expr) bool { return isField(info, z, fAttrs) }) {
						continue // nothing (or a single attribute) to de-duplicate
					}
					if fv, _ := fieldOf(info, cond); fv != nil {
						if b, isB := fv.Type().Underlying().(*types.Basic); isB && b.Info()&types.IsBoolean != 0 {
							guardFields = append(guardFields, fv.Origin())
							continue
						}
					}
					undecidedGuard = exprStr(e.Cond)
				}
			}
			switch {
			case undecidedGuard != "":
				c.Undecided("R11", key, at(ix.M, fn.Pos()), "dedupeAttrs can return without de-duplicating under `"+undecidedGuard+"`: whether that knowledge is kept in step with every writer of attributes is an invariant over all of them that this rule cannot establish (only a boolean field reset at every append is decided)")
			case len(guardFields) == 0:
				c.OK("R11", key, at(ix.M, fn.Pos()), "skipped only when there is nothing to de-duplicate")
			default:
				bad := ""
				var badPos token.Pos
				napp := 0
				for _, gf := range guardFields {
					isReset := func(n ast.Node) bool {
						as, ok := n.(*ast.AssignStmt)
						if !ok || len(as.Lhs) != len(as.Rhs) {
							return false
						}
						for i, l := range as.Lhs {
							if fv, _ := fieldOf(info, l); fv != nil && fv.Origin() == gf {
								if tv, ok := info.Types[as.Rhs[i]]; ok && tv.Value != nil && tv.Value.Kind() == constant.Bool && !constant.BoolVal(tv.Value) {
									return true
								}
							}
						}
						return false
					}
					for _, f := range ix.All {
						if f.Body() == nil {
							continue
						}
						fg := ix.FG(f)
						apps := fg.Match(func(n ast.Node) bool {
							r := assignRHS(n, func(e ast.Expr) bool { return isField(info, e, fAttrs) })
							call, ok := unparen(r).(*ast.CallExpr)
							return r != nil && ok && builtinName(info, call) == "append"
						})
						if len(apps) == 0 {
							continue
						}
						if of := ix.Outer(f); of != nil && (of == fn || of == work) {
							continue // the de-duplication itself rebuilds the slice
						}
						resets := toSet(fg.Match(func(n ast.Node) bool { return isReset(n) || isWork(n) }))
						for _, a := range apps {
							napp++
							if dom, _ := fg.DominatedByNodes(a, resets); dom {
								continue
							}
							if must, _ := fg.MustPassBeforeExit(a, resets); must {
								continue
							}
							bad, badPos = "the append in "+f.Name+" is neither preceded on every path by "+gf.Name()+" = false nor followed by it (or by a de-duplication) on every path to the exit", a.N.Pos()
						}
					}
				}
				pos := fn.Pos()
				if bad != "" {
					pos = badPos
				}
				c.Check(bad == "" && napp > 0, "R11", key, at(ix.M, pos), itoa(napp)+" append(s) to attributes, each resets the flag",
					"a key added twice stays twice in the exported span because readers skip the de-duplication: "+bad)
			}
		}
	}

	// R6 snapshot complete
	c.Rule("R6", "E8 fieldcover + provenance", "snapshot() assigns every field of struct snapshot, scalar ones on all paths, each from the like-named span state; a guarded copy reads only what its guard examined", 18)
	ruleSnapshotComplete(c, ix, "R6")
	ruleLinkAttrsOwned(c, ix, "R6")
	// a copy made under a guard reads only what the guard examined: `if len(s.events.queue) > 0 { …; sd.dropped = s.events.droppedCount }`
	// loses the count whenever the queue is empty (limit 0: everything dropped, nothing queued)
	if fn := c.Fn(ix, "R6", "(*recordingSpan).snapshot"); fn != nil {
		n := 0
		inspectNoLit(fn.Body(), func(nd ast.Node) bool {
			is, ok := nd.(*ast.IfStmt)
			if !ok {
				return true
			}
			for _, st := range is.Body.List {
				as, ok := st.(*ast.AssignStmt)
				if !ok || len(as.Lhs) != len(as.Rhs) {
					continue
				}
				for i := range as.Lhs {
					n++
					gap := siblingGuardGap(info, is.Cond, as.Rhs[i])
					c.Check(gap == "", "R6", "sdk/trace|(*recordingSpan).snapshot|"+exprStr(as.Lhs[i])+" copied under a guard that examines what it reads", at(ix.M, as.Pos()), "guard: "+exprStr(is.Cond),
						exprStr(as.Lhs[i])+" is copied only if ("+exprStr(is.Cond)+") but reads "+gap+", which that condition does not look at: the value is lost whenever the condition is false (e.g. a dropped count with an empty queue — limit 0)")
				}
			}
			return true
		})
		if n == 0 {
			c.Missing("R6", "sdk/trace: guarded copies in snapshot()")
		}
	}

	// R7 SetAttributes capacity routing
	c.Rule("R7", "E3 dominance", "SetAttributes: limit 0 ⇒ everything dropped and counted; possible overflow ⇒ addOverCapAttrs; addOverCapAttrs appends only under len(attributes) < limit", 3)
	fLimit := lookupField(ix.Pkg, "SpanLimits", "AttributeCountLimit")
	setA := c.Fn(ix, "R7", "(*recordingSpan).SetAttributes")
	over := c.Fn(ix, "R7", "(*recordingSpan).addOverCapAttrs")
	addDropped := ix.Func("(*recordingSpan).addDroppedAttr")
	if fLimit != nil && fAttrs != nil && setA != nil && over != nil && addDropped != nil {
		isAttrs := func(e ast.Expr) bool { return isField(info, e, fAttrs) }
		// addOverCapAttrs: append dominated by len(attrs) < limit(param 0) — in the function itself or in the per-attribute helper
		// its loop body was moved to (the limit is then the helper's parameter that receives it)
		lim := over.Obj.Type().(*types.Signature).Params().At(0)
		overWork := over
		{
			w, pm := ix.workFunc(over, func(n ast.Node) bool {
				r := assignRHS(n, isAttrs)
				return r != nil && isAppendTo(info, r, isAttrs)
			})
			if w != over {
				if p := pm(lim); p != nil {
					overWork, lim = w, p
				}
			}
		}
		g := ix.FG(overWork)
		below := func(e *GEdge) bool {
			return edgeImplies(e, func(cnd ast.Expr, pol int) bool {
				l, op, r, ok := cmpNorm(cnd, pol)
				if !ok {
					return false
				}
				return (isLenOf(info, l, isAttrs) && sameVar(info, r, lim) && op == token.LSS) || (sameVar(info, l, lim) && isLenOf(info, r, isAttrs) && op == token.GTR)
			})
		}
		apps := g.Match(func(n ast.Node) bool {
			r := assignRHS(n, isAttrs)
			return r != nil && isAppendTo(info, r, isAttrs)
		})
		for i, x := range apps {
			ok, why := g.DominatedByEdges(x, below)
			c.Check(ok, "R7", "sdk/trace|(*recordingSpan).addOverCapAttrs|append #"+itoa(i+1)+" only below the limit", at(ix.M, x.N.Pos()),
				"append dominated by len(attributes) < limit", "attributes can grow beyond AttributeCountLimit: "+why)
		}
		if len(apps) == 0 {
			c.Violation("R7", "sdk/trace|(*recordingSpan).addOverCapAttrs|append", at(ix.M, over.Pos()), "no append found")
		}
		// at capacity: counted
		// SetAttributes
		g2 := ix.FG(setA)
		var limitVar types.Object
		inspectNoLit(setA.Body(), func(n ast.Node) bool {
			if as, ok := n.(*ast.AssignStmt); ok && len(as.Lhs) == 1 && len(as.Rhs) == 1 && isField(info, as.Rhs[0], fLimit) {
				limitVar = objOf(info, as.Lhs[0])
			}
			return true
		})
		isLimit := func(e ast.Expr) bool {
			return (limitVar != nil && sameVar(info, e, limitVar)) || isField(info, e, fLimit)
		}
		zero := func(e *GEdge) bool {
			return edgeImplies(e, func(cnd ast.Expr, pol int) bool {
				l, op, r, ok := cmpNorm(cnd, pol)
				if !ok || op != token.EQL {
					return false
				}
				v, isC := constInt(info, r)
				return isC && v == 0 && isLimit(l)
			})
		}
		stores := toSet(g2.Match(func(n ast.Node) bool {
			as, ok := n.(*ast.AssignStmt)
			if !ok {
				return false
			}
			for _, l := range as.Lhs {
				if isAttrs(l) {
					return true
				}
				if ie, ok := unparen(l).(*ast.IndexExpr); ok && isAttrs(ie.X) {
					return true
				}
			}
			return false
		}))
		overCalls := toSet(g2.Match(func(n ast.Node) bool {
			call, ok := n.(*ast.CallExpr)
			if !ok {
				return false
			}
			f := callee(info, call)
			return f != nil && f.Origin() == over.Obj.Origin()
		}))
		dropAll := toSet(g2.Match(func(n ast.Node) bool {
			call, ok := n.(*ast.CallExpr)
			if !ok {
				return false
			}
			f := callee(info, call)
			if f == nil || f.Origin() != addDropped.Obj.Origin() || len(call.Args) != 1 {
				return false
			}
			return isLenOf(info, call.Args[0], func(e ast.Expr) bool { return sameVar(info, e, setA.Obj.Type().(*types.Signature).Params().At(0)) })
		}))
		nz, good, why := 0, true, ""
		for _, x := range g2.Nodes {
			for _, e := range x.Succs {
				if zero(e) {
					nz++
					s, _ := g2.ReachFromEdge(e, nil)
					for y := range s {
						if stores[y] || overCalls[y] {
							good = false
							why = "an attribute is stored although the limit is 0"
						}
					}
					s2, p := g2.ReachFromEdge(e, func(y *GNode) bool { return dropAll[y] })
					if s2[g2.Exit] {
						good = false
						why = "not counted: " + g2.pathLines(p, g2.Exit)
					}
				}
			}
		}
		c.Check(nz > 0 && good, "R7", "sdk/trace|(*recordingSpan).SetAttributes|limit == 0 ⇒ all dropped and counted", at(ix.M, setA.Pos()),
			"limit 0 arm stores nothing and adds len(attributes) to the dropped count", "limit 0 arm wrong: "+why)
		// possible overflow ⇒ dedupe path
		mayOverflow := func(e *GEdge) bool {
			return edgeImplies(e, func(cnd ast.Expr, pol int) bool {
				l, op, r, ok := cmpNorm(cnd, pol)
				if !ok || op != token.GTR || !isLimit(r) {
					return false
				}
				be, ok := l.(*ast.BinaryExpr)
				return ok && be.Op == token.ADD && (isLenOf(info, be.X, isAttrs) || isLenOf(info, be.Y, isAttrs))
			})
		}
		no, goodO := 0, true
		for _, x := range g2.Nodes {
			for _, e := range x.Succs {
				if mayOverflow(e) {
					no++
					s, _ := g2.ReachFromEdge(e, func(y *GNode) bool { return overCalls[y] })
					for y := range s {
						if stores[y] || y == g2.Exit {
							goodO = false
						}
					}
				}
			}
		}
		// and the plain append loop is only reachable when that test failed: every store vertex not reachable from the true edge — covered above;
		// additionally the plain stores must be dominated by the false edge or limit<0: approximated by requiring the overflow test to dominate them.
		c.Check(no > 0 && goodO, "R7", "sdk/trace|(*recordingSpan).SetAttributes|len(existing)+len(new) > limit ⇒ addOverCapAttrs", at(ix.M, setA.Pos()),
			"possible overflow is routed to the de-duplicating, limit-enforcing path", "attributes that could exceed the limit are appended without the limit-enforcing path")
	} else {
		c.Missing("R7", "sdk/trace SetAttributes anchors")
	}
}

func boolStr(b bool) string {
	if b {
		return "yes"
	}
	return "no"
}

func toSet(xs []*GNode) map[*GNode]bool {
	m := map[*GNode]bool{}
	for _, x := range xs {
		m[x] = true
	}
	return m
}

// validDominates: the store at n is dominated by the true outcome of <v>.Valid().
func validDominates(g *FG, info *types.Info, n ast.Node, v ast.Expr) (bool, string) {
	vo := objOf(info, v)
	x := g.NodeOf(n)
	return g.DominatedByEdges(x, func(e *GEdge) bool {
		return edgeImplies(e, func(cnd ast.Expr, pol int) bool {
			call, ok := cnd.(*ast.CallExpr)
			if !ok || pol < 0 || !isCallTo(info, call, "(go.opentelemetry.io/otel/attribute.KeyValue).Valid") {
				return false
			}
			recv, _ := methodCall(info, call)
			return vo != nil && sameVar(info, recv, vo)
		})
	})
}

// ruleTruncateAttr: truncateAttr(limit, attr): limit < 0 ⇒ unchanged; STRING and STRINGSLICE arms call truncate(limit, ·) with that limit.
func ruleTruncateAttr(c *Ctx, ix *PkgIndex, rule string, trunc *FuncInfo) {
	info := ix.Pkg.TypesInfo
	tr := ix.Func("truncate")
	if tr == nil {
		c.Missing(rule, "sdk/trace.truncate")
		return
	}
	lim := trunc.Obj.Type().(*types.Signature).Params().At(0)
	g := ix.FG(trunc)
	attrT := "go.opentelemetry.io/otel/attribute"
	for _, kind := range []string{"STRING", "STRINGSLICE"} {
		// under Type()==kind and limit>=0, a call truncate(limit, ·) is reachable and an unmodified `return attr` is not
		env := func(e ast.Expr) (constant.Value, bool) {
			if call, ok := e.(*ast.CallExpr); ok && isCallTo(info, call, "("+attrT+".Value).Type") {
				if k := lookupConstIn(ix.M, attrT, kind); k != nil {
					return k.Val(), true
				}
			}
			if be, ok := e.(*ast.BinaryExpr); ok && sameVar(info, be.X, lim) {
				if v, isC := constInt(info, be.Y); isC && v == 0 {
					switch be.Op {
					case token.LSS:
						return constant.MakeBool(false), true
					case token.GEQ:
						return constant.MakeBool(true), true
					}
				}
			}
			return nil, false
		}
		seen := g.ReachUnder(env)
		calls, plain := false, false
		for x := range seen {
			if x.N == nil {
				continue
			}
			inspectNoLit(x.N, func(n ast.Node) bool {
				if call, ok := n.(*ast.CallExpr); ok {
					if f := callee(info, call); f != nil && f.Origin() == tr.Obj.Origin() && len(call.Args) == 2 && sameVar(info, call.Args[0], lim) {
						calls = true
					}
				}
				return true
			})
			if rs, ok := x.N.(*ast.ReturnStmt); ok && len(rs.Results) == 1 && sameVar(info, rs.Results[0], trunc.Obj.Type().(*types.Signature).Params().At(1)) {
				plain = true
			}
		}
		c.Check(calls && !plain, rule, "sdk/trace|truncateAttr|"+kind+" values go through truncate(limit, ·)", at(ix.M, trunc.Pos()),
			"the arm truncates with the configured limit and cannot return the attribute unchanged", "a "+kind+" attribute is returned without truncation for a non-negative limit")
	}
}

// lookupConstIn finds constant `name` in package path of the module's import graph.
func lookupConstIn(m *Module, path, name string) *types.Const {
	p := m.Pkg(path)
	if p == nil {
		return nil
	}
	k, _ := p.Types.Scope().Lookup(name).(*types.Const)
	return k
}

// capHelperCall recognises, in fn, the statement `X.Attributes, X.DroppedAttributeCount = h(limit, attrs)` (either argument order)
// with h a declared function of the package, and returns h.
func capHelperCall(ix *PkgIndex, fn *FuncInfo, fA, fD *types.Var, isLimit func(ast.Expr) bool) (*FuncInfo, bool) {
	info := ix.Pkg.TypesInfo
	var h *FuncInfo
	inspectNoLit(fn.Body(), func(n ast.Node) bool {
		as, ok := n.(*ast.AssignStmt)
		if !ok || len(as.Lhs) != 2 || len(as.Rhs) != 1 {
			return true
		}
		call, ok := unparen(as.Rhs[0]).(*ast.CallExpr)
		if !ok || len(call.Args) != 2 {
			return true
		}
		d := ix.declByObj(callee(info, call))
		if d == nil {
			return true
		}
		// results: the slice goes to Attributes, the int to DroppedAttributeCount
		res := d.Obj.Type().(*types.Signature).Results()
		if res.Len() != 2 {
			return true
		}
		okLHS := true
		for i := 0; i < 2; i++ {
			_, isSlice := res.At(i).Type().Underlying().(*types.Slice)
			if isSlice && !isField(info, as.Lhs[i], fA) {
				okLHS = false
			}
			if !isSlice && !isField(info, as.Lhs[i], fD) {
				okLHS = false
			}
		}
		// the int argument is the limit
		okArg := false
		for _, a := range call.Args {
			if isLimit(a) {
				okArg = true
			}
		}
		if okLHS && okArg {
			h = d
		}
		return true
	})
	return h, h != nil
}

// capReturnForm checks a helper func(limit int, attrs []T) (kept []T, dropped int) (parameters and results in either order):
// on the limit == 0 edge every return is (empty, len(attrs)); on the len(attrs) > limit edge every return is
// (attrs[:limit], len(attrs) − limit); every other return is (attrs, 0); attrs and limit are not assigned in the helper.
func capReturnForm(ix *PkgIndex, h *FuncInfo) (zeroOK, overOK, restOK bool, why string) {
	info := ix.Pkg.TypesInfo
	sig := h.Obj.Type().(*types.Signature)
	var lim, as *types.Var
	for i := 0; i < sig.Params().Len(); i++ {
		p := sig.Params().At(i)
		if _, isSlice := p.Type().Underlying().(*types.Slice); isSlice {
			as = p
		} else {
			lim = p
		}
	}
	if lim == nil || as == nil || sig.Params().Len() != 2 || sig.Results().Len() != 2 {
		return false, false, false, "unexpected signature"
	}
	si := 0 // index of the slice result
	if _, isSlice := sig.Results().At(0).Type().Underlying().(*types.Slice); !isSlice {
		si = 1
	}
	di := 1 - si
	g := ix.FG(h)
	// parameters are not assigned
	assigned := false
	inspectNoLit(h.Body(), func(n ast.Node) bool {
		if s, ok := n.(*ast.AssignStmt); ok {
			for _, l := range s.Lhs {
				if sameVar(info, l, lim) || sameVar(info, l, as) {
					assigned = true
				}
			}
		}
		return true
	})
	if assigned {
		return false, false, false, "a parameter is re-assigned"
	}
	isAs := func(e ast.Expr) bool { return sameVar(info, e, as) }
	isLim := func(e ast.Expr) bool { return sameVar(info, e, lim) }
	classify := func(rs *ast.ReturnStmt) string {
		if len(rs.Results) != 2 {
			return "?"
		}
		s, d := unparen(rs.Results[si]), unparen(rs.Results[di])
		if isEmptySliceExpr(info, s) && isLenOf(info, d, isAs) {
			return "zero"
		}
		if se, ok := s.(*ast.SliceExpr); ok && isAs(se.X) && se.Low == nil && se.High != nil && isLim(se.High) && se.Max == nil {
			if be, ok := d.(*ast.BinaryExpr); ok && be.Op == token.SUB && isLenOf(info, be.X, isAs) && isLim(be.Y) {
				return "over"
			}
		}
		if isAs(s) {
			if v, isC := constInt(info, d); isC && v == 0 {
				return "rest"
			}
		}
		return "?"
	}
	zeroEdge := func(e *GEdge) bool {
		return edgeImplies(e, func(cnd ast.Expr, pol int) bool {
			l, op, r, ok := cmpNorm(cnd, pol)
			if !ok || op != token.EQL {
				return false
			}
			if v, isC := constInt(info, r); isC && v == 0 && isLim(l) {
				return true
			}
			v, isC := constInt(info, l)
			return isC && v == 0 && isLim(r)
		})
	}
	overEdge := func(e *GEdge) bool {
		return edgeImplies(e, func(cnd ast.Expr, pol int) bool {
			l, op, r, ok := cmpNorm(cnd, pol)
			if !ok {
				return false
			}
			return (isLenOf(info, l, isAs) && isLim(r) && op == token.GTR) || (isLim(l) && isLenOf(info, r, isAs) && op == token.LSS)
		})
	}
	kinds := map[*GNode]string{}
	for _, x := range g.Nodes {
		if rs, ok := x.N.(*ast.ReturnStmt); ok {
			kinds[x] = classify(rs)
		}
	}
	under := func(edge func(*GEdge) bool, want string) (bool, map[*GNode]bool) {
		n, good := 0, true
		all := map[*GNode]bool{}
		for _, x := range g.Nodes {
			for _, e := range x.Succs {
				if !edge(e) {
					continue
				}
				n++
				seen, _ := g.ReachFromEdge(e, nil)
				for y := range seen {
					if k, isRet := kinds[y]; isRet {
						all[y] = true
						if k != want {
							good = false
							why = "a return under that condition is not the specified pair"
						}
					}
				}
			}
		}
		return n > 0 && good, all
	}
	var zs, os map[*GNode]bool
	zeroOK, zs = under(zeroEdge, "zero")
	overOK, os = under(overEdge, "over")
	restOK = true
	for x, k := range kinds {
		if !zs[x] && !os[x] && k != "rest" {
			restOK = false
			why = "a return outside both conditions does not hand the attributes back unchanged with count 0"
		}
	}
	return
}

// siblingGuardGap: the guard examines a field path P.f (rooted at a variable) while the value reads a sibling path P.g that the
// guard does not mention: returns the unexamined sibling paths ("" when there is none). Method calls on P itself count as
// reading P as a whole and are not siblings.
func siblingGuardGap(info *types.Info, guard, value ast.Expr) string {
	paths := func(e ast.Expr) map[string]bool {
		out := map[string]bool{}
		var stack []ast.Node
		ast.Inspect(e, func(n ast.Node) bool {
			if n == nil {
				stack = stack[:len(stack)-1]
				return true
			}
			stack = append(stack, n)
			sel, ok := n.(*ast.SelectorExpr)
			if !ok {
				return true
			}
			if _, isFld := info.Uses[sel.Sel].(*types.Var); !isFld {
				return true
			}
			// outermost field selector only
			if len(stack) >= 2 {
				if p, ok := stack[len(stack)-2].(*ast.SelectorExpr); ok && p.X == ast.Expr(sel) {
					if _, pf := info.Uses[p.Sel].(*types.Var); pf {
						return true
					}
				}
			}
			if k := pathKey(info, sel); k != "" {
				out[k] = true
			}
			return true
		})
		return out
	}
	gp, vp := paths(guard), paths(value)
	parent := func(p string) string {
		i := strings.LastIndex(p, ".")
		if i < 0 {
			return ""
		}
		return p[:i]
	}
	var missing []string
	for v := range vp {
		if gp[v] {
			continue
		}
		for g := range gp {
			if parent(g) != "" && parent(g) == parent(v) && strings.Count(g, ".") >= 2 {
				missing = append(missing, v[strings.Index(v, ".")+1:])
			}
		}
	}
	sort.Strings(missing)
	return strings.Join(missing, ", ")
}

// exemptReason: is f one of the functions named in the exemption table — under today's name (the table is written with the
// pinned tree's names and resolved through the anchors, so a renamed or moved function keeps its exemption)?
func exemptReason(ix *PkgIndex, table map[string]string, f *FuncInfo) (string, bool) {
	if f == nil {
		return "", false
	}
	if r, ok := table[f.Name]; ok {
		return r, true
	}
	for name, r := range table {
		if g := ix.Func(name); g != nil && (g == f || (g.Obj != nil && g.Obj == f.Obj)) {
			return r, true
		}
	}
	return "", false
}

// isLenCmp: cond compares len(x) (x accepted by isX) with an integer constant.
func isLenCmp(info *types.Info, cond ast.Expr, isX func(ast.Expr) bool) bool {
	be, ok := unparen(cond).(*ast.BinaryExpr)
	if !ok {
		return false
	}
	switch be.Op {
	case token.EQL, token.NEQ, token.LSS, token.LEQ, token.GTR, token.GEQ:
	default:
		return false
	}
	isLen := func(e ast.Expr) bool {
		call, ok := unparen(e).(*ast.CallExpr)
		return ok && builtinName(info, call) == "len" && len(call.Args) == 1 && isX(call.Args[0])
	}
	_, cx := constInt(info, be.X)
	_, cy := constInt(info, be.Y)
	return (isLen(be.X) && cy) || (isLen(be.Y) && cx)
}
