package main

import (
	"bufio"
	"bytes"
	"fmt"
	"os"
	"path/filepath"
	"regexp"
	"sort"
	"strconv"
	"strings"
)

// Checker self-test (thorough tier): every variant under /verif/variants/<prop>/*.diff is a small
// edit of the repository with an expectation ("fire:<rules>" — a seeded violation the named rules
// must report — or "silent" — an equivalent refactor the rules must accept). The edit is applied
// in memory through packages.Config.Overlay: /repo is never written and no copy is made.

type variant struct {
	Name   string
	Expect string              // "silent" or "fire:R1,R2"
	Files  map[string][]string // repo-relative path → diff lines of that file (hunks)
}

var hunkRe = regexp.MustCompile(`^@@ -(\d+)(?:,(\d+))? \+(\d+)(?:,(\d+))? @@`)

func readVariant(path string) (*variant, error) { return readVariantExpect(path, "") }

// readVariantExpect: expect overrides/supplies the expectation (seeded changes keep it in a separate file).
func readVariantExpect(path, expect string) (*variant, error) {
	f, err := os.Open(path)
	if err != nil {
		return nil, err
	}
	defer f.Close()
	v := &variant{Name: strings.TrimSuffix(filepath.Base(path), ".diff"), Files: map[string][]string{}}
	sc := bufio.NewScanner(f)
	sc.Buffer(make([]byte, 1<<20), 1<<24)
	cur, lastOld := "", ""
	for sc.Scan() {
		line := sc.Text()
		switch {
		case strings.HasPrefix(line, "# expect:"):
			v.Expect = strings.Fields(strings.TrimPrefix(line, "# expect:"))[0]
		case strings.HasPrefix(line, "+++ b/"):
			cur = strings.TrimPrefix(line, "+++ b/")
		case strings.HasPrefix(line, "+++ /dev/null"):
			// file removed by the change: overlaid by its bare package clause
			cur = ""
			if lastOld != "" {
				v.Files[lastOld] = append(v.Files[lastOld], "\\ file deleted")
			}
		case strings.HasPrefix(line, "diff --git"):
			cur, lastOld = "", ""
		case strings.HasPrefix(line, "--- a/"):
			lastOld = strings.TrimPrefix(line, "--- a/")
		case strings.HasPrefix(line, "index "), strings.HasPrefix(line, "--- "), strings.HasPrefix(line, "new file mode"), strings.HasPrefix(line, "deleted file mode"),
			strings.HasPrefix(line, "old mode"), strings.HasPrefix(line, "new mode"), strings.HasPrefix(line, "similarity index"), strings.HasPrefix(line, "rename "):
		default:
			if cur != "" {
				v.Files[cur] = append(v.Files[cur], line)
			}
		}
	}
	if expect != "" {
		v.Expect = expect
	}
	if v.Expect == "" {
		return nil, fmt.Errorf("%s: no '# expect:' header", path)
	}
	return v, sc.Err()
}

// applyHunks applies the hunks (unified diff lines of one file) to orig; context and removed lines must match exactly.
func applyHunks(orig []byte, lines []string) ([]byte, error) {
	src := strings.Split(string(orig), "\n")
	var out []string
	pos := 0 // index into src
	i := 0
	for i < len(lines) {
		m := hunkRe.FindStringSubmatch(lines[i])
		if m == nil {
			i++
			continue
		}
		start, _ := strconv.Atoi(m[1])
		i++
		start-- // 0-based
		if m[2] == "0" {
			start++ // pure insertion after line `start`
		}
		// old-side lines of this hunk (context + removed)
		var oldSide []string
		j := i
		for j < len(lines) && !strings.HasPrefix(lines[j], "@@") {
			l := lines[j]
			j++
			if l == `\ No newline at end of file` {
				continue
			}
			if l == "" {
				l = " "
			}
			if l[0] == ' ' || l[0] == '-' {
				oldSide = append(oldSide, l[1:])
			}
		}
		matchAt := func(at int) bool {
			if at < pos || at+len(oldSide) > len(src) {
				return false
			}
			for k, ol := range oldSide {
				if src[at+k] != ol {
					return false
				}
			}
			return true
		}
		found := -1
		for off := 0; off <= len(src); off++ {
			if matchAt(start + off) {
				found = start + off
				break
			}
			if matchAt(start - off) {
				found = start - off
				break
			}
		}
		if found < 0 {
			return nil, fmt.Errorf("hunk does not apply (tree changed here)")
		}
		start = found
		out = append(out, src[pos:start]...)
		pos = start
		for i < len(lines) && !strings.HasPrefix(lines[i], "@@") {
			l := lines[i]
			i++
			if l == `\ No newline at end of file` {
				continue
			}
			if l == "" {
				l = " "
			}
			switch l[0] {
			case ' ', '-':
				if l[0] == ' ' {
					out = append(out, src[pos])
				}
				pos++
			case '+':
				out = append(out, l[1:])
			}
		}
	}
	out = append(out, src[pos:]...)
	return []byte(strings.Join(out, "\n")), nil
}

// overlayFor builds the overlay of a variant against the current tree; ok=false when it does not apply (tree changed there).
func overlayFor(v *variant) (map[string][]byte, bool) {
	ov := map[string][]byte{}
	for rel, hunks := range v.Files {
		abs := filepath.Join(RepoRoot, rel)
		orig, err := os.ReadFile(abs)
		if err != nil {
			if !os.IsNotExist(err) {
				return nil, false
			}
			orig = nil // a file the change adds
		}
		if len(hunks) == 1 && hunks[0] == "\\ file deleted" {
			m := regexp.MustCompile(`(?m)^package\s+\w+`).Find(orig)
			if m == nil {
				return nil, false
			}
			ov[abs] = append(m, '\n')
			continue
		}
		mod, err := applyHunks(orig, hunks)
		if err != nil || bytes.Equal(mod, orig) {
			return nil, false
		}
		ov[abs] = mod
	}
	return ov, len(ov) > 0
}

type selfTestResult struct {
	Variant string   `json:"variant"`
	Expect  string   `json:"expect"`
	Fired   []string `json:"fired"`
	Status  string   `json:"status"` // ok | MISSED | FALSE-ALARM | not-applicable
}

// runSelfTest runs every variant of the property and returns the results.
func runSelfTest(pd *PropDoc, verif string, pkgs map[string]bool) []selfTestResult {
	dir := filepath.Join(verif, "variants", pd.ID)
	ents, _ := filepath.Glob(filepath.Join(dir, "*.diff"))
	sort.Strings(ents)
	// behaviour-preserving refactors recorded for OTHER properties that touch a package this property analyses: they must
	// not alarm this property either (cross-property false-alarm resistance)
	foreignName := map[string]string{}
	pkgDirs := map[string]bool{}
	for p := range pkgs {
		pkgDirs[strings.TrimPrefix(strings.TrimPrefix(p, "go.opentelemetry.io/otel"), "/")] = true
	}
	foreign, _ := filepath.Glob(filepath.Join(verif, "variants", "C*", "agent*.diff"))
	sort.Strings(foreign)
	for _, f := range foreign {
		owner := filepath.Base(filepath.Dir(f))
		if owner == pd.ID {
			continue
		}
		v, err := readVariant(f)
		if err != nil || v.Expect != "silent" {
			continue
		}
		touches := false
		for rel := range v.Files {
			d := filepath.Dir(rel)
			if d == "." {
				d = ""
			}
			if pkgDirs[d] {
				touches = true
			}
		}
		if touches {
			foreignName[f] = owner + "/" + v.Name
			ents = append(ents, f)
		}
	}
	// seeded changes written by independent sub-agents (seeded/<ID>-s<k>/patch.diff; expectation in expect.txt, written by
	// tools/seeded_eval.py: "fire:<rules>" or "not-decided" for the changes no sound static rule reaches)
	seeds, _ := filepath.Glob(filepath.Join(verif, "seeded", pd.ID+"-[s-z]*", "patch.diff"))
	sort.Strings(seeds)
	ents = append(ents, seeds...)
	openKnown := map[string]bool{}
	if ks, err := loadKnown(filepath.Join(verif, "known_findings.json")); err == nil {
		for _, k := range ks {
			if k.Status == "open" {
				openKnown[k.Key] = true
			}
		}
	}
	var res []selfTestResult
	for _, p := range ents {
		var v *variant
		var err error
		if filepath.Base(p) == "patch.diff" {
			exp, rerr := os.ReadFile(filepath.Join(filepath.Dir(p), "expect.txt"))
			if rerr != nil {
				continue
			}
			v, err = readVariantExpect(p, strings.TrimSpace(string(exp)))
			if v != nil {
				v.Name = "seeded/" + filepath.Base(filepath.Dir(p))
			}
		} else {
			v, err = readVariant(p)
			if v != nil && foreignName[p] != "" {
				v.Name = foreignName[p]
			}
		}
		if err != nil {
			res = append(res, selfTestResult{Variant: filepath.Base(p), Status: "not-applicable: " + err.Error()})
			continue
		}
		ov, ok := overlayFor(v)
		if !ok {
			res = append(res, selfTestResult{Variant: v.Name, Expect: v.Expect, Status: "not-applicable"})
			continue
		}
		run := NewRun(pd.ID, "selftest")
		execPass(run, pd, "", ov)
		fired := map[string]bool{}
		for _, o := range run.obs {
			if o.Verdict != VOK && !openKnown[o.Key] {
				// an open known finding of the unchanged tree is not a reaction to the variant
				fired[strings.TrimPrefix(o.Rule, pd.ID+".")] = true
			}
		}
		for id, ri := range run.rules {
			if ri.Found < ri.Min {
				fired[strings.TrimPrefix(id, pd.ID+".")] = true
			}
		}
		var fl []string
		for r := range fired {
			fl = append(fl, r)
		}
		sort.Strings(fl)
		st := "ok"
		if strings.HasPrefix(v.Expect, "elsewhere:") {
			// the change breaks a clause that another property's check decides (named in the expectation)
			st = "decided by " + strings.TrimPrefix(v.Expect, "elsewhere:")
			if len(fl) > 0 {
				st = "ok (now caught here too)"
			}
		} else if v.Expect == "not-decided" {
			// documented limit: the change breaks the property but no structural rule decides it
			st = "not-decided (documented)"
			if len(fl) > 0 {
				st = "ok (now caught)"
			}
		} else if v.Expect == "beyond-reach" {
			// documented limit in the other direction: a behaviour-preserving rewrite that re-expresses the rule's subject in a form
			// the analysis cannot relate to the specification (construction-time strategy objects, unreachable guards that need value
			// facts, a different algorithm). The check alarms; DESIGN §8 lists these. A change in the machinery that makes one silent
			// shows up as "ok (now silent)".
			st = "alarms on an equivalent rewrite (documented limit)"
			if len(fl) == 0 {
				st = "ok (now silent)"
			}
		} else if v.Expect == "silent" {
			if len(fl) > 0 {
				st = "FALSE-ALARM"
			}
		} else {
			for _, want := range strings.Split(strings.TrimPrefix(v.Expect, "fire:"), ",") {
				if !fired[want] {
					st = "MISSED"
				}
			}
		}
		res = append(res, selfTestResult{Variant: v.Name, Expect: v.Expect, Fired: fl, Status: st})
	}
	return res
}
