package main

import (
	"go/ast"
	"go/constant"
	"go/token"
	"go/types"
	"strings"
)

const sdkTrace = "go.opentelemetry.io/otel/sdk/trace"

func init() {
	register(&PropDoc{
		ID:      "C01",
		Modules: []string{"sdk"},
		NotDecided: "exactly-once delivery over all interleavings taken whole; that the batch bound actually holds as an inductive fact (and for MaxExportBatchSize<=0); " +
			"visibility after ForceFlush under races; timer semantics; liveness in blocking mode.",
		Fn: c01,
	})
}

func c01(c *Ctx) {
	ix := c.Index("sdk", sdkTrace)
	if ix == nil {
		return
	}
	info := ix.Pkg.TypesInfo
	le := c.Locks(ix)
	fBatch := lookupField(ix.Pkg, "batchSpanProcessor", "batch")
	fQueue := lookupField(ix.Pkg, "batchSpanProcessor", "queue")
	fE := lookupField(ix.Pkg, "batchSpanProcessor", "e")
	fStopped := lookupField(ix.Pkg, "batchSpanProcessor", "stopped")
	fStopCh := lookupField(ix.Pkg, "batchSpanProcessor", "stopCh")
	fDropped := lookupField(ix.Pkg, "batchSpanProcessor", "dropped")
	fStopWait := lookupField(ix.Pkg, "batchSpanProcessor", "stopWait")
	fStopOnce := lookupField(ix.Pkg, "batchSpanProcessor", "stopOnce")
	fSspExp := lookupField(ix.Pkg, "simpleSpanProcessor", "exporter")
	fMax := lookupField(ix.Pkg, "BatchSpanProcessorOptions", "MaxExportBatchSize")
	for n, f := range map[string]*types.Var{"batch": fBatch, "queue": fQueue, "e": fE, "stopped": fStopped, "stopCh": fStopCh, "dropped": fDropped, "stopWait": fStopWait, "stopOnce": fStopOnce, "simpleSpanProcessor.exporter": fSspExp, "MaxExportBatchSize": fMax} {
		if f == nil {
			c.Missing("R0", "sdk/trace field "+n)
		}
	}
	if fBatch == nil || fQueue == nil || fE == nil || fStopped == nil || fStopCh == nil || fDropped == nil || fSspExp == nil || fMax == nil || fStopWait == nil || fStopOnce == nil {
		return
	}
	isBatch := func(e ast.Expr) bool { return isField(info, e, fBatch) }
	isQueue := func(e ast.Expr) bool { return isField(info, e, fQueue) }

	// R1 guarded-by
	c.Rule("R1", "E1 guarded-by", "batchSpanProcessor.batch is read or written only with batchMutex held (constructor exempt)", 9)
	le.GuardedBy(c.Run, "R1", GuardSpec{Type: "batchSpanProcessor", Mutex: ".batchMutex", Fields: []string{"batch"}})

	// R2 exporter call only under the serialising mutex, and only from the known site
	c.Rule("R2", "E1 call-under-lock + E5 who-may-call", "SpanExporter.ExportSpans is invoked by the stock processors only with their export mutex held", 2)
	for _, s := range ix.FindCalls(func(f *FuncInfo, call *ast.CallExpr) bool {
		return isCallTo(info, call, "("+sdkTrace+".SpanExporter).ExportSpans")
	}) {
		call := s.N.(*ast.CallExpr)
		recv, _ := methodCall(info, call)
		key := "sdk/trace|" + s.F.Name + "|call ExportSpans via " + exprStr(recv)
		c.Analysed(ix.Outer(s.F))
		fld, base := fieldOf(info, recv)
		var mu string
		switch {
		case fld != nil && fld == fE.Origin():
			mu = resolvePath(ix.Pkg, "batchSpanProcessor", ".batchMutex")
		case fld != nil && fld == fSspExp.Origin():
			mu = resolvePath(ix.Pkg, "simpleSpanProcessor", ".exporterMu")
		default:
			c.Violation("R2", key, ix.at(s), "ExportSpans is called on something other than the processor's own exporter field: no mutex is known to serialise this call")
			continue
		}
		bk := pathKey(info, base)
		if bk == "" {
			c.Undecided("R2", key, ix.at(s), "cannot name the processor whose mutex must be held")
			continue
		}
		ok, why := le.Require(s.F, call, bk+mu, true, 0)
		c.Check(ok, "R2", key, ix.at(s), mu[1:]+" held across the exporter call", "exporter invoked without "+mu[1:]+" held (two goroutines can be inside the exporter at once): "+why)
	}

	// R3 reset on every exit, inside the same critical section
	c.Rule("R3", "E3 must-pass + E1 atomic section", "after ExportSpans every path to the exit empties batch before batchMutex is released, regardless of err", 1)
	for _, s := range ix.FindCalls(func(f *FuncInfo, call *ast.CallExpr) bool {
		if !isCallTo(info, call, "("+sdkTrace+".SpanExporter).ExportSpans") {
			return false
		}
		recv, _ := methodCall(info, call)
		return isField(info, recv, fE)
	}) {
		g := ix.FG(s.F)
		a := g.NodeOf(s.N)
		key := "sdk/trace|" + s.F.Name + "|ExportSpans → exit resets batch"
		resets := g.Match(func(n ast.Node) bool {
			rhs := assignRHS(n, isBatch)
			return rhs != nil && isEmptySliceExpr(info, rhs)
		})
		rs := map[*GNode]bool{}
		for _, x := range resets {
			rs[x] = true
		}
		ok, why := g.MustPassBeforeExit(a, rs)
		if !ok {
			c.Violation("R3", key, ix.at(s), "a path from the export call leaves the function without emptying batch (the same spans would be exported again): "+why)
			continue
		}
		// no release of the mutex between the call and the reset
		recv, _ := methodCall(info, s.N.(*ast.CallExpr))
		_, base := fieldOf(info, recv)
		bk := pathKey(info, base)
		bad := false
		for x := range rs {
			if rel := le.ReleasesBetween(s.F, a, x, bk+resolvePath(ix.Pkg, "batchSpanProcessor", ".batchMutex")); rel != nil {
				c.Violation("R3", key, at(ix.M, rel.N.Pos()), "batchMutex is released between the export call and the reset of batch")
				bad = true
			}
		}
		if !bad {
			c.OK("R3", key, ix.at(s), "every exit after the export call passes a reset of batch inside the critical section")
		}
	}

	// R4 size trigger
	// R10 (shared with C15.R6): spans reach each processor once only if the processor list readers iterate is never edited in place
	ruleFlushWaitStops(c, ix, "R9")

	c.Rule("R10", "E5 immutability (alias tracking, shared)", "the span-processor list that span.End iterates without a lock is never written in place by Register/Unregister/Shutdown: an in-place removal makes a concurrent End skip one processor and call another twice (a span exported twice, or never)", 3)
	rulePublishedListImmutable(c, ix, "R10")

	c.Rule("R4", "E3 dominance + comparison form", "every append to batch is followed in its critical section by len(batch) >=|== MaxExportBatchSize whose true outcome reaches exportSpans before the next receive", 2)
	exportSpans := ix.Func("(*batchSpanProcessor).exportSpans")
	if exportSpans == nil {
		c.Missing("R4", "sdk/trace.(*batchSpanProcessor).exportSpans")
	}
	isAppendSite := func(n ast.Node) bool {
		rhs := assignRHS(n, isBatch)
		return rhs != nil && isAppendTo(info, rhs, isBatch)
	}
	unlocks := func(x *GNode) bool {
		if x.N == nil {
			return false
		}
		if _, isDefer := x.N.(*ast.DeferStmt); isDefer {
			return false // runs at function exit, not here
		}
		hit := false
		inspectNoLit(x.N, func(n ast.Node) bool {
			if call, ok := n.(*ast.CallExpr); ok {
				if _, op := lockOp(info, call); op == "unlock" {
					hit = true
				}
			}
			return true
		})
		return hit
	}
	// helpers: a declared function that appends to batch and returns len(batch) read in the same critical section on every
	// return. A call of such a helper is an append site whose value is the batch length (one level, static callees only).
	helpers := map[*types.Func]*FuncInfo{}
	for _, f := range ix.All {
		if f.Lit != nil || f.Obj == nil {
			continue
		}
		apps := nodesIn(f, isAppendSite)
		if len(apps) != 1 {
			continue
		}
		g := ix.FG(f)
		a := g.NodeOf(apps[0])
		okRet, nRet := true, 0
		inspectNoLit(f.Body(), func(n ast.Node) bool {
			rs, ok := n.(*ast.ReturnStmt)
			if !ok {
				return true
			}
			nRet++
			if len(rs.Results) != 1 {
				okRet = false
				return true
			}
			r := unparen(rs.Results[0])
			var readAt *GNode
			if isLenOf(info, r, isBatch) {
				readAt = g.NodeOf(rs)
			} else if id, isID := r.(*ast.Ident); isID {
				if def := g.LocalDef(info.Uses[id]); def != nil && isLenOf(info, unparen(def), isBatch) {
					readAt = g.NodeOf(def)
				}
			}
			if readAt == nil {
				okRet = false
				return true
			}
			// the read is reached from the append without a release in between
			seen, _ := g.Reach([]*GNode{a}, func(x *GNode) bool { return x == readAt }, nil)
			for x := range seen {
				if unlocks(x) || x == g.Exit {
					okRet = false
				}
			}
			return true
		})
		if okRet && nRet > 0 {
			helpers[f.Obj.Origin()] = f
		}
	}
	isHelperCall := func(n ast.Node) bool {
		call, ok := n.(*ast.CallExpr)
		if !ok {
			return false
		}
		cf := callee(info, call)
		return cf != nil && helpers[cf.Origin()] != nil
	}
	for _, f := range ix.All {
		g := (*FG)(nil)
		for _, n := range nodesIn(f, func(n ast.Node) bool { return isAppendSite(n) || isHelperCall(n) }) {
			if g == nil {
				g = ix.FG(f)
			}
			c.Analysed(ix.Outer(f))
			key := "sdk/trace|" + f.Name + "|append(batch) → size test → exportSpans"
			site := at(ix.M, n.Pos())
			if f.Obj != nil && f.Lit == nil && helpers[f.Obj.Origin()] == f && isAppendSite(n) {
				c.OK("R4", key, site, "helper: returns len(batch) read in the critical section of the append; the size test is required at each call site")
				continue
			}
			a := g.NodeOf(n)
			// a value that is the batch length as read in the critical section of the append
			var isLenVal func(e ast.Expr, depth int) bool
			isLenVal = func(e ast.Expr, depth int) bool {
				e = unparen(e)
				if isLenOf(info, e, isBatch) || isHelperCall(e) {
					return true
				}
				if id, ok := e.(*ast.Ident); ok && depth < 3 {
					if def := g.LocalDef(info.Uses[id]); def != nil {
						return isLenVal(def, depth+1)
					}
				}
				return false
			}
			isCmp := func(e ast.Node) (ast.Expr, bool) {
				be, ok := e.(*ast.BinaryExpr)
				if !ok {
					return nil, false
				}
				l, op, r, ok := cmpNorm(be, 1)
				if !ok {
					return nil, false
				}
				isLen := func(e ast.Expr) bool { return isLenVal(e, 0) }
				isMax := func(e ast.Expr) bool { return isField(info, e, fMax) }
				if isLen(l) && isMax(r) && (op == token.GEQ || op == token.EQL) {
					return be, true
				}
				if isMax(l) && isLen(r) && (op == token.LEQ || op == token.EQL) {
					return be, true
				}
				return nil, false
			}
			var cmpExpr ast.Expr
			cmps := g.Match(func(n ast.Node) bool {
				if e, ok := isCmp(n); ok {
					cmpExpr = e
					return true
				}
				return false
			})
			cs := toSet(cmps)
			// (1) the length is read before the critical section of the append ends
			reads := toSet(g.Match(func(n ast.Node) bool {
				e, ok := n.(ast.Expr)
				return ok && (isLenOf(info, e, isBatch) || isHelperCall(e))
			}))
			bad := ""
			if !isHelperCall(n) {
				seen, parent := g.Reach([]*GNode{a}, func(x *GNode) bool { return reads[x] }, nil)
				for x := range seen {
					if (x == g.Exit || unlocks(x)) && !reads[x] {
						bad = "the batch length is not read inside the critical section of the append: " + g.pathLines(parent, x)
						break
					}
				}
			}
			// (2) every way on from the append to the next receive (or out) evaluates the size test
			isRecvQ0 := func(x *GNode) bool {
				if x.N == nil {
					return false
				}
				hit := false
				inspectNoLit(x.N, func(n ast.Node) bool {
					if isRecvFrom(n, isQueue) {
						hit = true
					}
					return true
				})
				return hit
			}
			if bad == "" && !cs[a] {
				seen, parent := g.Reach([]*GNode{a}, func(x *GNode) bool { return cs[x] }, nil)
				for x := range seen {
					if (x == g.Exit || isRecvQ0(x)) && !cs[x] {
						bad = "no size test on the way: " + g.pathLines(parent, x)
						break
					}
				}
			}
			if len(cs) == 0 || bad != "" {
				c.Violation("R4", key, site, "append to batch is not followed by a comparison of the batch length, read in the same critical section, with MaxExportBatchSize (>= or ==) (batch can outgrow the maximum) "+bad)
				continue
			}
			trueEdge := func(e *GEdge) bool {
				return edgeImplies(e, func(cnd ast.Expr, pol int) bool {
					if pol < 0 {
						return false
					}
					_, ok := isCmp(cnd)
					return ok
				})
			}
			var edges []*GEdge
			for _, x := range g.Nodes {
				for _, e := range x.Succs {
					if trueEdge(e) {
						edges = append(edges, e)
					}
				}
			}
			if len(edges) == 0 {
				c.Violation("R4", key, site, "the outcome of the size comparison does not branch to an export")
				continue
			}
			isExportCall := func(x *GNode) bool {
				if x.N == nil || exportSpans == nil {
					return false
				}
				hit := false
				inspectNoLit(x.N, func(n ast.Node) bool {
					if call, ok := n.(*ast.CallExpr); ok {
						if cf := callee(info, call); cf != nil && cf.Origin() == exportSpans.Obj.Origin() {
							hit = true
						}
					}
					return true
				})
				return hit
			}
			okAll := true
			for _, e := range edges {
				seen, parent := g.ReachFromEdge(e, isExportCall)
				for x := range seen {
					if x == g.Exit || isRecvQ0(x) {
						c.Violation("R4", key, site, "batch full but a path takes the next span (or returns) without calling exportSpans: "+g.pathLines(parent, x))
						okAll = false
						break
					}
				}
			}
			if okAll {
				c.OK("R4", key, site, "size test "+exprStr(cmpExpr)+" on the length read in the critical section; its true outcome always reaches exportSpans first")
			}
		}
	}

	// R5 stopped gate and sampled gate on every send
	c.Rule("R5", "E3 dominance (interprocedural over static call sites)", "every send on queue is dominated by !stopped.Load() in the exported method it comes from, and by SpanContext().IsSampled()", 4)
	sends := ix.FindNodes(func(f *FuncInfo, n ast.Node) bool {
		s, ok := n.(*ast.SendStmt)
		return ok && isQueue(s.Chan)
	})
	notStopped := func(fi *FuncInfo) func(*GEdge) bool {
		return func(e *GEdge) bool {
			return edgeImplies(e, func(cnd ast.Expr, pol int) bool {
				return pol < 0 && fieldMethodCall(info, cnd, fStopped, "Load") != nil
			})
		}
	}
	sampled := func(fi *FuncInfo) func(*GEdge) bool {
		return func(e *GEdge) bool {
			return edgeImplies(e, func(cnd ast.Expr, pol int) bool {
				call, ok := cnd.(*ast.CallExpr)
				return pol > 0 && ok && isCallTo(info, call, "(go.opentelemetry.io/otel/trace.SpanContext).IsSampled")
			})
		}
	}
	for _, s := range sends {
		c.Analysed(ix.Outer(s.F))
		ok, why := ix.DominatedUp(s.F, s.N, notStopped, 0)
		c.Check(ok, "R5", "sdk/trace|"+s.F.Name+"|send on queue guarded by !stopped.Load()", ix.at(s),
			"every call chain to this send passes the false edge of stopped.Load()", "a span can be enqueued after Shutdown: "+why)
		dominatedUpExempt = flushMarkerCall
		ok, why = ix.DominatedUp(s.F, s.N, sampled, 0)
		dominatedUpExempt = nil
		c.Check(ok, "R5", "sdk/trace|"+s.F.Name+"|send on queue guarded by IsSampled()", ix.at(s),
			"send dominated by the true edge of SpanContext().IsSampled()", "an unsampled span can be enqueued: "+why)
	}

	// R6 drop is counted
	c.Rule("R6", "E3 pairing", "in the non-blocking enqueue the queue-full arm increments dropped; no path past the sampled test returns without send or increment", 1)
	for _, s := range sends {
		f := s.F
		// find the select that holds this send
		var sel *ast.SelectStmt
		var deflt *ast.CommClause
		inspectNoLit(f.Body(), func(n ast.Node) bool {
			if ss, ok := n.(*ast.SelectStmt); ok {
				holds := false
				var d *ast.CommClause
				for _, cl := range ss.Body.List {
					cc := cl.(*ast.CommClause)
					if cc.Comm == s.N {
						holds = true
					}
					if cc.Comm == nil {
						d = cc
					}
				}
				if holds {
					sel, deflt = ss, d
				}
			}
			return true
		})
		if sel == nil || deflt == nil {
			continue // blocking send: nothing is dropped
		}
		key := "sdk/trace|" + f.Name + "|select default (queue full) counts the drop"
		g := ix.FG(f)
		incs := g.Match(func(n ast.Node) bool {
			call, ok := n.(*ast.CallExpr)
			if !ok {
				return false
			}
			if isCallTo(info, call, "sync/atomic.AddUint32") && len(call.Args) == 2 {
				if u, ok := unparen(call.Args[0]).(*ast.UnaryExpr); ok && u.Op == token.AND && isField(info, u.X, fDropped) {
					v, isC := constInt(info, call.Args[1])
					return isC && v == 1
				}
			}
			if fc := fieldMethodCall(info, n, fDropped, "Add"); fc != nil && len(fc.Args) == 1 {
				v, isC := constInt(info, fc.Args[0])
				return isC && v == 1
			}
			return false
		})
		inDefault := false
		for _, x := range incs {
			if containsNoLitOrIn(deflt, x.N) {
				inDefault = true
			}
		}
		// paths: from the last SelectAfterCase head (default arm) to exit must pass an increment
		okPath := false
		why := "default arm not found in flow graph"
		for _, b := range g.CFG.Blocks {
			if b.Kind.String() == "SelectAfterCase" && b.Stmt != nil {
				// the default arm continues from the after-case block of the last communicating clause
				last := lastCommClause(sel)
				if b.Stmt == ast.Stmt(last) {
					inc := map[*GNode]bool{}
					for _, x := range incs {
						inc[x] = true
					}
					h := g.head[b]
					okPath, why = g.MustPassBeforeExit(h, inc)
				}
			}
		}
		c.Check(inDefault && okPath, "R6", key, at(ix.M, deflt.Pos()), "queue-full arm increments dropped by 1 on every path",
			"a span dropped because the queue is full is not counted in dropped: "+why)
	}

	// R7 single consumer, shutdown order
	c.Rule("R7", "E5 who-may + E3 ordering", "only processQueue/drainQueue receive from queue; both run once, in order, in the constructor's goroutine; Shutdown: once-guarded, stopped before close(stopCh), worker joined before exporter Shutdown", 7)
	allowed := map[string]bool{"(*batchSpanProcessor).processQueue": true, "(*batchSpanProcessor).drainQueue": true}
	nrecv := map[string]int{}
	for _, s := range ix.FindNodes(func(f *FuncInfo, n ast.Node) bool { return isRecvFrom(n, isQueue) }) {
		outer := ix.Outer(s.F)
		nrecv[s.F.Name]++
		c.Check(allowed[outer.Name] && s.F.Lit == nil, "R7", "sdk/trace|"+s.F.Name+"|receive from queue #"+itoa(nrecv[s.F.Name]), ix.at(s),
			"receive is in the single worker", "a second consumer of queue breaks the single-appender argument for batch and the flush marker protocol")
	}
	ctor := c.Fn(ix, "R7", "NewBatchSpanProcessor")
	pq := c.Fn(ix, "R7", "(*batchSpanProcessor).processQueue")
	dq := c.Fn(ix, "R7", "(*batchSpanProcessor).drainQueue")
	if ctor != nil && pq != nil && dq != nil {
		pqs, dqs := ix.Calls[pq.Obj.Origin()], ix.Calls[dq.Obj.Origin()]
		key := "sdk/trace|NewBatchSpanProcessor|worker goroutine runs processQueue then drainQueue once"
		switch {
		case len(pqs) != 1 || len(dqs) != 1 || len(ix.Escapes[pq.Obj.Origin()]) > 0 || len(ix.Escapes[dq.Obj.Origin()]) > 0:
			c.Violation("R7", key, at(ix.M, ctor.Pos()), "processQueue/drainQueue must each have exactly one call site (the worker); found "+itoa(len(pqs))+"/"+itoa(len(dqs)))
		case pqs[0].In != dqs[0].In || pqs[0].In.Lit == nil || ix.Use[pqs[0].In.Lit] != LitGo || ix.Parent[pqs[0].In.Lit] != ctor:
			c.Violation("R7", key, at(ix.M, pqs[0].Call.Pos()), "processQueue and drainQueue must run in the one goroutine the constructor starts")
		default:
			lit := pqs[0].In
			g := ix.FG(lit)
			a, b := g.NodeOf(pqs[0].Call), g.NodeOf(dqs[0].Call)
			ord, _ := g.DominatedByNodes(b, map[*GNode]bool{a: true})
			cyc := g.InCycle(a) || g.InCycle(b) || inLoop(ctor, lit.Lit) || inLoopStmt(ctor, lit.Lit)
			// defer stopWait.Done() registered before both
			dn := g.Match(func(n ast.Node) bool {
				d, ok := n.(*ast.DeferStmt)
				return ok && fieldMethodCall(info, d.Call, fStopWait, "Done") != nil
			})
			dset := map[*GNode]bool{}
			for _, x := range dn {
				dset[x] = true
			}
			dom, _ := g.DominatedByNodes(a, dset)
			c.Check(ord && !cyc && dom && len(dn) > 0, "R7", key, at(ix.M, lit.Pos()), "one goroutine: defer stopWait.Done(); processQueue(); drainQueue()",
				"worker goroutine shape changed (order, loop, or missing deferred stopWait.Done)")
		}
	}
	if sh := c.Fn(ix, "R7", "(*batchSpanProcessor).Shutdown"); sh != nil {
		// close(stopCh) sites
		closes := ix.FindCalls(func(f *FuncInfo, call *ast.CallExpr) bool {
			return isCloseOf(info, call, func(e ast.Expr) bool { return isField(info, e, fStopCh) })
		})
		c.Check(len(closes) == 1 && ix.Outer(closes[0].F) == sh, "R7", "sdk/trace|(*batchSpanProcessor).Shutdown|close(stopCh) only in Shutdown", at(ix.M, sh.Pos()),
			"single close site", "stopCh must be closed exactly at one site, in Shutdown")
		for _, cl := range closes {
			// inside stopOnce.Do
			inOnce := false
			var onceLit *FuncInfo
			for f := cl.F; f != nil && f.Lit != nil; f = ix.Parent[f.Lit] {
				if ix.Use[f.Lit] == LitOnceDo {
					// which Once?
					par := ix.Parent[f.Lit]
					for _, n := range nodesIn(par, func(n ast.Node) bool {
						call, ok := n.(*ast.CallExpr)
						return ok && fieldMethodCall(info, call, fStopOnce, "Do") != nil && len(call.Args) == 1 && unparen(call.Args[0]) == ast.Expr(f.Lit)
					}) {
						_ = n
						inOnce = true
						onceLit = f
					}
				}
			}
			c.Check(inOnce, "R7", "sdk/trace|(*batchSpanProcessor).Shutdown|close(stopCh) inside stopOnce.Do", ix.at(cl),
				"close is once-guarded", "close(stopCh) outside stopOnce.Do: a second Shutdown panics on double close")
			if onceLit != nil {
				// stopped.Store(true) precedes (dominates) the close, following literal nesting
				okStore, why := storeBeforeSite(ix, info, onceLit, cl, fStopped)
				c.Check(okStore, "R7", "sdk/trace|(*batchSpanProcessor).Shutdown|stopped.Store(true) before close(stopCh)", ix.at(cl),
					"stopped is set before the worker is told to drain", "stopped must be set before stopCh is closed, or OnEnd can enqueue after the final drain: "+why)
			}
			// in the closing function: stopWait.Wait() dominates e.Shutdown
			g := ix.FG(cl.F)
			waits := g.Match(func(n ast.Node) bool { return fieldMethodCall(info, n, fStopWait, "Wait") != nil })
			ws := map[*GNode]bool{}
			for _, x := range waits {
				ws[x] = true
			}
			cset := map[*GNode]bool{g.NodeOf(cl.N): true}
			for _, s := range ix.FindCalls(func(f *FuncInfo, call *ast.CallExpr) bool {
				if !isCallTo(info, call, "("+sdkTrace+".SpanExporter).Shutdown") {
					return false
				}
				recv, _ := methodCall(info, call)
				return isField(info, recv, fE)
			}) {
				key := "sdk/trace|" + s.F.Name + "|exporter Shutdown after close(stopCh) and stopWait.Wait()"
				if s.F != cl.F {
					c.Violation("R7", key, ix.at(s), "exporter Shutdown is not sequenced after the worker join in the same goroutine")
					continue
				}
				x := g.NodeOf(s.N)
				ok1, _ := g.DominatedByNodes(x, ws)
				ok2, _ := g.DominatedByNodes(x, cset)
				c.Check(ok1 && ok2 && len(ws) > 0, "R7", key, ix.at(s), "exporter shut down only after the drain finished",
					"exporter can be shut down before the worker has drained the queue (spans exported after/without Shutdown ordering)")
			}
		}
	}

	defer c01More(c, ix)
	// R8 flush marker handling
	c.Rule("R8", "E3", "a forceFlushSpan marker taken from queue is never appended to batch; processQueue closes its channel", 2)
	ffs := lookupType(ix.Pkg, "forceFlushSpan")
	fFlushed := lookupField(ix.Pkg, "forceFlushSpan", "flushed")
	if ffs == nil {
		c.Missing("R8", "sdk/trace.forceFlushSpan")
	} else {
		for _, fn := range []*FuncInfo{pq, dq} {
			if fn == nil {
				continue
			}
			g := ix.FG(fn)
			// edges on which "sd is a forceFlushSpan" holds: true edge of `ok` defined by v, ok := sd.(forceFlushSpan)
			var okVars []types.Object
			inspectNoLit(fn.Body(), func(n ast.Node) bool {
				as, ok := n.(*ast.AssignStmt)
				if !ok || len(as.Lhs) != 2 || len(as.Rhs) != 1 {
					return true
				}
				ta, ok := unparen(as.Rhs[0]).(*ast.TypeAssertExpr)
				if !ok || ta.Type == nil {
					return true
				}
				if tv, ok := info.Types[ta.Type]; ok && types.Identical(tv.Type, ffs) {
					if o := objOf(info, as.Lhs[1]); o != nil {
						okVars = append(okVars, o)
					}
				}
				return true
			})
			key := "sdk/trace|" + fn.Name + "|marker is not batched"
			if len(okVars) == 0 {
				c.Violation("R8", key, at(ix.M, fn.Pos()), "no forceFlushSpan type test on values received from queue: markers would be exported as spans")
				continue
			}
			isOK := func(e *GEdge) bool {
				return edgeImplies(e, func(cnd ast.Expr, pol int) bool {
					if pol < 0 {
						return false
					}
					for _, o := range okVars {
						if sameVar(info, cnd, o) {
							return true
						}
					}
					return false
				})
			}
			appends := g.Match(func(n ast.Node) bool {
				rhs := assignRHS(n, isBatch)
				return rhs != nil && isAppendTo(info, rhs, isBatch)
			})
			isApp := map[*GNode]bool{}
			for _, x := range appends {
				isApp[x] = true
			}
			isRecvQ := func(x *GNode) bool {
				if x.N == nil {
					return false
				}
				hit := false
				inspectNoLit(x.N, func(n ast.Node) bool {
					if isRecvFrom(n, isQueue) {
						hit = true
					}
					return true
				})
				return hit
			}
			bad := ""
			closed := fn != pq
			for _, x := range g.Nodes {
				for _, e := range x.Succs {
					if !isOK(e) {
						continue
					}
					seen, parent := g.ReachFromEdge(e, isRecvQ)
					for y := range seen {
						if isApp[y] {
							bad = g.pathLines(parent, y)
						}
					}
					if fn == pq {
						// must close the marker's channel before the next receive
						cl := g.Match(func(n ast.Node) bool {
							return isCloseOf(info, n, func(e ast.Expr) bool {
								// the marker's channel field (resolved, so a renamed field is still found)
								return fFlushed != nil && isField(info, e, fFlushed)
							})
						})
						cls := map[*GNode]bool{}
						for _, y := range cl {
							cls[y] = true
						}
						seen2, _ := g.ReachFromEdge(e, func(y *GNode) bool { return cls[y] })
						reachNext := false
						for y := range seen2 {
							if isRecvQ(y) || y == g.Exit {
								reachNext = true
							}
						}
						closed = len(cls) > 0 && !reachNext
					}
				}
			}
			c.Check(bad == "" && closed, "R8", key, at(ix.M, fn.Pos()), "marker branch never appends to batch"+map[bool]string{true: " and closes the flush channel", false: ""}[fn == pq],
				"flush marker mishandled (appended to batch, or its channel not closed before the next receive) "+bad)
		}
	}
}

// c01More: clauses added after the first seeded rounds (flush-marker wait in ForceFlush, final export in drainQueue,
// timer-triggered export, enqueue dispatch on BlockOnQueueFull).
func c01More(c *Ctx, ix *PkgIndex) {
	info := ix.Pkg.TypesInfo
	fFlushed := lookupField(ix.Pkg, "forceFlushSpan", "flushed")
	exportSpans := ix.Func("(*batchSpanProcessor).exportSpans")
	if exportSpans == nil {
		return
	}
	isExport := callToDecl(info, exportSpans)
	c.Rule("R9", "E3 ordering over select-clause edges", "ForceFlush exports only after the flush marker it enqueued was acknowledged; drainQueue makes a final export on every path; the timer arm exports; enqueue dispatches on BlockOnQueueFull", 4)
	if ff := c.Fn(ix, "R9", "(*batchSpanProcessor).ForceFlush"); ff != nil {
		g := ix.FG(ff)
		enq := ix.Func("(*batchSpanProcessor).enqueueBlockOnQueueFull")
		// the flush channel: the `flushed:` field value of the forceFlushSpan literal
		var flushCh types.Object
		inspectNoLit(ff.Body(), func(n ast.Node) bool {
			if cl, ok := n.(*ast.CompositeLit); ok {
				for _, el := range cl.Elts {
					if kv, ok := el.(*ast.KeyValueExpr); ok {
						if id, ok := kv.Key.(*ast.Ident); ok && fFlushed != nil && info.Uses[id] == types.Object(fFlushed) {
							flushCh = objOf(info, kv.Value)
						}
					}
				}
			}
			return true
		})
		// vertices that start the export: a go statement / call whose literal (or itself) calls exportSpans
		starts := g.Match(func(n ast.Node) bool {
			if isExport(n) {
				return true
			}
			if gs, ok := n.(*ast.GoStmt); ok {
				found := false
				ast.Inspect(gs, func(m ast.Node) bool {
					if isExport(m) {
						found = true
					}
					return true
				})
				return found
			}
			return false
		})
		enqCalls := g.Match(callToDecl(info, enq))
		good := flushCh != nil && len(starts) >= 1 && len(enqCalls) == 1
		why := "anchors not found"
		if good {
			// negative form: from the enqueue call, an export start is reachable only across (a) the edge on which the enqueue failed,
			// or (b) the select clause that received from the flush channel
			seen, par := g.Reach([]*GNode{enqCalls[0]}, nil, func(e *GEdge) bool {
				if edgeImplies(e, func(cnd ast.Expr, pol int) bool { return pol < 0 && callToDecl(info, enq)(cnd) }) {
					return true
				}
				if e.Comm != nil && e.Comm.Comm != nil {
					hit := false
					ast.Inspect(e.Comm.Comm, func(n ast.Node) bool {
						if isRecvFrom(n, func(x ast.Expr) bool { return sameVar(info, x, flushCh) }) {
							hit = true
						}
						return true
					})
					return hit
				}
				return false
			})
			for _, st := range starts {
				if seen[st] {
					good = false
					why = "the export can start while spans queued before ForceFlush are still in the queue: " + g.pathLines(par, st)
				}
			}
		}
		c.Check(good, "R9", "sdk/trace|(*batchSpanProcessor).ForceFlush|export starts only after <-flushCh (or when the marker could not be enqueued)", at(ix.M, ff.Pos()),
			"everything queued before the call has been batched when the export runs", "ForceFlush can return before spans ended earlier were exported: "+why)
	}
	// the flush marker is always enqueued with the blocking send (a dropped marker makes ForceFlush export too early)
	if ffs := lookupType(ix.Pkg, "forceFlushSpan"); ffs != nil {
		enq := ix.Func("(*batchSpanProcessor).enqueueBlockOnQueueFull")
		n := 0
		for _, s := range ix.FindNodes(func(f *FuncInfo, nd ast.Node) bool {
			cl, ok := nd.(*ast.CompositeLit)
			return ok && types.Identical(info.Types[cl].Type, ffs)
		}) {
			n++
			use, ctx := classifyUse2(s.F, s.N.(ast.Expr))
			good := use == "arg" && callToDecl(info, enq)(ctx)
			c.Check(good, "R9", "sdk/trace|"+ix.Outer(s.F).Name+"|flush marker #"+itoa(n)+" enqueued with the blocking send", ix.at(s), "enqueueBlockOnQueueFull(ctx, forceFlushSpan{…})",
				"the flush marker can be dropped when the queue is full (non-blocking path): ForceFlush then exports and returns while accepted spans are still queued")
		}
		if n == 0 {
			c.Violation("R9", "sdk/trace|ForceFlush|flush marker", at(ix.M, ix.Pkg.Syntax[0].Pos()), "no forceFlushSpan marker is created any more")
		}
	}
	// Shutdown cannot return without going through stopOnce.Do (Once.Do blocks a concurrent caller until the first one has finished)
	if sh := c.Fn(ix, "R9", "(*batchSpanProcessor).Shutdown"); sh != nil {
		g := ix.FG(sh)
		fOnce := lookupField(ix.Pkg, "batchSpanProcessor", "stopOnce")
		do := toSet(g.Match(func(n ast.Node) bool { return fieldMethodCall(info, n, fOnce, "Do") != nil }))
		s, par := g.ReachFromEntry(func(x *GNode) bool { return do[x] }, nil)
		why := ""
		if s[g.Exit] {
			why = g.pathLines(par, g.Exit)
		}
		c.Check(len(do) == 1 && !s[g.Exit], "R9", "sdk/trace|(*batchSpanProcessor).Shutdown|every return passes stopOnce.Do", at(ix.M, sh.Pos()), "a concurrent second Shutdown waits for the first one's drain",
			"a Shutdown call can return nil without waiting for the drain started by a concurrent Shutdown (spans not yet exported when it returns, exports after it returned): "+why)
	}
	if dq := c.Fn(ix, "R9", "(*batchSpanProcessor).drainQueue"); dq != nil {
		g := ix.FG(dq)
		ex := toSet(g.Match(isExport))
		// every path to the exit passes an exportSpans call that is NOT followed by another receive from queue (the final export)
		fQueue := lookupField(ix.Pkg, "batchSpanProcessor", "queue")
		finals := map[*GNode]bool{}
		for x := range ex {
			s, _ := g.Reach([]*GNode{x}, nil, nil)
			again := false
			for y := range s {
				if y.N == nil {
					continue
				}
				inspectNoLit(y.N, func(n ast.Node) bool {
					if isRecvFrom(n, func(e ast.Expr) bool { return isField(info, e, fQueue) }) {
						again = true
					}
					return true
				})
			}
			if !again {
				finals[x] = true
			}
		}
		s, _ := g.ReachFromEntry(func(x *GNode) bool { return finals[x] }, nil)
		c.Check(len(finals) >= 1 && !s[g.Exit], "R9", "sdk/trace|(*batchSpanProcessor).drainQueue|final exportSpans on every path to the exit", at(ix.M, dq.Pos()),
			"the last partial batch is exported before the worker ends", "the worker can end with spans left in batch (lost at Shutdown)")
	}
	if pq := c.Fn(ix, "R9", "(*batchSpanProcessor).processQueue"); pq != nil {
		g := ix.FG(pq)
		fTimer := lookupField(ix.Pkg, "batchSpanProcessor", "timer")
		ex := toSet(g.Match(isExport))
		good := false
		for _, x := range g.Nodes {
			for _, e := range x.Succs {
				if e.Comm == nil || e.Comm.Comm == nil {
					continue
				}
				isTimer := false
				ast.Inspect(e.Comm.Comm, func(n ast.Node) bool {
					if u, ok := n.(*ast.UnaryExpr); ok && u.Op == token.ARROW {
						if sel, ok := unparen(u.X).(*ast.SelectorExpr); ok && sel.Sel.Name == "C" && isField(info, sel.X, fTimer) {
							isTimer = true
						}
					}
					return true
				})
				if !isTimer {
					continue
				}
				// from the timer clause, the next select round / exit is reached only through exportSpans
				seen, _ := g.ReachFromEdge(e, func(y *GNode) bool { return ex[y] })
				ok := !seen[g.Exit]
				for y := range seen {
					if y.N == nil && y.Blk != nil && y.Blk.Kind.String() == "ForBody" && y != e.To {
						ok = false
					}
				}
				good = ok
			}
		}
		c.Check(good, "R9", "sdk/trace|(*batchSpanProcessor).processQueue|timer arm calls exportSpans", at(ix.M, pq.Pos()), "a partial batch is exported when the batch timeout fires", "a partial batch is never exported on timeout (spans wait for the batch to fill)")
	}
	if en := c.Fn(ix, "R9", "(*batchSpanProcessor).enqueue"); en != nil {
		g := ix.FG(en)
		fBlock := lookupField(ix.Pkg, "BatchSpanProcessorOptions", "BlockOnQueueFull")
		blk, drop := ix.Func("(*batchSpanProcessor).enqueueBlockOnQueueFull"), ix.Func("(*batchSpanProcessor).enqueueDrop")
		good := true
		for _, pol := range []bool{true, false} {
			env := func(e ast.Expr) (constant.Value, bool) {
				if isField(info, e, fBlock) {
					return constant.MakeBool(pol), true
				}
				return nil, false
			}
			seen := g.ReachUnder(env)
			b, d := false, false
			for x := range seen {
				if x.N == nil {
					continue
				}
				inspectNoLit(x.N, func(n ast.Node) bool {
					if callToDecl(info, blk)(n) {
						b = true
					}
					if callToDecl(info, drop)(n) {
						d = true
					}
					return true
				})
			}
			if b != pol || d == pol {
				good = false
			}
		}
		c.Check(good, "R9", "sdk/trace|(*batchSpanProcessor).enqueue|BlockOnQueueFull ⇒ blocking send, otherwise drop-and-count", at(ix.M, en.Pos()), "dispatch as configured", "the blocking mode option selects the wrong enqueue path")
	}
}

func lastCommClause(sel *ast.SelectStmt) *ast.CommClause {
	var last *ast.CommClause
	for _, cl := range sel.Body.List {
		cc := cl.(*ast.CommClause)
		if cc.Comm != nil {
			last = cc
		}
	}
	return last
}

// inLoopStmt: is the statement holding lit inside a loop (lit may be nested in a go statement)?
func inLoopStmt(f *FuncInfo, n ast.Node) bool { return inLoop(f, n) }

// storeBeforeSite: in `top` (a literal) and the literal chain down to site.F, fld.Store(true) dominates the path to site.
func storeBeforeSite(ix *PkgIndex, info *types.Info, top *FuncInfo, site Site, fld *types.Var) (bool, string) {
	// walk from site.F upward to top; at each level the anchor is the node (site node or nested literal)
	f := site.F
	var anchor ast.Node = site.N
	for {
		g := ix.FG(f)
		stores := g.Match(func(n ast.Node) bool {
			call := fieldMethodCall(info, n, fld, "Store")
			if call == nil || len(call.Args) != 1 {
				return false
			}
			tv := info.Types[call.Args[0]]
			return tv.Value != nil && tv.Value.String() == "true"
		})
		ss := map[*GNode]bool{}
		for _, x := range stores {
			ss[x] = true
		}
		x := g.NodeOf(anchor)
		if x != nil && len(ss) > 0 {
			if ok, _ := g.DominatedByNodes(x, ss); ok && !ss[x] {
				return true, ""
			}
		}
		if f == top || f.Lit == nil {
			return false, "no dominating " + fld.Name() + ".Store(true)"
		}
		anchor = f.Lit
		f = ix.Parent[f.Lit]
	}
}

// classifyUse2: like classifyUse but for any expression node: "arg" (ctx = the call) or "other".
func classifyUse2(f *FuncInfo, e ast.Expr) (string, ast.Node) {
	var use string = "other"
	var ctx ast.Node
	var stack []ast.Node
	ast.Inspect(f.Body(), func(n ast.Node) bool {
		if n == nil {
			stack = stack[:len(stack)-1]
			return false
		}
		if n == ast.Node(e) {
			for i := len(stack) - 1; i >= 0; i-- {
				switch x := stack[i].(type) {
				case *ast.ParenExpr:
					continue
				case *ast.CallExpr:
					for _, a := range x.Args {
						if unparen(a) == e {
							use, ctx = "arg", x
						}
					}
				}
				break
			}
			return false
		}
		stack = append(stack, n)
		return true
	})
	return use, ctx
}

// ruleFlushWaitStops: ForceFlush hands a marker with a private acknowledgement channel to the queue worker and waits for it. The
// worker may already be gone (Shutdown completed between ForceFlush's stopped test and the enqueue): every select that waits on
// that acknowledgement therefore also waits on the processor's stop channel — with a context that has no deadline the call
// would otherwise never return. Shared by C01.R9 and C15.R9.
func ruleFlushWaitStops(c *Ctx, ix *PkgIndex, rule string) {
	info := ix.Pkg.TypesInfo
	fn := c.Fn(ix, rule, "(*batchSpanProcessor).ForceFlush")
	fStop := lookupField(ix.Pkg, "batchSpanProcessor", "stopCh")
	if fn == nil || fStop == nil {
		return
	}
	// local channels created in ForceFlush (the acknowledgement)
	acks := map[types.Object]bool{}
	inspectNoLit(fn.Body(), func(n ast.Node) bool {
		if as, ok := n.(*ast.AssignStmt); ok && len(as.Lhs) == 1 && len(as.Rhs) == 1 {
			if call, ok := unparen(as.Rhs[0]).(*ast.CallExpr); ok && builtinName(info, call) == "make" && len(call.Args) >= 1 {
				if _, isChan := info.TypeOf(call.Args[0]).Underlying().(*types.Chan); isChan {
					if o := objOf(info, as.Lhs[0]); o != nil {
						acks[o] = true
					}
				}
			}
		}
		return true
	})
	// … that are put into the marker handed to the worker
	inMarker := map[types.Object]bool{}
	inspectNoLit(fn.Body(), func(n ast.Node) bool {
		if cl, ok := n.(*ast.CompositeLit); ok {
			if nn := namedOf(info.TypeOf(cl)); nn != nil && nn.Obj().Name() == "forceFlushSpan" {
				ast.Inspect(cl, func(m ast.Node) bool {
					if id, ok := m.(*ast.Ident); ok && acks[info.Uses[id]] {
						inMarker[info.Uses[id]] = true
					}
					return true
				})
			}
		}
		return true
	})
	acks = inMarker
	n, bad := 0, ""
	var badPos token.Pos
	recvOf := func(cc *ast.CommClause) ast.Expr {
		var e ast.Expr
		switch s := cc.Comm.(type) {
		case *ast.ExprStmt:
			e = s.X
		case *ast.AssignStmt:
			if len(s.Rhs) == 1 {
				e = s.Rhs[0]
			}
		}
		if u, ok := unparen(e).(*ast.UnaryExpr); ok && u.Op == token.ARROW {
			return u.X
		}
		return nil
	}
	inspectNoLit(fn.Body(), func(nd ast.Node) bool {
		sel, ok := nd.(*ast.SelectStmt)
		if !ok {
			return true
		}
		waitsAck, hasStop := false, false
		for _, st := range sel.Body.List {
			cc, ok := st.(*ast.CommClause)
			if !ok || cc.Comm == nil {
				continue
			}
			ch := recvOf(cc)
			if ch == nil {
				continue
			}
			if o := objOf(info, ch); o != nil && acks[o] {
				waitsAck = true
			}
			if isField(info, ch, fStop) {
				hasStop = true
			}
		}
		if waitsAck {
			n++
			if !hasStop {
				bad, badPos = "the select that waits for the marker's acknowledgement has no arm on stopCh", sel.Pos()
			}
		}
		return true
	})
	// a bare receive from the acknowledgement channel outside a select blocks just the same
	comm := map[ast.Stmt]bool{}
	inspectNoLit(fn.Body(), func(nd ast.Node) bool {
		if cc, ok := nd.(*ast.CommClause); ok && cc.Comm != nil {
			comm[cc.Comm] = true
		}
		return true
	})
	inspectNoLit(fn.Body(), func(nd ast.Node) bool {
		if es, ok := nd.(*ast.ExprStmt); ok && !comm[es] {
			if u, ok := unparen(es.X).(*ast.UnaryExpr); ok && u.Op == token.ARROW {
				if o := objOf(info, u.X); o != nil && acks[o] {
					n++
					bad, badPos = "the acknowledgement is awaited with a bare receive", es.Pos()
				}
			}
		}
		return true
	})
	if n == 0 {
		return // ForceFlush does not wait on a private channel (another protocol): nothing to judge here
	}
	pos := fn.Pos()
	if bad != "" {
		pos = badPos
	}
	c.Check(bad == "", rule, "sdk/trace|(*batchSpanProcessor).ForceFlush|the wait for the marker also ends when the processor stops", at(ix.M, pos), itoa(n)+" wait(s), each with an arm on stopCh",
		"a ForceFlush that enqueues its marker after Shutdown has completed (the queue has no reader any more) waits for an acknowledgement nobody sends — with a context without deadline it blocks forever: "+bad)
}

// ruleBspStoppedSync: "nothing is exported after Shutdown has returned" for the batch span processor rests on a flag that Shutdown
// sets itself, before anything it does asynchronously, and that OnEnd tests before it queues a span. A state that only the
// goroutine Shutdown spawns establishes (closing stopCh) is not yet there when Shutdown returns early on a done context.
// Shared by C15.R3 and C01 (where R5/R7 decide the same with more detail).
func ruleBspStoppedSync(c *Ctx, ix *PkgIndex, rule string) {
	info := ix.Pkg.TypesInfo
	fStopped := lookupField(ix.Pkg, "batchSpanProcessor", "stopped")
	sh := c.Fn(ix, rule, "(*batchSpanProcessor).Shutdown")
	onEnd := c.Fn(ix, rule, "(*batchSpanProcessor).OnEnd")
	if fStopped == nil {
		c.Missing(rule, "sdk/trace.batchSpanProcessor.stopped")
		return
	}
	if sh == nil || onEnd == nil {
		return
	}
	// (a) Shutdown stores true into the flag outside any goroutine it starts
	syncStore := false
	for _, f := range append([]*FuncInfo{sh}, litsOf(ix, sh)...) {
		inGo := false
		for g := f; g != nil && g.Lit != nil; g = ix.Parent[g.Lit] {
			if ix.Use[g.Lit] == LitGo {
				inGo = true
			}
		}
		if inGo {
			continue
		}
		inspectNoLit(f.Body(), func(n ast.Node) bool {
			if call := fieldMethodCall(info, n, fStopped, "Store"); call != nil && len(call.Args) == 1 {
				if tv := info.Types[call.Args[0]]; tv.Value != nil && constant.BoolVal(tv.Value) {
					syncStore = true
				}
			}
			if call := fieldMethodCall(info, n, fStopped, "Swap"); call != nil {
				syncStore = true
			}
			if call := fieldMethodCall(info, n, fStopped, "CompareAndSwap"); call != nil {
				syncStore = true
			}
			return true
		})
	}
	c.Check(syncStore, rule, "sdk/trace|(*batchSpanProcessor).Shutdown|the stopped flag is set by Shutdown itself, not by a goroutine it starts", at(ix.M, sh.Pos()), "synchronous store",
		"when Shutdown returns (for instance at once, on a context that is already done) the state OnEnd tests is not established yet: a span ended after Shutdown returned is still queued and exported")
	// (b) OnEnd queues only past the false outcome of the flag
	g := ix.FG(onEnd)
	n, bad := 0, ""
	for _, x := range g.Nodes {
		if x.N == nil {
			continue
		}
		isEnq := false
		inspectNoLit(x.N, func(m ast.Node) bool {
			if call, ok := m.(*ast.CallExpr); ok {
				if cf := callee(info, call); cf != nil && strings.HasPrefix(cf.Name(), "enqueue") {
					isEnq = true
				}
			}
			return true
		})
		if !isEnq {
			continue
		}
		n++
		d, why := g.DominatedByEdges(x, func(e *GEdge) bool {
			return edgeImplies(e, func(cnd ast.Expr, pol int) bool {
				return pol < 0 && fieldMethodCall(info, cnd, fStopped, "Load") != nil
			})
		})
		if !d {
			bad = why
		}
	}
	if n > 0 {
		c.Check(bad == "", rule, "sdk/trace|(*batchSpanProcessor).OnEnd|a span is queued only while the stopped flag is false", at(ix.M, onEnd.Pos()), itoa(n)+" enqueue call(s) behind !stopped.Load()",
			"OnEnd queues spans without consulting the flag Shutdown sets: "+bad)
	}
}

// flushMarkerCall: the call hands over a forceFlushSpan marker, not a span: the marker's SpanContext is sampled by construction and
// it is never batched (C01.R8), so the "only sampled spans are queued" obligation does not apply to that call site.
func flushMarkerCall(ix *PkgIndex, call *ast.CallExpr) bool {
	info := ix.Pkg.TypesInfo
	for _, a := range call.Args {
		if nn := namedOf(info.TypeOf(a)); nn != nil && nn.Obj().Name() == "forceFlushSpan" && nn.Obj().Pkg() == ix.Pkg.Types {
			return true
		}
	}
	return false
}
