package main

import (
	"fmt"
	"go/ast"
	"go/constant"
	"go/types"
	"sort"
	"strings"
)

func init() {
	register(&PropDoc{
		ID:         "C12",
		Modules:    []string{"sdk/metric", "."},
		NotDecided: "totals conserved as numbers; view criteria matching (NewView wildcard logic); re-admission after a delta reset as behaviour (decided: the limiter is consulted against the live map under the lock).",
		Fn:         c12,
	})
}

func c12(c *Ctx) {
	ax := c.Index("sdk/metric", aggPkg)
	mx := c.Index("sdk/metric", sdkMetric)
	if ax == nil || mx == nil {
		return
	}
	info := ax.Pkg.TypesInfo
	minfo := mx.Pkg.TypesInfo

	c.Rule("R1", "E2 decision table over a finite grid", "limiter.Attributes redirects to the overflow set iff aggLimit > 0 ∧ ¬exists ∧ len(m) ≥ aggLimit − 1; the membership test uses attrs.Equivalent()", 11)
	if fn := c.Fn(ax, "R1", "limiter.Attributes"); fn != nil {
		g := ax.FG(fn)
		fLim := lookupField(ax.Pkg, "limiter", "aggLimit")
		sig := fn.Obj.Type().(*types.Signature)
		attrs, meas := sig.Params().At(0), sig.Params().At(1)
		var exists types.Object
		keyOK := false
		inspectNoLit(fn.Body(), func(n ast.Node) bool {
			if as, ok := n.(*ast.AssignStmt); ok && len(as.Lhs) == 2 && len(as.Rhs) == 1 {
				if ie, ok := unparen(as.Rhs[0]).(*ast.IndexExpr); ok && sameVar(info, ie.X, meas) {
					exists = objOf(info, as.Lhs[1])
					if call, ok := unparen(ie.Index).(*ast.CallExpr); ok && isCallTo(info, call, "(*go.opentelemetry.io/otel/attribute.Set).Equivalent") {
						if recv, _ := methodCall(info, call); recv != nil && sameVar(info, recv, attrs) {
							keyOK = true
						}
					}
				}
			}
			return true
		})
		c.Check(keyOK && exists != nil, "R1", "aggregate|limiter.Attributes|membership test on attrs.Equivalent()", at(ax.M, fn.Pos()), "same identity as the aggregators' map key", "the limiter tests a different key than the aggregators store under")
		ovf, _ := ax.Pkg.Types.Scope().Lookup("overflowSet").(*types.Var)
		for _, lim := range []int64{-1, 0, 1, 2, 3} {
			for _, ex := range []bool{true, false} {
				good := true
				detail := ""
				for ln := int64(0); ln <= 4; ln++ {
					env := func(e ast.Expr) (constant.Value, bool) {
						switch {
						case isField(info, e, fLim):
							return constant.MakeInt64(lim), true
						case exists != nil && sameVar(info, e, exists):
							return constant.MakeBool(ex), true
						case isLenOf(info, e, func(x ast.Expr) bool { return sameVar(info, x, meas) }):
							return constant.MakeInt64(ln), true
						}
						return nil, false
					}
					seen := g.ReachUnder(env)
					over, plain := false, false
					for x := range seen {
						if rs, ok := x.N.(*ast.ReturnStmt); ok && len(rs.Results) == 1 {
							if ovf != nil && sameVar(info, rs.Results[0], ovf) {
								over = true
							} else if sameVar(info, rs.Results[0], attrs) {
								plain = true
							} else {
								good, detail = false, "unrecognised return "+exprStr(rs.Results[0])
							}
						}
					}
					want := lim > 0 && !ex && ln >= lim-1
					if over != want || plain == want {
						good = false
						detail = "len=" + itoa(int(ln)) + ": overflow=" + boolStr(over) + " want " + boolStr(want)
					}
				}
				c.Check(good, "R1", "aggregate|limiter.Attributes|aggLimit="+itoa(int(lim))+" exists="+boolStr(ex)+" len∈0..4", at(ax.M, fn.Pos()), "overflow iff limit>0 ∧ new ∧ len ≥ limit−1",
					"cardinality limit off by one or mis-gated ("+detail+"): the aggregator exceeds its limit, or redirects existing/allowed sets to overflow")
			}
		}
	}

	c.Rule("R2", "E4 + E1", "in every aggregator's measure the map is indexed (read and write-back) by limit.Attributes(fltrAttr, <that same map>).Equivalent(), obtained under the lock", 4)
	le := c.Locks(ax)
	limAttr := ax.Func("limiter.Attributes")
	for _, sp := range []struct{ fn, typ, mu string }{
		{"(*valueMap).measure", "valueMap", ".Mutex"}, {"(*lastValue).measure", "lastValue", ".Mutex"},
		{"(*histValues).measure", "histValues", ".valuesMu"}, {"(*expoHistogram).measure", "expoHistogram", ".valuesMu"},
	} {
		fn := c.Fn(ax, "R2", sp.fn)
		if fn == nil || limAttr == nil {
			continue
		}
		fVals := aggField(ax, sp.typ, "values")
		fltr := fn.Obj.Type().(*types.Signature).Params().At(2)
		// the look-up-or-create step may have been moved into a helper that measure calls with the lock held
		if w, pm := ax.workFunc(fn, func(n ast.Node) bool { call, ok := n.(*ast.CallExpr); return ok && callToDecl(info, limAttr)(call) }); w != nil && w != fn {
			if p := pm(fltr); p != nil {
				fn, fltr = w, p
			}
		}
		var attr types.Object
		var callNode ast.Node
		inspectNoLit(fn.Body(), func(n ast.Node) bool {
			if as, ok := n.(*ast.AssignStmt); ok && len(as.Lhs) == 1 && len(as.Rhs) == 1 {
				if call, ok := unparen(as.Rhs[0]).(*ast.CallExpr); ok && callToDecl(info, limAttr)(call) && len(call.Args) == 2 {
					if sameVar(info, call.Args[0], fltr) && isField(info, call.Args[1], fVals) {
						attr = objOf(info, as.Lhs[0])
						callNode = call
					}
				}
			}
			return true
		})
		key := "aggregate|" + sp.fn + "|map keyed by limit.Attributes(fltrAttr, values).Equivalent() under the lock"
		if attr == nil {
			c.Violation("R2", key, at(ax.M, fn.Pos()), "the limiter is not consulted with the filtered attributes against this aggregator's own values map")
			continue
		}
		held := le.HeldAt(fn, callNode)[varKey(fn.Recv())+resolvePath(ax.Pkg, sp.typ, sp.mu)]
		if !held {
			// a helper: the lock is its callers' business (discharged at every static call site)
			held, _ = le.Require(fn, callNode, varKey(fn.Recv())+resolvePath(ax.Pkg, sp.typ, sp.mu), false, 0)
		}
		good, why := true, ""
		n := 0
		inspectNoLit(fn.Body(), func(nd ast.Node) bool {
			if ie, ok := nd.(*ast.IndexExpr); ok && isField(info, ie.X, fVals) {
				n++
			}
			return true
		})
		// What matters is what can be INSERTED: on every path to a write values[k] = …, k is the identity of the set the limiter
		// returned (against this map), or k is known to be in the map already (the true arm of `_, ok := values[k]` with k
		// unchanged since). Reading by the unlimited key is harmless — it is how a fast path for known sets looks.
		// Decided per path: a walk over (vertex, facts) with the facts {limited variables, "the write's key is present"}.
		{
			g := ax.FG(fn)
			type st struct {
				lim  string       // sorted names of the variables that hold a limiter-derived value (by object id)
				okOf types.Object // the ok variable that reflects a lookup of the key (nil: none)
				pres bool
			}
			for _, w := range g.Nodes {
				was, isAs := w.N.(*ast.AssignStmt)
				if !isAs {
					continue
				}
				var wkey ast.Expr
				for _, l := range was.Lhs {
					if ie, ok := unparen(l).(*ast.IndexExpr); ok && isField(info, ie.X, fVals) {
						wkey = unparen(ie.Index)
					}
				}
				if wkey == nil {
					continue
				}
				sI := exprStr(wkey)
				mentions := func(v types.Object) bool {
					hit := false
					ast.Inspect(wkey, func(m ast.Node) bool {
						if id, ok := m.(*ast.Ident); ok && info.Uses[id] == v {
							hit = true
						}
						return !hit
					})
					return hit
				}
				limSet := func(s string) map[string]bool {
					out := map[string]bool{}
					for _, p := range strings.Split(s, ",") {
						if p != "" {
							out[p] = true
						}
					}
					return out
				}
				limStr := func(m map[string]bool) string {
					var ks []string
					for k, v := range m {
						if v {
							ks = append(ks, k)
						}
					}
					sort.Strings(ks)
					return strings.Join(ks, ",")
				}
				id := func(o types.Object) string { return fmt.Sprintf("%s@%d", o.Name(), o.Pos()) }
				isLimited := func(e ast.Expr, lim map[string]bool) bool {
					e = unparen(e)
					if call, ok := e.(*ast.CallExpr); ok {
						if callToDecl(info, limAttr)(call) && len(call.Args) == 2 && sameVar(info, call.Args[0], fltr) && isField(info, call.Args[1], fVals) {
							return true
						}
						if isCallTo(info, call, "(*go.opentelemetry.io/otel/attribute.Set).Equivalent") {
							if recv, _ := methodCall(info, call); recv != nil {
								if o := objOf(info, recv); o != nil && lim[id(o)] {
									return true
								}
								if rc, isC := unparen(recv).(*ast.CallExpr); isC && callToDecl(info, limAttr)(rc) {
									return true
								}
							}
						}
						return false
					}
					if o := objOf(info, e); o != nil {
						if _, isID := e.(*ast.Ident); isID {
							return lim[id(o)]
						}
					}
					return false
				}
				transfer := func(x *GNode, s st) st {
					as, ok := x.N.(*ast.AssignStmt)
					if !ok {
						return s
					}
					lim := limSet(s.lim)
					if len(as.Lhs) == 2 && len(as.Rhs) == 1 {
						// v, ok := values[K]
						if ie, isIx := unparen(as.Rhs[0]).(*ast.IndexExpr); isIx && isField(info, ie.X, fVals) {
							if o := objOf(info, as.Lhs[1]); o != nil {
								if exprStr(unparen(ie.Index)) == sI {
									s.okOf = o
								} else if s.okOf == o {
									s.okOf = nil
								}
							}
							if o := objOf(info, as.Lhs[0]); o != nil {
								delete(lim, id(o))
							}
							s.lim = limStr(lim)
							return s
						}
					}
					for i, l := range as.Lhs {
						lid, isID := unparen(l).(*ast.Ident)
						if !isID {
							continue
						}
						o := objOf(info, lid)
						if o == nil {
							continue
						}
						if s.okOf == o {
							s.okOf = nil
						}
						if mentions(o) {
							s.pres = false
							s.okOf = nil
						}
						delete(lim, id(o))
						if len(as.Lhs) == len(as.Rhs) && isLimited(as.Rhs[i], limSet(s.lim)) {
							lim[id(o)] = true
						}
					}
					s.lim = limStr(lim)
					return s
				}
				type key struct {
					x *GNode
					s st
				}
				seen := map[key]bool{}
				var q []key
				push := func(k key) {
					if !seen[k] {
						seen[k] = true
						q = append(q, k)
					}
				}
				push(key{g.Entry, st{}})
				for len(q) > 0 {
					k := q[0]
					q = q[1:]
					if k.x == w {
						if !(k.s.pres || isLimited(wkey, limSet(k.s.lim))) {
							good, why = false, "a path reaches the insertion values["+sI+"] = … with a key that is neither the limiter's result nor known to be in the map"
						}
					}
					out := transfer(k.x, k.s)
					for _, e := range k.x.Succs {
						ns := out
						if ns.okOf != nil && edgeImplies(e, func(cnd ast.Expr, pol int) bool { return pol > 0 && objOf(info, cnd) == ns.okOf }) {
							ns.pres = true
						}
						push(key{e.To, ns})
					}
				}
			}
		}
		// the limit decision and the insertion are one critical section: no release between the limiter call and any write of the map
		{
			g := ax.FG(fn)
			a := g.NodeOf(callNode)
			mu := varKey(fn.Recv()) + resolvePath(ax.Pkg, sp.typ, sp.mu)
			for _, x := range g.Nodes {
				as, ok := x.N.(*ast.AssignStmt)
				if !ok {
					continue
				}
				for _, l := range as.Lhs {
					if ie, ok := unparen(l).(*ast.IndexExpr); ok && isField(info, ie.X, fVals) {
						if rel := le.ReleasesBetween(fn, a, x, mu); rel != nil {
							good, why = false, "the lock is released at "+ax.M.posStr(rel.N.Pos())+" between the limit decision and the insertion (concurrent first uses of new sets all pass the limit, or overwrite each other)"
						}
					}
				}
			}
		}
		c.Check(held && good && n >= 2, "R2", key, at(ax.M, fn.Pos()), itoa(n)+" map accesses, all by the limited set", "the cardinality limit can be bypassed or races ("+why+", lock held at limiter call: "+boolStr(held)+")")
	}

	c.Rule("R3", "constant", "the overflow attribute set is exactly {otel.metric.overflow: true}", 1)
	{
		good := false
		for _, f := range ax.Pkg.Syntax {
			for _, d := range f.Decls {
				gd, ok := d.(*ast.GenDecl)
				if !ok {
					continue
				}
				for _, s := range gd.Specs {
					vs, ok := s.(*ast.ValueSpec)
					if !ok || len(vs.Names) != 1 || vs.Names[0].Name != "overflowSet" || len(vs.Values) != 1 {
						continue
					}
					call, ok := unparen(vs.Values[0]).(*ast.CallExpr)
					if !ok || !isCallTo(info, call, "go.opentelemetry.io/otel/attribute.NewSet") || len(call.Args) != 1 {
						continue
					}
					kv, ok := unparen(call.Args[0]).(*ast.CallExpr)
					if !ok || !isCallTo(info, kv, "go.opentelemetry.io/otel/attribute.Bool") || len(kv.Args) != 2 {
						continue
					}
					k, _ := constString(info, kv.Args[0])
					v := info.Types[kv.Args[1]].Value
					good = k == "otel.metric.overflow" && v != nil && v.Kind() == constant.Bool && constant.BoolVal(v)
				}
			}
		}
		c.Check(good, "R3", "aggregate|overflowSet|= NewSet(Bool(\"otel.metric.overflow\", true))", at(ax.M, ax.Pkg.Syntax[0].Pos()), "specified overflow attribute", "the overflow series does not carry the specified attribute otel.metric.overflow=true")
	}

	c.Rule("R4", "E8 fieldcover + E4", "cachedAggregator populates every exported field of aggregate.Builder from its configured source", 4)
	if bt := lookupType(ax.Pkg, "Builder"); bt != nil {
		st := bt.Underlying().(*types.Struct)
		var fields []string
		for i := 0; i < st.NumFields(); i++ {
			if st.Field(i).Exported() {
				fields = append(fields, st.Field(i).Name())
			}
		}
		known := map[string]bool{"Temporality": true, "Filter": true, "AggregationLimit": true, "ReservoirFunc": true}
		for _, f := range fields {
			if !known[f] {
				c.Undecided("R4", "aggregate|Builder|field "+f, at(ax.M, ax.Pkg.Syntax[0].Pos()), "Builder has a field the checker has no wiring rule for; read cachedAggregator and extend the table")
			}
		}
		ruleBuilderWiring(c, mx, "R4", []string{"Temporality", "Filter", "AggregationLimit", "ReservoirFunc"})
	} else {
		c.Missing("R4", "aggregate.Builder")
	}

	c.Rule("R8", "E3 ordering + E1 (shared with C02.R6)", "pipeline.produce calls every instrument's compute function and delivers its output: no early exit from the loop over the instruments and no discarding of the output once a delta aggregation has emptied its state — the total of the reported points stays the total of the measurements", 4)
	rulePipelineProduce(c, mx, "R8")
	c.Rule("R9", "E1 atomic section (shared with C02.R2)", "every delta collect method empties its map of attribute sets inside the collecting critical section: the limiter counts the sets of the current cycle only, so the first L-1 sets of a cycle keep their identity", 4)
	// judged on the function that does the work (a delta method that only forwards to the embedded aggregator's)
	saveFD := c.FollowDelegates
	c.FollowDelegates = true
	ruleDeltaAtomic(c, ax, "R9")
	c.FollowDelegates = saveFD

	// an observable id names exactly the measures of its latest registration: the registry entry is replaced, not extended
	for _, nm := range []string{"(*pipeline).addInt64Measure", "(*pipeline).addFloat64Measure"} {
		fn := c.Fn(mx, "R7", nm)
		if fn == nil {
			continue
		}
		sg := fn.Obj.Type().(*types.Signature).Params()
		if sg.Len() != 2 {
			continue
		}
		ps := []types.Object{sg.At(0), sg.At(1)}
		n, bad := 0, ""
		inspectNoLit(fn.Body(), func(nd ast.Node) bool {
			as, ok := nd.(*ast.AssignStmt)
			if !ok || len(as.Lhs) != 1 || len(as.Rhs) != 1 {
				return true
			}
			ie, ok := unparen(as.Lhs[0]).(*ast.IndexExpr)
			if !ok || !sameVar(minfo, ie.Index, ps[0]) {
				return true
			}
			n++
			if !sameVar(minfo, as.Rhs[0], ps[1]) {
				bad = exprStr(as.Rhs[0])
			}
			return true
		})
		c.Check(n == 1 && bad == "", "R7", "sdk/metric|"+nm+"|the entry of an observable id is replaced by the measures given", at(mx.M, fn.Pos()), "registry[id] = m",
			"the registry entry becomes "+bad+": registering the same observable again (another casing of its name resolves to the same aggregator) leaves the shared measure in the list twice and every observation is aggregated twice")
	}

	c.Rule("R5", "E3 dominance", "drop aggregation and de-duplication: a nil measure is never appended or registered; a measure whose aggregator id was already seen is not appended twice", 4)
	ruleInserterDedup(c, mx, "R5")
	if fn := c.Fn(mx, "R5", "(*inserter).cachedAggregator"); fn != nil {
		addSync := mx.Func("(*pipeline).addSync")
		for _, s := range mx.FindCalls(func(f *FuncInfo, call *ast.CallExpr) bool {
			return mx.Outer(f) == fn && callToDecl(minfo, addSync)(call)
		}) {
			g := mx.FG(s.F)
			x := g.NodeOf(s.N)
			ok, why := g.DominatedByEdges(x, func(e *GEdge) bool {
				return edgeImplies(e, func(cnd ast.Expr, pol int) bool {
					nn, good := nilCmp(minfo, cnd, pol, func(y ast.Expr) bool {
						tv, has := minfo.Types[y]
						if !has {
							return false
						}
						n := namedOf(tv.Type)
						return n != nil && n.Obj().Name() == "Measure" && n.Obj().Pkg() != nil && n.Obj().Pkg().Path() == aggPkg
					})
					return good && nn
				})
			})
			c.Check(ok, "R5", "sdk/metric|(*inserter).cachedAggregator|addSync only for a non-nil measure", mx.at(s), "drop aggregation registers nothing", "a dropped stream is registered for collection: "+why)
		}
	}

	// the attribute filter hands the aggregators a set whose identity must be that of the canonical set with the same contents
	// (attribute/set.go is among this property's anchors): kept attributes stay in key order
	// views: whatever aggregate inputs an inserter could build for a reader are wired to the instrument, also when it reports an
	// error for another view of the same instrument next to them (the clause "re-aggregating views neither lose nor duplicate
	// measurements"; same rule as C02.R5 for these two sites)
	c.Rule("R7", "E3 total fan-out", "resolver.Aggregators / HistogramAggregators append the measures of every reader pipeline on every iteration, error or not", 2)
	isAppendMeasures := func(info *types.Info, call *ast.CallExpr) bool {
		return builtinName(info, call) == "append" && call.Ellipsis.IsValid()
	}
	ruleFanout(c, mx, "R7", "resolver.Aggregators", isAppendMeasures, "append(measures, in...)")
	ruleFanout(c, mx, "R7", "resolver.HistogramAggregators", isAppendMeasures, "append(measures, in...)")

	c.Rule("R6", "E4 callee identity", "Set.Filter / NewSetWithFiltered keep the kept attributes in key order (no unstable sort over attribute slices): streams that become identical under a view's filter get the same identity and are added together", 1)
	if atx := c.Index(".", otelAttr); atx != nil {
		ruleNoUnstableAttrSort(c, atx, "R6")
	}
}

// ruleInserterDedup: the inserter turns the views matching an instrument into measure functions — no nil measure, one measure per
// distinct aggregator (the set is keyed by the id that came with that measure), and a drop result cannot hide a real aggregator.
// Shared by C12.R5 (views neither lose nor duplicate measurements) and C02.R11 (each measurement is counted once).
func ruleInserterDedup(c *Ctx, mx *PkgIndex, rule string) {
	minfo := mx.Pkg.TypesInfo
	if fn := c.Fn(mx, rule, "(*inserter).Instrument"); fn != nil {
		// every append of a measure function in the inserter's methods (Instrument and the helpers it may be split into)
		isMeasure := func(t types.Type) bool {
			n := namedOf(t)
			return n != nil && n.Obj().Name() == "Measure" && n.Obj().Pkg() != nil && n.Obj().Pkg().Path() == aggPkg
		}
		type appSite struct {
			f *FuncInfo
			g *FG
			x *GNode
		}
		var apps []appSite
		for _, f := range sortedFuncs(mx.Funcs) {
			if f.Recv() == nil || !typeIs(f.Recv().Type(), sdkMetric, "inserter") {
				continue
			}
			g := mx.FG(f)
			for _, x := range g.Match(func(n ast.Node) bool {
				as, ok := n.(*ast.AssignStmt)
				if !ok || len(as.Rhs) != 1 {
					return false
				}
				call, ok := unparen(as.Rhs[0]).(*ast.CallExpr)
				if !ok || builtinName(minfo, call) != "append" || len(call.Args) != 2 || call.Ellipsis.IsValid() {
					return false
				}
				tv, has := minfo.Types[call.Args[1]]
				return has && isMeasure(tv.Type)
			}) {
				apps = append(apps, appSite{f, g, x})
			}
		}
		cnt := map[string]int{}
		nLoop := 0
		for _, a := range apps {
			call := unparen(a.x.N.(*ast.AssignStmt).Rhs[0]).(*ast.CallExpr)
			in := objOf(minfo, call.Args[1])
			cnt[a.f.Name]++
			ok, why := a.g.DominatedByEdges(a.x, func(e *GEdge) bool {
				return edgeImplies(e, func(cnd ast.Expr, pol int) bool {
					nn, good := nilCmp(minfo, cnd, pol, func(y ast.Expr) bool { return in != nil && sameVar(minfo, y, in) })
					return good && nn
				})
			})
			c.Check(ok, rule, "sdk/metric|"+a.f.Name+"|append #"+itoa(cnt[a.f.Name])+" dominated by in != nil", at(mx.M, a.x.N.Pos()), "dropped streams add no measure", "a nil measure function is appended and later called: "+why)
			if !a.g.InCycle(a.x) {
				continue
			}
			// inside the view loop: dominated by "this aggregator id was not seen before" — the false outcome of a comma-ok look-up in
			// a local set that the id is added to
			nLoop++
			notSeen := map[types.Object]bool{}
			inspectNoLit(a.f.Body(), func(n ast.Node) bool {
				if as, ok := n.(*ast.AssignStmt); ok && len(as.Lhs) == 2 && len(as.Rhs) == 1 {
					if ie, ok := unparen(as.Rhs[0]).(*ast.IndexExpr); ok {
						if tv, has := minfo.Types[ie.X]; has {
							if _, isMap := tv.Type.Underlying().(*types.Map); isMap {
								if v, ok := objOf(minfo, ie.X).(*types.Var); ok && !v.IsField() {
									if o := objOf(minfo, as.Lhs[1]); o != nil {
										notSeen[o] = true
									}
								}
							}
						}
					}
				}
				return true
			})
			good, _ := a.g.DominatedByEdges(a.x, func(e *GEdge) bool {
				return edgeImplies(e, func(cnd ast.Expr, pol int) bool {
					if id, ok := cnd.(*ast.Ident); ok && pol < 0 && notSeen[minfo.Uses[id]] {
						return true
					}
					// the set kept as a slice: !slices.Contains(seen, id) with `seen` a local that ids are appended to
					if call, ok := cnd.(*ast.CallExpr); ok && pol < 0 && (isCallTo(minfo, call, "slices.Contains") || isCallTo(minfo, call, "slices.Index")) && len(call.Args) == 2 {
						if v, isV := objOf(minfo, call.Args[0]).(*types.Var); isV && !v.IsField() {
							return true
						}
					}
					return false
				})
			})
			c.Check(good, rule, "sdk/metric|"+a.f.Name+"|view-loop append dominated by the id-not-seen test", at(mx.M, a.x.N.Pos()), "one measure per distinct aggregator",
				"two views resolving to the same aggregator make every measurement count twice (no membership test on a set of aggregator ids guards the append)")
			// the set is keyed by the identity of the aggregator the measure belongs to: the id handed back by the same look-up that
			// handed back the measure (two streams that differ in a non-identifying field resolve to one aggregator; a key computed
			// from the stream tells them apart and the shared measure is appended twice)
			{
				var idObjs []types.Object
				var lookup *ast.CallExpr
				inspectNoLit(a.f.Body(), func(n ast.Node) bool {
					as, ok := n.(*ast.AssignStmt)
					if !ok || len(as.Rhs) != 1 || len(as.Lhs) < 2 {
						return true
					}
					call, ok := unparen(as.Rhs[0]).(*ast.CallExpr)
					if !ok {
						return true
					}
					hasIn := false
					for _, l := range as.Lhs {
						if in != nil && sameVar(minfo, l, in) {
							hasIn = true
						}
					}
					if !hasIn {
						return true
					}
					lookup = call
					for _, l := range as.Lhs {
						if o := objOf(minfo, l); o != nil && !(in != nil && o == in) {
							if b, isB := o.Type().Underlying().(*types.Basic); isB && b.Info()&types.IsInteger != 0 {
								idObjs = append(idObjs, o)
							}
						}
					}
					return true
				})
				if lookup != nil {
					keyOK, keyN := true, 0
					isID := func(e ast.Expr) bool {
						for _, o := range idObjs {
							if sameVar(minfo, e, o) {
								return true
							}
						}
						return false
					}
					inspectNoLit(a.f.Body(), func(n ast.Node) bool {
						switch x := n.(type) {
						case *ast.IndexExpr:
							if tv, has := minfo.Types[x.X]; has {
								if _, isMap := tv.Type.Underlying().(*types.Map); isMap {
									if v, ok := objOf(minfo, x.X).(*types.Var); ok && !v.IsField() && a.g.InCycle(a.g.NodeOf(x)) {
										keyN++
										if !isID(x.Index) {
											keyOK = false
										}
									}
								}
							}
						case *ast.CallExpr:
							if (isCallTo(minfo, x, "slices.Contains") || isCallTo(minfo, x, "slices.Index")) && len(x.Args) == 2 {
								if v, isV := objOf(minfo, x.Args[0]).(*types.Var); isV && !v.IsField() {
									keyN++
									if !isID(x.Args[1]) {
										keyOK = false
									}
								}
							}
						}
						return true
					})
					if keyN > 0 {
						c.Check(keyOK, rule, "sdk/metric|"+a.f.Name+"|the seen-set is keyed by the aggregator id that came with the measure", at(mx.M, a.x.N.Pos()), itoa(keyN)+" access(es), all by the id result of "+exprStr(lookup.Fun),
							"the set of handled aggregators is keyed by something other than the id returned with the measure: two views whose streams differ only in a field the aggregator cache ignores share one aggregator, are not recognised as the same, and every measurement is counted twice")
					}
				}
			}
			// an id enters the set only together with a real measure — or the ids of real aggregators cannot equal the id that comes
			// with a nil measure (drop / error results carry the zero id): otherwise a drop view listed first hides the aggregator
			// that happens to own that id, and its stream loses every measurement
			{
				var setStores []*GNode
				for _, y := range a.g.Nodes {
					as, ok := y.N.(*ast.AssignStmt)
					if !ok || !a.g.InCycle(y) {
						continue
					}
					for i, l := range as.Lhs {
						if ie, ok := unparen(l).(*ast.IndexExpr); ok {
							if tv, has := minfo.Types[ie.X]; has {
								if _, isMap := tv.Type.Underlying().(*types.Map); isMap {
									if v, ok := objOf(minfo, ie.X).(*types.Var); ok && !v.IsField() {
										setStores = append(setStores, y)
									}
								}
							}
						}
						if i < len(as.Rhs) {
							if call, ok := unparen(as.Rhs[i]).(*ast.CallExpr); ok && builtinName(minfo, call) == "append" && len(call.Args) == 2 {
								if v, ok := objOf(minfo, l).(*types.Var); ok && !v.IsField() {
									if tv, has := minfo.Types[call.Args[1]]; has && !isMeasure(tv.Type) {
										if b, isB := tv.Type.Underlying().(*types.Basic); isB && b.Info()&types.IsInteger != 0 {
											setStores = append(setStores, y)
										}
									}
								}
							}
						}
					}
				}
				guarded := len(setStores) > 0
				for _, y := range setStores {
					ok, _ := a.g.DominatedByEdges(y, func(e *GEdge) bool {
						return edgeImplies(e, func(cnd ast.Expr, pol int) bool {
							nn, good := nilCmp(minfo, cnd, pol, func(z ast.Expr) bool { return in != nil && sameVar(minfo, z, in) })
							return good && nn
						})
					})
					if !ok {
						guarded = false
					}
				}
				// ids of real aggregators start above zero: the value returned by an atomic add of a positive constant
				preInc := false
				if ca := mx.Func("(*inserter).cachedAggregator"); ca != nil {
					for _, f := range mx.All {
						if mx.Outer(f) != ca {
							continue
						}
						fg := mx.FG(f)
						inspectNoLit(f.Body(), func(n ast.Node) bool {
							cl, ok := n.(*ast.CompositeLit)
							if !ok || len(cl.Elts) == 0 {
								return true
							}
							if nn := namedOf(minfo.TypeOf(cl)); nn == nil || nn.Obj().Name() != "aggVal" {
								return true
							}
							idx := cl.Elts[0]
							if kv, isKV := idx.(*ast.KeyValueExpr); isKV {
								idx = nil
								for _, el := range cl.Elts {
									if k2, ok := el.(*ast.KeyValueExpr); ok {
										if kid, ok := k2.Key.(*ast.Ident); ok && kid.Name == "ID" {
											idx = k2.Value
										}
									}
								}
								_ = kv
							}
							if idx == nil {
								return true
							}
							e := unparen(idx)
							if id, isID := e.(*ast.Ident); isID {
								if d := fg.LocalDef(minfo.Uses[id]); d != nil {
									e = unparen(d)
								}
							}
							if call, ok := e.(*ast.CallExpr); ok && len(call.Args) >= 1 {
								if isCallTo(minfo, call, "sync/atomic.AddUint64") || isCallTo(minfo, call, "sync/atomic.AddInt64") || isCallTo(minfo, call, "(*sync/atomic.Uint64).Add") || isCallTo(minfo, call, "(*sync/atomic.Int64).Add") {
									if v, isC := constInt(minfo, call.Args[len(call.Args)-1]); isC && v > 0 {
										preInc = true
									}
								}
							}
							return true
						})
					}
				}
				c.Check(guarded || preInc, rule, "sdk/metric|"+a.f.Name+"|a drop result cannot mark a real aggregator as seen", at(mx.M, a.x.N.Pos()), "ids enter the set only with a real measure (or real ids are never the zero id)",
					"the id that comes with a nil measure (0) is recorded as seen, and real aggregator ids are not shown to differ from it: a drop or failed view listed before another view makes that view's stream lose every measurement")
			}
		}
		if len(apps) < 2 || nLoop < 1 {
			c.Violation(rule, "sdk/metric|(*inserter).Instrument|appends", at(mx.M, fn.Pos()), "expected the view-loop append and the default-stream append in the inserter's methods, found "+itoa(len(apps))+" ("+itoa(nLoop)+" in a loop)")
		}
	}
}
