package main

import (
	"go/ast"
	"go/token"
	"go/types"
	"os"
	"sort"
	"sync"

	"golang.org/x/tools/go/packages"
)

type pkgT = packages.Package

func sortedFuncs(m map[string]*FuncInfo) []*FuncInfo {
	var ks []string
	for k := range m {
		ks = append(ks, k)
	}
	sort.Strings(ks)
	out := make([]*FuncInfo, 0, len(ks))
	for _, k := range ks {
		out = append(out, m[k])
	}
	return out
}

// LitUse says how a function literal is used at its creation site.
type LitUse int

const (
	LitOther   LitUse = iota // stored, passed as a callback, returned …
	LitCalled                // func(){…}() — runs in place
	LitOnceDo                // sync.Once.Do(func(){…}) — runs in place, at most once
	LitGo                    // go func(){…}()
	LitDefer                 // defer func(){…}()
	LitSyncArg               // passed to a same-package function that calls its parameter synchronously (see PkgIndex.syncParams)
)

// PkgIndex indexes the functions, literals and call sites of one package.
type PkgIndex struct {
	M     *Module
	Pkg   *pkgT
	Funcs map[string]*FuncInfo // declarations by name
	All   []*FuncInfo          // declarations and literals
	// per literal
	Parent map[*ast.FuncLit]*FuncInfo
	Use    map[*ast.FuncLit]LitUse
	OfLit  map[*ast.FuncLit]*FuncInfo
	// call sites by (origin) callee
	Calls map[*types.Func][]CallSite
	// method values / function values taken (not called): f escapes
	Escapes map[*types.Func][]token.Pos

	mu    sync.Mutex
	fgs   map[*FuncInfo]*FG
	specs map[*FuncInfo]*FuncInfo // delegating method → its shared implementation specialised to that call (delegateUnder)
}

type CallSite struct {
	In   *FuncInfo
	Call *ast.CallExpr
	Go   bool // go f(...)
	Def  bool // defer f(...)
}

func NewPkgIndex(m *Module, p *pkgT) *PkgIndex {
	recordAllFuncs(p, pkgFuncs(m, p))
	// helpers that did not exist on the pinned tree are expanded into their callers first (inline.go)
	normalisePackage(m, p)
	ix := &PkgIndex{M: m, Pkg: p, Funcs: pkgFuncs(m, p), Parent: map[*ast.FuncLit]*FuncInfo{}, Use: map[*ast.FuncLit]LitUse{},
		OfLit: map[*ast.FuncLit]*FuncInfo{}, Calls: map[*types.Func][]CallSite{}, Escapes: map[*types.Func][]token.Pos{}, fgs: map[*FuncInfo]*FG{}}
	info := p.TypesInfo
	for _, f := range sortedFuncs(ix.Funcs) {
		ix.All = append(ix.All, f)
		ix.scan(f, f.Decl.Body, info)
		if f.Obj != nil {
			declRegistry.Store(f.Obj.Origin(), f)
		}
	}
	return ix
}

// declRegistry: resolved function object → its declaration, for every package indexed so far (used by the decision-table
// evaluator to fold calls of small pure helpers).
var declRegistry sync.Map

func declOf(fn *types.Func) *FuncInfo {
	if fn == nil {
		return nil
	}
	if v, ok := declRegistry.Load(fn.Origin()); ok {
		return v.(*FuncInfo)
	}
	return nil
}

// scan walks the body of fn (not descending into nested literals, which are scanned recursively as their own functions).
func (ix *PkgIndex) scan(fn *FuncInfo, body ast.Node, info *types.Info) {
	var stack []ast.Node
	calledFun := map[ast.Expr]bool{}
	nlit := 0
	ast.Inspect(body, func(n ast.Node) bool {
		if n == nil {
			stack = stack[:len(stack)-1]
			return false
		}
		switch x := n.(type) {
		case *ast.CallExpr:
			calledFun[unparen(x.Fun)] = true
			if f := callee(info, x); f != nil {
				cs := CallSite{In: fn, Call: x}
				if len(stack) > 0 {
					switch p := stack[len(stack)-1].(type) {
					case *ast.GoStmt:
						cs.Go = p.Call == x
					case *ast.DeferStmt:
						cs.Def = p.Call == x
					}
				}
				ix.Calls[f.Origin()] = append(ix.Calls[f.Origin()], cs)
			}
		case *ast.SelectorExpr:
			if !calledFun[x] {
				if f, ok := info.Uses[x.Sel].(*types.Func); ok {
					ix.Escapes[f.Origin()] = append(ix.Escapes[f.Origin()], x.Pos())
				}
			}
		case *ast.Ident:
			if !calledFun[x] {
				if f, ok := info.Uses[x].(*types.Func); ok {
					isSel := false
					if len(stack) > 0 {
						if se, ok := stack[len(stack)-1].(*ast.SelectorExpr); ok && se.Sel == x {
							isSel = true // handled by the SelectorExpr case
						}
					}
					if !isSel {
						ix.Escapes[f.Origin()] = append(ix.Escapes[f.Origin()], x.Pos())
					}
				}
			}
		case *ast.FuncLit:
			nlit++
			li := &FuncInfo{M: fn.M, Pkg: fn.Pkg, Lit: x, Name: fn.Name + "$" + itoa(nlit)}
			ix.All = append(ix.All, li)
			ix.Parent[x] = fn
			ix.OfLit[x] = li
			ix.Use[x] = classifyLit(info, x, stack)
			ix.scan(li, x.Body, info)
			return false
		}
		stack = append(stack, n)
		return true
	})
}

func classifyLit(info *types.Info, l *ast.FuncLit, stack []ast.Node) LitUse {
	if len(stack) == 0 {
		return LitOther
	}
	p := stack[len(stack)-1]
	if pe, ok := p.(*ast.ParenExpr); ok && len(stack) > 1 {
		_ = pe
		p = stack[len(stack)-2]
	}
	call, ok := p.(*ast.CallExpr)
	if !ok {
		return LitOther
	}
	if unparen(call.Fun) == ast.Expr(l) {
		// who holds the call?
		if len(stack) > 1 {
			switch stack[len(stack)-2].(type) {
			case *ast.GoStmt:
				return LitGo
			case *ast.DeferStmt:
				return LitDefer
			}
		}
		return LitCalled
	}
	if isCallTo(info, call, "(*sync.Once).Do") {
		return LitOnceDo
	}
	return LitOther
}

func (ix *PkgIndex) FG(f *FuncInfo) *FG {
	ix.mu.Lock()
	defer ix.mu.Unlock()
	if g, ok := ix.fgs[f]; ok {
		return g
	}
	g := NewFG(f)
	ix.fgs[f] = g
	if d := os.Getenv("VERIF_DUMPFG"); d != "" && d == f.Name {
		g.Dump(os.Stderr)
	}
	return g
}

// Func returns the declaration with the given name or nil.
func (ix *PkgIndex) Func(name string) *FuncInfo {
	if f, ok := ix.Funcs[name]; ok {
		recordFunc(ix.Pkg, name, f)
		return f
	}
	return lookupFunc(ix.M, ix.Pkg, name)
}

// ByObj finds the declaration of a function object.
func (ix *PkgIndex) ByObj(o *types.Func) *FuncInfo {
	if o == nil {
		return nil
	}
	o = o.Origin()
	for _, f := range ix.Funcs {
		if f.Obj != nil && f.Obj.Origin() == o {
			return f
		}
	}
	return nil
}

// Enclosing returns the innermost function (declaration or literal) whose body contains pos.
func (ix *PkgIndex) Enclosing(pos token.Pos) *FuncInfo {
	var best *FuncInfo
	for _, f := range ix.All {
		b := f.Body()
		if b.Pos() <= pos && pos < b.End() {
			if best == nil || (b.End()-b.Pos()) < (best.Body().End()-best.Body().Pos()) {
				best = f
			}
		}
	}
	return best
}

// Outer returns the enclosing declaration of a function (itself for declarations).
func (ix *PkgIndex) Outer(f *FuncInfo) *FuncInfo {
	for f != nil && f.Lit != nil {
		f = ix.Parent[f.Lit]
	}
	return f
}
