package main

import (
	"go/ast"
	"go/token"
	"go/types"
	"sort"
)

func init() {
	register(&PropDoc{
		ID:      "C10",
		Modules: []string{"sdk"},
		NotDecided: "data-race freedom as a whole (only the lock discipline of the listed fields), absence of panics, atomicity of multi-field mutations beyond single critical sections, " +
			"exactly-once delivery of OnEnd as a schedule property (decided: the check-then-act section is atomic).",
		Fn: c10,
	})
}

var spanGuarded = []string{"name", "endTime", "status", "childSpanCount", "attributes", "droppedAttributes", "events", "links", "executionTracerTaskEnd"}
var spanCtorOnly = []string{"parent", "spanKind", "startTime", "spanContext", "tracer"}

// spanMuGuard is the guarded-by table entry of recordingSpan (shared by C04 and C10).
func spanMuGuard() GuardSpec {
	return GuardSpec{Type: "recordingSpan", Mutex: ".mu", Fields: spanGuarded,
		Exempt: map[string]string{
			"(*recordingSpan).runtimeTrace|name": "read in tracer.Start before the span is returned to its creator; only an OnStart processor that leaks the span to another goroutine could race it (noted in DESIGN §4 as a candidate, not armed)",
		}}
}

func c10(c *Ctx) {
	ix := c.Index("sdk", sdkTrace)
	if ix == nil {
		return
	}
	info := ix.Pkg.TypesInfo
	le := c.Locks(ix)

	c.Rule("R1", "E1 guarded-by", "fields of recordingSpan that are written after construction are accessed only under s.mu; construction-only fields have no later writer", 60)
	le.GuardedBy(c.Run, "R1", spanMuGuard())
	ctorOnly := map[*types.Var]bool{}
	for _, n := range spanCtorOnly {
		if v := lookupField(ix.Pkg, "recordingSpan", n); v != nil {
			ctorOnly[v.Origin()] = true
		} else {
			c.Missing("R1", "sdk/trace.recordingSpan."+n)
		}
	}
	nw := 0
	for _, a := range ix.fieldAccesses(ctorOnly) {
		if !a.Write {
			continue
		}
		nw++
		c.Check(ix.freshLocal(a.F, a.Sel.X), "R1", "sdk/trace|"+a.F.Name+"|write construction-only recordingSpan."+a.Field.Name(), at(ix.M, a.Sel.Pos()),
			"written only while the span is private to its constructor", "field is read without the lock everywhere on the assumption that it never changes after construction")
	}
	if nw == 0 {
		c.OK("R1", "sdk/trace|recordingSpan|construction-only fields have no writer outside composite literals", at(ix.M, ix.Pkg.Syntax[0].Pos()), "no assignment found")
	}

	end := c.Fn(ix, "R2", "(*recordingSpan).End")
	fEnd := lookupField(ix.Pkg, "recordingSpan", "endTime")
	isRec := ix.Func("(*recordingSpan).isRecording")
	if end == nil || fEnd == nil || isRec == nil {
		c.Missing("R2", "sdk/trace recordingSpan.End/endTime/isRecording")
		return
	}

	// R2 check-then-act atomic
	c.Rule("R2", "E1 atomic section", "in End the isRecording() test and the store to endTime are in one critical section of s.mu on every path", 1)
	g := ix.FG(end)
	stores := g.Match(func(n ast.Node) bool {
		return assignRHS(n, func(e ast.Expr) bool { return isField(info, e, fEnd) }) != nil
	})
	ruleEndAtomic(c, ix, le, "R2")
	// … and what End stores is an ended time in the sense of isRecording (endTime.IsZero() is the test): the monotonic "now", or a
	// caller-supplied timestamp that was itself found !IsZero(). A zero instant in another location is != time.Time{} and still
	// IsZero: stored as end time it leaves the span recording, and every further End delivers it again.
	{
		isTimestampCall := func(e ast.Expr) bool {
			call, ok := unparen(e).(*ast.CallExpr)
			if !ok {
				return false
			}
			cf := callee(info, call)
			return cf != nil && cf.Name() == "Timestamp"
		}
		isZeroOf := func(cnd ast.Expr, val ast.Expr) bool {
			call, ok := unparen(cnd).(*ast.CallExpr)
			if !ok || !isCallTo(info, call, "(time.Time).IsZero") {
				return false
			}
			recv, _ := methodCall(info, call)
			if recv == nil {
				return false
			}
			if o := objOf(info, val); o != nil {
				return sameVar(info, recv, o)
			}
			return isTimestampCall(val) && isTimestampCall(recv)
		}
		var judge func(e ast.Expr, at *GNode, depth int) string
		judge = func(e ast.Expr, at *GNode, depth int) string {
			e = unparen(e)
			guarded := func(val ast.Expr) bool {
				d, _ := g.DominatedByEdges(at, func(ed *GEdge) bool {
					return edgeImplies(ed, func(cnd ast.Expr, pol int) bool { return pol < 0 && isZeroOf(cnd, val) })
				})
				return d
			}
			if isTimestampCall(e) {
				if guarded(e) {
					return ""
				}
				// store first, repair after: s.endTime = ts; if s.endTime.IsZero() { s.endTime = et } — from the store every way on
				// crosses the !IsZero() outcome of a test of the field, or another store to it
				isFieldZero := func(cnd ast.Expr) bool {
					call, ok := unparen(cnd).(*ast.CallExpr)
					if !ok || !isCallTo(info, call, "(time.Time).IsZero") {
						return false
					}
					recv, _ := methodCall(info, call)
					return recv != nil && isField(info, recv, fEnd)
				}
				otherStores := map[*GNode]bool{}
				for _, st2 := range stores {
					if st2 != at {
						otherStores[st2] = true
					}
				}
				seen, _ := g.Reach([]*GNode{at}, func(y *GNode) bool { return otherStores[y] }, func(ed *GEdge) bool {
					return edgeImplies(ed, func(cnd ast.Expr, pol int) bool { return pol < 0 && isFieldZero(cnd) })
				})
				if !seen[g.Exit] {
					return ""
				}
				return "the option's timestamp is stored without having been found !IsZero()"
			}
			if call, ok := e.(*ast.CallExpr); ok {
				if isCallTo(info, call, "cmp.Or") || isCallTo(info, call, "max") || isCallTo(info, call, "min") {
					return exprStr(e) + " selects by comparison with the zero value, not by IsZero()"
				}
				return "" // a clock reading
			}
			if v, ok := objOf(info, e).(*types.Var); ok && !v.IsField() && depth < 3 {
				// every definition of the local: a clock reading / parameter, or a timestamp assigned under its own !IsZero()
				bad := ""
				for _, y := range g.Nodes {
					as, isAs := y.N.(*ast.AssignStmt)
					if !isAs || len(as.Lhs) != len(as.Rhs) {
						continue
					}
					for i, l := range as.Lhs {
						if !sameVar(info, l, v) {
							continue
						}
						r := unparen(as.Rhs[i])
						if isTimestampCall(r) {
							// ts := config.Timestamp(): fine if the use is guarded by !ts.IsZero() (checked at the use) or the
							// assignment itself is
							d1, _ := g.DominatedByEdges(at, func(ed *GEdge) bool {
								return edgeImplies(ed, func(cnd ast.Expr, pol int) bool { return pol < 0 && isZeroOf(cnd, l) })
							})
							d2, _ := g.DominatedByEdges(y, func(ed *GEdge) bool {
								return edgeImplies(ed, func(cnd ast.Expr, pol int) bool { return pol < 0 && isZeroOf(cnd, r) })
							})
							// … or repaired before the use: endTime := config.Timestamp(); if endTime.IsZero() { endTime = et } — from
							// the assignment every way to the use crosses the !IsZero() outcome of a test of the local, or another
							// assignment to it (judged on its own)
							d3 := false
							if !d1 && !d2 {
								reassigned := func(z *GNode) bool {
									if z == y {
										return false
									}
									as2, isAs2 := z.N.(*ast.AssignStmt)
									if !isAs2 {
										return false
									}
									for _, l2 := range as2.Lhs {
										if sameVar(info, l2, v) {
											return true
										}
									}
									return false
								}
								seen, _ := g.Reach([]*GNode{y}, reassigned, func(ed *GEdge) bool {
									return edgeImplies(ed, func(cnd ast.Expr, pol int) bool { return pol < 0 && isZeroOf(cnd, l) })
								})
								d3 = !seen[at]
							}
							if !d1 && !d2 && !d3 {
								bad = "the local " + v.Name() + " can hold the option's timestamp without it having been found !IsZero()"
							}
							continue
						}
						if w := judge(r, y, depth+1); w != "" {
							bad = w
						}
					}
				}
				return bad
			}
			return ""
		}
		nSt, bad := 0, ""
		var badPos token.Pos
		for _, st := range stores {
			r := assignRHS(st.N, func(e ast.Expr) bool { return isField(info, e, fEnd) })
			if r == nil {
				continue
			}
			nSt++
			if w := judge(r, st, 0); w != "" {
				bad, badPos = w, st.N.Pos()
			}
		}
		if nSt > 0 {
			pos := end.Pos()
			if bad != "" {
				pos = badPos
			}
			c.Check(bad == "", "R2", "sdk/trace|(*recordingSpan).End|the stored end time is never IsZero()", at(ix.M, pos), itoa(nSt)+" store(s): the clock, or a timestamp found !IsZero()",
				"End can store an end time for which IsZero() holds (e.g. WithTimestamp(time.Time{}.Local())): the span keeps recording after End and every further End delivers it to the processors again — "+bad)
		}
	}
	// … and IsRecording answers from state that End changes inside that same critical section: a flag published after the
	// unlock lets a racing second End return (its isRecording() test fails at once) while IsRecording still says true
	if isRecPub := c.Fn(ix, "R2", "(*recordingSpan).IsRecording"); isRecPub != nil {
		spanT := namedOf(end.Recv().Type())
		reads := map[*types.Var]token.Pos{}
		var collect func(f *FuncInfo, depth int)
		collect = func(f *FuncInfo, depth int) {
			if f == nil || f.Body() == nil || depth > 3 {
				return
			}
			inspectNoLit(f.Body(), func(n ast.Node) bool {
				switch x := n.(type) {
				case *ast.SelectorExpr:
					if fv, b := fieldOf(info, x); fv != nil && b != nil {
						if tv, ok := info.Types[b]; ok && spanT != nil && namedOf(tv.Type) != nil && namedOf(tv.Type).Obj() == spanT.Obj() {
							if _, isMu := fv.Type().(*types.Named); !isMu || !(typeIs(fv.Type(), "sync", "Mutex") || typeIs(fv.Type(), "sync", "RWMutex")) {
								if _, have := reads[fv.Origin()]; !have {
									reads[fv.Origin()] = x.Pos()
								}
							}
						}
					}
				case *ast.CallExpr:
					if cf := callee(info, x); cf != nil {
						if d := ix.declByObj(cf); d != nil && d.Recv() != nil && namedOf(d.Recv().Type()) != nil && spanT != nil && namedOf(d.Recv().Type()).Obj() == spanT.Obj() {
							collect(d, depth+1)
						}
					}
				}
				return true
			})
		}
		collect(isRecPub, 0)
		recvKey := varKey(end.Recv()) + resolvePath(ix.Pkg, "recordingSpan", ".mu")
		var names []string
		for fv := range reads {
			names = append(names, fv.Name())
		}
		sort.Strings(names)
		for _, nm := range names {
			var fv *types.Var
			for v := range reads {
				if v.Name() == nm {
					fv = v
				}
			}
			// writes of fv in End: assignments and atomic Store/Swap/CompareAndSwap calls on the field
			nw, bad := 0, ""
			var badPos token.Pos
			for _, x := range g.Nodes {
				if x.N == nil {
					continue
				}
				if _, isDefer := x.N.(*ast.DeferStmt); isDefer {
					continue
				}
				w := false
				inspectNoLit(x.N, func(n ast.Node) bool {
					switch y := n.(type) {
					case *ast.AssignStmt:
						for _, l := range y.Lhs {
							if f2, _ := fieldOf(info, l); f2 != nil && f2.Origin() == fv {
								w = true
							}
						}
					case *ast.CallExpr:
						if recv, m := methodCall(info, y); m != nil && recv != nil {
							if f2, _ := fieldOf(info, recv); f2 != nil && f2.Origin() == fv {
								switch m.Name() {
								case "Store", "Swap", "CompareAndSwap", "Add":
									w = true
								}
							}
						}
					}
					return true
				})
				if !w {
					continue
				}
				nw++
				if !le.Held(end)[x][recvKey] {
					bad, badPos = "End changes "+nm+" outside the critical section of s.mu that ends the span", x.N.Pos()
				}
			}
			if nw == 0 {
				continue // state End does not change (nil receiver, tracer …)
			}
			pos := reads[fv]
			if bad != "" {
				pos = badPos
			}
			c.Check(bad == "", "R2", "sdk/trace|(*recordingSpan).IsRecording|"+nm+" changes inside End's critical section", at(ix.M, pos), "IsRecording reads what End writes under s.mu together with endTime",
				bad+": a second End racing the first returns while IsRecording() still reports true (the span does not report not-recording once End has returned)")
		}
	}

	// R3 End order, fan-out outside the lock
	c.Rule("R3", "E3 ordering + total fan-out + E1 not-under-lock", "End: endTime store → unlock → snapshot() once → total loop calling OnEnd(snapshot); no SpanProcessor/SpanExporter method runs while a span mutex may be held", 4)
	snapF := ix.Func("(*recordingSpan).snapshot")
	if snapF == nil {
		c.Missing("R3", "sdk/trace.(*recordingSpan).snapshot")
	} else {
		isSnapCall := func(n ast.Node) bool {
			call, ok := n.(*ast.CallExpr)
			if !ok {
				return false
			}
			f := callee(info, call)
			return f != nil && f.Origin() == snapF.Obj.Origin()
		}
		snaps := g.Match(isSnapCall)
		st := map[*GNode]bool{}
		for _, x := range stores {
			st[x] = true
		}
		// the snapshot and the fan-out may have been moved, together, into a helper End calls after marking the span ended
		gEnd := g
		viaHelper := (*GNode)(nil)
		if len(snaps) == 0 {
			if w, _ := ix.workFunc(end, isSnapCall); w != nil && w != end {
				for _, x := range g.Match(func(n ast.Node) bool { call, ok := n.(*ast.CallExpr); return ok && callToDecl(info, w)(call) }) {
					viaHelper = x
				}
				if viaHelper != nil {
					g = ix.FG(w)
					snaps = g.Match(isSnapCall)
				}
			}
		}
		okSnap := len(snaps) == 1
		if okSnap {
			if viaHelper != nil {
				d, _ := gEnd.DominatedByNodes(viaHelper, st)
				okSnap = d && !gEnd.InCycle(viaHelper) && !g.InCycle(snaps[0])
			} else {
				d, _ := g.DominatedByNodes(snaps[0], st)
				okSnap = d && !g.InCycle(snaps[0])
			}
		}
		c.Check(okSnap, "R3", "sdk/trace|(*recordingSpan).End|snapshot taken once, after endTime is stored", at(ix.M, end.Pos()),
			"one snapshot() call, dominated by the endTime store, outside any loop", "End must take exactly one snapshot after marking the span ended (every processor sees the same final state)")
		// OnEnd fan-out
		onEnds := g.Match(func(n ast.Node) bool {
			call, ok := n.(*ast.CallExpr)
			return ok && isCallTo(info, call, "("+sdkTrace+".SpanProcessor).OnEnd")
		})
		if len(onEnds) != 1 {
			c.Violation("R3", "sdk/trace|(*recordingSpan).End|OnEnd fan-out total", at(ix.M, end.Pos()), "expected exactly one OnEnd call site in End, found "+itoa(len(onEnds)))
		} else {
			x := onEnds[0]
			ok, why := totalFanout(g, x)
			sn := map[*GNode]bool{}
			for _, y := range snaps {
				sn[y] = true
			}
			d, _ := g.DominatedByNodes(x, sn)
			// the argument is the snapshot variable
			argOK := false
			if len(snaps) == 1 {
				if as, ok := snaps[0].N.(*ast.AssignStmt); ok && len(as.Lhs) == 1 {
					v := objOf(info, as.Lhs[0])
					inspectNoLit(x.N, func(n ast.Node) bool {
						if call, ok := n.(*ast.CallExpr); ok && isCallTo(info, call, "("+sdkTrace+".SpanProcessor).OnEnd") && len(call.Args) == 1 {
							argOK = sameVar(info, call.Args[0], v)
						}
						return true
					})
				}
			}
			c.Check(ok && d && argOK, "R3", "sdk/trace|(*recordingSpan).End|OnEnd fan-out total", at(ix.M, x.N.Pos()),
				"every loaded processor receives OnEnd(snapshot) on every iteration", "a registered processor can be skipped, or receives something other than the one snapshot: "+why)
			// … and the fan-out is reached: once the span is marked ended, every way out of End goes through the loop over the
			// loaded processors, except where that list is known to be empty (a span that is ended but never delivered is lost:
			// "delivered to every registered processor exactly once" has no second chance, End is a no-op from then on)
			var loop *ast.RangeStmt
			inspectNoLit(end.Body(), func(n ast.Node) bool {
				if r, isR := n.(*ast.RangeStmt); isR && containsNoLitOrIn(r.Body, x.N) {
					loop = r
				}
				return true
			})
			if loop == nil {
				c.Undecided("R3", "sdk/trace|(*recordingSpan).End|the fan-out is reached once the span is ended", at(ix.M, x.N.Pos()), "OnEnd is not called from a range loop over the processors")
			} else {
				head := g.NodeOf(loop.X)
				ranged := objOf(info, loop.X)
				empty := func(ed *GEdge) bool {
					return ranged != nil && edgeImplies(ed, func(cnd ast.Expr, pol int) bool {
						l, op, r, okc := cmpNorm(cnd, pol)
						if !okc {
							return false
						}
						isLen := func(e ast.Expr) bool {
							return isLenOf(info, e, func(y ast.Expr) bool { return objOf(info, y) == ranged })
						}
						if v, isC := constInt(info, r); isC && isLen(l) {
							return (op == token.EQL && v == 0) || (op == token.LEQ && v == 0) || (op == token.LSS && v == 1)
						}
						if v, isC := constInt(info, l); isC && isLen(r) {
							return (op == token.EQL && v == 0) || (op == token.GEQ && v == 0) || (op == token.GTR && v == 1)
						}
						return false
					})
				}
				reached, whyR := head != nil, ""
				for _, st := range stores {
					if head == nil {
						break
					}
					seen, par := g.Reach([]*GNode{st}, func(y *GNode) bool { return y == head }, empty)
					if seen[g.Exit] {
						reached, whyR = false, g.pathLines(par, g.Exit)
					}
				}
				c.Check(reached, "R3", "sdk/trace|(*recordingSpan).End|the fan-out is reached once the span is ended", at(ix.M, loop.Pos()),
					"after the endTime store every exit passes the loop over the loaded processors (or the list is empty)",
					"End can mark the span ended and return without delivering it to the registered processors ("+whyR+"): the span is never exported, and a later End is a no-op")
			}
		}
	}
	g = ix.FG(end)
	// no processor/exporter call while a recordingSpan mutex may be held
	spanT := lookupType(ix.Pkg, "recordingSpan")
	for _, s := range ix.FindCalls(func(f *FuncInfo, call *ast.CallExpr) bool {
		cf := callee(info, call)
		if cf == nil {
			return false
		}
		recvT := cf.Type().(*types.Signature).Recv()
		if recvT == nil {
			return false
		}
		return typeIs(recvT.Type(), sdkTrace, "SpanProcessor") || typeIs(recvT.Type(), sdkTrace, "SpanExporter")
	}) {
		may := le.MayHeldAt(s.F, s.N)
		bad := ""
		for k := range may {
			if isMutexOfType(ix, s.F, k, spanT, "mu") {
				bad = k
			}
		}
		cf := callee(info, s.N.(*ast.CallExpr))
		c.Check(bad == "", "R3", "sdk/trace|"+s.F.Name+"|call "+cf.Name()+" not under a span mutex", ix.at(s),
			"no recordingSpan.mu may be held here", "processor/exporter callback invoked while span mutex may be held (a processor reading the span deadlocks)")
	}

	// R4 copy-on-write processor list
	c.Rule("R4", "E5 who-may", "TracerProvider.spanProcessors is accessed only through Load/Store and every stored slice is freshly built in the storing function", 5)
	fSP := lookupField(ix.Pkg, "TracerProvider", "spanProcessors")
	if fSP == nil {
		c.Missing("R4", "sdk/trace.TracerProvider.spanProcessors")
	} else {
		cnt := map[string]int{}
		for _, a := range ix.fieldAccesses(map[*types.Var]bool{fSP.Origin(): true}) {
			// parent must be a selector .Load / .Store that is called
			var meth string
			var thecall *ast.CallExpr
			inspectNoLit(a.F.Body(), func(n ast.Node) bool {
				if call, ok := n.(*ast.CallExpr); ok {
					if sel, ok := unparen(call.Fun).(*ast.SelectorExpr); ok && unparen(sel.X) == ast.Expr(a.Sel) {
						meth, thecall = sel.Sel.Name, call
					}
				}
				return true
			})
			cnt[a.F.Name+meth]++
			key := "sdk/trace|" + a.F.Name + "|spanProcessors." + meth + " #" + itoa(cnt[a.F.Name+meth])
			switch meth {
			case "Load":
				c.OK("R4", key, at(ix.M, a.Sel.Pos()), "atomic load")
			case "Store":
				fresh := false
				if len(thecall.Args) == 1 {
					if u, ok := unparen(thecall.Args[0]).(*ast.UnaryExpr); ok && u.Op == token.AND {
						fresh = ix.freshSlice(a.F, u.X)
					}
				}
				c.Check(fresh, "R4", key, at(ix.M, a.Sel.Pos()), "stored slice is built by make/composite literal in this function",
					"the published processor list is not a fresh slice: concurrent readers iterate a list that is then modified in place")
			default:
				c.Violation("R4", key, at(ix.M, a.Sel.Pos()), "spanProcessors used other than through Load/Store")
			}
		}
	}

	// R5 = C04.R1 + C04.R6
	c.Rule("R5", "E3 dominance + E8", "mutators change the span only while recording (addChild included); snapshot copies every field under the lock (= C04.R1, C04.R6)", 10)
	ruleRecordingGuard(c, ix, "R5")
	ruleSnapshotComplete(c, ix, "R5")
	ruleLinkAttrsOwned(c, ix, "R5")

	// child counts are exact: whether a child is counted does not depend on what the sampler answered for it
	{
		addChild := ix.Func("(*recordingSpan).addChild")
		start := ix.Func("(*tracer).Start")
		if addChild != nil && start != nil {
			dependsOnSampling := func(f *FuncInfo, n ast.Node) (bool, string) {
				g := ix.FG(f)
				nd := g.NodeOf(n)
				if nd == nil {
					return false, ""
				}
				why := ""
				for _, wantPol := range []int{1, -1} {
					dom, _ := g.DominatedByEdges(nd, func(e *GEdge) bool {
						if e.Cond == nil || e.Pol != wantPol {
							return false
						}
						hit := false
						ast.Inspect(e.Cond, func(m ast.Node) bool {
							switch x := m.(type) {
							case *ast.CallExpr:
								if cf := callee(info, x); cf != nil && (cf.Name() == "isRecording" || cf.Name() == "isSampled") && len(x.Args) == 1 {
									hit = true
								}
							case *ast.SelectorExpr:
								if fv, _ := fieldOf(info, x); fv != nil && fv.Name() == "Decision" {
									hit = true
								}
							}
							return true
						})
						if hit {
							why = exprStr(e.Cond)
						}
						return hit
					})
					if dom {
						return true, why
					}
				}
				return false, ""
			}
			sites := ix.FindCalls(func(f *FuncInfo, call *ast.CallExpr) bool { return callToDecl(info, addChild)(call) })
			nSites, bad := 0, ""
			var badPos token.Pos
			for _, st := range sites {
				nSites++
				f, n := st.F, st.N
				for depth := 0; depth < 4; depth++ {
					if dep, why := dependsOnSampling(f, n); dep {
						bad, badPos = "the call in "+ix.Outer(f).Name+" is reached only when `"+why+"` decides so", st.N.Pos()
						break
					}
					of := ix.Outer(f)
					if of == start {
						break
					}
					// the (single) static caller of of
					callers := ix.FindCalls(func(g2 *FuncInfo, call *ast.CallExpr) bool { return callToDecl(info, of)(call) })
					if len(callers) != 1 {
						break
					}
					f, n = callers[0].F, callers[0].N
				}
			}
			if nSites > 0 {
				pos := start.Pos()
				if bad != "" {
					pos = badPos
				}
				c.Check(bad == "", "R5", "sdk/trace|(*tracer).Start|the parent counts a child whatever the sampler answered for it", at(ix.M, pos), itoa(nSites)+" addChild call site(s), none behind the sampling decision",
					"a child the sampler drops (or only records) is not counted in its recording parent: ChildSpanCount is not exact for children started before the end — "+bad)
			}
		}
	}

	// R6 no deadlock inside the package: mutexes are not re-entrant, and nested acquisitions are ordered
	c.Rule("R6", "E1 must-held + E1b lock order (package-local)", "no method is called on an object while one of that object's mutexes is held if it acquires that mutex again (itself or through further methods of the object); nested acquisitions of different mutexes in sdk/trace have no reverse path", 3)
	nre := ruleNoReacquire(c, ix, le, "R6", "sdk/trace")
	nlo := ruleLockOrder(c, ix, le, "R6", "sdk/trace")
	if nre == 0 {
		c.Violation("R6", "sdk/trace|no re-acquisition|calls examined", at(ix.M, ix.Pkg.Syntax[0].Pos()), "no method call under a mutex of its receiver found: the analysis no longer sees the calls it was built on")
	}
	_ = nlo
}

// isMutexOfType: does lock key k (a path in f's scope, possibly inherited) name field `mu` of a value of named type t?
func isMutexOfType(ix *PkgIndex, f *FuncInfo, k string, t *types.Named, mu string) bool {
	if t == nil {
		return false
	}
	// key is root@pos.f1.f2…; resolve the root variable's type by position
	root, rest := keyRoot(k)
	if rest == "" || len(rest) < len(mu)+1 || rest[len(rest)-len(mu)-1:] != "."+mu {
		return false
	}
	path := rest[:len(rest)-len(mu)-1]
	var rv *types.Var
	for id, o := range ix.Pkg.TypesInfo.Defs {
		if v, ok := o.(*types.Var); ok && varKey(v) == root {
			rv = v
			_ = id
			break
		}
	}
	if rv == nil {
		return false
	}
	tt := rv.Type()
	for path != "" {
		path = path[1:]
		name := path
		if i := indexByte(path, '.'); i >= 0 {
			name, path = path[:i], path[i:]
		} else {
			path = ""
		}
		n := namedOf(tt)
		var st *types.Struct
		if n != nil {
			st, _ = n.Underlying().(*types.Struct)
		} else {
			st, _ = tt.Underlying().(*types.Struct)
		}
		if st == nil {
			return false
		}
		found := false
		for i := 0; i < st.NumFields(); i++ {
			if st.Field(i).Name() == name {
				tt = st.Field(i).Type()
				found = true
			}
		}
		if !found {
			return false
		}
	}
	n := namedOf(tt)
	return n != nil && n.Origin().Obj() == t.Obj()
}

func indexByte(s string, b byte) int {
	for i := 0; i < len(s); i++ {
		if s[i] == b {
			return i
		}
	}
	return -1
}

// totalFanout: x is a call vertex inside a range loop; on every iteration the call is made
// (no path from the loop body head back to the loop head, out of the loop or to the exit avoids it).
func totalFanout(g *FG, x *GNode) (bool, string) {
	// find the innermost range/for body block whose statement encloses x
	var body *GNode
	bestSpan := 1 << 40
	for b, h := range g.head {
		k := b.Kind.String()
		// containment in the syntax tree, not by source position (a body with expanded helpers mixes positions)
		if (k == "RangeBody" || k == "ForBody") && b.Stmt != nil && containsNoLit(b.Stmt, x.N) {
			if span := nodeCount(b.Stmt); span < bestSpan {
				bestSpan, body = span, h
			}
		}
	}
	if body == nil {
		return false, "call is not inside a loop"
	}
	loopStmt := body.Blk.Stmt
	seen, parent := g.Reach([]*GNode{body}, func(y *GNode) bool { return y == x }, nil)
	for y := range seen {
		if y == g.Exit {
			return false, "an iteration can return before the call: " + g.pathLines(parent, y)
		}
		if y.Blk != nil && y.N == nil && y.Blk.Stmt == loopStmt {
			k := y.Blk.Kind.String()
			if k == "RangeLoop" || k == "RangeDone" || k == "ForLoop" || k == "ForDone" || k == "ForPost" || (k == "ForBody" && y == body) {
				return false, "an iteration can skip the call (" + k + "): " + g.pathLines(parent, y)
			}
		}
	}
	// after the call the loop must go on to the next element: no break/return between the call and the loop head
	isHead := func(y *GNode) bool {
		if y.N != nil || y.Blk == nil || y.Blk.Stmt != loopStmt {
			return false
		}
		k := y.Blk.Kind.String()
		return k == "RangeLoop" || k == "ForLoop" || k == "ForPost"
	}
	seen2, parent2 := g.Reach([]*GNode{x}, isHead, nil)
	for y := range seen2 {
		if y == g.Exit {
			return false, "the loop can be left by return after the call, before the remaining elements: " + g.pathLines(parent2, y)
		}
		if y.N == nil && y.Blk != nil && y.Blk.Stmt == loopStmt {
			if k := y.Blk.Kind.String(); k == "RangeDone" || k == "ForDone" {
				return false, "the loop can be left by break after the call, before the remaining elements: " + g.pathLines(parent2, y)
			}
		}
	}
	return true, ""
}

// freshSlice: e is a local variable of f (declaration scope) whose every assignment is
// make(...), a composite literal, append(<itself or fresh>, ...), a re-slice of itself, or e is itself a composite literal.
func (ix *PkgIndex) freshSlice(f *FuncInfo, e ast.Expr) bool { return ix.freshSliceD(f, e, 0) }

func (ix *PkgIndex) freshSliceD(f *FuncInfo, e ast.Expr, depth int) bool {
	info := f.Info()
	e = unparen(e)
	if _, ok := e.(*ast.CompositeLit); ok {
		return true
	}
	v, _ := objOf(info, e).(*types.Var)
	if v == nil {
		return false
	}
	outer := ix.Outer(f)
	if outer == nil || !definedIn(info, outer.Body(), v) || depth > 3 {
		return false
	}
	ok := true
	seenDef := false
	var isFresh func(rhs ast.Expr) bool
	isFresh = func(rhs ast.Expr) bool {
		rhs = unparen(rhs)
		switch r := rhs.(type) {
		case *ast.CompositeLit:
			return true
		case *ast.CallExpr:
			switch builtinName(info, r) {
			case "make":
				return true
			case "append":
				return len(r.Args) > 0 && (sameVar(info, r.Args[0], v) || isFresh(r.Args[0]))
			}
			if isCallTo(info, r, "slices.Clone") || isCallTo(info, r, "slices.Concat") || isCallTo(info, r, "slices.Collect") || isCallTo(info, r, "slices.Sorted") {
				return true // always a newly allocated slice
			}
			// library operations that return their (possibly re-allocated) first argument: fresh when applied to the fresh slice itself
			for _, nm := range []string{"slices.Delete", "slices.DeleteFunc", "slices.Insert", "slices.Grow", "slices.Clip", "slices.Compact", "slices.CompactFunc"} {
				if isCallTo(info, r, nm) {
					return len(r.Args) > 0 && (sameVar(info, r.Args[0], v) || isFresh(r.Args[0]))
				}
			}
		case *ast.SliceExpr:
			return sameVar(info, r.X, v)
		case *ast.Ident:
			if isNilIdent(info, r) {
				return true
			}
			// another local of the function that is itself built fresh here (out := make(…); out = append(out, old…))
			if o, isV := info.Uses[r].(*types.Var); isV && types.Object(o) != types.Object(v) && !o.IsField() {
				return ix.freshSliceD(f, r, depth+1)
			}
		}
		return false
	}
	ast.Inspect(outer.Body(), func(n ast.Node) bool {
		switch s := n.(type) {
		case *ast.AssignStmt:
			for i, l := range s.Lhs {
				if sameVar(info, l, v) {
					seenDef = true
					if len(s.Lhs) != len(s.Rhs) || !isFresh(s.Rhs[i]) {
						ok = false
					}
				}
			}
		case *ast.ValueSpec:
			for i, nm := range s.Names {
				if info.Defs[nm] == v {
					seenDef = true
					if i < len(s.Values) && !isFresh(s.Values[i]) {
						ok = false
					}
				}
			}
		}
		return true
	})
	return ok && seenDef
}

// ruleEndAtomic: in End the isRecording() test and the store to endTime are one critical section of s.mu on every path — two
// concurrent End calls cannot both pass the test. Shared by C10.R2 ("ends exactly once") and C04.R10 ("calls made after End
// change nothing": a second End that slips through overwrites endTime and exports the span again).
func ruleEndAtomic(c *Ctx, ix *PkgIndex, le *LockEngine, rule string) {
	info := ix.Pkg.TypesInfo
	end := c.Fn(ix, rule, "(*recordingSpan).End")
	fEnd := lookupField(ix.Pkg, "recordingSpan", "endTime")
	isRec := ix.Func("(*recordingSpan).isRecording")
	if end == nil || fEnd == nil || isRec == nil {
		c.Missing(rule, "sdk/trace recordingSpan.End/endTime/isRecording")
		return
	}
	g := ix.FG(end)
	recEdgeTrue := func(e *GEdge) bool {
		return edgeImplies(e, func(cnd ast.Expr, pol int) bool {
			call, ok := cnd.(*ast.CallExpr)
			if !ok || pol < 0 {
				return false
			}
			f := callee(info, call)
			return f != nil && f.Origin() == isRec.Obj.Origin()
		})
	}
	stores := g.Match(func(n ast.Node) bool {
		return assignRHS(n, func(e ast.Expr) bool { return isField(info, e, fEnd) }) != nil
	})
	if len(stores) == 0 {
		c.Violation(rule, "sdk/trace|(*recordingSpan).End|isRecording → endTime store atomic", at(ix.M, end.Pos()), "End does not store endTime")
	}
	recv := end.Recv()
	muKey := varKey(recv) + resolvePath(ix.Pkg, "recordingSpan", ".mu")
	nAtomic := 0
	var firstRel *GNode
	for _, x := range g.Nodes {
		for _, e := range x.Succs {
			if !recEdgeTrue(e) {
				continue
			}
			nAtomic++
			for _, st := range stores {
				// releases on paths from the edge to the store
				seen, _ := g.ReachFromEdge(e, func(y *GNode) bool { return y == st })
				for y := range seen {
					if y.N == nil {
						continue
					}
					if _, isDefer := y.N.(*ast.DeferStmt); isDefer {
						continue
					}
					// only count if st is reachable from y
					r2, _ := g.Reach([]*GNode{y}, nil, nil)
					if !r2[st] {
						continue
					}
					inspectNoLit(y.N, func(n ast.Node) bool {
						if call, ok := n.(*ast.CallExpr); ok {
							if k, op := lockOp(info, call); k == muKey && op == "unlock" {
								if firstRel == nil || y.N.Pos() < firstRel.N.Pos() {
									firstRel = y
								}
							}
						}
						return true
					})
				}
			}
		}
	}
	key := "sdk/trace|(*recordingSpan).End|isRecording → endTime store atomic"
	switch {
	case nAtomic == 0:
		c.Violation(rule, key, at(ix.M, end.Pos()), "End does not test isRecording() before ending the span: a second End would end it again")
	case firstRel != nil:
		c.Violation(rule, key, at(ix.M, firstRel.N.Pos()), "s.mu is released between the isRecording() test and the store to endTime: two concurrent End calls can both pass the test and both deliver OnEnd")
	default:
		// the store must also hold the lock
		ok := true
		for _, st := range stores {
			if !le.Held(end)[st][muKey] {
				ok = false
			}
		}
		c.Check(ok, rule, key, at(ix.M, end.Pos()), "test and store are in one critical section", "endTime is stored without s.mu")
	}

}

// ruleLinkAttrsOwned: "the exported snapshot never changes afterwards" / "the exported span holds exactly what the operations put
// there". AddLink keeps a Link value built from its argument; the attribute slice in it must be the span's own copy — the
// argument's slice still belongs to the caller, who may overwrite its elements at any time (also after End), and snapshot()
// shares the queue's elements with the exported span. Event attributes are copied by trace.NewEventConfig; links have no
// such step. Shared by C10.R5 and C04.R6.
func ruleLinkAttrsOwned(c *Ctx, ix *PkgIndex, rule string) {
	info := ix.Pkg.TypesInfo
	fn := c.Fn(ix, rule, "(*recordingSpan).AddLink")
	if fn == nil {
		return
	}
	params := map[types.Object]bool{}
	for _, p := range fn.ParamObjs(info) {
		params[p] = true
	}
	g := ix.FG(fn)
	rootedAtParam := func(e ast.Expr) bool {
		e = unparen(e)
		for {
			switch x := e.(type) {
			case *ast.SelectorExpr:
				e = unparen(x.X)
				continue
			case *ast.SliceExpr:
				e = unparen(x.X)
				continue
			case *ast.Ident:
				if params[info.Uses[x]] {
					return true
				}
				if d := g.LocalDef(info.Uses[x]); d != nil {
					e = unparen(d)
					continue
				}
			}
			return false
		}
	}
	n, bad := 0, ""
	var badPos token.Pos
	inspectNoLit(fn.Body(), func(nd ast.Node) bool {
		cl, ok := nd.(*ast.CompositeLit)
		if !ok {
			return true
		}
		if nn := namedOf(info.TypeOf(cl)); nn == nil || nn.Obj().Name() != "Link" || nn.Obj().Pkg() != ix.Pkg.Types {
			return true
		}
		for _, el := range cl.Elts {
			kv, isKV := el.(*ast.KeyValueExpr)
			if !isKV {
				continue
			}
			if id, isID := kv.Key.(*ast.Ident); !isID || id.Name != "Attributes" {
				continue
			}
			n++
			if rootedAtParam(kv.Value) {
				bad, badPos = "Link.Attributes is "+exprStr(kv.Value)+", the caller's slice", kv.Pos()
			}
		}
		return true
	})
	// assignments l.Attributes = <param-rooted>
	inspectNoLit(fn.Body(), func(nd ast.Node) bool {
		as, ok := nd.(*ast.AssignStmt)
		if !ok || len(as.Lhs) != len(as.Rhs) {
			return true
		}
		for i, l := range as.Lhs {
			if fv, b := fieldOf(info, l); fv != nil && fv.Name() == "Attributes" && b != nil {
				if nn := namedOf(info.TypeOf(b)); nn != nil && nn.Obj().Name() == "Link" && nn.Obj().Pkg() == ix.Pkg.Types {
					n++
					if rootedAtParam(as.Rhs[i]) {
						bad, badPos = "Link.Attributes is assigned "+exprStr(as.Rhs[i])+", the caller's slice", as.Pos()
					}
				}
			}
		}
		return true
	})
	if n == 0 {
		return
	}
	pos := fn.Pos()
	if bad != "" {
		pos = badPos
	}
	c.Check(bad == "", rule, "sdk/trace|(*recordingSpan).AddLink|the recorded link owns its attribute slice", at(ix.M, pos), itoa(n)+" store(s), none of the argument's own slice",
		"the recorded link shares the backing array of the slice the caller passed: overwriting an element of that slice afterwards — even after End — changes the exported snapshot: "+bad)
}
