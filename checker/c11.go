package main

import (
	"go/ast"
	"go/constant"
	"go/token"
	"go/types"
	"strings"
)

const (
	otelBaggage = "go.opentelemetry.io/otel/baggage"
	intBaggage  = "go.opentelemetry.io/otel/internal/baggage"
)

func init() {
	register(&PropDoc{
		ID:         "C11",
		Modules:    []string{"."},
		NotDecided: "losslessness of escape/unescape for all strings (decided: the escape table agrees with the parser's character class); stability under re-serialisation; the size accounting of String().",
		Fn:         c11,
	})
}

func isTchar(p int64) bool {
	if inRange(p, '0', '9') || inRange(p, 'a', 'z') || inRange(p, 'A', 'Z') {
		return true
	}
	return p < 128 && p >= 0 && strings.ContainsRune("!#$%&'*+-.^_`|~", rune(p))
}

func isBaggageOctet(p int64) bool {
	return p == 0x21 || inRange(p, 0x23, 0x2B) || inRange(p, 0x2D, 0x3A) || inRange(p, 0x3C, 0x5B) || inRange(p, 0x5D, 0x7E)
}

func c11(c *Ctx) {
	bx := c.Index(".", otelBaggage)
	px := c.Index(".", otelProp)
	if bx == nil || px == nil {
		return
	}
	info := bx.Pkg.TypesInfo
	pe := &predEval{ix: bx}

	c.Rule("R1", "E6 charclass", "validateKeyChar accepts exactly RFC 7230 token characters, validateValueChar exactly W3C baggage-octet, over the rune domain (negative and ≥ 0x80 rejected before the table is indexed)", 2)
	evalChar := func(fn *FuncInfo) func(int64) (bool, bool) {
		return func(p int64) (bool, bool) {
			v, ok := pe.call(fn, []constant.Value{constant.MakeInt64(p)})
			if !ok || v.Kind() != constant.Bool {
				return false, false
			}
			return constant.BoolVal(v), true
		}
	}
	for _, sp := range []struct {
		fn   string
		spec func(int64) bool
		what string
	}{{"validateKeyChar", isTchar, "token"}, {"validateValueChar", isBaggageOctet, "baggage-octet"}} {
		fn := c.Fn(bx, "R1", sp.fn)
		if fn == nil {
			continue
		}
		consts := map[int64]bool{}
		bx.intConstsIn(fn, map[*FuncInfo]bool{}, consts)
		pts := append([]int64{-1, -128, -256 + 'a'}, charPoints(consts, types.Typ[types.Int32])...)
		diff, n := charSetDiff(pts, evalChar(fn), sp.spec)
		c.Check(diff == "", "R1", "baggage|"+sp.fn+"|accepted set = "+sp.what+" ("+itoa(n)+" points)", at(bx.M, fn.Pos()), "equal on every representative point",
			sp.fn+" "+diff+" (or the table is indexed out of range)")
	}

	c.Rule("R2", "E6 writer/reader agreement", "every byte the serializer leaves bare is accepted by the parser and is not '%'; escapes are '%' + two upper-hex digits of the byte", 2)
	if fn := c.Fn(bx, "R2", "shouldEscape"); fn != nil {
		vv := bx.Func("validateValueChar")
		bad := ""
		for p := int64(0); p < 256; p++ {
			esc, ok1 := evalChar(fn)(p)
			acc, ok2 := evalChar(vv)(p)
			if !ok1 || !ok2 {
				bad = "cannot fold for byte " + cpStr(p)
				break
			}
			if !esc && (!acc || p == '%') {
				bad = "byte " + cpStr(p) + " is written bare but the parser " + map[bool]string{true: "treats it as an escape introducer", false: "rejects it"}[p == '%']
				break
			}
			if esc && acc && p != '%' {
				// harmless (over-escaping) but note it
				continue
			}
		}
		c.Check(bad == "", "R2", "baggage|shouldEscape|bare bytes ⊆ parser's value characters ∖ {'%'} (256 bytes)", at(bx.M, fn.Pos()), "serializer and parser tables agree", "escape table and parser disagree: "+bad+" (String() output does not parse back to the same value)")
	}
	if fn := c.Fn(bx, "R2", "valueEscape"); fn != nil {
		// t[j] = '%'; t[j+1] = upperhex[c>>4]; t[j+2] = upperhex[c&15]; upperhex == "0123456789ABCDEF"
		// the bytes written to the output in order — indexed stores t[j+k] = x or append(t, x, y, z) — contain the triple
		// '%', H[c>>4], H[c&15] with H the constant "0123456789ABCDEF" (by value, whatever the table is called)
		var emitted []ast.Expr
		inspectNoLit(fn.Body(), func(n ast.Node) bool {
			switch s := n.(type) {
			case *ast.AssignStmt:
				if len(s.Lhs) == 1 && len(s.Rhs) == 1 {
					if _, ok := unparen(s.Lhs[0]).(*ast.IndexExpr); ok {
						emitted = append(emitted, s.Rhs[0])
					}
				}
			case *ast.CallExpr:
				if builtinName(info, s) == "append" && len(s.Args) > 1 && !s.Ellipsis.IsValid() {
					emitted = append(emitted, s.Args[1:]...)
				}
				// … or b.WriteByte(x) on a strings.Builder / bytes.Buffer
				if isCallTo(info, s, "(*strings.Builder).WriteByte", "(*bytes.Buffer).WriteByte") && len(s.Args) == 1 {
					emitted = append(emitted, s.Args[0])
				}
			}
			return true
		})
		nibble := func(e ast.Expr, op token.Token, k int64) (bool, ast.Expr) {
			ie, ok := unparen(e).(*ast.IndexExpr)
			if !ok {
				return false, nil
			}
			if h, isS := constString(info, ie.X); !isS || h != "0123456789ABCDEF" {
				return false, nil
			}
			be, ok := unparen(ie.Index).(*ast.BinaryExpr)
			if !ok || be.Op != op {
				return false, nil
			}
			v, isC := constInt(info, be.Y)
			return isC && v == k, be.X
		}
		var pct, hi, lo, hexOK bool
		for i := 0; i+2 < len(emitted); i++ {
			if v, ok := constInt(info, emitted[i]); !ok || v != '%' {
				continue
			}
			okH, bh := nibble(emitted[i+1], token.SHR, 4)
			okL, bl := nibble(emitted[i+2], token.AND, 15)
			if okH && okL && exprStr(bh) == exprStr(bl) {
				pct, hi, lo, hexOK = true, true, true, true
			}
		}
		c.Check(hexOK && pct && hi && lo, "R2", "baggage|valueEscape|escape = '%' upperhex[c>>4] upperhex[c&15]", at(bx.M, fn.Pos()), "percent-encoding of the byte", "the escape sequence is not the percent-encoding of the byte")
	}

	c.Rule("R3", "E5 immutability", "every map assignment/delete on a baggage list targets a map made in the same function; property slices handed out are fresh", 8)
	listT := bx.M.Pkg(intBaggage)
	cnt := 0
	for _, fn := range sortedFuncs(bx.Funcs) {
		inspectNoLit(fn.Body(), func(n ast.Node) bool {
			var target ast.Expr
			switch s := n.(type) {
			case *ast.AssignStmt:
				for _, l := range s.Lhs {
					if ie, ok := unparen(l).(*ast.IndexExpr); ok {
						if tv, ok := info.Types[ie.X]; ok && listT != nil && typeIs(tv.Type, intBaggage, "List") {
							target = ie.X
						}
					}
				}
			case *ast.CallExpr:
				if b := builtinName(info, s); (b == "delete" || b == "clear") && len(s.Args) > 0 {
					if tv, ok := info.Types[s.Args[0]]; ok && typeIs(tv.Type, intBaggage, "List") {
						target = s.Args[0]
					}
				}
			}
			if target == nil {
				return true
			}
			cnt++
			c.Analysed(fn)
			fresh := false
			if v := objOf(info, target); v != nil {
				fresh = bx.freshSliceOrMap(fn, v)
			}
			c.Check(fresh, "R3", "baggage|"+fn.Name+"|map write #"+itoa(cnt)+" targets a map made here", at(bx.M, n.Pos()), "copy-on-write", "a baggage list shared with other contexts is modified in place")
			return true
		})
	}
	for _, nm := range []string{"fromInternalProperties", "properties.asInternal", "properties.Copy"} {
		fn := c.Fn(bx, "R3", nm)
		if fn == nil {
			continue
		}
		good := true
		n := 0
		inspectNoLit(fn.Body(), func(nd ast.Node) bool {
			rs, ok := nd.(*ast.ReturnStmt)
			if !ok || len(rs.Results) != 1 {
				return true
			}
			n++
			if isNilIdent(info, rs.Results[0]) {
				return true
			}
			v := objOf(info, rs.Results[0])
			if v == nil || !bx.freshSliceOrMap(fn, v) {
				good = false
			}
			return true
		})
		c.Check(good && n > 0, "R3", "baggage|"+nm+"|returns nil or a freshly made slice", at(bx.M, fn.Pos()), "no aliasing of stored properties", "callers receive a slice that aliases the baggage's stored properties")
	}
	if fn := c.Fn(bx, "R3", "Member.Properties"); fn != nil {
		cp := bx.Func("properties.Copy")
		good := false
		inspectNoLit(fn.Body(), func(nd ast.Node) bool {
			if rs, ok := nd.(*ast.ReturnStmt); ok && len(rs.Results) == 1 && callToDecl(info, cp)(unparen(rs.Results[0])) {
				good = true
			}
			return true
		})
		c.Check(good, "R3", "baggage|Member.Properties|returns a copy", at(bx.M, fn.Pos()), "m.properties.Copy()", "Member.Properties exposes the stored slice")
	}

	c.Rule("R4", "E5 limit parity", "each size limit (180 members, 4096 bytes per member, 8192 bytes in total) is enforced on the constructor path and on the parser path", 6)
	ctorFns := map[string]bool{"New": true, "NewMember": true, "NewMemberRaw": true, "Member.validate": true}
	parseFns := map[string]bool{"Parse": true, "parseMember": true}
	for _, lim := range []struct {
		name string
		val  int64
	}{{"maxMembers", 180}, {"maxBytesPerMembers", 4096}, {"maxBytesPerBaggageString", 8192}} {
		k, _ := bx.Pkg.Types.Scope().Lookup(lim.name).(*types.Const)
		if k == nil {
			c.Missing("R4", "baggage."+lim.name)
			continue
		}
		okV := constant.Compare(k.Val(), token.EQL, constant.MakeInt64(lim.val))
		inCtor, inParse := "", ""
		ctorWrongQty := ""
		for _, fn := range sortedFuncs(bx.Funcs) {
			g := (*FG)(nil)
			inspectNoLit(fn.Body(), func(n ast.Node) bool {
				be, ok := n.(*ast.BinaryExpr)
				if !ok {
					return true
				}
				_, op, r, good := cmpNorm(be, 1)
				if !good || op != token.GTR || constObj(info, r) != k {
					return true
				}
				// the true outcome must lead to an error return
				if g == nil {
					g = bx.FG(fn)
				}
				errOnly := false
				for _, x := range g.Nodes {
					for _, e := range x.Succs {
						if e.Cond != nil && e.Pol > 0 && unparen(e.Cond) == ast.Expr(be) {
							s, _ := g.ReachFromEdge(e, nil)
							errOnly = true
							for y := range s {
								if rs, ok := y.N.(*ast.ReturnStmt); ok && len(rs.Results) == 2 && isNilIdent(info, rs.Results[1]) {
									errOnly = false
								}
							}
						}
					}
				}
				if !errOnly {
					return true
				}
				// the measured quantity: on the constructor path it must be the length of the value's own serialisation
				// (len(x.String())), which is what the parser measures on the other side
				if ctorFns[fn.Name] && lim.name != "maxMembers" {
					l, _, _, _ := cmpNorm(be, 1)
					src := expandExpr(info, fn, l, 0)
					if !(strings.HasPrefix(src, "len(") && strings.HasSuffix(src, ".String())")) {
						ctorWrongQty = src
						return true
					}
				}
				if ctorFns[fn.Name] {
					inCtor = fn.Name
				}
				if parseFns[fn.Name] {
					inParse = fn.Name
				}
				return true
			})
		}
		c.Check(okV, "R4", "baggage|"+lim.name+"|= "+itoa(int(lim.val)), at(bx.M, bx.Pkg.Syntax[0].Pos()), "W3C limit", "limit constant changed")
		c.Check(inParse != "", "R4", "baggage|"+lim.name+"|enforced on the parser path", at(bx.M, bx.Pkg.Syntax[0].Pos()), "in "+inParse, "Parse does not enforce "+lim.name)
		c.Check(inCtor != "", "R4", "baggage|"+lim.name+"|enforced on the constructor path", at(bx.M, bx.Pkg.Syntax[0].Pos()), "in "+inCtor,
			"New/NewMember* do not enforce "+lim.name+" on the length of the serialised form (compared quantity: '"+ctorWrongQty+"'): the constructor accepts a baggage whose own serialisation Parse rejects")
	}

	c.Rule("R5", "E3 ordering/dominance", "Parse: total-size test precedes the split; the member-count test follows the loop and dominates the success return; duplicates resolve by map assignment in input order", 2)
	if fn := c.Fn(bx, "R5", "Parse"); fn != nil {
		g := bx.FG(fn)
		kTot, _ := bx.Pkg.Types.Scope().Lookup("maxBytesPerBaggageString").(*types.Const)
		kMem, _ := bx.Pkg.Types.Scope().Lookup("maxMembers").(*types.Const)
		cmpEdge := func(k *types.Const) func(*GEdge) bool {
			return func(e *GEdge) bool {
				return edgeImplies(e, func(cnd ast.Expr, pol int) bool {
					_, op, r, ok := cmpNorm(cnd, pol)
					return ok && op == token.LEQ && constObj(info, r) == k
				})
			}
		}
		split := g.Match(func(n ast.Node) bool {
			call, ok := n.(*ast.CallExpr)
			return ok && (isCallTo(info, call, "strings.Split") || isCallTo(info, call, "strings.SplitSeq") || isCallTo(info, call, "strings.Cut"))
		})
		okSize := len(split) > 0
		for _, x := range split {
			if d, _ := g.DominatedByEdges(x, cmpEdge(kTot)); !d {
				okSize = false
			}
		}
		c.Check(okSize, "R5", "baggage|Parse|len(header) ≤ 8192 tested before the header is split", at(bx.M, fn.Pos()), "oversized input rejected up front", "an oversized header is split and parsed before (or without) the size test")
		okCnt := false
		for _, x := range g.Nodes {
			if rs, ok := x.N.(*ast.ReturnStmt); ok && len(rs.Results) == 2 && isNilIdent(info, rs.Results[1]) {
				if cl, ok := unparen(rs.Results[0]).(*ast.CompositeLit); ok && len(cl.Elts) == 0 {
					continue // empty header
				}
				okCnt, _ = g.DominatedByEdges(x, cmpEdge(kMem))
			}
		}
		c.Check(okCnt, "R5", "baggage|Parse|success dominated by len(members) ≤ 180 (after de-duplication)", at(bx.M, fn.Pos()), "count test on the final map", "more than 180 members can be returned")
	}

	c.Rule("R6", "E4 must-sanitise", "every value stored on the parser path is replaceInvalidUTF8Sequences(…, url.PathUnescape(…))", 2)
	repl := bx.Func("replaceInvalidUTF8Sequences")
	for _, sp := range []struct{ fn, typ string }{{"parseMember", "Member"}, {"parsePropertyInternal", "Property"}} {
		fn := c.Fn(bx, "R6", sp.fn)
		fv := lookupField(bx.Pkg, sp.typ, "value")
		if fn == nil || fv == nil || repl == nil {
			c.Missing("R6", "baggage."+sp.fn+" / "+sp.typ+".value / replaceInvalidUTF8Sequences")
			continue
		}
		// stored expressions: composite literal key `value:` or assignment x.value = e
		var stored []ast.Expr
		inspectNoLit(fn.Body(), func(n ast.Node) bool {
			switch s := n.(type) {
			case *ast.CompositeLit:
				if v := compositeField(info, s, fv); v != nil {
					stored = append(stored, v)
				}
			case *ast.AssignStmt:
				if r := assignRHS(s, func(e ast.Expr) bool { return isField(info, e, fv) }); r != nil {
					stored = append(stored, r)
				}
			}
			return true
		})
		good := len(stored) > 0
		why := "no store of " + sp.typ + ".value found"
		defOf := func(v types.Object) ast.Expr {
			var def ast.Expr
			n := 0
			inspectNoLit(fn.Body(), func(nd ast.Node) bool {
				if as, ok := nd.(*ast.AssignStmt); ok {
					for i, l := range as.Lhs {
						if sameVar(info, l, v) {
							n++
							if len(as.Rhs) == len(as.Lhs) {
								def = as.Rhs[i]
							} else if len(as.Rhs) == 1 {
								def = as.Rhs[0]
							}
						}
					}
				}
				return true
			})
			if n != 1 {
				return nil
			}
			return def
		}
		// is e — directly, through single-definition locals, or as the (non-error) result of a helper of the package — the value
		// replaceInvalidUTF8Sequences(n, url.PathUnescape(raw))?
		var decoded func(f *FuncInfo, e ast.Expr, depth int) (bool, string)
		decoded = func(f *FuncInfo, e ast.Expr, depth int) (bool, string) {
			def1 := func(v types.Object) ast.Expr {
				var def ast.Expr
				n := 0
				inspectNoLit(f.Body(), func(nd ast.Node) bool {
					if as, ok := nd.(*ast.AssignStmt); ok {
						for i, l := range as.Lhs {
							if sameVar(info, l, v) {
								n++
								if len(as.Rhs) == len(as.Lhs) {
									def = as.Rhs[i]
								} else if len(as.Rhs) == 1 {
									def = as.Rhs[0]
								}
							}
						}
					}
					return true
				})
				if n != 1 {
					return nil
				}
				return def
			}
			resolveCall := func(x ast.Expr) *ast.CallExpr {
				if cc, ok := unparen(x).(*ast.CallExpr); ok {
					return cc
				}
				if v := objOf(info, x); v != nil {
					if d := def1(v); d != nil {
						cc, _ := unparen(d).(*ast.CallExpr)
						return cc
					}
				}
				return nil
			}
			call := resolveCall(e)
			if call == nil {
				return false, "stored value " + exprStr(e) + " is not the result of replaceInvalidUTF8Sequences"
			}
			if callToDecl(info, repl)(call) && len(call.Args) == 2 {
				src := resolveCall(call.Args[1])
				if src == nil || !isCallTo(info, src, "net/url.PathUnescape") {
					return false, "the sanitiser's input is not url.PathUnescape(…)"
				}
				return true, ""
			}
			if depth > 0 {
				if h := bx.declByObj(callee(info, call)); h != nil && h != f {
					n, okAll, w := 0, true, ""
					inspectNoLit(h.Body(), func(nd ast.Node) bool {
						rs, isRet := nd.(*ast.ReturnStmt)
						if !isRet || len(rs.Results) == 0 {
							return true
						}
						// error returns (last result not nil) carry no value
						if len(rs.Results) > 1 && !isNilIdent(info, rs.Results[len(rs.Results)-1]) {
							return true
						}
						n++
						if ok, why := decoded(h, rs.Results[0], depth-1); !ok {
							okAll, w = false, "in "+h.Name+": "+why
						}
						return true
					})
					if n > 0 && okAll {
						return true, ""
					}
					if w != "" {
						return false, w
					}
				}
			}
			return false, "stored value " + exprStr(e) + " is not the result of replaceInvalidUTF8Sequences"
		}
		_ = defOf
		for _, e := range stored {
			if ok, w := decoded(fn, e, 1); !ok {
				good, why = false, w
			}
		}
		c.Check(good, "R6", "baggage|"+sp.fn+"|"+sp.typ+".value ← replaceInvalidUTF8Sequences(n, PathUnescape(raw))", at(bx.M, fn.Pos()), "parsed values are unescaped and valid UTF-8", "a parsed value can hold invalid UTF-8 or stay percent-encoded: "+why)
	}

	c.Rule("R8", "E8 fieldcover", "the serializers read every field of what they serialise: Property.String {key, value, hasValue}, Member.String {key, value, properties}, Baggage.String {Value, Properties of every item}", 3)
	for _, sp := range []struct {
		fn, typ string
		pkg     *pkgT
		fields  []string
	}{{"Property.String", "Property", bx.Pkg, []string{"key", "value", "hasValue"}}, {"Member.String", "Member", bx.Pkg, []string{"key", "value", "properties"}}, {"Baggage.String", "Item", listT, []string{"Value", "Properties"}}} {
		fn := c.Fn(bx, "R8", sp.fn)
		if fn == nil || sp.pkg == nil {
			continue
		}
		read := map[string]bool{}
		inspectNoLit(fn.Body(), func(n ast.Node) bool {
			if sel, ok := n.(*ast.SelectorExpr); ok {
				if fv, _ := fieldOf(info, sel); fv != nil {
					for _, f := range sp.fields {
						if lf := lookupField(sp.pkg, sp.typ, f); lf != nil && fv == lf.Origin() {
							read[f] = true
						}
					}
				}
			}
			return true
		})
		var missing []string
		for _, f := range sp.fields {
			if !read[f] {
				missing = append(missing, f)
			}
		}
		c.Check(len(missing) == 0, "R8", "baggage|"+sp.fn+"|reads every field of "+sp.typ, at(bx.M, fn.Pos()), strings.Join(sp.fields, ", "),
			sp.fn+" no longer reads "+strings.Join(missing, ", ")+": two values that differ only there serialise identically (the header does not parse back to the same "+strings.ToLower(sp.typ)+")")
	}

	c.Rule("R7", "E3", "propagator: Inject sets the header only for a non-empty string; Extract returns the input context on an empty header or parse error", 2)
	pinfo := px.Pkg.TypesInfo
	if fn := c.Fn(px, "R7", "Baggage.Inject"); fn != nil {
		g := px.FG(fn)
		sets := g.Match(func(n ast.Node) bool {
			call, ok := n.(*ast.CallExpr)
			return ok && isCallTo(pinfo, call, "("+otelProp+".TextMapCarrier).Set")
		})
		good := len(sets) == 1
		if good {
			good, _ = g.DominatedByEdges(sets[0], func(e *GEdge) bool {
				return edgeImplies(e, func(cnd ast.Expr, pol int) bool {
					_, op, r, ok := cmpNorm(cnd, pol)
					s, isS := constString(pinfo, r)
					return ok && op == token.NEQ && isS && s == ""
				})
			})
		}
		c.Check(good, "R7", "propagation|Baggage.Inject|header set only when non-empty", at(px.M, fn.Pos()), "no empty baggage header", "an empty baggage header is injected")
	}
	if fn := c.Fn(px, "R7", "Baggage.Extract"); fn != nil {
		g := px.FG(fn)
		parent := fn.Obj.Type().(*types.Signature).Params().At(0)
		good := true
		nRet := 0
		for _, x := range g.Nodes {
			rs, ok := x.N.(*ast.ReturnStmt)
			if !ok || len(rs.Results) != 1 {
				continue
			}
			nRet++
			if sameVar(pinfo, rs.Results[0], parent) {
				continue
			}
			// the non-parent return must be dominated by err == nil and header != ""
			d1, _ := g.DominatedByEdges(x, func(e *GEdge) bool {
				return edgeImplies(e, func(cnd ast.Expr, pol int) bool {
					nn, ok := nilCmp(pinfo, cnd, pol, func(y ast.Expr) bool { return isErrVar(pinfo, y) })
					return ok && !nn
				})
			})
			if !d1 {
				good = false
			}
		}
		c.Check(good && nRet >= 2, "R7", "propagation|Baggage.Extract|parse error ⇒ input context returned", at(px.M, fn.Pos()), "context untouched on failure", "a failed parse alters the context")
		// Extract is the inverse of Inject: what it stores into the context is what the parser returned for this header, not that
		// combined with whatever the context held before (members that were never in the header would appear, and the limits
		// the parser enforced would no longer hold for the stored value)
		{
			nStore, bad := 0, ""
			var badPos token.Pos
			inspectNoLit(fn.Body(), func(n ast.Node) bool {
				call, ok := n.(*ast.CallExpr)
				if !ok || len(call.Args) != 2 {
					return true
				}
				cf := callee(pinfo, call)
				if cf == nil || cf.Name() != "ContextWithBaggage" {
					return true
				}
				nStore++
				arg := unparen(call.Args[1])
				src := arg
				if v := objOf(pinfo, arg); v != nil {
					if d := g.LocalDef(v); d != nil {
						src = unparen(d)
					} else if td, has := g.tupleDefs()[v]; has && !assignedIn(pinfo, fn.Body(), v) {
						src = td.call
					} else {
						// several definitions: is every one of them the parser's result?
						n2, fromParse := 0, true
						inspectNoLit(fn.Body(), func(m ast.Node) bool {
							if as, ok := m.(*ast.AssignStmt); ok {
								for i, l := range as.Lhs {
									if sameVar(pinfo, l, v) {
										n2++
										var r ast.Expr
										if len(as.Rhs) == 1 {
											r = as.Rhs[0]
										} else if i < len(as.Rhs) {
											r = as.Rhs[i]
										}
										c2, isCall := unparen(r).(*ast.CallExpr)
										if !isCall || callee(pinfo, c2) == nil || callee(pinfo, c2).Name() != "Parse" {
											fromParse = false
										}
									}
								}
							}
							return true
						})
						if n2 > 0 && fromParse {
							return true
						}
						bad, badPos = "the stored baggage "+exprStr(arg)+" has a definition that is not the parser's result", call.Pos()
						return true
					}
				}
				c2, isCall := src.(*ast.CallExpr)
				if !isCall || callee(pinfo, c2) == nil || callee(pinfo, c2).Name() != "Parse" {
					bad, badPos = "the stored baggage is "+exprStr(src)+", not the result of baggage.Parse", call.Pos()
				}
				return true
			})
			if nStore > 0 {
				pos := fn.Pos()
				if bad != "" {
					pos = badPos
				}
				c.Check(bad == "", "R7", "propagation|Baggage.Extract|the context receives exactly the parsed header", at(px.M, pos), "ContextWithBaggage(parent, <result of Parse>)",
					"Inject followed by Extract is no longer the identity, and the stored baggage can exceed the limits the parser enforced: "+bad)
			}
		}
	}
}
