package main

import (
	"go/ast"
	"go/constant"
	"go/token"
	"go/types"
	"sort"
	"strings"
)

const (
	promMod = "exporters/prometheus"
	promPkg = "go.opentelemetry.io/otel/exporters/prometheus"
)

func init() {
	register(&PropDoc{
		ID:         "C18",
		Modules:    []string{promMod},
		NotDecided: "legality of names (delegated to prometheus/common), values equal to the SDK's as numbers, registry acceptance, label-set consistency across data points; only the listed fields are covered by the race clause.",
		Fn:         c18,
	})
}

// nonEmptyAtom: does (cnd, pol) establish that string/slice variable v is non-empty?
func nonEmptyAtom(info *types.Info, cnd ast.Expr, pol int, v types.Object) bool {
	l, op, r, ok := cmpNorm(cnd, pol)
	if !ok {
		return false
	}
	isLen := func(e ast.Expr) bool { return isLenOf(info, e, func(x ast.Expr) bool { return sameVar(info, x, v) }) }
	if isLen(l) {
		if k, isC := constInt(info, r); isC {
			return (op == token.GTR && k >= 0) || (op == token.GEQ && k >= 1) || (op == token.NEQ && k == 0)
		}
	}
	if isLen(r) {
		if k, isC := constInt(info, l); isC {
			return (op == token.LSS && k >= 0) || (op == token.LEQ && k >= 1) || (op == token.NEQ && k == 0)
		}
	}
	if sameVar(info, l, v) {
		if s, isS := constString(info, r); isS && s == "" && op == token.NEQ {
			return true
		}
	}
	return false
}

// nonEmptyAtomAt: nonEmptyAtom, also through a local with a single definition `l := len(v) − c` that is still current at the
// test (v not reassigned since): `l ≥ 0` with c = 1 is `len(v) ≥ 1`.
func nonEmptyAtomAt(g *FG, at *GNode, cnd ast.Expr, pol int, v types.Object) bool {
	info := g.Info
	if nonEmptyAtom(info, cnd, pol, v) {
		return true
	}
	l, op, r, ok := cmpNorm(cnd, pol)
	if !ok {
		return false
	}
	shifted := func(e ast.Expr) (int64, bool) {
		id, isID := unparen(e).(*ast.Ident)
		if !isID {
			return 0, false
		}
		def := g.LocalDef(info.Uses[id])
		if def == nil || g.staleAt(def, at) {
			return 0, false
		}
		be, isB := unparen(def).(*ast.BinaryExpr)
		if !isB || be.Op != token.SUB || !isLenOf(info, be.X, func(x ast.Expr) bool { return sameVar(info, x, v) }) {
			return 0, false
		}
		return constInt(info, be.Y)
	}
	if cshift, isL := shifted(l); isL {
		if k, isC := constInt(info, r); isC {
			k += cshift
			return (op == token.GTR && k >= 0) || (op == token.GEQ && k >= 1) || (op == token.NEQ && k == 0)
		}
	}
	if cshift, isR := shifted(r); isR {
		if k, isC := constInt(info, l); isC {
			k += cshift
			return (op == token.LSS && k >= 0) || (op == token.LEQ && k >= 1) || (op == token.NEQ && k == 0)
		}
	}
	return false
}

func c18(c *Ctx) {
	px := c.Index(promMod, promPkg)
	if px == nil {
		return
	}
	info := px.Pkg.TypesInfo
	le := c.Locks(px)

	c.Rule("R1", "E3 guard (must-flow with kills)", "on the scrape path every index/slice of the form x[len(x)−k] / x[:len(x)−k] is dominated by a non-emptiness test of x since its last assignment", 2)
	cnt := 0
	for _, f := range px.All {
		outer := px.Outer(f)
		var sites []ast.Expr
		var subjects []types.Object
		inspectNoLit(f.Body(), func(n ast.Node) bool {
			var base, idx ast.Expr
			switch x := n.(type) {
			case *ast.IndexExpr:
				base, idx = x.X, x.Index
			case *ast.SliceExpr:
				base = x.X
				if x.High != nil {
					idx = x.High
				}
			}
			if base == nil || idx == nil {
				return true
			}
			// the index, possibly held in a local with a single definition (last := len(x) - 1)
			if id, isID := unparen(idx).(*ast.Ident); isID {
				if def := px.FG(f).LocalDef(info.Uses[id]); def != nil {
					idx = def
				}
			}
			be, ok := unparen(idx).(*ast.BinaryExpr)
			if !ok || be.Op != token.SUB {
				return true
			}
			v := objOf(info, base)
			if v == nil || !isLenOf(info, be.X, func(x ast.Expr) bool { return sameVar(info, x, v) }) {
				return true
			}
			if _, isC := constInt(info, be.Y); !isC {
				return true
			}
			sites = append(sites, n.(ast.Expr))
			subjects = append(subjects, v)
			return true
		})
		for i, site := range sites {
			v := subjects[i]
			cnt++
			c.Analysed(outer)
			key := "prometheus|" + f.Name + "|" + exprStr(site) + " guarded by a non-emptiness test"
			g := px.FG(f)
			x := g.NodeOf(site)
			// (a) same-condition short circuit: A && … site … with A implying non-empty
			guarded := false
			if x != nil && x.N != nil {
				var walk func(e ast.Expr, est bool) bool
				walk = func(e ast.Expr, est bool) bool {
					e = unparen(e)
					if be, ok := e.(*ast.BinaryExpr); ok && be.Op == token.LAND {
						if walk(be.X, est) {
							return true
						}
						est2 := est
						condAtoms(be.X, 1, func(a ast.Expr, pol int) {
							if nonEmptyAtomAt(g, x, a, pol, v) {
								est2 = true
							}
						})
						return walk(be.Y, est2)
					}
					if est && containsNoLitOrIn(e, site) {
						return true
					}
					return false
				}
				if e, ok := x.N.(ast.Expr); ok {
					guarded = walk(e, false)
				}
			}
			// (b) flow: fact holds on every path, killed by assignments to v
			if !guarded && x != nil {
				facts := g.MustFlow(nil, func(e *GEdge) []string {
					if edgeImplies(e, func(cnd ast.Expr, pol int) bool { return nonEmptyAtomAt(g, e.From, cnd, pol, v) }) {
						return []string{"ne"}
					}
					return nil
				}, func(y *GNode, in FactSet) FactSet {
					inspectNoLit(y.N, func(m ast.Node) bool {
						if as, ok := m.(*ast.AssignStmt); ok {
							for _, l := range as.Lhs {
								if sameVar(info, l, v) {
									delete(in, "ne")
								}
							}
						}
						return true
					})
					return in
				})
				guarded = facts[x]["ne"]
			}
			c.Check(guarded, "R1", key, at(px.M, site.Pos()), "x is known non-empty here",
				"x can be empty here: index out of range [-1] panics inside the registry's gather goroutine and kills the process (e.g. a name that is entirely trimmed away)")
		}
	}

	c.Rule("R2", "E1 guarded-by", "the collector's mutable members are accessed only under c.mu", 16)
	le.GuardedBy(c.Run, "R2", GuardSpec{Type: "collector", Mutex: ".mu",
		Fields: []string{"disableTargetInfo", "targetInfo", "scopeInfos", "scopeInfosInvalid", "metricFamilies", "resourceKeyVals"},
		Exempt: map[string]string{
			"(*collector).Collect|targetInfo":        "read after this goroutine's own locked initialisation block; the field is written at most once, inside the first such block: every reader has passed the lock after the only write",
			"(*collector).Collect|disableTargetInfo": "read after this goroutine's own locked initialisation block; written only while targetInfo is still nil inside such a block: every reader has passed the lock after the only write",
		}})
	// the exemption's premise: Collect's unlocked reads come after the locked block, and writes happen only inside it
	if fn := c.Fn(px, "R2", "(*collector).Collect"); fn != nil {
		fTI := lookupField(px.Pkg, "collector", "targetInfo")
		fDis := lookupField(px.Pkg, "collector", "disableTargetInfo")
		okW := true
		var lockedLit *ast.FuncLit
		var initCall *GNode
		for _, a := range px.fieldAccesses(map[*types.Var]bool{fTI.Origin(): true, fDis.Origin(): true}) {
			if !a.Write {
				continue
			}
			if px.freshLocal(a.F, a.Sel.X) {
				continue
			}
			// the initialisation unit: a literal called in place inside Collect, or a method of the collector that Collect calls
			if px.Outer(a.F) == fn && a.F.Lit != nil && px.Use[a.F.Lit] == LitCalled {
				lockedLit = a.F.Lit
			} else if a.F.Lit == nil && a.F != fn && len(px.FG(fn).Match(callToDecl(info, a.F))) == 1 {
				initCall = px.FG(fn).Match(callToDecl(info, a.F))[0]
				// … holding the collector's mutex at the write
				if !le.Held(a.F)[px.FG(a.F).NodeOf(a.Sel)][varKey(a.F.Recv())+resolvePath(px.Pkg, "collector", ".mu")] {
					okW = false
				}
			} else {
				okW = false
				continue
			}
			// guarded by targetInfo == nil
			g := px.FG(a.F)
			d, _ := g.DominatedByEdges(g.NodeOf(a.Sel), func(e *GEdge) bool {
				return edgeImplies(e, func(cnd ast.Expr, pol int) bool {
					nn, ok := nilCmp(info, cnd, pol, func(x ast.Expr) bool { return isField(info, x, fTI) })
					return ok && !nn
				})
			})
			if !d {
				okW = false
			}
		}
		okR := lockedLit != nil || initCall != nil
		if okR {
			g := px.FG(fn)
			lx := initCall
			if lockedLit != nil {
				lx = g.NodeOf(lockedLit)
			}
			for _, a := range px.fieldAccesses(map[*types.Var]bool{fTI.Origin(): true, fDis.Origin(): true}) {
				if a.F == fn && !a.Write {
					if d, _ := g.DominatedByNodes(g.NodeOf(a.Sel), map[*GNode]bool{lx: true}); !d {
						okR = false
					}
				}
			}
		}
		c.Check(okW && okR, "R2", "prometheus|(*collector).Collect|target-info fields: written only in the locked block under targetInfo == nil, read only after it", at(px.M, fn.Pos()),
			"write-once initialisation ordered by the mutex", "the write-once argument for the unlocked target-info reads no longer holds")
	}

	c.Rule("R3", "E2 + E9", "metricType and the dispatch switch in Collect cover the same metricdata types; monotonic sum ↦ counter, otherwise gauge", 3)
	typeCases := func(fn *FuncInfo) []string {
		var out []string
		if fn == nil {
			return out
		}
		inspectNoLit(fn.Body(), func(n ast.Node) bool {
			if ts, ok := n.(*ast.TypeSwitchStmt); ok {
				for _, cl := range ts.Body.List {
					for _, e := range cl.(*ast.CaseClause).List {
						out = append(out, types.TypeString(info.Types[e].Type, func(p *types.Package) string { return p.Name() }))
					}
				}
			}
			return true
		})
		sort.Strings(out)
		return out
	}
	mt := c.Fn(px, "R3", "(*collector).metricType")
	col := c.Fn(px, "R3", "(*collector).Collect")
	// the dispatch may have been moved out of Collect into a helper it calls for every metric
	colSwitch, _ := px.workFunc(col, func(n ast.Node) bool { _, ok := n.(*ast.TypeSwitchStmt); return ok })
	a, b := typeCases(mt), typeCases(colSwitch)
	c.Check(len(a) == 8 && strings.Join(a, ",") == strings.Join(b, ","), "R3", "prometheus|metricType vs Collect|same eight data types", at(px.M, px.Pkg.Syntax[0].Pos()), strings.Join(a, ","),
		"metricType knows "+strings.Join(a, ",")+" but Collect dispatches "+strings.Join(b, ",")+": a type gets a family name but no samples, or is silently skipped")
	if mt != nil {
		// Sum: IsMonotonic true ⇒ COUNTER, false ⇒ GAUGE
		good, n := true, 0
		inspectNoLit(mt.Body(), func(nd ast.Node) bool {
			cc, ok := nd.(*ast.CaseClause)
			if !ok {
				return true
			}
			isSum := false
			for _, e := range cc.List {
				if strings.Contains(exprStr(e), "Sum[") {
					isSum = true
				}
			}
			if !isSum {
				return true
			}
			n++
			// if v.IsMonotonic { return COUNTER } return GAUGE
			var inIf, after string
			for _, st := range cc.Body {
				switch s := st.(type) {
				case *ast.IfStmt:
					if strings.HasSuffix(exprStr(s.Cond), ".IsMonotonic") {
						for _, b := range s.Body.List {
							if rs, ok := b.(*ast.ReturnStmt); ok {
								inIf = exprStr(rs.Results[0])
							}
						}
					}
				case *ast.ReturnStmt:
					after = exprStr(s.Results[0])
				}
			}
			if !strings.Contains(inIf, "MetricType_COUNTER") || !strings.Contains(after, "MetricType_GAUGE") {
				good = false
			}
			return true
		})
		c.Check(good && n >= 1, "R3", "prometheus|metricType|monotonic sum ↦ counter, non-monotonic ↦ gauge", at(px.M, mt.Pos()), "as specified", "sum type mapping changed (an up-down counter exposed as a Prometheus counter is rejected / mis-rated)")
	}
	if fn := c.Fn(px, "R3", "addSumMetric"); fn != nil {
		good := false
		inspectNoLit(fn.Body(), func(nd ast.Node) bool {
			if is, ok := nd.(*ast.IfStmt); ok && strings.HasSuffix(exprStr(is.Cond), ".IsMonotonic") {
				if u, ok := is.Cond.(*ast.UnaryExpr); ok && u.Op == token.NOT {
					for _, st := range is.Body.List {
						if as, ok := st.(*ast.AssignStmt); ok && strings.Contains(exprStr(as.Rhs[0]), "GaugeValue") {
							good = true
						}
					}
				}
			}
			return true
		})
		c.Check(good, "R3", "prometheus|addSumMetric|value type follows IsMonotonic", at(px.M, fn.Pos()), "counter unless non-monotonic", "sample value type no longer follows the sum's monotonicity")
	}

	c.Rule("R4", "E3 ordering", "getName: trim 'total' → namespace → unit suffix (only when absent) → '_total'; the counter steps only for counters with suffixes enabled; the unit step only with units enabled", 4)
	if fn := c.Fn(px, "R4", "(*collector).getName"); fn != nil {
		g := px.FG(fn)
		match := func(pred func(ast.Node) bool) []*GNode { return g.Match(pred) }
		unitTbl := px.Pkg.Types.Scope().Lookup("unitSuffixes")
		counterSfx := px.Pkg.Types.Scope().Lookup("counterSuffix")
		fNS := lookupField(px.Pkg, "collector", "namespace")
		fNoUnits := lookupField(px.Pkg, "collector", "withoutUnits")
		fNoCounter := lookupField(px.Pkg, "collector", "withoutCounterSuffixes")
		if unitTbl == nil || counterSfx == nil || fNS == nil || fNoUnits == nil || fNoCounter == nil {
			c.Missing("R4", "prometheus|getName|anchors: unitSuffixes / counterSuffix / collector.{namespace,withoutUnits,withoutCounterSuffixes} not found")
		}
		mentions := func(e ast.Node, objs map[types.Object]bool) bool {
			hit := false
			ast.Inspect(e, func(n ast.Node) bool {
				if id, ok := n.(*ast.Ident); ok && objs[info.Uses[id]] {
					hit = true
				}
				return true
			})
			return hit
		}
		// the unit word: locals defined from unitSuffixes[...], and the "known unit" flag of the comma-ok form
		unitObjs, unitOK := map[types.Object]bool{}, map[types.Object]bool{}
		ast.Inspect(fn.Body(), func(n ast.Node) bool {
			as, ok := n.(*ast.AssignStmt)
			if !ok || len(as.Rhs) != 1 {
				return true
			}
			ie, ok := unparen(as.Rhs[0]).(*ast.IndexExpr)
			if !ok || objOf(info, ie.X) != unitTbl {
				return true
			}
			if o := objOf(info, as.Lhs[0]); o != nil {
				unitObjs[o] = true
			}
			if len(as.Lhs) == 2 {
				if o := objOf(info, as.Lhs[1]); o != nil {
					unitOK[o] = true
				}
			}
			return true
		})
		cs := map[types.Object]bool{counterSfx: true}
		// the trim: strings.TrimSuffix(·, counterSuffix) here or in a helper of the package called from here
		trim, _ := px.effectNodes(fn, func(n ast.Node) bool {
			call, ok := n.(*ast.CallExpr)
			return ok && isCallTo(info, call, "strings.TrimSuffix") && len(call.Args) == 2 && mentions(call.Args[1], cs)
		})
		ns := match(func(n ast.Node) bool {
			as, ok := n.(*ast.AssignStmt)
			if !ok || len(as.Rhs) != 1 {
				return false
			}
			be, isBin := unparen(as.Rhs[0]).(*ast.BinaryExpr)
			if !isBin || be.Op != token.ADD {
				return false
			}
			return isField(info, be.X, fNS) && len(as.Lhs) == 1 && sameVar(info, as.Lhs[0], objOf(info, be.Y))
		})
		// an append step: name += X or name = name + X
		// the name variable: what the function returns (by identifier) or concatenates onto in its returns
		concatHead := func(e ast.Expr) ast.Expr {
			first := e
			for {
				b2, ok := unparen(first).(*ast.BinaryExpr)
				if !ok || b2.Op != token.ADD {
					return unparen(first)
				}
				first = b2.X
			}
		}
		appendOf := func(n ast.Node, objs map[types.Object]bool) bool {
			// return name + "_" + X
			if rs, ok := n.(*ast.ReturnStmt); ok && len(rs.Results) == 1 {
				if be, isBin := unparen(rs.Results[0]).(*ast.BinaryExpr); isBin && be.Op == token.ADD {
					if _, isID := concatHead(be).(*ast.Ident); isID && mentions(be, objs) {
						return true
					}
				}
				return false
			}
			as, ok := n.(*ast.AssignStmt)
			if !ok || len(as.Lhs) != 1 || len(as.Rhs) != 1 {
				return false
			}
			if as.Tok == token.ADD_ASSIGN {
				return mentions(as.Rhs[0], objs)
			}
			be, isBin := unparen(as.Rhs[0]).(*ast.BinaryExpr)
			if as.Tok != token.ASSIGN || !isBin || be.Op != token.ADD {
				return false
			}
			lo := objOf(info, as.Lhs[0])
			first := be.X
			for {
				b2, ok := unparen(first).(*ast.BinaryExpr)
				if !ok || b2.Op != token.ADD {
					break
				}
				first = b2.X
			}
			return lo != nil && sameVar(info, first, lo) && mentions(be, objs)
		}
		unit := match(func(n ast.Node) bool { return appendOf(n, unitObjs) })
		total := match(func(n ast.Node) bool { return appendOf(n, cs) })
		good := len(trim) == 1 && len(ns) == 1 && len(unit) == 1 && len(total) == 1
		why := "steps not found (trim " + itoa(len(trim)) + ", namespace " + itoa(len(ns)) + ", unit " + itoa(len(unit)) + ", _total " + itoa(len(total)) + ")"
		if good {
			order := [][]*GNode{trim, ns, unit, total}
			names := []string{"trim", "namespace", "unit", "_total"}
			for i := 0; i < len(order); i++ {
				for j := i + 1; j < len(order); j++ {
					s, _ := g.Reach([]*GNode{order[j][0]}, nil, nil)
					if s[order[i][0]] {
						good, why = false, names[j]+" can run before "+names[i]
					}
				}
			}
		}
		c.Check(good, "R4", "prometheus|getName|step order trim → namespace → unit → _total", at(px.M, fn.Pos()), "suffixes end the name in the specified order", "name construction order changed: "+why)
		if len(unit) == 1 {
			// the unit step runs only across edges that establish: units enabled, unit known, name does not already end with the unit word
			isPresentTest := func(cnd ast.Expr) bool {
				call, ok := cnd.(*ast.CallExpr)
				return ok && isCallTo(info, call, "strings.HasSuffix") && len(call.Args) == 2 && mentions(call.Args[1], unitObjs)
			}
			dom := func(atom func(cnd ast.Expr, pol int) bool) bool {
				ok, _ := g.DominatedByEdges(unit[0], func(e *GEdge) bool { return g.edgeImpliesDeep(e, atom) })
				return ok
			}
			enabled := dom(func(cnd ast.Expr, pol int) bool { return pol < 0 && isField(info, cnd, fNoUnits) })
			known := dom(func(cnd ast.Expr, pol int) bool {
				if id, ok := cnd.(*ast.Ident); ok && pol > 0 && unitOK[info.Uses[id]] {
					return true
				}
				// plain-index form: suffix != ""
				if l, op, r, ok := cmpNorm(cnd, pol); ok && op == token.NEQ {
					return (mentions(l, unitObjs) && exprStr(r) == `""`) || (mentions(r, unitObjs) && exprStr(l) == `""`)
				}
				return false
			})
			absent := dom(func(cnd ast.Expr, pol int) bool { return pol < 0 && isPresentTest(cnd) })
			c.Check(enabled && known && absent, "R4", "prometheus|getName|unit suffix only when enabled, known and not already present", at(px.M, unit[0].N.Pos()),
				"enabled="+boolStr(enabled)+" known="+boolStr(known)+" absent="+boolStr(absent),
				"unit suffix condition changed (units enabled: "+boolStr(enabled)+", unit known: "+boolStr(known)+", not already present: "+boolStr(absent)+"): suffix duplicated or forced")
			// the already-present test looks at the name after 'total' has been trimmed: the trim is not reachable from the test
			if len(trim) == 1 {
				tests := match(func(n ast.Node) bool { e, ok := n.(ast.Expr); return ok && isPresentTest(unparen(e)) })
				okT := len(tests) >= 1
				for _, t := range tests {
					s, _ := g.Reach([]*GNode{t}, nil, nil)
					if s[trim[0]] {
						okT = false
					}
				}
				c.Check(okT, "R4", "prometheus|getName|already-has-unit test sees the name with 'total' trimmed", at(px.M, fn.Pos()), itoa(len(tests))+" test site(s), none before the trim",
					"the test for an existing unit suffix runs before the trailing 'total' is trimmed: a counter named <x>_<unit>_total gets the unit word twice")
			}
		}
		if len(total) == 1 && len(trim) == 1 {
			// both counter steps run only for counters with suffixes enabled
			gate := func(n *GNode) (bool, bool) {
				a, _ := g.DominatedByEdges(n, func(e *GEdge) bool {
					return g.edgeImpliesDeep(e, func(cnd ast.Expr, pol int) bool { return pol < 0 && isField(info, cnd, fNoCounter) })
				})
				b, _ := g.DominatedByEdges(n, func(e *GEdge) bool {
					return g.edgeImpliesDeep(e, func(cnd ast.Expr, pol int) bool {
						l, op, r, ok := cmpNorm(cnd, pol)
						if !ok || op != token.EQL {
							return false
						}
						isCounter := func(x ast.Expr) bool {
							tv, has := info.Types[x]
							return has && tv.Value != nil && strings.HasSuffix(exprStr(x), "MetricType_COUNTER")
						}
						return isCounter(l) || isCounter(r)
					})
				})
				return a, b
			}
			a1, b1 := gate(trim[0])
			a2, b2 := gate(total[0])
			c.Check(a1 && b1 && a2 && b2, "R4", "prometheus|getName|'total' trimmed and '_total' appended only for counters with suffixes enabled", at(px.M, fn.Pos()), "both steps gated by !withoutCounterSuffixes && type == COUNTER",
				"the counter suffix steps are no longer gated by (!withoutCounterSuffixes && type == COUNTER)")
		}
		// unit table
		{
			var tbl *ast.CompositeLit
			for _, f := range px.Pkg.Syntax {
				ast.Inspect(f, func(n ast.Node) bool {
					if vs, ok := n.(*ast.ValueSpec); ok {
						for i, nm := range vs.Names {
							if nm.Name == "unitSuffixes" && i < len(vs.Values) {
								tbl, _ = unparen(vs.Values[i]).(*ast.CompositeLit)
							}
						}
					}
					return true
				})
			}
			want := map[string]string{"s": "seconds", "ms": "milliseconds", "By": "bytes", "1": "ratio", "%": "percent", "Hz": "hertz", "h": "hours", "min": "minutes", "d": "days"}
			got := map[string]string{}
			if tbl != nil {
				for _, el := range tbl.Elts {
					if kv, ok := el.(*ast.KeyValueExpr); ok {
						k, _ := constString(info, kv.Key)
						v, _ := constString(info, kv.Value)
						got[k] = v
					}
				}
			}
			good := true
			for k, v := range want {
				if got[k] != v {
					good = false
				}
			}
			c.Check(good, "R4", "prometheus|unitSuffixes|core UCUM → Prometheus unit words", at(px.M, fn.Pos()), itoa(len(got))+" entries", "unit suffix table changed for a core unit")
		}
	}

	// R8: a scrape that collected nothing (reader not registered yet, or already shut down) leaves no trace
	c.Rule("R8", "E2 reachability under the error facts", "Collect: when the reader reports ErrReaderNotRegistered or ErrReaderShutdown nothing was collected — the scrape returns without sending a metric and without filling the once-only caches (target info, resource labels) from the empty ResourceMetrics", 2)
	if fn := c.Fn(px, "R8", "(*collector).Collect"); fn != nil {
		g := px.FG(fn)
		collT := namedOf(fn.Recv().Type())
		for _, sentinel := range []string{"ErrReaderNotRegistered", "ErrReaderShutdown"} {
			mentions := 0
			env := func(e ast.Expr) (constant.Value, bool) {
				switch x := unparen(e).(type) {
				case *ast.CallExpr:
					if isCallTo(info, x, "errors.Is") && len(x.Args) == 2 {
						if v, ok := pkgVarOf(info, x.Args[1]); ok && v.Pkg() != nil && v.Pkg().Path() == sdkMetric {
							if v.Name() == sentinel {
								mentions++
								return constant.MakeBool(true), true
							}
							return constant.MakeBool(false), true
						}
					}
				case *ast.BinaryExpr:
					if (x.Op == token.NEQ || x.Op == token.EQL) && isNilIdent(info, x.Y) && isErrVar(info, x.X) {
						return constant.MakeBool(x.Op == token.NEQ), true
					}
					if x.Op == token.EQL || x.Op == token.NEQ {
						// err == metric.ErrX
						for _, pair := range [][2]ast.Expr{{x.X, x.Y}, {x.Y, x.X}} {
							if isErrVar(info, pair[0]) {
								if v, ok := pkgVarOf(info, pair[1]); ok && v.Pkg() != nil && v.Pkg().Path() == sdkMetric {
									mentions++
									return constant.MakeBool((v.Name() == sentinel) == (x.Op == token.EQL)), true
								}
							}
						}
					}
				}
				return nil, false
			}
			seen := g.ReachUnder(env)
			bad := ""
			var badPos token.Pos
			for x := range seen {
				if x.N == nil {
					continue
				}
				ast.Inspect(x.N, func(n ast.Node) bool {
					switch y := n.(type) {
					case *ast.SendStmt:
						if bad == "" {
							bad, badPos = "a metric is sent ("+exprStr(y.Value)+")", y.Pos()
						}
					case *ast.AssignStmt:
						for _, l := range y.Lhs {
							if fv, b := fieldOf(info, l); fv != nil && b != nil {
								if tv, ok := info.Types[b]; ok && collT != nil && namedOf(tv.Type) != nil && namedOf(tv.Type).Obj() == collT.Obj() {
									if bad == "" {
										bad, badPos = "the collector's "+fv.Name()+" is filled from the empty ResourceMetrics", y.Pos()
									}
								}
							}
						}
					}
					return true
				})
			}
			key := "prometheus|(*collector).Collect|" + sentinel + " ⇒ the scrape returns empty-handed"
			if mentions == 0 {
				c.Violation("R8", key, at(px.M, fn.Pos()), "Collect no longer distinguishes "+sentinel+": a scrape made while nothing can be collected goes on to build and cache the target info from an empty resource")
				continue
			}
			pos := fn.Pos()
			if bad != "" {
				pos = badPos
			}
			c.Check(bad == "", "R8", key, at(px.M, pos), "no send and no cache store reachable when the reader reports "+sentinel,
				"after a scrape that collected nothing "+bad+": the once-only target info / resource labels are built from an empty resource and stay that way for the life of the exporter")
		}
	}

	// a memoised result is keyed by everything it was computed from
	{
		collT := lookupType(px.Pkg, "collector")
		nMemo := 0
		for _, f := range sortedFuncs(px.Funcs) {
			if f.Body() == nil || f.Recv() == nil || collT == nil || namedOf(f.Recv().Type()) == nil || namedOf(f.Recv().Type()).Obj() != collT.Obj() {
				continue
			}
			g := px.FG(f)
			params := map[types.Object]bool{}
			sg := f.Obj.Type().(*types.Signature).Params()
			for i := 0; i < sg.Len(); i++ {
				params[sg.At(i)] = true
			}
			mentionsParams := func(e ast.Expr, depth int) map[types.Object]bool { return nil }
			mentionsParams = func(e ast.Expr, depth int) map[types.Object]bool {
				out := map[types.Object]bool{}
				ast.Inspect(e, func(n ast.Node) bool {
					if id, ok := n.(*ast.Ident); ok {
						o := info.Uses[id]
						if params[o] {
							out[o] = true
						} else if d := g.LocalDef(o); d != nil && depth < 3 {
							for k := range mentionsParams(d, depth+1) {
								out[k] = true
							}
						}
					}
					return true
				})
				return out
			}
			inspectNoLit(f.Body(), func(nd ast.Node) bool {
				as, ok := nd.(*ast.AssignStmt)
				if !ok || len(as.Lhs) != 1 || len(as.Rhs) != 1 {
					return true
				}
				ie, ok := unparen(as.Lhs[0]).(*ast.IndexExpr)
				if !ok {
					return true
				}
				fv, b := fieldOf(info, ie.X)
				if fv == nil || b == nil || !sameVar(info, b, f.Recv()) {
					return true
				}
				if _, isMap := fv.Type().Underlying().(*types.Map); !isMap {
					return true
				}
				// the stored value: a call, or a local defined / last assigned from a call in this function
				var call *ast.CallExpr
				v := unparen(as.Rhs[0])
				if cl, isC := v.(*ast.CallExpr); isC {
					call = cl
				} else if o := objOf(info, v); o != nil {
					inspectNoLit(f.Body(), func(m ast.Node) bool {
						if a2, isAs := m.(*ast.AssignStmt); isAs && len(a2.Lhs) == len(a2.Rhs) {
							for i, l := range a2.Lhs {
								if objOf(info, l) == o {
									if cl, isC := unparen(a2.Rhs[i]).(*ast.CallExpr); isC {
										call = cl
									}
								}
							}
						}
						return true
					})
				}
				// … or, when the computation is written out (or was expanded) in the miss branch: every parameter that branch reads
				var missBody *ast.BlockStmt
				if call == nil || px.declByObj(callee(info, call)) == nil {
					call = nil
					ast.Inspect(f.Body(), func(m ast.Node) bool {
						if is, isIf := m.(*ast.IfStmt); isIf && containsNoLit(is.Body, as) {
							missBody = is.Body // innermost wins: Inspect visits outer first
						}
						return true
					})
					if missBody == nil {
						return true
					}
				}
				// is this a memo (the same map is read with the same key in this function)?
				read := false
				inspectNoLit(f.Body(), func(m ast.Node) bool {
					if i2, isI := m.(*ast.IndexExpr); isI && i2 != ie {
						if f2, _ := fieldOf(info, i2.X); f2 == fv {
							read = true
						}
					}
					return true
				})
				if !read {
					return true
				}
				nMemo++
				inKey := mentionsParams(ie.Index, 0)
				missingSet := map[string]bool{}
				what := "the computation in the miss branch"
				if call != nil {
					what = exprStr(call.Fun)
					for _, a := range call.Args {
						for o := range mentionsParams(a, 0) {
							if !inKey[o] {
								missingSet[o.Name()] = true
							}
						}
					}
				} else {
					for _, st := range missBody.List {
						if st == ast.Stmt(as) {
							continue
						}
						ast.Inspect(st, func(m ast.Node) bool {
							if id, isID := m.(*ast.Ident); isID && params[info.Uses[id]] && !inKey[info.Uses[id]] {
								missingSet[id.Name] = true
							}
							return true
						})
					}
				}
				var missing []string
				for k := range missingSet {
					missing = append(missing, k)
				}
				sort.Strings(missing)
				c.Check(len(missing) == 0, "R4", "prometheus|"+f.Name+"|the memo in "+fv.Name()+" is keyed by everything the memoised computation reads", at(px.M, as.Pos()), exprStr(ie.Index)+" covers the inputs of "+what,
					"the cached result of "+what+" depends on "+joinStr(missing)+", which the key "+exprStr(ie.Index)+" leaves out: the first caller's value is handed to callers with another "+joinStr(missing)+" (a counter and a gauge of one name get the same Prometheus name and one of them is dropped as a type conflict)")
				return true
			})
		}
		_ = nMemo
	}

	// a set that suppresses a send is keyed by the whole identity of what is sent: if _, sent := seen[k]; !sent { ch <- m } with m
	// made from A (m, err := c.scopeInfo(A)) needs k to carry A itself — a key made of some of A's fields merges series that
	// differ in the others, and only the first of them is exposed
	if fn := px.Func("(*collector).Collect"); fn != nil {
		g := px.FG(fn)
		for _, x := range g.Nodes {
			send, ok := x.N.(*ast.SendStmt)
			if !ok {
				continue
			}
			// the guarding look-up: a comma-ok read of a local map whose ok result is false on the way here
			var keyExpr ast.Expr
			var setName string
			inspectNoLit(fn.Body(), func(nd ast.Node) bool {
				as, isAs := nd.(*ast.AssignStmt)
				if !isAs || len(as.Lhs) != 2 || len(as.Rhs) != 1 {
					return true
				}
				ie, isIE := unparen(as.Rhs[0]).(*ast.IndexExpr)
				if !isIE {
					return true
				}
				mv, isV := objOf(info, ie.X).(*types.Var)
				if !isV || mv.IsField() || !definedIn(info, fn.Body(), mv) {
					return true
				}
				if _, isMap := mv.Type().Underlying().(*types.Map); !isMap {
					return true
				}
				okVar := objOf(info, as.Lhs[1])
				if okVar == nil {
					return true
				}
				d, _ := g.DominatedByEdges(x, func(e *GEdge) bool {
					return edgeImplies(e, func(cnd ast.Expr, pol int) bool {
						id, isID := cnd.(*ast.Ident)
						return isID && pol < 0 && info.Uses[id] == okVar
					})
				})
				if d {
					keyExpr, setName = ie.Index, mv.Name()
				}
				return true
			})
			if keyExpr == nil {
				continue
			}
			// what the sent value was made from
			var made *ast.CallExpr
			if o := objOf(info, send.Value); o != nil {
				inspectNoLit(fn.Body(), func(nd ast.Node) bool {
					if as, isAs := nd.(*ast.AssignStmt); isAs && len(as.Rhs) == 1 {
						for _, l := range as.Lhs {
							if objOf(info, l) == o {
								if cl, isC := unparen(as.Rhs[0]).(*ast.CallExpr); isC {
									made = cl
								}
							}
						}
					}
					return true
				})
			} else if cl, isC := unparen(send.Value).(*ast.CallExpr); isC {
				made = cl
			}
			if made == nil {
				continue
			}
			key := keyExpr
			if d := g.LocalDef(objOf(info, keyExpr)); d != nil {
				key = d
			}
			// maximal operand paths of the key
			whole := map[string]bool{}
			var paths func(e ast.Node)
			paths = func(e ast.Node) {
				ast.Inspect(e, func(m ast.Node) bool {
					switch y := m.(type) {
					case *ast.SelectorExpr:
						whole[exprStr(y)] = true
						return false
					case *ast.KeyValueExpr:
						paths(y.Value)
						return false
					case *ast.Ident:
						whole[y.Name] = true
					}
					return true
				})
			}
			paths(key)
			var partial []string
			for _, a := range made.Args {
				as := exprStr(unparen(a))
				if _, isSel := unparen(a).(*ast.SelectorExpr); !isSel {
					if _, isID := unparen(a).(*ast.Ident); !isID {
						continue
					}
				}
				if whole[as] {
					continue
				}
				var parts []string
				for w := range whole {
					if strings.HasPrefix(w, as+".") {
						parts = append(parts, strings.TrimPrefix(w, as+"."))
					}
				}
				sort.Strings(parts)
				if len(parts) == 0 {
					partial = append(partial, as+" (not in the key at all)")
				} else {
					partial = append(partial, as+" (only "+strings.Join(parts, ", ")+")")
				}
			}
			c.Check(len(partial) == 0, "R4", "prometheus|(*collector).Collect|the set "+setName+" that suppresses a send is keyed by what the sent value is made from", at(px.M, send.Pos()), exprStr(key)+" carries the argument(s) of "+exprStr(made.Fun),
				"the send of "+exprStr(send.Value)+" is skipped when "+exprStr(key)+" was seen, but the value is made from "+strings.Join(partial, "; ")+": two scopes that agree on those fields and differ elsewhere (e.g. in their attributes) have different series, and only the first one met in a scrape is exposed")
		}
	}

	c.Rule("R7", "E3 per-iteration reset", "in Collect, a label buffer (keyVals) that is appended to inside the per-scope loop is either created inside that loop or emptied on every path from the start of an iteration to the append: labels of one scope never pile up on the next", 2)
	if fn := c.Fn(px, "R7", "(*collector).Collect"); fn != nil {
		g := px.FG(fn)
		fKeys, fVals := lookupField(px.Pkg, "keyVals", "keys"), lookupField(px.Pkg, "keyVals", "vals")
		// the per-scope loop: the outermost range statement of Collect
		var loop *ast.RangeStmt
		inspectNoLit(fn.Body(), func(n ast.Node) bool {
			if r, ok := n.(*ast.RangeStmt); ok && loop == nil {
				loop = r
			}
			return loop == nil
		})
		if loop == nil || fKeys == nil || fVals == nil {
			c.Undecided("R7", "prometheus|(*collector).Collect|per-scope loop", at(px.M, fn.Pos()), "per-scope range loop / keyVals fields not found")
		} else {
			var bodyHead *GNode
			for b, h := range g.head {
				if b.Kind.String() == "RangeBody" && b.Stmt == ast.Stmt(loop) {
					bodyHead = h
				}
			}
			cnt := 0
			for _, x := range g.Nodes {
				as, ok := x.N.(*ast.AssignStmt)
				if !ok || len(as.Lhs) != len(as.Rhs) || !containsNoLit(loop.Body, as) {
					continue
				}
				for i, l := range as.Lhs {
					fv, base := fieldOf(info, l)
					if fv == nil || (fv != fKeys && fv != fVals) {
						continue
					}
					v := objOf(info, base)
					call, isC := unparen(as.Rhs[i]).(*ast.CallExpr)
					if v == nil || !isC || builtinName(info, call) != "append" || len(call.Args) == 0 {
						continue
					}
					// a self-append: append(v.f, …) — append(v.f[:0], …) is a reset
					if f2, b2 := fieldOf(info, call.Args[0]); f2 != fv || b2 == nil || !sameVar(info, b2, v) {
						continue
					}
					cnt++
					key := "prometheus|(*collector).Collect|" + exprStr(l) + " #" + itoa(cnt) + " starts empty for every scope"
					if definedIn(info, loop.Body, v) {
						c.OK("R7", key, at(px.M, as.Pos()), "the buffer is created inside the loop")
						continue
					}
					// negative form: from the start of an iteration the append is reachable only through a reset of that field
					isReset := func(y *GNode) bool {
						if y == x || y.N == nil {
							return false
						}
						hit := false
						inspectNoLit(y.N, func(m ast.Node) bool {
							a2, isAs := m.(*ast.AssignStmt)
							if !isAs || len(a2.Lhs) != len(a2.Rhs) {
								return true
							}
							for j, l2 := range a2.Lhs {
								if sameVar(info, l2, v) {
									// the whole value replaced: by a literal / call, not by itself
									if !sameVar(info, a2.Rhs[j], v) {
										hit = true
									}
								}
								if f3, b3 := fieldOf(info, l2); f3 == fv && b3 != nil && sameVar(info, b3, v) {
									c3, isC3 := unparen(a2.Rhs[j]).(*ast.CallExpr)
									selfApp := false
									if isC3 && builtinName(info, c3) == "append" && len(c3.Args) > 0 {
										if f4, b4 := fieldOf(info, c3.Args[0]); f4 == fv && b4 != nil && sameVar(info, b4, v) {
											selfApp = true
										}
									}
									if !selfApp {
										hit = true
									}
								}
							}
							return true
						})
						return hit
					}
					good := bodyHead != nil
					if good {
						seen, _ := g.Reach([]*GNode{bodyHead}, isReset, nil)
						good = !seen[x]
					}
					c.Check(good, "R7", key, at(px.M, as.Pos()), "emptied on every path from the start of the iteration",
						"the label buffer is declared outside the per-scope loop and appended to without being emptied first on some path: labels of earlier scopes pile up (duplicate label names, the scope's series are dropped)")
				}
			}
			if cnt == 0 {
				c.Undecided("R7", "prometheus|(*collector).Collect|label buffer appends", at(px.M, fn.Pos()), "no append to a keyVals buffer found in the per-scope loop (4 confirmed by reading)")
			}
		}
	}

	c.Rule("R6", "E5 ownership", "a buffer taken from a sync.Pool on the scrape path goes back at most once per Get (a second Put hands the same buffer to two later scrapes, which then rewrite each other's data)", 1)
	for _, f := range sortedFuncs(px.Funcs) {
		// per variable obtained from pool.Get(): the Put sites (deferred or not)
		got := map[types.Object]bool{}
		inspectNoLit(f.Body(), func(n ast.Node) bool {
			as, ok := n.(*ast.AssignStmt)
			if !ok || len(as.Rhs) != 1 || len(as.Lhs) < 1 {
				return true
			}
			r := unparen(as.Rhs[0])
			if ta, ok := r.(*ast.TypeAssertExpr); ok {
				r = unparen(ta.X)
			}
			if call, ok := r.(*ast.CallExpr); ok && isCallTo(info, call, "(*sync.Pool).Get") {
				if o := objOf(info, as.Lhs[0]); o != nil {
					got[o] = true
				}
			}
			return true
		})
		if len(got) == 0 {
			continue
		}
		g := px.FG(f)
		for o := range got {
			var deferred, direct []*GNode
			for _, x := range g.Nodes {
				if x.N == nil {
					continue
				}
				_, isDefer := x.N.(*ast.DeferStmt)
				inspectNoLit(x.N, func(n ast.Node) bool {
					if call, ok := n.(*ast.CallExpr); ok && isCallTo(info, call, "(*sync.Pool).Put") && len(call.Args) == 1 && sameVar(info, call.Args[0], o) {
						if isDefer {
							deferred = append(deferred, x)
						} else {
							direct = append(direct, x)
						}
					}
					return true
				})
			}
			bad := ""
			// a deferred Put runs on every exit after it: any direct Put reachable after the defer is a second one
			for _, d := range deferred {
				after, _ := g.Reach([]*GNode{d}, nil, nil)
				for _, p := range direct {
					if after[p] {
						bad = "Put at " + px.M.posStr(p.N.Pos()) + " and again by the deferred Put of " + px.M.posStr(d.N.Pos())
					}
				}
			}
			// two direct Puts on one path
			for _, p := range direct {
				after, _ := g.Reach([]*GNode{p}, nil, nil)
				for _, q := range direct {
					if after[q] {
						bad = "Put at " + px.M.posStr(p.N.Pos()) + " and again at " + px.M.posStr(q.N.Pos())
					}
				}
			}
			if len(deferred) > 1 {
				bad = "two deferred Puts of the same buffer"
			}
			c.Analysed(f)
			c.Check(bad == "", "R6", "prometheus|"+f.Name+"|"+o.Name()+" returned to its pool at most once", at(px.M, f.Pos()), itoa(len(deferred))+" deferred, "+itoa(len(direct))+" direct Put(s), never two on one path",
				"the pooled buffer is put back twice on some path ("+bad+"): two later, overlapping scrapes receive the same buffer and one rewrites it while the other is still converting it (data race, wrong series exposed)")
		}
	}

	c.Rule("R5", "E3 pairing", "getAttrs appends keys and values pairwise in both branches and sorts collided values before joining; histogram buckets are running sums over BucketCounts by bound index; exponential bucket i ↦ native key Offset+i+1 on both sides", 6)
	if fn := c.Fn(px, "R5", "getAttrs"); fn != nil {
		res := fn.Obj.Type().(*types.Signature).Results()
		_ = res
		g := px.FG(fn)
		var keysV, valsV types.Object
		inspectNoLit(fn.Body(), func(nd ast.Node) bool {
			if rs, ok := nd.(*ast.ReturnStmt); ok && len(rs.Results) == 2 {
				keysV, valsV = objOf(info, rs.Results[0]), objOf(info, rs.Results[1])
			}
			return true
		})
		isApp := func(v types.Object) func(ast.Node) bool {
			return func(n ast.Node) bool {
				as, ok := n.(*ast.AssignStmt)
				return ok && len(as.Lhs) == 1 && len(as.Rhs) == 1 && v != nil && sameVar(info, as.Lhs[0], v) && isAppendTo(info, as.Rhs[0], func(e ast.Expr) bool { return sameVar(info, e, v) })
			}
		}
		ka, va := g.Match(isApp(keysV)), g.Match(isApp(valsV))
		good := len(ka) >= 2 && len(va) >= 2
		if good {
			// each key append is followed by a value append before the loop iterates (and vice versa not skipped)
			for _, k := range ka {
				s, _ := g.Reach([]*GNode{k}, func(y *GNode) bool { return toSet(va)[y] }, nil)
				for y := range s {
					if y == g.Exit || toSet(ka)[y] {
						good = false
					}
				}
			}
		}
		c.Check(good, "R5", "prometheus|getAttrs|keys and values appended pairwise", at(px.M, fn.Pos()), "label names and values stay aligned", "a label name can be appended without its value: label/value lists go out of step")
		// when names are sanitised (the scheme is not UTF-8), every label name of the result is a key of the collision map:
		// a name appended on that side must be the key variable of a range over a map
		{
			isUTF8 := func(cnd ast.Expr, pol int) bool {
				l, op, r, ok := cmpNorm(cnd, pol)
				if !ok || op != token.EQL {
					return false
				}
				s := exprStr(l) + " " + exprStr(r)
				return strings.Contains(s, "NameValidationScheme") && strings.Contains(s, "UTF8Validation")
			}
			legacy, _ := g.ReachFromEntry(nil, func(e *GEdge) bool { return edgeImplies(e, isUTF8) })
			okMerge, nLegacy := true, 0
			for _, k := range ka {
				if !legacy[k] {
					continue
				}
				nLegacy++
				as := k.N.(*ast.AssignStmt)
				call := unparen(as.Rhs[0]).(*ast.CallExpr)
				fromMap := false
				if len(call.Args) == 2 {
					arg := objOf(info, call.Args[1])
					ast.Inspect(fn.Body(), func(nd ast.Node) bool {
						rs, ok := nd.(*ast.RangeStmt)
						if !ok || rs.Key == nil || !containsNoLitOrIn(rs.Body, as) {
							return true
						}
						if _, isMap := info.Types[rs.X].Type.Underlying().(*types.Map); isMap && arg != nil && objOf(info, rs.Key) == arg {
							fromMap = true
						}
						return true
					})
				}
				if !fromMap {
					okMerge = false
				}
			}
			c.Check(okMerge && nLegacy >= 1, "R5", "prometheus|getAttrs|sanitised names all pass through the collision map", at(px.M, fn.Pos()), itoa(nLegacy)+" append(s) on the sanitising side, each of a map key",
				"on the sanitising side a label name is appended without passing through the collision map: two attribute keys that sanitise to the same name yield a duplicate label (the series is rejected)")
		}
		sorted := false
		inspectNoLit(fn.Body(), func(nd ast.Node) bool {
			if call, ok := nd.(*ast.CallExpr); ok && (isCallTo(info, call, "slices.Sort") || isCallTo(info, call, "sort.Strings")) {
				sorted = true
			}
			return true
		})
		c.Check(sorted, "R5", "prometheus|getAttrs|collided values sorted before joining", at(px.M, fn.Pos()), "deterministic merge", "values of attribute keys that collide after sanitisation are joined in map-iteration order (non-deterministic series identity)")
	}
	if fn := c.Fn(px, "R5", "addHistogramMetric"); fn != nil {
		good := false
		inspectNoLit(fn.Body(), func(nd ast.Node) bool {
			rs, ok := nd.(*ast.RangeStmt)
			if !ok || !strings.HasSuffix(exprStr(rs.X), ".Bounds") {
				return true
			}
			var cum types.Object
			accum, store := false, false
			for _, st := range rs.Body.List {
				as, ok := st.(*ast.AssignStmt)
				if !ok || len(as.Lhs) != 1 || len(as.Rhs) != 1 {
					continue
				}
				if as.Tok == token.ADD_ASSIGN {
					if ie, ok := unparen(as.Rhs[0]).(*ast.IndexExpr); ok && strings.HasSuffix(exprStr(ie.X), ".BucketCounts") && sameVar(info, ie.Index, objOf(info, rs.Key)) {
						cum = objOf(info, as.Lhs[0])
						accum = true
					}
				}
				if ie, ok := unparen(as.Lhs[0]).(*ast.IndexExpr); ok && accum && sameVar(info, ie.Index, objOf(info, rs.Value)) && sameVar(info, as.Rhs[0], cum) {
					store = true
				}
			}
			good = accum && store
			return true
		})
		c.Check(good, "R5", "prometheus|addHistogramMetric|buckets[bound] = running sum of BucketCounts[i]", at(px.M, fn.Pos()), "Prometheus cumulative buckets", "histogram buckets are no longer cumulative sums indexed by the bound's position")
	}
	// exponential histograms: OTel bucket j covers (base^j, base^(j+1)], Prometheus native bucket k covers (base^(k-1), base^k]:
	// the count of position i goes to key Offset + i + 1, on the positive and the negative side alike
	if fn := c.Fn(px, "R5", "addExponentialHistogramMetric"); fn != nil {
		n := 0
		ast.Inspect(fn.Body(), func(nd ast.Node) bool {
			rs, ok := nd.(*ast.RangeStmt)
			if !ok || rs.Key == nil {
				return true
			}
			src := exprStr(rs.X)
			var side string
			switch {
			case strings.HasSuffix(src, ".PositiveBucket.Counts"):
				side = "PositiveBucket"
			case strings.HasSuffix(src, ".NegativeBucket.Counts"):
				side = "NegativeBucket"
			default:
				return true
			}
			base := strings.TrimSuffix(src, ".Counts")
			keyName := exprStr(rs.Key)
			ast.Inspect(rs.Body, func(m ast.Node) bool {
				as, ok := m.(*ast.AssignStmt)
				if !ok || len(as.Lhs) != 1 {
					return true
				}
				ie, ok := unparen(as.Lhs[0]).(*ast.IndexExpr)
				if !ok {
					return true
				}
				if _, isMap := info.Types[ie.X].Type.Underlying().(*types.Map); !isMap {
					return true
				}
				n++
				terms, k := linearForm(info, ie.Index)
				// a summand hoisted into a local with one definition (offset := int(b.Offset) + 1) counts as its definition
				fgx := px.FG(fn)
				for round := 0; round < 3; round++ {
					changed := false
					for t, coef := range terms {
						var id *ast.Ident
						ast.Inspect(ie.Index, func(z ast.Node) bool {
							if x, ok := z.(*ast.Ident); ok && x.Name == t {
								id = x
							}
							return true
						})
						if id == nil {
							continue
						}
						d := fgx.LocalDef(info.Uses[id])
						if d == nil {
							// a helper expanded at two call sites defines the same object twice: take the definition that precedes
							// this loop in its own statement list, if nothing re-assigns it in between
							ast.Inspect(fn.Body(), func(z ast.Node) bool {
								blk, ok := z.(*ast.BlockStmt)
								if !ok {
									return true
								}
								for bi, st := range blk.List {
									if st != ast.Stmt(rs) {
										continue
									}
									for bj := bi - 1; bj >= 0; bj-- {
										as2, ok := blk.List[bj].(*ast.AssignStmt)
										if !ok {
											continue
										}
										for li, l := range as2.Lhs {
											if lid, ok := l.(*ast.Ident); ok && info.ObjectOf(lid) == info.Uses[id] && li < len(as2.Rhs) && len(as2.Lhs) == len(as2.Rhs) {
												if d == nil {
													d = as2.Rhs[li]
												}
											}
										}
										if d != nil {
											break
										}
									}
								}
								return true
							})
						}
						if d == nil {
							continue
						}
						dt, dk := linearForm(info, d)
						delete(terms, t)
						k += int64(coef) * dk
						for t2, c2 := range dt {
							terms[t2] += coef * c2
							if terms[t2] == 0 {
								delete(terms, t2)
							}
						}
						changed = true
					}
					if !changed {
						break
					}
				}
				good := k == 1 && len(terms) == 2 && terms[base+".Offset"] == 1 && terms[keyName] == 1
				c.Check(good, "R5", "prometheus|addExponentialHistogramMetric|"+side+" count i ↦ key Offset+i+1", at(px.M, as.Pos()), exprStr(ie.Index),
					side+" counts are stored under "+exprStr(ie.Index)+", not Offset+i+1: every observation on that side is exposed in a neighbouring bucket")
				return true
			})
			return true
		})
		if n != 2 {
			c.Undecided("R5", "prometheus|addExponentialHistogramMetric|both sides converted", at(px.M, fn.Pos()), itoa(n)+" bucket stores found, expected 2")
		}
	}
}

// pkgVarOf: e names a package-level variable (pkg.V or V); ok reports whether it does.
func pkgVarOf(info *types.Info, e ast.Expr) (*types.Var, bool) {
	switch x := unparen(e).(type) {
	case *ast.SelectorExpr:
		v, ok := info.Uses[x.Sel].(*types.Var)
		return v, ok && v != nil && !v.IsField()
	case *ast.Ident:
		v, ok := info.Uses[x].(*types.Var)
		return v, ok && v != nil && v.Parent() != nil && v.Pkg() != nil && v.Parent() == v.Pkg().Scope()
	}
	return nil, false
}
