package main

import (
	"go/ast"
	"go/token"
	"go/types"
	"strings"
)

func init() {
	register(&PropDoc{
		ID:         "C06",
		Modules:    []string{"sdk/log"},
		NotDecided: "per-goroutine FIFO order and exactly-once under races as history properties; the chunk loop and ring-buffer index arithmetic; liveness.",
		Fn:         c06,
	})
}

func c06(c *Ctx) {
	ix := c.Index("sdk/log", sdkLog)
	if ix == nil {
		return
	}
	info := ix.Pkg.TypesInfo
	le := c.Locks(ix)
	expExport := "(" + sdkLog + ".Exporter).Export"

	// R1 who may call the raw exporter
	c.Rule("R1", "E5 who-may-call + E1", "the wrapped exporter's Export is reached only from the delegation wrappers, the single export goroutine, and SimpleProcessor.OnEmit under its mutex", 5)
	allowed := map[string]string{
		"chunkExporter.Export":       "delegation (chunks one Export into several sequential ones)",
		"(*timeoutExporter).Export":  "delegation (adds a timeout)",
		"exportSync":                 "the one export goroutine",
		"(*SimpleProcessor).OnEmit":  "serialised by s.mu (checked)",
		"(*bufferExporter).Shutdown": "", // not allowed: listed to produce a precise message
	}
	delete(allowed, "(*bufferExporter).Shutdown")
	for _, s := range ix.FindCalls(func(f *FuncInfo, call *ast.CallExpr) bool { return isCallTo(info, call, expExport) }) {
		outer := ix.Outer(s.F)
		c.Analysed(outer)
		recv, _ := methodCall(info, s.N.(*ast.CallExpr))
		key := "sdk/log|" + outer.Name + "|call Exporter.Export via " + exprStr(recv)
		why, ok := allowed[outer.Name]
		if !ok {
			c.Violation("R1", key, ix.at(s), "the exporter is invoked from "+outer.Name+", outside the single export goroutine: two Export calls can overlap (the Exporter contract forbids concurrent Export)")
			continue
		}
		if outer.Name == "(*SimpleProcessor).OnEmit" {
			_, base := fieldOf(info, recv)
			okL, whyL := le.Require(s.F, s.N, pathKey(info, base)+resolvePath(ix.Pkg, "SimpleProcessor", ".mu"), true, 0)
			c.Check(okL, "R1", key, ix.at(s), "s.mu held", "SimpleProcessor exports without its mutex: "+whyL)
			continue
		}
		if strings.HasPrefix(why, "delegation") {
			// a delegation wrapper makes the wrapped call itself and returns when it has returned: started in a goroutine of
			// its own the wrapped Export can outlive the wrapper's return, and the export goroutine starts the next one
			sync := s.F == outer
			for f := s.F; !sync && f != nil && f.Lit != nil; {
				if ix.Use[f.Lit] != LitCalled && ix.Use[f.Lit] != LitDefer {
					break
				}
				par := ix.Parent[f.Lit]
				if par == outer {
					sync = true
				}
				f = par
			}
			c.Check(sync, "R1", key, ix.at(s), why+", called synchronously", "the wrapper "+outer.Name+" starts the wrapped Export in a goroutine of its own (or hands it away): it can return while that Export is still running, and the export goroutine then starts the next Export — two Export calls overlap")
			continue
		}
		c.OK("R1", key, ix.at(s), why)
	}
	// method values of Exporter.Export (handed to DoExport)
	if m := ifaceMethod(ix.Pkg, "Exporter", "Export"); m != nil {
		for _, pos := range ix.Escapes[m] {
			f := ix.Enclosing(pos)
			outer := ix.Outer(f)
			c.Check(outer != nil && outer.Name == "exportSync" && f.Lit != nil && ix.Use[f.Lit] == LitGo, "R1", "sdk/log|"+outer.Name+"|method value Exporter.Export", at(ix.M, pos),
				"taken only inside the export goroutine", "the exporter's Export is handed out as a function value outside the export goroutine")
		}
	} else {
		c.Missing("R1", "sdk/log.Exporter.Export")
	}
	if es := c.Fn(ix, "R1", "exportSync"); es != nil {
		sites := ix.Calls[es.Obj.Origin()]
		nb := ix.Func("newBufferExporter")
		one := len(sites) == 1 && nb != nil && sites[0].In == nb && !inLoop(nb, sites[0].Call) && len(ix.Escapes[es.Obj.Origin()]) == 0
		ngo := 0
		inspectNoLit(es.Body(), func(n ast.Node) bool {
			if _, ok := n.(*ast.GoStmt); ok {
				ngo++
				if inLoop(es, n) {
					ngo += 100
				}
			}
			return true
		})
		c.Check(one && ngo == 1, "R1", "sdk/log|exportSync|one export goroutine per bufferExporter", at(ix.M, es.Pos()),
			"called once from newBufferExporter, starts one goroutine", "more than one export goroutine can exist for one exporter (Export calls would overlap)")
	}

	// R2 lock discipline of queue and bufferExporter.input
	c.Rule("R2", "E1 guarded-by", "queue.{len,read,write} only under the queue mutex; sends on and the close of bufferExporter.input only under inputMu with the stopped test inside that critical section", 20)
	le.GuardedBy(c.Run, "R2", GuardSpec{Type: "queue", Mutex: ".Mutex", Fields: []string{"len", "read", "write"}})
	fInput := lookupField(ix.Pkg, "bufferExporter", "input")
	fStopped := lookupField(ix.Pkg, "bufferExporter", "stopped")
	if fInput == nil || fStopped == nil {
		c.Missing("R2", "sdk/log.bufferExporter.input/stopped")
	} else {
		isInput := func(e ast.Expr) bool { return isField(info, e, fInput) }
		for _, s := range ix.FindNodes(func(f *FuncInfo, n ast.Node) bool {
			if st, ok := n.(*ast.SendStmt); ok && isInput(st.Chan) {
				return true
			}
			if call, ok := n.(*ast.CallExpr); ok && isCloseOf(info, call, isInput) {
				return true
			}
			return false
		}) {
			var ch ast.Expr
			kind := "send on"
			if st, ok := s.N.(*ast.SendStmt); ok {
				ch = st.Chan
			} else {
				ch = s.N.(*ast.CallExpr).Args[0]
				kind = "close of"
			}
			_, base := fieldOf(info, ch)
			// the exporter that owns the channel (the channel may sit in a nested struct of it)
			base = ownerExpr(info, lookupType(ix.Pkg, "bufferExporter"), base)
			mu := pathKey(info, base) + resolvePath(ix.Pkg, "bufferExporter", ".inputMu")
			key := "sdk/log|" + s.F.Name + "|" + kind + " input under inputMu"
			okL, why := le.Require(s.F, s.N, mu, true, 0)
			c.Check(okL, "R2", key, ix.at(s), "inputMu held", "channel operation on input outside inputMu (send on closed channel panics): "+why)
			if kind == "send on" {
				// dominated by !stopped.Load() evaluated while inputMu is held
				g := ix.FG(s.F)
				x := g.NodeOf(s.N)
				okT, whyT := g.DominatedByEdges(x, func(e *GEdge) bool {
					if !le.Held(s.F)[e.From][mu] {
						return false
					}
					return edgeImplies(e, func(cnd ast.Expr, pol int) bool {
						return pol < 0 && fieldMethodCall(info, cnd, fStopped, "Load") != nil
					})
				})
				c.Check(okT, "R2", "sdk/log|"+s.F.Name+"|send on input after !stopped.Load() inside the critical section", ix.at(s),
					"stopped is tested under inputMu before the send", "the stopped test is missing or outside inputMu: Shutdown can close input between the test and the send: "+whyT)
			}
		}
	}

	// R3 clone on enqueue
	c.Rule("R3", "E4 provenance", "BatchProcessor.OnEmit enqueues Record.Clone() (the caller may keep mutating its record)", 1)
	if fn := c.Fn(ix, "R3", "(*BatchProcessor).OnEmit"); fn != nil {
		enq := ix.Func("(*queue).Enqueue")
		clone := ix.Func("(*Record).Clone")
		n, good := 0, true
		inspectNoLit(fn.Body(), func(nd ast.Node) bool {
			if call, ok := nd.(*ast.CallExpr); ok && callToDecl(info, enq)(call) {
				n++
				if len(call.Args) != 1 || !callToDecl(info, clone)(unparen(call.Args[0])) {
					good = false
				}
			}
			return true
		})
		c.Check(n == 1 && good, "R3", "sdk/log|(*BatchProcessor).OnEmit|Enqueue(r.Clone())", at(ix.M, fn.Pos()), "a private copy is queued", "the caller's record (or a shallow copy sharing its attribute slice) is queued")
	}

	// R4 buffer ownership in poll
	c.Rule("R4", "E4 ownership", "in poll, whenever EnqueueExport accepted a batch the dequeue buffer variable is re-bound to a fresh allocation before it is used again", 1)
	if fn := c.Fn(ix, "R4", "(*BatchProcessor).poll"); fn != nil {
		enq := ix.Func("(*bufferExporter).EnqueueExport")
		tryDq := ix.Func("(*queue).TryDequeue")
		cnt := 0
		// declared helpers called from poll (or from a literal in it): the hand-over may live in one of them
		calledFromPoll := map[*FuncInfo]*ast.CallExpr{}
		for _, f := range ix.All {
			if ix.Outer(f) != fn {
				continue
			}
			inspectNoLit(f.Body(), func(m ast.Node) bool {
				if call, ok := m.(*ast.CallExpr); ok {
					if h := ix.declByObj(callee(info, call)); h != nil && h != fn {
						calledFromPoll[h] = call
					}
				}
				return true
			})
		}
		for _, f := range ix.All {
			outer := ix.Outer(f)
			helperCall := calledFromPoll[outer]
			if outer != fn && helperCall == nil {
				continue
			}
			for _, n := range nodesIn(f, func(n ast.Node) bool { return callToDecl(info, enq)(n) }) {
				cnt++
				key := "sdk/log|(*BatchProcessor).poll|EnqueueExport accepted ⇒ buffer re-allocated #" + itoa(cnt)
				// the buffer: first argument of the TryDequeue call this literal is passed to
				var buf types.Object
				var dqIn *FuncInfo
				var dqCall *ast.CallExpr
				for _, g := range ix.All {
					if ix.Outer(g) != outer {
						continue
					}
					inspectNoLit(g.Body(), func(m ast.Node) bool {
						if call, ok := m.(*ast.CallExpr); ok && callToDecl(info, tryDq)(call) && len(call.Args) == 2 && f.Lit != nil && unparen(call.Args[1]) == ast.Expr(f.Lit) {
							buf = objOf(info, call.Args[0])
							dqIn, dqCall = g, call
						}
						return true
					})
				}
				if buf == nil && dqCall != nil && pathKey(info, dqCall.Args[0]) != "" {
					// the buffer is a field of a small state object (w.buf): it is named by its access path, and re-binding is a store
					// of a fresh slice to that very path on the accepted path
					bufKey := pathKey(info, dqCall.Args[0])
					g := ix.FG(f)
					var okVar types.Object
					inspectNoLit(f.Body(), func(m ast.Node) bool {
						if as, ok := m.(*ast.AssignStmt); ok && len(as.Lhs) == 1 && len(as.Rhs) == 1 && unparen(as.Rhs[0]) == n.(ast.Expr) {
							okVar = objOf(info, as.Lhs[0])
						}
						return true
					})
					rebinds := toSet(g.Match(func(m ast.Node) bool {
						a2, isAs := m.(*ast.AssignStmt)
						if !isAs || len(a2.Lhs) != len(a2.Rhs) {
							return false
						}
						for i, l2 := range a2.Lhs {
							if pathKey(info, l2) != bufKey {
								continue
							}
							call, ok := unparen(a2.Rhs[i]).(*ast.CallExpr)
							if ok && (isCallTo(info, call, "slices.Clone") || builtinName(info, call) == "make" || builtinName(info, call) == "append") {
								return true
							}
						}
						return false
					}))
					start := g.NodeOf(n)
					refused := func(e *GEdge) bool {
						return edgeImplies(e, func(cnd ast.Expr, pol int) bool {
							return pol < 0 && ((okVar != nil && sameVar(info, cnd, okVar)) || unparen(cnd) == n.(ast.Expr))
						})
					}
					seenR, _ := g.Reach([]*GNode{start}, func(y *GNode) bool { return rebinds[y] }, refused)
					c.Check(len(rebinds) > 0 && !seenR[g.Exit], "R4", key, at(ix.M, n.Pos()), exprStr(dqCall.Args[0])+" = fresh copy on the accepted path",
						"after the export goroutine was handed buf[:n] the poller keeps writing into the same backing array (records change under the exporter)")
					continue
				}
				if buf == nil {
					c.Undecided("R4", key, at(ix.M, n.Pos()), "cannot identify the dequeue buffer handed to TryDequeue")
					continue
				}
				// the variable whose re-binding replaces the buffer for the next round: the buffer variable itself, or — when the
				// hand-over lives in a helper — the result the helper returns and the caller stores back into the variable it passed
				next := buf
				if outer != fn {
					why := ""
					next, why = handedBackResult(ix, outer, helperCall, buf, dqIn, dqCall)
					if next == nil {
						c.Violation("R4", key, at(ix.M, n.Pos()), "the hand-over moved into "+outer.Name+" and the fresh buffer does not provably replace the caller's: "+why)
						continue
					}
				}
				g := ix.FG(f)
				// result variable of EnqueueExport
				var okVar types.Object
				inspectNoLit(f.Body(), func(m ast.Node) bool {
					if as, ok := m.(*ast.AssignStmt); ok && len(as.Lhs) == 1 && len(as.Rhs) == 1 && unparen(as.Rhs[0]) == n.(ast.Expr) {
						okVar = objOf(info, as.Lhs[0])
					}
					return true
				})
				// variables the buffer variable takes its value from by plain copies (buf' := buf), and — for a candidate V — the
				// variables V's value is copied on to; a fresh allocation stored into V replaces the buffer of the next round when
				// the two meet (V is the buffer variable, or V is copied back into what the buffer variable is taken from)
				copies := map[types.Object][]types.Object{} // lhs ← rhs (identifier to identifier)
				for _, h := range ix.All {
					if ix.Outer(h) != outer {
						continue
					}
					inspectNoLit(h.Body(), func(m ast.Node) bool {
						if a2, isAs := m.(*ast.AssignStmt); isAs && len(a2.Lhs) == len(a2.Rhs) {
							for i, l2 := range a2.Lhs {
								lo, ro := objOf(info, l2), objOf(info, a2.Rhs[i])
								if lo != nil && ro != nil && lo != ro {
									copies[lo] = append(copies[lo], ro)
								}
							}
						}
						return true
					})
				}
				sources := map[types.Object]bool{next: true}
				for changed := true; changed; {
					changed = false
					for s := range sources {
						for _, r := range copies[s] {
							if !sources[r] {
								sources[r] = true
								changed = true
							}
						}
					}
				}
				reaches := func(v types.Object) bool {
					seen := map[types.Object]bool{v: true}
					for changed := true; changed; {
						changed = false
						for l, rs := range copies {
							for _, r := range rs {
								if seen[r] && !seen[l] {
									seen[l] = true
									changed = true
								}
							}
						}
					}
					for s := range seen {
						if sources[s] {
							return true
						}
					}
					return false
				}
				rebinds := toSet(g.Match(func(m ast.Node) bool {
					a2, isAs := m.(*ast.AssignStmt)
					if !isAs || len(a2.Lhs) != len(a2.Rhs) {
						return false
					}
					for i, l2 := range a2.Lhs {
						lo := objOf(info, l2)
						if lo == nil || !reaches(lo) {
							continue
						}
						call, ok := unparen(a2.Rhs[i]).(*ast.CallExpr)
						if ok && (isCallTo(info, call, "slices.Clone") || builtinName(info, call) == "make" || builtinName(info, call) == "append") {
							return true
						}
					}
					return false
				}))
				// negative form: from the EnqueueExport call, the exit is reachable without a re-bind only across an edge that implies "not accepted"
				start := g.NodeOf(n)
				refused := func(e *GEdge) bool {
					return edgeImplies(e, func(cnd ast.Expr, pol int) bool {
						return pol < 0 && ((okVar != nil && sameVar(info, cnd, okVar)) || unparen(cnd) == n.(ast.Expr))
					})
				}
				seenR, _ := g.Reach([]*GNode{start}, func(y *GNode) bool { return rebinds[y] }, refused)
				nE, good := len(rebinds), !seenR[g.Exit]
				if (nE == 0 || !good) && okVar != nil && dqIn != nil && dqIn != f && !definedIn(info, f.Body(), okVar) {
					// the literal only reports the outcome in a variable of the enclosing function, which re-binds the buffer after
					// TryDequeue has returned: from the TryDequeue call every way back to the next round (or out) crosses the
					// "not accepted" outcome of that variable or a re-bind of the buffer
					og := ix.FG(dqIn)
					oRebinds := toSet(og.Match(func(m ast.Node) bool {
						a2, isAs := m.(*ast.AssignStmt)
						if !isAs || len(a2.Lhs) != len(a2.Rhs) {
							return false
						}
						for i, l2 := range a2.Lhs {
							if lo := objOf(info, l2); lo == nil || !reaches(lo) {
								continue
							}
							call, ok := unparen(a2.Rhs[i]).(*ast.CallExpr)
							if ok && (isCallTo(info, call, "slices.Clone") || builtinName(info, call) == "make" || builtinName(info, call) == "append") {
								return true
							}
						}
						return false
					}))
					if dqNode := og.NodeOf(dqCall); dqNode != nil && len(oRebinds) > 0 {
						// the next round begins at the next evaluation of the TryDequeue call
						seenO, _ := og.Reach(succNodes(dqNode), func(y *GNode) bool { return oRebinds[y] }, func(e *GEdge) bool {
							return edgeImplies(e, func(cnd ast.Expr, pol int) bool { return pol < 0 && sameVar(info, cnd, okVar) })
						})
						if !seenO[dqNode] {
							nE, good = len(oRebinds), true
						}
					}
				}
				c.Check(nE > 0 && good, "R4", key, at(ix.M, n.Pos()), "buf = fresh copy on the accepted path",
					"after the export goroutine was handed buf[:n] the poller keeps writing into the same backing array (records change under the exporter)")
			}
		}
	}

	// R5 transactional dequeue
	c.Rule("R5", "E3 pairing", "TryDequeue: len -= n only when write succeeded, read restored otherwise; Flush resets len to 0", 3)
	fLen := lookupField(ix.Pkg, "queue", "len")
	fRead := lookupField(ix.Pkg, "queue", "read")
	if fn := c.Fn(ix, "R5", "(*queue).TryDequeue"); fn != nil && fLen != nil && fRead != nil {
		g := ix.FG(fn)
		wr := fn.Obj.Type().(*types.Signature).Params().At(1)
		isWriteCall := func(cnd ast.Expr) bool {
			call, ok := cnd.(*ast.CallExpr)
			return ok && sameVar(info, call.Fun, wr)
		}
		dec := toSet(g.Match(func(n ast.Node) bool {
			as, ok := n.(*ast.AssignStmt)
			return ok && len(as.Lhs) == 1 && isField(info, as.Lhs[0], fLen) && (as.Tok == token.SUB_ASSIGN)
		}))
		var orig types.Object
		inspectNoLit(fn.Body(), func(n ast.Node) bool {
			if as, ok := n.(*ast.AssignStmt); ok && as.Tok == token.DEFINE && len(as.Lhs) == 1 && len(as.Rhs) == 1 && isField(info, as.Rhs[0], fRead) {
				// the saved entry value: a local that is never assigned again (a cursor that starts at read and moves on is not)
				if o := objOf(info, as.Lhs[0]); o != nil && g.LocalDef(o) != nil {
					orig = o
				}
			}
			return true
		})
		restore := toSet(g.Match(func(n ast.Node) bool {
			r := assignRHS(n, func(e ast.Expr) bool { return isField(info, e, fRead) })
			return r != nil && orig != nil && sameVar(info, r, orig)
		}))
		// every assignment of the read pointer that is not the restore
		// … directly, or by calling a helper of the package that assigns it (a shared copy-and-advance routine)
		advance := toSet(g.Match(func(n ast.Node) bool {
			r := assignRHS(n, func(e ast.Expr) bool { return isField(info, e, fRead) })
			if r != nil && !(orig != nil && sameVar(info, r, orig)) {
				return true
			}
			if call, ok := n.(*ast.CallExpr); ok {
				if h := ix.declByObj(callee(info, call)); h != nil && h != fn {
					return ix.hasEffect(h, func(m ast.Node) bool {
						return assignRHS(m, func(e ast.Expr) bool { return isField(info, e, fRead) }) != nil
					}, 0)
				}
			}
			return false
		}))
		// the saved value is the entry value: its definition is not reachable from an advance
		if orig != nil {
			for x := range advance {
				s, _ := g.Reach([]*GNode{x}, nil, nil)
				for y := range s {
					if as, ok := y.N.(*ast.AssignStmt); ok && as.Tok == token.DEFINE && len(as.Lhs) == 1 && objOf(info, as.Lhs[0]) == orig {
						orig = nil
					}
				}
				if orig == nil {
					break
				}
			}
		}
		okT, okF := false, false
		for _, x := range g.Nodes {
			for _, e := range x.Succs {
				if edgeImplies(e, func(cnd ast.Expr, pol int) bool { return pol > 0 && isWriteCall(cnd) }) {
					s1, _ := g.ReachFromEdge(e, func(y *GNode) bool { return dec[y] })
					s2, _ := g.ReachFromEdge(e, nil)
					rest := false
					for y := range s2 {
						if restore[y] {
							rest = true
						}
					}
					// the read pointer is advanced: before the hand-over (the copy loop) or, on every path, after it
					advanced := false
					for a := range advance {
						if s, _ := g.Reach([]*GNode{a}, nil, nil); s[e.From] {
							advanced = true
						}
					}
					if !advanced {
						s3, _ := g.ReachFromEdge(e, func(y *GNode) bool { return advance[y] })
						advanced = len(advance) > 0 && !s3[g.Exit]
					}
					okT = !s1[g.Exit] && !rest && advanced
				}
				if edgeImplies(e, func(cnd ast.Expr, pol int) bool { return pol < 0 && isWriteCall(cnd) }) {
					s2, _ := g.ReachFromEdge(e, nil)
					d, advAfter := false, false
					for y := range s2 {
						if dec[y] {
							d = true
						}
						if advance[y] {
							advAfter = true
						}
					}
					// the read pointer leaves with its entry value: it was never advanced on the way here and is not afterwards,
					// or the saved entry value is restored on every path (and not advanced again)
					advBefore := false
					for a := range advance {
						if s, _ := g.Reach([]*GNode{a}, nil, nil); s[e.From] {
							advBefore = true
						}
					}
					unchanged := !advBefore && !advAfter
					if !unchanged && orig != nil {
						s1, _ := g.ReachFromEdge(e, func(y *GNode) bool { return restore[y] })
						unchanged = len(restore) > 0 && !s1[g.Exit] && !advAfter
					}
					okF = unchanged && !d
				}
			}
		}
		// no other path decrements: every dec is dominated by the true edge
		for x := range dec {
			if d, _ := g.DominatedByEdges(x, func(e *GEdge) bool {
				return edgeImplies(e, func(cnd ast.Expr, pol int) bool { return pol > 0 && isWriteCall(cnd) })
			}); !d {
				okT = false
			}
		}
		c.Check(okT, "R5", "sdk/log|(*queue).TryDequeue|write accepted ⇒ len -= n (and only then)", at(ix.M, fn.Pos()), "records leave the queue exactly when the writer took them", "records are removed without being handed over, or handed over and kept (exported twice)")
		c.Check(okF, "R5", "sdk/log|(*queue).TryDequeue|write refused ⇒ read pointer restored, len unchanged", at(ix.M, fn.Pos()), "a refused batch stays queued in order", "a refused batch is lost or re-ordered")
	}
	if fn := c.Fn(ix, "R5", "(*queue).Flush"); fn != nil && fLen != nil {
		g := ix.FG(fn)
		z := toSet(g.Match(func(n ast.Node) bool {
			r := assignRHS(n, func(e ast.Expr) bool { return isField(info, e, fLen) })
			if r == nil {
				return false
			}
			v, ok := constInt(info, r)
			return ok && v == 0
		}))
		// … or the path is one on which len is known to be zero already (if q.len == 0 { return … })
		lenZero := func(e *GEdge) bool {
			return edgeImplies(e, func(cnd ast.Expr, pol int) bool {
				l, op, r, ok := cmpNorm(cnd, pol)
				if !ok {
					return false
				}
				if v, isC := constInt(info, r); isC && isField(info, l, fLen) {
					return (op == token.EQL && v == 0) || (op == token.LEQ && v == 0) || (op == token.LSS && v == 1)
				}
				if v, isC := constInt(info, l); isC && isField(info, r, fLen) {
					return (op == token.EQL && v == 0) || (op == token.GEQ && v == 0) || (op == token.GTR && v == 1)
				}
				return false
			})
		}
		s, _ := g.ReachFromEntry(func(y *GNode) bool { return z[y] }, lenZero)
		c.Check(len(z) > 0 && !s[g.Exit], "R5", "sdk/log|(*queue).Flush|len = 0 on every path", at(ix.M, fn.Pos()), "flushed records are not handed out again", "Flush leaves len unchanged: the same records are flushed again")
	}

	// R6 shutdown order
	c.Rule("R6", "E3 ordering", "BatchProcessor.Shutdown: won Swap → close(pollKill) → wait pollDone → Export(q.Flush()) → exporter.Shutdown; bufferExporter.Shutdown: won Swap → close(input) → wait done → inner Shutdown", 3)
	if fn := c.Fn(ix, "R6", "(*BatchProcessor).Shutdown"); fn != nil {
		g := ix.FG(fn)
		fKill := lookupField(ix.Pkg, "BatchProcessor", "pollKill")
		fDone := lookupField(ix.Pkg, "BatchProcessor", "pollDone")
		flush := ix.Func("(*queue).Flush")
		bexp := ix.Func("(*bufferExporter).Export")
		closes := toSet(g.Match(func(n ast.Node) bool {
			return isCloseOf(info, n, func(e ast.Expr) bool { return isField(info, e, fKill) })
		}))
		exports := g.Match(func(n ast.Node) bool { return callToDecl(info, bexp)(n) })
		doneEdge := func(e *GEdge) bool {
			if e.Comm == nil || e.Comm.Comm == nil {
				return false
			}
			hit := false
			ast.Inspect(e.Comm.Comm, func(n ast.Node) bool {
				if isRecvFrom(n, func(x ast.Expr) bool { return isField(info, x, fDone) }) {
					hit = true
				}
				return true
			})
			return hit
		}
		good := len(exports) == 1 && len(closes) == 1
		var flushVar types.Object
		if good {
			x := exports[0]
			d1, _ := g.DominatedByNodes(x, closes)
			d2, _ := g.DominatedByEdges(x, doneEdge)
			// argument is q.Flush(), directly or through a local that holds its result (remaining := q.Flush()) — then the Flush
			// itself is what must come after the poller has stopped
			argOK := false
			inspectNoLit(x.N, func(n ast.Node) bool {
				if call, ok := n.(*ast.CallExpr); ok && callToDecl(info, bexp)(call) && len(call.Args) == 2 {
					if callToDecl(info, flush)(unparen(call.Args[1])) {
						argOK = true
					} else if v := objOf(info, call.Args[1]); v != nil {
						if def := g.LocalDef(v); def != nil && callToDecl(info, flush)(unparen(def)) {
							if fx := g.NodeOf(def); fx != nil {
								f1, _ := g.DominatedByNodes(fx, closes)
								f2, _ := g.DominatedByEdges(fx, doneEdge)
								argOK = f1 && f2
								flushVar = v
							}
						}
					}
				}
				return true
			})
			good = d1 && d2 && argOK
		}
		c.Check(good, "R6", "sdk/log|(*BatchProcessor).Shutdown|final Export(q.Flush()) after the poller has stopped", at(ix.M, fn.Pos()),
			"close(pollKill) and the pollDone receive dominate the final export", "the final flush can run while the poller is still dequeuing (records exported twice or out of order), or is missing")
		// exporter.Shutdown after the export on the normal path
		bsd := ix.Func("(*bufferExporter).Shutdown")
		sds := g.Match(func(n ast.Node) bool { return callToDecl(info, bsd)(n) })
		okSD := len(sds) >= 1
		if len(exports) == 1 {
			// on the path that waited for the poller (the pollDone arm) no exporter.Shutdown is reached without the final export
			// in between, and one is reached at all
			last := false
			for _, x := range g.Nodes {
				for _, e := range x.Succs {
					if !doneEdge(e) {
						continue
					}
					// (a path on which the flushed batch is known to be empty has nothing to export)
					nothing := func(ed *GEdge) bool {
						if ed.From == e.From && ed != e {
							return true
						}
						return flushVar != nil && edgeImplies(ed, func(cnd ast.Expr, pol int) bool {
							l, op, r, ok := cmpNorm(cnd, pol)
							if !ok {
								return false
							}
							isLen := func(x ast.Expr) bool {
								return isLenOf(info, x, func(y ast.Expr) bool { return objOf(info, y) == flushVar })
							}
							if v, isC := constInt(info, r); isC && isLen(l) {
								return (op == token.EQL && v == 0) || (op == token.LEQ && v == 0) || (op == token.LSS && v == 1)
							}
							if v, isC := constInt(info, l); isC && isLen(r) {
								return (op == token.EQL && v == 0) || (op == token.GEQ && v == 0) || (op == token.GTR && v == 1)
							}
							return false
						})
					}
					seenNoExp, _ := g.Reach([]*GNode{e.From}, func(y *GNode) bool { return toSet(exports)[y] }, nothing)
					seenAll, _ := g.ReachFromEdge(e, nil)
					for _, sd := range sds {
						if seenNoExp[sd] {
							okSD = false
						}
						if seenAll[sd] {
							last = true
						}
					}
				}
			}
			okSD = okSD && last
		}
		for _, x := range sds {
			if d, _ := g.DominatedByNodes(x, closes); !d {
				okSD = false
			}
		}
		c.Check(okSD, "R6", "sdk/log|(*BatchProcessor).Shutdown|exporter.Shutdown after the final export", at(ix.M, fn.Pos()), "exporter shut down last", "the exporter is shut down before the remaining records were exported")
	}
	if fn := c.Fn(ix, "R6", "(*bufferExporter).Shutdown"); fn != nil && fInput != nil {
		g := ix.FG(fn)
		fDone := lookupField(ix.Pkg, "bufferExporter", "done")
		closes := toSet(g.Match(func(n ast.Node) bool {
			return isCloseOf(info, n, func(e ast.Expr) bool { return isField(info, e, fInput) })
		}))
		doneEdge := func(e *GEdge) bool {
			if e.Comm == nil || e.Comm.Comm == nil {
				return false
			}
			hit := false
			ast.Inspect(e.Comm.Comm, func(n ast.Node) bool {
				if isRecvFrom(n, func(x ast.Expr) bool { return isField(info, x, fDone) }) {
					hit = true
				}
				return true
			})
			return hit
		}
		inner := g.Match(func(n ast.Node) bool {
			call, ok := n.(*ast.CallExpr)
			return ok && isCallTo(info, call, "("+sdkLog+".Exporter).Shutdown")
		})
		okClose, okWait := len(closes) == 1 && len(inner) >= 1, false
		for _, x := range inner {
			if d, _ := g.DominatedByNodes(x, closes); !d {
				okClose = false
			}
			if d, _ := g.DominatedByEdges(x, doneEdge); d {
				okWait = true
			}
		}
		c.Check(okClose && okWait, "R6", "sdk/log|(*bufferExporter).Shutdown|close(input) → wait done → inner Shutdown", at(ix.M, fn.Pos()),
			"the export goroutine has drained input before the wrapped exporter is shut down (except on context expiry)", "the wrapped exporter is shut down while the export goroutine may still call Export")
	}

	// R7 emit fan-out
	c.Rule("R7", "E3 total fan-out", "logger.Emit hands the new record to every processor, in registration order", 1)
	if fn := c.Fn(ix, "R7", "(*logger).Emit"); fn != nil {
		g := ix.FG(fn)
		calls := g.Match(func(n ast.Node) bool {
			call, ok := n.(*ast.CallExpr)
			return ok && isCallTo(info, call, "("+sdkLog+".Processor).OnEmit")
		})
		good := len(calls) == 1
		why := ""
		if good {
			good, why = totalFanout(g, calls[0])
		}
		c.Check(good, "R7", "sdk/log|(*logger).Emit|OnEmit fan-out total", at(ix.M, fn.Pos()), "every processor sees every record", "a processor can be skipped: "+why)
	}

	// R9 hand-over only through the transactional dequeue
	c.Rule("R9", "E5 who-may-call", "records leave the queue only through TryDequeue's write callback (EnqueueExport under the queue lock) or through Flush in Shutdown after the poller has stopped", 3)
	{
		enq := ix.Func("(*bufferExporter).EnqueueExport")
		tryDq := ix.Func("(*queue).TryDequeue")
		flush := ix.Func("(*queue).Flush")
		if enq == nil || tryDq == nil || flush == nil {
			c.Missing("R9", "sdk/log EnqueueExport / TryDequeue / Flush")
		} else {
			cnt := 0
			for _, s := range ix.FindCalls(func(f *FuncInfo, call *ast.CallExpr) bool { return callToDecl(info, enq)(call) }) {
				cnt++
				// the enclosing literal must be the second argument of a TryDequeue call
				inCB := false
				if s.F.Lit != nil {
					par := ix.Parent[s.F.Lit]
					inspectNoLit(par.Body(), func(n ast.Node) bool {
						if call, ok := n.(*ast.CallExpr); ok && callToDecl(info, tryDq)(call) && len(call.Args) == 2 && unparen(call.Args[1]) == ast.Expr(s.F.Lit) {
							inCB = true
						}
						return true
					})
				}
				// and its argument is the callback's own parameter (the dequeued slice)
				argOK := false
				if inCB {
					call := s.N.(*ast.CallExpr)
					if len(call.Args) == 1 && len(s.F.Lit.Type.Params.List) == 1 && len(s.F.Lit.Type.Params.List[0].Names) == 1 {
						argOK = sameVar(info, call.Args[0], info.Defs[s.F.Lit.Type.Params.List[0].Names[0]])
					}
				}
				c.Check(inCB && argOK, "R9", "sdk/log|"+ix.Outer(s.F).Name+"|EnqueueExport #"+itoa(cnt)+" only inside TryDequeue's write callback, on the dequeued slice", ix.at(s),
					"copy, offer and removal are one critical section of the queue", "records are handed to the export buffer outside the transactional dequeue: a refused hand-over loses their place in the queue (re-ordering) or loses them")
			}
			for _, s := range ix.FindCalls(func(f *FuncInfo, call *ast.CallExpr) bool { return callToDecl(info, flush)(call) }) {
				outer := ix.Outer(s.F)
				c.Check(outer.Name == "(*BatchProcessor).Shutdown", "R9", "sdk/log|"+outer.Name+"|queue.Flush only in Shutdown", ix.at(s),
					"the non-transactional drain runs only after the poller has stopped (ordering checked by R6)", "the queue is drained non-transactionally while the poller can still dequeue: records are re-ordered or lost when the export buffer is full")
			}
		}
	}

	// R8 Clone
	// R11 a response channel belongs to one request
	c.Rule("R11", "E5 ownership (fresh per request)", "the response channel a synchronous Export / ForceFlush hands to the export goroutine is made for that call (or nil): the caller can give up waiting (ctx.Done) while the goroutine still owes an answer, so a channel that is recycled carries that stale answer into a later call, which returns before its own request was served", 2)
	if enq := c.Fn(ix, "R11", "(*bufferExporter).enqueue"); enq != nil {
		n := 0
		for _, s := range ix.FindCalls(func(f *FuncInfo, call *ast.CallExpr) bool { return callToDecl(info, enq)(call) }) {
			call := s.N.(*ast.CallExpr)
			if len(call.Args) < 3 {
				continue
			}
			n++
			arg := unparen(call.Args[2])
			key := "sdk/log|" + ix.Outer(s.F).Name + "|response channel handed to enqueue is fresh or nil"
			if isNilIdent(info, arg) {
				c.OK("R11", key, ix.at(s), "nil: the answer goes to the error handler")
				continue
			}
			g := ix.FG(s.F)
			fresh, what := false, exprStr(arg)
			if v := objOf(info, arg); v != nil {
				if d := g.LocalDef(v); d != nil {
					what = exprStr(d)
					if mk, ok := unparen(d).(*ast.CallExpr); ok && builtinName(info, mk) == "make" {
						fresh = true
					}
				}
			} else if mk, ok := arg.(*ast.CallExpr); ok && builtinName(info, mk) == "make" {
				fresh = true
			}
			c.Check(fresh, "R11", key, ix.at(s), "made in this call",
				"the response channel is "+what+", not a channel made for this request: after a call that stopped waiting (context done) the export goroutine's late answer sits in a channel a later ForceFlush/Export picks up — it returns at once, before its own records were passed to the exporter")
		}
		if n == 0 {
			c.Violation("R11", "sdk/log|bufferExporter.enqueue|call sites", at(ix.M, enq.Pos()), "enqueue has no caller: the analysis no longer sees the synchronous export path")
		}
	}

	c.Rule("R10", "E3 must-pass (negative form)", "BatchProcessor.ForceFlush ends, on every path that is not excused by the stopped flag or a nil member, with the buffer exporter's own ForceFlush (the step that waits for batches already handed to the export goroutine)", 1)
	if fn := c.Fn(ix, "R10", "(*BatchProcessor).ForceFlush"); fn != nil {
		g := ix.FG(fn)
		bef := ix.Func("(*bufferExporter).ForceFlush")
		if bef == nil {
			c.Missing("R10", "sdk/log.(*bufferExporter).ForceFlush")
		} else {
			through := toSet(g.Match(callToDecl(info, bef)))
			excuse := func(e *GEdge) bool {
				return edgeImplies(e, func(cnd ast.Expr, pol int) bool {
					if call, ok := cnd.(*ast.CallExpr); ok && pol > 0 {
						if cf := callee(info, call); cf != nil && cf.FullName() == "(*sync/atomic.Bool).Load" {
							return true
						}
					}
					nn, ok := nilCmp(info, cnd, pol, func(x ast.Expr) bool {
						if fn.Recv() != nil && sameVar(info, x, fn.Recv()) {
							return true
						}
						_, base := fieldOf(info, x)
						return base != nil && fn.Recv() != nil && sameVar(info, base, fn.Recv())
					})
					return ok && !nn
				})
			}
			seen, parent := g.ReachFromEntry(func(x *GNode) bool { return through[x] }, excuse)
			c.Check(len(through) > 0 && !seen[g.Exit], "R10", "sdk/log|(*BatchProcessor).ForceFlush|every live path ends with bufferExporter.ForceFlush", at(ix.M, fn.Pos()),
				itoa(len(through))+" call(s) cut every entry→exit path", "ForceFlush can return without waiting for the batches already buffered for export ("+g.pathLines(parent, g.Exit)+"): records emitted before the call are not yet exported when it returns")
		}
	}

	c.Rule("R8", "E8 fieldcover", "Record.Clone re-allocates every slice/map field (= C17.R3)", 1)
	ruleRecordClone(c, ix, "R8")
}

// ifaceMethod returns method `name` of interface type `typ` declared in p.
func ifaceMethod(p *pkgT, typ, name string) *types.Func {
	n := lookupType(p, typ)
	if n == nil {
		return nil
	}
	it, ok := n.Underlying().(*types.Interface)
	if !ok {
		return nil
	}
	for i := 0; i < it.NumMethods(); i++ {
		if it.Method(i).Name() == name {
			return it.Method(i).Origin()
		}
	}
	return nil
}

// handedBackResult (C06.R4): the dequeue-and-hand-over step lives in helper h, called from the poll loop at `call`. buf is h's
// parameter handed to TryDequeue (dqCall, inside function dqIn of h). Returns the variable of h whose value replaces the
// caller's buffer: h returns it at result position j on every return, the caller assigns result j back to the very variable it
// passed for buf, and h itself does not touch buf after the dequeue call.
func handedBackResult(ix *PkgIndex, h *FuncInfo, call *ast.CallExpr, buf types.Object, dqIn *FuncInfo, dqCall *ast.CallExpr) (types.Object, string) {
	info := ix.Pkg.TypesInfo
	sig := h.Obj.Type().(*types.Signature)
	pi := -1
	for i := 0; i < sig.Params().Len(); i++ {
		if types.Object(sig.Params().At(i)) == buf {
			pi = i
		}
	}
	if pi < 0 || pi >= len(call.Args) {
		return nil, "the buffer is not a parameter of the helper"
	}
	passed := objOf(info, call.Args[pi])
	if passed == nil {
		return nil, "the caller does not pass a variable"
	}
	// the caller stores a result back into that variable
	var as *ast.AssignStmt
	for _, f := range ix.All {
		ast.Inspect(f.Body(), func(n ast.Node) bool {
			if a, ok := n.(*ast.AssignStmt); ok && len(a.Rhs) == 1 && unparen(a.Rhs[0]) == ast.Expr(call) {
				as = a
			}
			return true
		})
	}
	if as == nil {
		return nil, "the helper's results are not assigned"
	}
	j := -1
	for k, l := range as.Lhs {
		if objOf(info, l) == passed {
			j = k
		}
	}
	if j < 0 || j >= sig.Results().Len() {
		return nil, "no result is stored back into the buffer variable"
	}
	// every return of h yields the same variable at position j
	var res types.Object
	okAll := true
	inspectNoLit(h.Body(), func(n ast.Node) bool {
		rs, ok := n.(*ast.ReturnStmt)
		if !ok {
			return true
		}
		var v types.Object
		if len(rs.Results) == 0 {
			v = sig.Results().At(j)
		} else if j < len(rs.Results) {
			v = objOf(info, rs.Results[j])
		}
		if v == nil || v == buf {
			// returning the untouched buffer is the refused/not-ready path; it does not name the replacement
			if v == nil {
				okAll = false
			}
			return true
		}
		if res != nil && res != v {
			okAll = false
		}
		res = v
		return true
	})
	if !okAll || res == nil {
		return nil, "the helper does not return one variable as the next buffer"
	}
	// h does not use buf after the dequeue call
	g := ix.FG(dqIn)
	at := g.NodeOf(dqCall)
	if at == nil {
		return nil, "dequeue call not located"
	}
	seen, _ := g.Reach([]*GNode{at}, nil, nil)
	for y := range seen {
		if y == at || y.N == nil {
			continue
		}
		used := false
		inspectNoLit(y.N, func(m ast.Node) bool {
			if id, ok := m.(*ast.Ident); ok && info.Uses[id] == buf {
				used = true
			}
			return true
		})
		if used && !g.InCycle(at) {
			if _, isRet := y.N.(*ast.ReturnStmt); !isRet {
				return nil, "the helper uses the handed-over buffer after the dequeue at " + ix.M.posStr(y.N.Pos())
			}
		}
	}
	return res, ""
}

// succNodes: the vertices an edge leads to from x.
func succNodes(x *GNode) []*GNode {
	var out []*GNode
	for _, e := range x.Succs {
		out = append(out, e.To)
	}
	return out
}
