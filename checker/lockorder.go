package main

import (
	"go/ast"
	"go/token"
	"go/types"
	"sort"
	"strings"
)

// E1b — lock order inside one package (AST + types; calls through func-valued struct
// fields are resolved to every literal / method value stored into that field in the
// package; calls through package-local interfaces to every implementing method).
// Lock classes are (owner type, mutex field). An edge X → Y is recorded when Y is
// acquired — directly or through resolved callees — at a site where X may be held.

type lockOrder struct {
	ix   *PkgIndex
	le   *LockEngine
	acq  map[*FuncInfo]map[string]string // class → witness
	done map[*FuncInfo]bool
	// field → functions stored into it
	fieldFuncs map[*types.Var][]*FuncInfo
	Edges      map[string]map[string]string // X → Y → witness
}

func newLockOrder(ix *PkgIndex, le *LockEngine) *lockOrder {
	lo := &lockOrder{ix: ix, le: le, acq: map[*FuncInfo]map[string]string{}, done: map[*FuncInfo]bool{}, fieldFuncs: map[*types.Var][]*FuncInfo{}, Edges: map[string]map[string]string{}}
	info := ix.Pkg.TypesInfo
	// stores into func-typed fields
	for _, f := range ix.All {
		inspectNoLit(f.Body(), func(n ast.Node) bool {
			switch s := n.(type) {
			case *ast.AssignStmt:
				for i, l := range s.Lhs {
					fv, _ := fieldOf(info, l)
					if fv == nil || len(s.Lhs) != len(s.Rhs) {
						continue
					}
					if _, isFn := fv.Type().Underlying().(*types.Signature); !isFn {
						continue
					}
					lo.storeInto(fv, s.Rhs[i], f)
				}
			case *ast.CompositeLit:
				for _, el := range s.Elts {
					if kv, ok := el.(*ast.KeyValueExpr); ok {
						if id, ok := kv.Key.(*ast.Ident); ok {
							if fv, ok := info.Uses[id].(*types.Var); ok && fv.IsField() {
								if _, isFn := fv.Type().Underlying().(*types.Signature); isFn {
									lo.storeInto(fv.Origin(), kv.Value, f)
								}
							}
						}
					}
				}
			}
			return true
		})
	}
	return lo
}

func (lo *lockOrder) storeInto(fv *types.Var, rhs ast.Expr, in *FuncInfo) {
	info := lo.ix.Pkg.TypesInfo
	switch r := unparen(rhs).(type) {
	case *ast.FuncLit:
		if li := lo.ix.OfLit[r]; li != nil {
			lo.fieldFuncs[fv] = append(lo.fieldFuncs[fv], li)
		}
	case *ast.SelectorExpr:
		if s := info.Selections[r]; s != nil && s.Kind() == types.MethodVal {
			if m, ok := s.Obj().(*types.Func); ok {
				if fi := lo.ix.ByObj(m); fi != nil {
					lo.fieldFuncs[fv] = append(lo.fieldFuncs[fv], fi)
				}
			}
		}
	case *ast.Ident:
		if m, ok := info.Uses[r].(*types.Func); ok {
			if fi := lo.ix.ByObj(m); fi != nil {
				lo.fieldFuncs[fv] = append(lo.fieldFuncs[fv], fi)
			}
		}
	}
}

// classOfKey maps a lock key (root@pos.f1.f2 or …#r) in f's scope to "Owner.field".
func (lo *lockOrder) classOfKey(k string) string {
	k = strings.TrimSuffix(k, "#r")
	root, rest := keyRoot(k)
	if rest == "" {
		return ""
	}
	var rv *types.Var
	for _, o := range lo.ix.Pkg.TypesInfo.Defs {
		if v, ok := o.(*types.Var); ok && varKey(v) == root {
			rv = v
			break
		}
	}
	if rv == nil {
		return ""
	}
	t := rv.Type()
	parts := strings.Split(strings.TrimPrefix(rest, "."), ".")
	owner := ""
	for i, p := range parts {
		n := namedOf(t)
		var st *types.Struct
		if n != nil {
			st, _ = n.Underlying().(*types.Struct)
			owner = n.Obj().Name()
		} else {
			st, _ = t.Underlying().(*types.Struct)
		}
		if st == nil {
			return ""
		}
		found := false
		for j := 0; j < st.NumFields(); j++ {
			if st.Field(j).Name() == p {
				t = st.Field(j).Type()
				found = true
			}
		}
		if !found {
			return ""
		}
		if i == len(parts)-1 {
			return owner + "." + p
		}
	}
	return ""
}

// callees resolves the package-local functions a call may invoke.
func (lo *lockOrder) callees(f *FuncInfo, call *ast.CallExpr) []*FuncInfo {
	info := lo.ix.Pkg.TypesInfo
	var out []*FuncInfo
	if cf := callee(info, call); cf != nil {
		if fi := lo.ix.ByObj(cf); fi != nil {
			return []*FuncInfo{fi}
		}
		// interface method of a package-local interface: every implementing method in the package
		if rv := cf.Type().(*types.Signature).Recv(); rv != nil {
			if it, ok := rv.Type().Underlying().(*types.Interface); ok && cf.Pkg() == lo.ix.Pkg.Types {
				for _, fi := range lo.ix.Funcs {
					if fi.Obj == nil || fi.Obj.Name() != cf.Name() {
						continue
					}
					r := fi.Recv()
					if r != nil && (types.Implements(r.Type(), it) || types.Implements(types.NewPointer(r.Type()), it)) {
						out = append(out, fi)
					}
				}
			}
		}
		return out
	}
	// call through a func-valued field
	if fv, _ := fieldOf(info, call.Fun); fv != nil {
		return lo.fieldFuncs[fv]
	}
	// call of a local variable holding a literal defined in the same declaration
	if id, ok := unparen(call.Fun).(*ast.Ident); ok {
		if v, ok := info.Uses[id].(*types.Var); ok {
			outer := lo.ix.Outer(f)
			ast.Inspect(outer.Body(), func(n ast.Node) bool {
				if as, ok := n.(*ast.AssignStmt); ok && len(as.Lhs) == len(as.Rhs) {
					for i, l := range as.Lhs {
						if objOf(info, l) == types.Object(v) {
							if l2, ok := unparen(as.Rhs[i]).(*ast.FuncLit); ok {
								if li := lo.ix.OfLit[l2]; li != nil {
									out = append(out, li)
								}
							}
							// value loaded from a func-valued field
							if fv, _ := fieldOf(info, as.Rhs[i]); fv != nil {
								out = append(out, lo.fieldFuncs[fv]...)
							}
						}
					}
				}
				return true
			})
		}
	}
	return out
}

// acquires returns the lock classes f may acquire (directly or via resolved callees), with a witness each.
func (lo *lockOrder) acquires(f *FuncInfo) map[string]string {
	if a, ok := lo.acq[f]; ok {
		return a
	}
	a := map[string]string{}
	lo.acq[f] = a // recursion guard (fixpoint below)
	info := lo.ix.Pkg.TypesInfo
	inspectNoLit(f.Body(), func(n ast.Node) bool {
		call, ok := n.(*ast.CallExpr)
		if !ok {
			return true
		}
		if k, op := lockOp(info, call); k != "" && (op == "lock" || op == "rlock") {
			if cl := lo.classOfKey(k); cl != "" {
				if _, have := a[cl]; !have {
					a[cl] = f.Name + " (" + lo.ix.M.posStr(call.Pos()) + ")"
				}
			}
			return true
		}
		for _, cal := range lo.callees(f, call) {
			for cl, w := range lo.acquires(cal) {
				if _, have := a[cl]; !have {
					a[cl] = f.Name + " (" + lo.ix.M.posStr(call.Pos()) + ") → " + w
				}
			}
		}
		return true
	})
	// literals that run in place contribute too
	for _, l := range funcLits(f.Body()) {
		switch lo.ix.Use[l] {
		case LitCalled, LitOnceDo, LitDefer:
			if li := lo.ix.OfLit[l]; li != nil {
				for cl, w := range lo.acquires(li) {
					if _, have := a[cl]; !have {
						a[cl] = w
					}
				}
			}
		}
	}
	return a
}

// Build computes all edges.
func (lo *lockOrder) Build() {
	info := lo.ix.Pkg.TypesInfo
	// iterate to a fixpoint for recursive call chains
	for i := 0; i < 3; i++ {
		lo.acq = map[*FuncInfo]map[string]string{}
		for _, f := range lo.ix.All {
			lo.acquires(f)
		}
	}
	for _, f := range lo.ix.All {
		inspectNoLit(f.Body(), func(n ast.Node) bool {
			call, ok := n.(*ast.CallExpr)
			if !ok {
				return true
			}
			held := lo.le.MayHeldAt(f, call)
			if len(held) == 0 {
				return true
			}
			acquired := map[string]string{}
			if k, op := lockOp(info, call); k != "" && (op == "lock" || op == "rlock") {
				if cl := lo.classOfKey(k); cl != "" {
					acquired[cl] = f.Name + " (" + lo.ix.M.posStr(call.Pos()) + ")"
				}
			} else {
				for _, cal := range lo.callees(f, call) {
					for cl, w := range lo.acquires(cal) {
						acquired[cl] = f.Name + " (" + lo.ix.M.posStr(call.Pos()) + ") → " + w
					}
				}
			}
			for hk := range held {
				x := lo.classOfKey(hk)
				if x == "" {
					continue
				}
				for y, w := range acquired {
					if lo.Edges[x] == nil {
						lo.Edges[x] = map[string]string{}
					}
					if _, have := lo.Edges[x][y]; !have {
						lo.Edges[x][y] = "holding " + x + ": " + w
					}
				}
			}
			return true
		})
	}
}

// Cycles returns 2-cycles and longer cycles between distinct classes (as sorted class lists) with witnesses.
func (lo *lockOrder) Cycles() [][2]string {
	var out [][2]string
	seen := map[string]bool{}
	// reachability
	reach := func(from string) map[string]bool {
		r := map[string]bool{}
		var st []string
		st = append(st, from)
		for len(st) > 0 {
			x := st[len(st)-1]
			st = st[:len(st)-1]
			for y := range lo.Edges[x] {
				if !r[y] {
					r[y] = true
					st = append(st, y)
				}
			}
		}
		return r
	}
	var classes []string
	for x := range lo.Edges {
		classes = append(classes, x)
	}
	sort.Strings(classes)
	for _, x := range classes {
		rx := reach(x)
		for y := range lo.Edges[x] {
			if y == x {
				continue
			}
			if reach(y)[x] && rx[y] {
				a, b := x, y
				if b < a {
					a, b = b, a
				}
				k := a + "|" + b
				if !seen[k] {
					seen[k] = true
					out = append(out, [2]string{a, b})
				}
			}
		}
	}
	sort.Slice(out, func(i, j int) bool { return out[i][0]+out[i][1] < out[j][0]+out[j][1] })
	return out
}

// pathWitness renders one path x ⇒ y through the edge graph.
func (lo *lockOrder) pathWitness(x, y string) string {
	type item struct {
		at   string
		path []string
	}
	q := []item{{x, nil}}
	seen := map[string]bool{x: true}
	for len(q) > 0 {
		it := q[0]
		q = q[1:]
		var ys []string
		for z := range lo.Edges[it.at] {
			ys = append(ys, z)
		}
		sort.Strings(ys)
		for _, z := range ys {
			p := append(append([]string{}, it.path...), "["+it.at+" → "+z+": "+lo.Edges[it.at][z]+"]")
			if z == y {
				return strings.Join(p, " ")
			}
			if !seen[z] {
				seen[z] = true
				q = append(q, item{z, p})
			}
		}
	}
	return ""
}

// ruleLockOrder states the package-local lock-order obligation for one package: every nested acquisition X → Y has no reverse
// path Y ⇒ X. It returns the number of edges examined.
func ruleLockOrder(c *Ctx, ix *PkgIndex, le *LockEngine, rule, label string) int {
	lo := newLockOrder(ix, le)
	lo.Build()
	var xs []string
	for x := range lo.Edges {
		xs = append(xs, x)
	}
	sort.Strings(xs)
	n := 0
	pos := at(ix.M, ix.Pkg.Syntax[0].Pos())
	for _, x := range xs {
		var ys []string
		for y := range lo.Edges[x] {
			ys = append(ys, y)
		}
		sort.Strings(ys)
		for _, y := range ys {
			if x == y {
				// the same class nested in itself is decided per object by ruleNoReacquire: at class level a wrapper that holds its
				// own mutex while calling the wrapped value of the same type (bufferExporter → inner Exporter) is indistinguishable
				// from a re-acquisition
				continue
			}
			back := lo.pathWitness(y, x)
			c.Check(back == "", rule, label+"|lock order|"+x+" → "+y+" has no reverse path", pos, lo.Edges[x][y],
				"lock-order inversion (deadlock between two goroutines): "+lo.Edges[x][y]+"  AND  "+back)
			n++
		}
	}
	return n
}

// ownLocks returns, for a method g, the mutex paths (relative to g's receiver, e.g. ".mu", ".q.Mutex") that g acquires — itself or
// through methods it calls on its own receiver (or on a field path of it) — on some path from its entry on which that mutex has
// not been released first (a helper that is entered with the lock held and does Unlock … Lock is not an acquirer). The witness
// names the acquisition.
func (lo *lockOrder) ownLocks(g *FuncInfo, seen map[*FuncInfo]bool) map[string]string {
	out := map[string]string{}
	rv := g.Recv()
	if rv == nil || g.Body() == nil || seen[g] {
		return out
	}
	seen[g] = true
	defer delete(seen, g)
	info := lo.ix.Pkg.TypesInfo
	root := varKey(rv)
	fg := lo.ix.FG(g)
	if fg == nil {
		return out
	}
	reachNoUnlock := func(key string) map[*GNode]bool {
		r, _ := fg.ReachFromEntry(func(x *GNode) bool {
			blocked := false
			switch x.N.(type) {
			case *ast.DeferStmt, *ast.GoStmt:
				return false
			}
			inspectNoLit(x.N, func(n ast.Node) bool {
				if call, ok := n.(*ast.CallExpr); ok {
					if k, op := lockOp(info, call); k == key && (op == "unlock" || op == "runlock") {
						blocked = true
					}
				}
				return true
			})
			return blocked
		}, nil)
		return r
	}
	inspectNoLit(g.Body(), func(n ast.Node) bool {
		switch n.(type) {
		case *ast.GoStmt:
			return false
		}
		call, ok := n.(*ast.CallExpr)
		if !ok {
			return true
		}
		if k, op := lockOp(info, call); k != "" {
			if op != "lock" && op != "rlock" {
				return true
			}
			r, rest := keyRoot(k)
			if r != root || rest == "" {
				return true
			}
			if nd := fg.NodeOf(call); nd != nil && reachNoUnlock(k)[nd] {
				if _, have := out[rest+"|"+op]; !have {
					out[rest+"|"+op] = g.Name + " (" + lo.ix.M.posStr(call.Pos()) + ")"
				}
			}
			return true
		}
		// a method called on the receiver (or on a field path of it)
		sel, ok := unparen(call.Fun).(*ast.SelectorExpr)
		if !ok {
			return true
		}
		s := info.Selections[sel]
		if s == nil || s.Kind() != types.MethodVal {
			return true
		}
		m, _ := s.Obj().(*types.Func)
		h := lo.ix.ByObj(m)
		if h == nil || h.Recv() == nil {
			return true
		}
		base := pathKey(info, sel.X)
		if base == "" {
			return true
		}
		base += implicitPath(s, len(s.Index())-1)
		r, prefix := keyRoot(base)
		if r != root && base != root {
			return true
		}
		if base == root {
			prefix = ""
		}
		nd := fg.NodeOf(call)
		for restOp, w := range lo.ownLocks(h, seen) {
			i := strings.LastIndex(restOp, "|")
			rest, op := prefix+restOp[:i], restOp[i+1:]
			if nd == nil || !reachNoUnlock(root + rest)[nd] {
				continue
			}
			if _, have := out[rest+"|"+op]; !have {
				out[rest+"|"+op] = g.Name + " (" + lo.ix.M.posStr(call.Pos()) + ") → " + w
			}
		}
		return true
	})
	return out
}

// ruleNoReacquire: sync.Mutex and sync.RWMutex are not re-entrant. At every call of a package-local method on an object path whose
// mutex is held at the call on every path (must-held), the callee does not acquire that same mutex of that same object (itself or
// through further methods of the object). Holding it for reading and acquiring it again for reading is reported too: a writer
// that arrives in between blocks the second RLock forever (sync documentation: recursive read locking is prohibited).
// Returns the number of calls examined.
func ruleNoReacquire(c *Ctx, ix *PkgIndex, le *LockEngine, rule, label string) int {
	lo := newLockOrder(ix, le)
	info := ix.Pkg.TypesInfo
	n := 0
	type ob struct {
		bad string
		pos token.Pos
	}
	obs := map[string]*ob{}
	var keys []string
	for _, f := range ix.All {
		if f.Body() == nil {
			continue
		}
		inspectNoLit(f.Body(), func(nd ast.Node) bool {
			call, ok := nd.(*ast.CallExpr)
			if !ok {
				return true
			}
			sel, ok := unparen(call.Fun).(*ast.SelectorExpr)
			if !ok {
				return true
			}
			s := info.Selections[sel]
			if s == nil || s.Kind() != types.MethodVal {
				return true
			}
			m, _ := s.Obj().(*types.Func)
			h := ix.ByObj(m)
			if h == nil || h.Recv() == nil {
				return true
			}
			base := pathKey(info, sel.X)
			if base == "" {
				return true
			}
			base += implicitPath(s, len(s.Index())-1)
			held := le.HeldAt(f, call)
			if len(held) == 0 {
				return true
			}
			rel := false
			for hk := range held {
				if strings.HasPrefix(strings.TrimSuffix(hk, "#r"), base+".") {
					rel = true
				}
			}
			if !rel {
				return true
			}
			n++
			key := label + "|" + f.Name + "|call " + h.Name + " with a mutex of its receiver held"
			o := obs[key]
			if o == nil {
				o = &ob{pos: call.Pos()}
				obs[key] = o
				keys = append(keys, key)
			}
			for restOp, w := range lo.ownLocks(h, map[*FuncInfo]bool{}) {
				i := strings.LastIndex(restOp, "|")
				rest, op := restOp[:i], restOp[i+1:]
				k := base + rest
				switch {
				case held[k]:
					o.bad = "the caller holds " + types.ExprString(sel.X) + rest + " and the callee acquires it again (" + op + "): " + w
					o.pos = call.Pos()
				case held[k+"#r"]:
					o.bad = "the caller holds " + types.ExprString(sel.X) + rest + " for reading and the callee acquires it again (" + op + "): " + w
					o.pos = call.Pos()
				}
			}
			return true
		})
	}
	sort.Strings(keys)
	for _, k := range keys {
		o := obs[k]
		c.Check(o.bad == "", rule, k, at(ix.M, o.pos), "the callee does not acquire a mutex the caller holds on the same object", "self-deadlock (mutexes are not re-entrant): "+o.bad)
	}
	return n
}
