package main

import (
	"go/ast"
	"go/constant"
	"go/token"
	"go/types"
	"strings"
)

const (
	sdkMetric = "go.opentelemetry.io/otel/sdk/metric"
	sdkLog    = "go.opentelemetry.io/otel/sdk/log"
)

func init() {
	register(&PropDoc{
		ID:      "C15",
		Modules: []string{"sdk", "sdk/metric", "sdk/log"},
		NotDecided: "membership after arbitrary edit sequences as a value property (decided: the removal is conditional on a match and edits are locked copy-on-write); " +
			"'blocks forever' in general; panics outside the nil-exporter clause; exactly-once shutdown as a schedule property (decided: every shutdown call site is once-guarded).",
		Fn: c15,
	})
}

// swapWinEdge: the edge on which an atomic.Bool test-and-set was won:
// X.Swap(true) false, X.CompareAndSwap(false,true) true, or a variable defined from one of them.
func swapWinEdge(f *FuncInfo) func(*GEdge) bool { return swapEdge(f, 1) }

// swapLoseEdge: the edge on which the test-and-set found the flag already set.
func swapLoseEdge(f *FuncInfo) func(*GEdge) bool { return swapEdge(f, -1) }

func swapEdge(f *FuncInfo, want int) func(*GEdge) bool {
	atom := swapAtom(f, want)
	return func(e *GEdge) bool { return edgeImplies(e, atom) }
}

// swapAtom: the atomic fact "the test-and-set was won" (want=+1) / "found the flag already set" (want=-1).
func swapAtom(f *FuncInfo, want int) func(ast.Expr, int) bool {
	info := f.Info()
	isSwap := func(e ast.Expr) (win int) { // +1: true means won; -1: false means won
		call, ok := unparen(e).(*ast.CallExpr)
		if !ok {
			return 0
		}
		cf := callee(info, call)
		if cf == nil {
			return 0
		}
		switch cf.FullName() {
		case "(*sync/atomic.Bool).Swap":
			if len(call.Args) == 1 {
				if tv := info.Types[call.Args[0]]; tv.Value != nil && tv.Value.Kind() == constant.Bool && constant.BoolVal(tv.Value) {
					return -1
				}
			}
		case "(*sync/atomic.Bool).CompareAndSwap":
			if len(call.Args) == 2 {
				a, b := info.Types[call.Args[0]], info.Types[call.Args[1]]
				if a.Value != nil && b.Value != nil && !constant.BoolVal(a.Value) && constant.BoolVal(b.Value) {
					return 1
				}
			}
		}
		return 0
	}
	// variables defined from a swap
	vars := map[types.Object]int{}
	inspectNoLit(f.Body(), func(n ast.Node) bool {
		if as, ok := n.(*ast.AssignStmt); ok && len(as.Lhs) == 1 && len(as.Rhs) == 1 {
			if w := isSwap(as.Rhs[0]); w != 0 {
				if o := objOf(info, as.Lhs[0]); o != nil {
					vars[o] = w
				}
			}
		}
		return true
	})
	return func(cnd ast.Expr, pol int) bool {
		if w := isSwap(cnd); w != 0 {
			return w == pol*want
		}
		if o := objOf(info, cnd); o != nil {
			if w, ok := vars[o]; ok {
				return w == pol*want
			}
		}
		return false
	}
}

// onceAncestor: is f (a literal) nested, at any depth, in a literal passed to sync.Once.Do? Returns the Do call's receiver text.
func (ix *PkgIndex) onceAncestor(f *FuncInfo) (bool, string) {
	for ; f != nil && f.Lit != nil; f = ix.Parent[f.Lit] {
		if ix.Use[f.Lit] == LitOnceDo {
			par := ix.Parent[f.Lit]
			recv := ""
			inspectNoLit(par.Body(), func(n ast.Node) bool {
				if call, ok := n.(*ast.CallExpr); ok && len(call.Args) == 1 && unparen(call.Args[0]) == ast.Expr(f.Lit) {
					if r, _ := methodCall(par.Info(), call); r != nil {
						recv = exprStr(r)
					}
				}
				return true
			})
			return true, recv
		}
	}
	return false, ""
}

// onceGuarded decides whether site n in f executes at most once per object: Once.Do ancestor or dominated (up the static call chain) by a won test-and-set.
func (ix *PkgIndex) onceGuarded(f *FuncInfo, n ast.Node) (bool, string) {
	if ok, recv := ix.onceAncestor(f); ok {
		return true, "inside " + recv + ".Do"
	}
	if ok, _ := ix.DominatedUp(f, n, swapWinEdge, 0); ok {
		return true, "dominated by a won atomic test-and-set"
	}
	return false, ""
}

func c15(c *Ctx) {
	tix := c.Index("sdk", sdkTrace)
	mix := c.Index("sdk/metric", sdkMetric)
	lix := c.Index("sdk/log", sdkLog)
	if tix == nil || mix == nil || lix == nil {
		return
	}
	tinfo := tix.Pkg.TypesInfo

	// R1 found-guard
	c.Rule("R1", "E3 dominance (contradiction rule)", "UnregisterSpanProcessor: the list is shrunk and published only when the given processor was found", 1)
	if fn := c.Fn(tix, "R1", "(*TracerProvider).UnregisterSpanProcessor"); fn != nil {
		g := tix.FG(fn)
		fSP := lookupField(tix.Pkg, "TracerProvider", "spanProcessors")
		fsp := lookupField(tix.Pkg, "spanProcessorState", "sp")
		param := fn.Obj.Type().(*types.Signature).Params().At(0)
		isMatch := func(cnd ast.Expr, pol int) bool {
			l, op, r, ok := cmpNorm(cnd, pol)
			if !ok || op != token.EQL {
				return false
			}
			return (isField(tinfo, l, fsp) && sameVar(tinfo, r, param)) || (isField(tinfo, r, fsp) && sameVar(tinfo, l, param))
		}
		matchEdge := func(e *GEdge) bool { return edgeImplies(e, isMatch) }
		// witnesses: variables assigned only under the match
		wit := map[types.Object]bool{}
		for _, x := range g.Nodes {
			as, ok := x.N.(*ast.AssignStmt)
			if !ok {
				continue
			}
			if d, _ := g.DominatedByEdges(x, matchEdge); !d {
				continue
			}
			for _, l := range as.Lhs {
				if o := objOf(tinfo, l); o != nil {
					wit[o] = true
				}
			}
		}
		// integer witnesses: initialised once to a constant sentinel outside the match (found := -1), assigned under the match
		// otherwise; a fact that the sentinel does not satisfy establishes "found"
		sentinel := map[types.Object]int64{}
		for o := range wit {
			b, ok := o.Type().Underlying().(*types.Basic)
			if !ok || b.Info()&types.IsInteger == 0 {
				continue
			}
			nOutside, k, okK := 0, int64(0), false
			for _, x := range g.Nodes {
				as, isAs := x.N.(*ast.AssignStmt)
				if !isAs || len(as.Lhs) != len(as.Rhs) {
					continue
				}
				for i, l := range as.Lhs {
					if objOf(tinfo, l) != o {
						continue
					}
					if d, _ := g.DominatedByEdges(x, matchEdge); d {
						continue
					}
					nOutside++
					k, okK = constInt(tinfo, as.Rhs[i])
				}
			}
			if nOutside == 1 && okK {
				sentinel[o] = k
			}
		}
		// a witness must have a distinguishable "not found" initial value: pointer/interface nil, bool false, integer sentinel
		foundEdge := func(e *GEdge) bool {
			if matchEdge(e) {
				return true
			}
			return edgeImplies(e, func(cnd ast.Expr, pol int) bool {
				if l, op, r, ok := cmpNorm(cnd, pol); ok {
					excl := func(w ast.Expr, op token.Token, cexp ast.Expr) bool {
						o := objOf(tinfo, w)
						k, has := sentinel[o]
						cv, isC := constInt(tinfo, cexp)
						if o == nil || !has || !isC {
							return false
						}
						// the sentinel does not satisfy (w op cv)
						switch op {
						case token.EQL:
							return false
						case token.NEQ:
							return k == cv
						case token.LSS:
							return k >= cv
						case token.LEQ:
							return k > cv
						case token.GEQ:
							return k < cv
						case token.GTR:
							return k <= cv
						}
						return false
					}
					if excl(l, op, r) || excl(r, flipOp(op), l) {
						return true
					}
				}
				if nn, ok := nilCmp(tinfo, cnd, pol, func(x ast.Expr) bool { o := objOf(tinfo, x); return o != nil && wit[o] }); ok {
					return nn
				}
				if o := objOf(tinfo, cnd); o != nil && wit[o] && pol > 0 {
					if b, ok := o.Type().Underlying().(*types.Basic); ok && b.Kind() == types.Bool {
						return true
					}
				}
				return false
			})
		}
		stores := g.Match(func(n ast.Node) bool {
			call, ok := n.(*ast.CallExpr)
			if !ok {
				return false
			}
			sel, ok := unparen(call.Fun).(*ast.SelectorExpr)
			return ok && sel.Sel.Name == "Store" && isField(tinfo, sel.X, fSP)
		})
		if len(stores) == 0 {
			c.Violation("R1", "sdk/trace|(*TracerProvider).UnregisterSpanProcessor|publish only when found", at(tix.M, fn.Pos()), "no Store of the processor list found")
		}
		for _, x := range stores {
			ok, why := g.DominatedByEdges(x, foundEdge)
			c.Check(ok, "R1", "sdk/trace|(*TracerProvider).UnregisterSpanProcessor|publish only when found", at(tix.M, x.N.Pos()),
				"the shrunk list is stored only on paths where a processor matched", "the list is shrunk and stored even when no registered processor matched (unregistering an unknown processor removes another one): "+why)
		}
	}

	// R2 close-once and shutdown-once
	c.Rule("R2", "E3 once-guard + E5", "every close of a struct-field channel and every Shutdown call on a held processor/reader/exporter in the SDK packages is once-guarded", 14)
	for _, ix := range []*PkgIndex{tix, mix, lix} {
		info := ix.Pkg.TypesInfo
		cnt := map[string]int{}
		for _, s := range ix.FindCalls(func(f *FuncInfo, call *ast.CallExpr) bool {
			if builtinName(info, call) != "close" || len(call.Args) != 1 {
				return false
			}
			fv, _ := fieldOf(info, call.Args[0])
			return fv != nil
		}) {
			call := s.N.(*ast.CallExpr)
			fv, base := fieldOf(info, call.Args[0])
			c.Analysed(ix.Outer(s.F))
			cnt[s.F.Name]++
			key := shortPkg(ix.Pkg.PkgPath) + "|" + ix.Outer(s.F).Name + "|close(" + exprStr(call.Args[0]) + ") once"
			if ok, how := ix.onceGuarded(s.F, s.N); ok {
				c.OK("R2", key, ix.at(s), how)
				continue
			}
			// goroutine started once by the constructor of a fresh object
			if ok := closeInCtorGoroutine(ix, s.F, base); ok {
				c.OK("R2", key, ix.at(s), "closed by the one goroutine the constructor starts for a fresh object")
				continue
			}
			// single-delivery token: the channel belongs to a value received from a channel in this function
			if tokenFromChannel(ix, s.F, base) {
				c.OK("R2", key, ix.at(s), "channel is a field of a message received from a channel (each message is delivered to one receiver once)")
				continue
			}
			c.Violation("R2", key, ix.at(s), "close of "+fv.Name()+" is not once-guarded (sync.Once, won atomic test-and-set, constructor goroutine, or received token): a second call panics with 'close of closed channel'")
		}
	}
	// shutdown calls
	type shSpec struct {
		ix     *PkgIndex
		ifaces []string // interface type names in the package whose Shutdown is a held-component shutdown
		exempt map[string]string
	}
	for _, sp := range []shSpec{
		{tix, []string{"SpanProcessor", "SpanExporter"}, nil},
		{lix, []string{"Processor", "Exporter"}, map[string]string{
			"(*SimpleProcessor).Shutdown": "pure delegation to the exporter; the once-guard is the provider's (checked at LoggerProvider.Shutdown)",
		}},
		{mix, []string{"Exporter", "Reader"}, nil},
	} {
		ix := sp.ix
		info := ix.Pkg.TypesInfo
		for _, s := range ix.FindCalls(func(f *FuncInfo, call *ast.CallExpr) bool {
			cf := callee(info, call)
			if cf == nil || cf.Name() != "Shutdown" {
				return false
			}
			rv := cf.Type().(*types.Signature).Recv()
			if rv == nil {
				return false
			}
			for _, in := range sp.ifaces {
				if typeIs(rv.Type(), ix.Pkg.PkgPath, in) {
					return true
				}
			}
			return false
		}) {
			call := s.N.(*ast.CallExpr)
			recv, _ := methodCall(info, call)
			outer := ix.Outer(s.F)
			c.Analysed(outer)
			key := shortPkg(ix.Pkg.PkgPath) + "|" + outer.Name + "|" + exprStr(recv) + ".Shutdown once"
			if r, ok := sp.exempt[outer.Name]; ok {
				c.OK("R2", key, ix.at(s), "exempt: "+r)
				continue
			}
			ok, how := ix.onceGuarded(s.F, s.N)
			c.Check(ok, "R2", key, ix.at(s), how, "Shutdown of a held component is reachable more than once (no sync.Once / won test-and-set on the way): the component is shut down twice")
		}
	}
	// MeterProvider: unifyShutdown wraps the fan-out in a Once; readers guard themselves
	if fn := c.Fn(mix, "R2", "unifyShutdown"); fn != nil {
		info := mix.Pkg.TypesInfo
		good := false
		for _, l := range funcLits(fn.Body()) {
			li := mix.OfLit[l]
			if li == nil {
				continue
			}
			for _, l2 := range funcLits(l.Body) {
				if mix.Use[l2] == LitOnceDo {
					// inner literal calls a func value defined in unifyShutdown from unify(...)
					inspectNoLit(l2.Body, func(n ast.Node) bool {
						if call, ok := n.(*ast.CallExpr); ok {
							if id, ok := unparen(call.Fun).(*ast.Ident); ok {
								if v, ok := info.Uses[id].(*types.Var); ok && (definedIn(info, fn.Body(), v) || mix.FG(fn).isParam(v)) {
									good = true
								}
							}
						}
						return true
					})
				}
			}
		}
		c.Check(good, "R2", "sdk/metric|unifyShutdown|reader shutdown fan-out inside sync.Once", at(mix.M, fn.Pos()), "the unified shutdown runs once",
			"MeterProvider.Shutdown fan-out is no longer once-guarded")
	}
	if fn := c.Fn(mix, "R2", "(*MeterProvider).Shutdown"); fn != nil {
		info := mix.Pkg.TypesInfo
		fSh := lookupField(mix.Pkg, "MeterProvider", "shutdown")
		n, bad := 0, 0
		inspectNoLit(fn.Body(), func(nd ast.Node) bool {
			if call, ok := nd.(*ast.CallExpr); ok {
				if isField(info, call.Fun, fSh) {
					n++
				} else if cf := callee(info, call); cf != nil && cf.Name() == "Shutdown" {
					bad++
				}
			}
			return true
		})
		c.Check(n == 1 && bad == 0, "R2", "sdk/metric|(*MeterProvider).Shutdown|readers shut down only through the unified once-guarded function", at(mix.M, fn.Pos()),
			"single call of mp.shutdown", "MeterProvider.Shutdown reaches readers by another route than the once-guarded unified function")
	}
	for _, rd := range []string{"ManualReader", "PeriodicReader"} {
		fn := c.Fn(mix, "R2", "(*"+rd+").Shutdown")
		if fn == nil {
			continue
		}
		info := mix.Pkg.TypesInfo
		fOnce := lookupField(mix.Pkg, rd, "shutdownOnce")
		fProd := lookupField(mix.Pkg, rd, "sdkProducer")
		fIs := lookupField(mix.Pkg, rd, "isShutdown")
		// every effect (store to isShutdown, sdkProducer swap/store) lies inside shutdownOnce.Do
		var effects []Site
		for _, f := range mix.All {
			if mix.Outer(f) != fn {
				continue
			}
			inspectNoLit(f.Body(), func(n ast.Node) bool {
				switch x := n.(type) {
				case *ast.AssignStmt:
					for _, l := range x.Lhs {
						if isField(info, l, fIs) {
							effects = append(effects, Site{f, n})
						}
					}
				case *ast.CallExpr:
					if sel, ok := unparen(x.Fun).(*ast.SelectorExpr); ok && isField(info, sel.X, fProd) && (sel.Sel.Name == "Store" || sel.Sel.Name == "Swap") {
						effects = append(effects, Site{f, n})
					}
				}
				return true
			})
		}
		// … or in a declared helper called from there (one level): the effect then sits where the call is
		isEffect := func(n ast.Node) bool {
			switch x := n.(type) {
			case *ast.AssignStmt:
				for _, l := range x.Lhs {
					if isField(info, l, fIs) {
						return true
					}
				}
			case *ast.CallExpr:
				if sel, ok := unparen(x.Fun).(*ast.SelectorExpr); ok && isField(info, sel.X, fProd) && (sel.Sel.Name == "Store" || sel.Sel.Name == "Swap") {
					return true
				}
			}
			return false
		}
		for _, f := range mix.All {
			if mix.Outer(f) != fn {
				continue
			}
			inspectNoLit(f.Body(), func(n ast.Node) bool {
				call, ok := n.(*ast.CallExpr)
				if !ok {
					return true
				}
				h := mix.declByObj(callee(info, call))
				if h == nil || h == fn || h.Body() == nil {
					return true
				}
				has := false
				inspectNoLit(h.Body(), func(m ast.Node) bool {
					if isEffect(m) {
						has = true
					}
					return !has
				})
				if has {
					effects = append(effects, Site{f, call})
				}
				return true
			})
		}
		good := len(effects) >= 2
		for _, e := range effects {
			ok, recv := mix.onceAncestor(e.F)
			if !ok || !strings.HasSuffix(recv, "."+fOnce.Name()) {
				good = false
			}
		}
		c.Check(good, "R2", "sdk/metric|(*"+rd+").Shutdown|effects inside shutdownOnce.Do", at(mix.M, fn.Pos()), itoa(len(effects))+" effects, all once-guarded",
			"reader shutdown effects are not all inside shutdownOnce.Do (MeterProvider relies on readers guarding themselves)")
		// swap to the shutdown producer
		okProd := false
		for _, e := range effects {
			if call, ok := e.N.(*ast.CallExpr); ok && len(call.Args) == 1 {
				arg0 := unparen(call.Args[0])
				if u, isU := arg0.(*ast.UnaryExpr); isU && u.Op == token.AND {
					arg0 = unparen(u.X) // the holder kept behind an atomic.Pointer instead of an atomic.Value
				}
				if cl, ok := arg0.(*ast.CompositeLit); ok && typeIs(info.Types[cl].Type, sdkMetric, "produceHolder") {
					for _, el := range cl.Elts {
						if kv, ok := el.(*ast.KeyValueExpr); ok {
							if sel, ok := unparen(kv.Value).(*ast.SelectorExpr); ok && sel.Sel.Name == "produce" {
								if tv, ok := info.Types[sel.X]; ok {
									// the producer type that refuses to collect (resolved, so a renamed type is still recognised)
									if sp := lookupType(mix.Pkg, "shutdownProducer"); sp != nil {
										if nn := namedOf(tv.Type); nn != nil && nn.Obj() == sp.Obj() {
											okProd = true
										}
									}
								}
							}
						}
					}
				}
			}
		}
		c.Check(okProd, "R3", "sdk/metric|(*"+rd+").Shutdown|sdkProducer replaced by shutdownProducer", at(mix.M, fn.Pos()), "Collect after Shutdown reaches the shutdown producer",
			"after Shutdown the reader can still collect from the pipeline")
	}

	// R3 no-ops after shutdown
	c.Rule("R3", "E2 reachability under the stopped flag", "after shutdown: Tracer/Meter/Logger return no-op values; ForceFlush/second Shutdown/OnEmit/OnEnd return before touching processors or exporters; readers collect from the shutdown producer", 9)
	noopRet := func(ix *PkgIndex, fname, typ, fld, noopPkgSuffix string) {
		fn := c.Fn(ix, "R3", fname)
		f := lookupField(ix.Pkg, typ, fld)
		if fn == nil || f == nil {
			c.Missing("R3", fname+" / "+typ+"."+fld)
			return
		}
		info := ix.Pkg.TypesInfo
		env := func(e ast.Expr) (constant.Value, bool) {
			if fieldMethodCall(info, e, f, "Load") != nil {
				return constant.MakeBool(true), true
			}
			return nil, false
		}
		total, good := 0, true
		for _, fi := range ix.All {
			if ix.Outer(fi) != fn {
				continue
			}
			hasTest := len(nodesIn(fi, func(n ast.Node) bool { return fieldMethodCall(info, n, f, "Load") != nil })) > 0
			if !hasTest {
				continue
			}
			g := ix.FG(fi)
			seen := g.ReachUnder(env)
			for x := range seen {
				rs, ok := x.N.(*ast.ReturnStmt)
				if !ok || len(rs.Results) == 0 {
					continue
				}
				total++
				tv := info.Types[rs.Results[0]]
				isNoop := false
				if n := namedOf(tv.Type); n != nil && n.Obj().Pkg() != nil && strings.HasSuffix(n.Obj().Pkg().Path(), noopPkgSuffix) {
					isNoop = true
				}
				if call, ok := unparen(rs.Results[0]).(*ast.CallExpr); ok {
					if cf := callee(info, call); cf != nil && cf.Pkg() != nil && strings.HasSuffix(cf.Pkg().Path(), noopPkgSuffix) {
						isNoop = true
					}
				}
				if !isNoop {
					good = false
				}
			}
		}
		c.Check(total > 0 && good, "R3", shortPkg(ix.Pkg.PkgPath)+"|"+fname+"|stopped ⇒ returns a no-op", at(ix.M, fn.Pos()),
			itoa(total)+" return(s) reachable with the flag set, all no-op", "with the provider shut down a live tracer/meter/logger can be returned")
	}
	noopRet(tix, "(*TracerProvider).Tracer", "TracerProvider", "isShutdown", "/noop")
	noopRet(mix, "(*MeterProvider).Meter", "MeterProvider", "stopped", "/noop")
	noopRet(lix, "(*LoggerProvider).Logger", "LoggerProvider", "stopped", "/noop")
	// Tracer re-tests the flag under the lock
	if fn := tix.Func("(*TracerProvider).Tracer"); fn != nil {
		le := c.Locks(tix)
		fIs := lookupField(tix.Pkg, "TracerProvider", "isShutdown")
		fNT := lookupField(tix.Pkg, "TracerProvider", "namedTracer")
		under := false
		for _, fi := range tix.All {
			if tix.Outer(fi) != fn {
				continue
			}
			for _, n := range nodesIn(fi, func(n ast.Node) bool { return fieldMethodCall(tinfo, n, fIs, "Load") != nil }) {
				if h := le.HeldAt(fi, n); len(h) > 0 {
					// and the map insert is dominated by its false edge
					g := tix.FG(fi)
					for _, x := range g.Match(func(m ast.Node) bool {
						as, ok := m.(*ast.AssignStmt)
						if !ok {
							return false
						}
						for _, l := range as.Lhs {
							if ie, ok := unparen(l).(*ast.IndexExpr); ok && isField(tinfo, ie.X, fNT) {
								return true
							}
						}
						return false
					}) {
						d, _ := g.DominatedByEdges(x, func(e *GEdge) bool {
							return edgeImplies(e, func(cnd ast.Expr, pol int) bool { return pol < 0 && fieldMethodCall(tinfo, cnd, fIs, "Load") != nil })
						})
						if d {
							under = true
						}
					}
				}
			}
		}
		c.Check(under, "R3", "sdk/trace|(*TracerProvider).Tracer|flag re-tested under p.mu before a tracer is registered", at(tix.M, fn.Pos()),
			"no live tracer is created once Shutdown holds the lock", "a tracer can be created concurrently with Shutdown and outlive it")
	}
	// early returns: under the stopped flag no processor/exporter method is reachable
	quiet := func(ix *PkgIndex, fname, typ, fld string, method string) {
		fn := c.Fn(ix, "R3", fname)
		f := lookupField(ix.Pkg, typ, fld)
		if fn == nil || f == nil {
			return
		}
		info := ix.Pkg.TypesInfo
		// what each way of looking at the flag answers once it is set: Load() and Swap(true) report true, CompareAndSwap(false, true)
		// reports false (whichever the code uses; `method` names the one found on the pinned tree)
		_ = method
		whenSet := func(e ast.Expr) (bool, bool) {
			e = unparen(e)
			if fieldMethodCall(info, e, f, "Load") != nil || fieldMethodCall(info, e, f, "Swap") != nil {
				return true, true
			}
			if fieldMethodCall(info, e, f, "CompareAndSwap") != nil {
				return false, true
			}
			return false, false
		}
		flagVars := map[types.Object]bool{}
		inspectNoLit(fn.Body(), func(n ast.Node) bool {
			if as, ok := n.(*ast.AssignStmt); ok && len(as.Lhs) == 1 && len(as.Rhs) == 1 {
				if v, is := whenSet(as.Rhs[0]); is {
					if o := objOf(info, as.Lhs[0]); o != nil {
						flagVars[o] = v
					}
				}
			}
			return true
		})
		env := func(e ast.Expr) (constant.Value, bool) {
			if v, is := whenSet(e); is {
				return constant.MakeBool(v), true
			}
			if o := objOf(info, e); o != nil {
				if v, has := flagVars[o]; has {
					return constant.MakeBool(v), true
				}
			}
			return nil, false
		}
		g := ix.FG(fn)
		seen := g.ReachUnder(env)
		var bad []string
		for x := range seen {
			if x.N == nil {
				continue
			}
			ast.Inspect(x.N, func(n ast.Node) bool {
				call, ok := n.(*ast.CallExpr)
				if !ok {
					return true
				}
				if cf := callee(info, call); cf != nil {
					if rv := cf.Type().(*types.Signature).Recv(); rv != nil {
						if _, isIface := rv.Type().Underlying().(*types.Interface); isIface && cf.Pkg() == ix.Pkg.Types {
							bad = append(bad, cf.Name())
						}
						if nn := namedOf(rv.Type()); nn != nil && nn.Obj().Pkg() == ix.Pkg.Types && (nn.Obj().Name() == "queue" || nn.Obj().Name() == "bufferExporter") {
							bad = append(bad, nn.Obj().Name()+"."+cf.Name())
						}
					}
				}
				return true
			})
			if _, ok := x.N.(*ast.SendStmt); ok {
				bad = append(bad, "channel send")
			}
		}
		hasTest := len(nodesIn(fn, func(n ast.Node) bool {
			e, ok := n.(ast.Expr)
			if !ok {
				return false
			}
			_, is := whenSet(e)
			return is
		})) > 0
		c.Check(hasTest && len(bad) == 0, "R3", shortPkg(ix.Pkg.PkgPath)+"|"+fname+"|stopped ⇒ returns without touching processors/exporters", at(ix.M, fn.Pos()),
			"nothing is reachable with the flag set", "after shutdown the call still reaches "+strings.Join(bad, ","))
	}
	quiet(tix, "(*TracerProvider).Shutdown", "TracerProvider", "isShutdown", "Load")
	quiet(tix, "(*batchSpanProcessor).ForceFlush", "batchSpanProcessor", "stopped", "Load")
	quiet(tix, "(*batchSpanProcessor).OnEnd", "batchSpanProcessor", "stopped", "Load")
	quiet(lix, "(*LoggerProvider).ForceFlush", "LoggerProvider", "stopped", "Load")
	quiet(lix, "(*LoggerProvider).Shutdown", "LoggerProvider", "stopped", "Swap")
	quiet(lix, "(*BatchProcessor).OnEmit", "BatchProcessor", "stopped", "Load")
	quiet(lix, "(*BatchProcessor).ForceFlush", "BatchProcessor", "stopped", "Load")
	quiet(lix, "(*BatchProcessor).Shutdown", "BatchProcessor", "stopped", "Swap")
	if fn := c.Fn(mix, "R3", "shutdownProducer.produce"); fn != nil {
		info := mix.Pkg.TypesInfo
		g := mix.FG(fn)
		good, n := true, 0
		for _, x := range g.Nodes {
			if rs, ok := x.N.(*ast.ReturnStmt); ok {
				n++
				if len(rs.Results) != 1 {
					good = false
					continue
				}
				if v, ok := objOf(info, rs.Results[0]).(*types.Var); !ok || v.Name() != "ErrReaderShutdown" {
					good = false
				}
			}
		}
		c.Check(good && n > 0, "R3", "sdk/metric|shutdownProducer.produce|returns ErrReaderShutdown", at(mix.M, fn.Pos()), "documented shutdown error", "collect after shutdown does not return the documented error")
	}

	// R4 locked copy-on-write edits
	c.Rule("R4", "E1 + E3", "Register/Unregister/Shutdown publish the processor list only under p.mu and after re-testing isShutdown inside the lock", 3)
	{
		le := c.Locks(tix)
		fSP := lookupField(tix.Pkg, "TracerProvider", "spanProcessors")
		fIs := lookupField(tix.Pkg, "TracerProvider", "isShutdown")
		for _, s := range tix.FindCalls(func(f *FuncInfo, call *ast.CallExpr) bool {
			sel, ok := unparen(call.Fun).(*ast.SelectorExpr)
			return ok && sel.Sel.Name == "Store" && isField(tinfo, sel.X, fSP)
		}) {
			call := s.N.(*ast.CallExpr)
			sel := unparen(call.Fun).(*ast.SelectorExpr)
			_, base := fieldOf(tinfo, sel.X)
			key := "sdk/trace|" + s.F.Name + "|spanProcessors.Store under p.mu after the shutdown re-test"
			if tix.freshLocal(s.F, base) {
				c.OK("R4", key, tix.at(s), "constructor")
				continue
			}
			okL, why := le.Require(s.F, call, pathKey(tinfo, base)+resolvePath(tix.Pkg, "TracerProvider", ".mu"), true, 0)
			g := tix.FG(s.F)
			x := g.NodeOf(call)
			// dominated by a flag test that is itself made under the lock
			okT, _ := g.DominatedByEdges(x, func(e *GEdge) bool {
				if e.Cond == nil {
					return false
				}
				under := len(le.Held(s.F)[e.From]) > 0
				if !under {
					return false
				}
				return edgeImplies(e, func(cnd ast.Expr, pol int) bool {
					if pol < 0 && fieldMethodCall(tinfo, cnd, fIs, "Load") != nil {
						return true
					}
					return false
				}) || swapWinEdge(s.F)(e)
			})
			c.Check(okL && okT, "R4", key, tix.at(s), "locked edit, flag re-tested inside the critical section",
				"processor list edited outside p.mu or without re-testing isShutdown under the lock (a processor registered during Shutdown is never shut down) "+why)
		}
	}

	// R6 copy-on-write of the published processor list
	c.Rule("R6", "E5 immutability (alias tracking)", "the span-processor list published through the atomic pointer is never written in place: element stores, copy destinations, append first arguments and in-place slices operations are rooted at fresh allocations (readers iterate the list without a lock)", 3)
	rulePublishedListImmutable(c, tix, "R6")

	// R7 shutdown effects are unconditional
	c.Rule("R7", "E3 must-pass (negative form)", "Shutdown of a provider sets its stopped flag on every path that was not already stopped; a held exporter's Shutdown is reached on every path of the component's own first Shutdown (excused only by a nil component or an already-set flag)", 7)
	for _, sp := range []struct {
		ix             *PkgIndex
		fname, typ, fl string
	}{
		{tix, "(*TracerProvider).Shutdown", "TracerProvider", "isShutdown"},
		{mix, "(*MeterProvider).Shutdown", "MeterProvider", "stopped"},
		{lix, "(*LoggerProvider).Shutdown", "LoggerProvider", "stopped"},
	} {
		fn := c.Fn(sp.ix, "R7", sp.fname)
		f := lookupField(sp.ix.Pkg, sp.typ, sp.fl)
		if fn == nil || f == nil {
			continue
		}
		info := sp.ix.Pkg.TypesInfo
		g := sp.ix.FG(fn)
		isSet := func(n ast.Node) bool {
			call, ok := n.(*ast.CallExpr)
			if !ok {
				return false
			}
			for _, m := range []string{"Store", "Swap", "CompareAndSwap"} {
				if fieldMethodCall(info, call, f, m) != nil {
					last := call.Args[len(call.Args)-1]
					if tv := info.Types[last]; tv.Value != nil && tv.Value.Kind() == constant.Bool && constant.BoolVal(tv.Value) {
						return true
					}
				}
			}
			return false
		}
		sets := toSet(g.Match(isSet))
		lost := swapAtom(fn, -1)
		already := func(e *GEdge) bool {
			return g.edgeImpliesDeep(e, func(cnd ast.Expr, pol int) bool {
				return pol > 0 && fieldMethodCall(info, cnd, f, "Load") != nil || lost(cnd, pol)
			})
		}
		seen, _ := g.ReachFromEntry(func(x *GNode) bool { return sets[x] }, already)
		c.Check(len(sets) > 0 && !seen[g.Exit], "R7", shortPkg(sp.ix.Pkg.PkgPath)+"|"+sp.fname+"|stopped flag set on every path to return", at(sp.ix.M, fn.Pos()),
			itoa(len(sets))+" flag-setting site(s) cut every entry→exit path", "Shutdown can return (e.g. with an error) without marking the provider stopped: it keeps handing out live instruments and a later Shutdown is a no-op")
	}
	for _, sp := range []struct {
		ix     *PkgIndex
		fname  string
		ifaces []string
	}{
		{tix, "(*batchSpanProcessor).Shutdown", []string{"SpanExporter"}},
		{tix, "(*simpleSpanProcessor).Shutdown", []string{"SpanExporter"}},
		{lix, "(*BatchProcessor).Shutdown", []string{"Exporter", "bufferExporter"}},
		{mix, "(*PeriodicReader).Shutdown", []string{"Exporter"}},
	} {
		ix := sp.ix
		info := ix.Pkg.TypesInfo
		fn := c.Fn(ix, "R7", sp.fname)
		if fn == nil {
			continue
		}
		// the exporter Shutdown call sites inside this method (at any literal depth)
		type site struct {
			f    *FuncInfo
			call *ast.CallExpr
		}
		var sites []site
		for _, fi := range ix.All {
			if ix.Outer(fi) != fn {
				continue
			}
			inspectNoLit(fi.Body(), func(n ast.Node) bool {
				call, ok := n.(*ast.CallExpr)
				if !ok {
					return true
				}
				cf := callee(info, call)
				if cf == nil || cf.Name() != "Shutdown" {
					return true
				}
				rv := cf.Type().(*types.Signature).Recv()
				for _, in := range sp.ifaces {
					if rv != nil && typeIs(rv.Type(), ix.Pkg.PkgPath, in) {
						sites = append(sites, site{fi, call})
					}
				}
				return true
			})
		}
		key := shortPkg(ix.Pkg.PkgPath) + "|" + sp.fname + "|exporter.Shutdown on every path of the first Shutdown"
		if len(sites) == 0 {
			c.Violation("R7", key, at(ix.M, fn.Pos()), "the held exporter is never shut down by "+sp.fname)
			continue
		}
		// every function level from the sites' own up to the method: each entry→exit path passes a site (or the node carrying
		// the literal that contains one), unless it crosses an excusing edge
		good, why := true, ""
		carriers := map[*FuncInfo][]ast.Node{}
		for _, s := range sites {
			carriers[s.f] = append(carriers[s.f], s.call)
		}
		for level := 0; level < 6 && len(carriers) > 0; level++ {
			next := map[*FuncInfo][]ast.Node{}
			for fi, nodes := range carriers {
				g := ix.FG(fi)
				through := map[*GNode]bool{}
				var recvs []ast.Expr
				for _, n := range nodes {
					if x := g.NodeOf(n); x != nil {
						through[x] = true
					}
					if call, ok := n.(*ast.CallExpr); ok {
						if r, m := methodCall(info, call); m != nil && m.Name() == "Shutdown" {
							recvs = append(recvs, r)
						}
					}
				}
				lost := swapAtom(fi, -1)
				excuse := func(e *GEdge) bool {
					return g.edgeImpliesDeep(e, func(cnd ast.Expr, pol int) bool {
						if lost(cnd, pol) {
							return true
						}
						nn, ok := nilCmp(info, cnd, pol, func(x ast.Expr) bool {
							if fi.Recv() != nil && sameVar(info, x, fi.Recv()) {
								return true
							}
							// a nil member of the receiver: the component was never constructed (zero value), nothing is held
							if _, base := fieldOf(info, x); base != nil && ix.Outer(fi).Recv() != nil && sameVar(info, base, ix.Outer(fi).Recv()) {
								return true
							}
							for _, r := range recvs {
								if exprStr(r) == exprStr(x) {
									return true
								}
							}
							// the component itself is nil — also when the Shutdown call on it sits in a literal further in (a
							// goroutine that performs the call): same variable
							if xo := objOf(info, x); xo != nil {
								for _, s := range sites {
									if r, m := methodCall(info, s.call); m != nil && m.Name() == "Shutdown" && objOf(info, r) == xo {
										return true
									}
								}
							}
							return false
						})
						if ok && !nn {
							return true
						}
						// already stopped: an atomic.Bool field of the receiver read as true
						if call, isCall := cnd.(*ast.CallExpr); isCall && pol > 0 {
							if cf := callee(info, call); cf != nil && cf.FullName() == "(*sync/atomic.Bool).Load" {
								return true
							}
						}
						return false
					})
				}
				seen, parent := g.ReachFromEntry(func(x *GNode) bool { return through[x] }, excuse)
				if seen[g.Exit] {
					good = false
					why = "in " + fi.Name + " a path returns without it: " + g.pathLines(parent, g.Exit)
				}
				if fi.Lit != nil {
					if par := ix.Parent[fi.Lit]; par != nil {
						next[par] = append(next[par], fi.Lit)
					}
				}
			}
			carriers = next
		}
		c.Check(good, "R7", key, at(ix.M, fn.Pos()), itoa(len(sites))+" call site(s); every path of the first Shutdown passes one", "the exporter is not shut down on some path of the component's only effective Shutdown (later calls are no-ops): "+why)
	}

	// R8 the provider's one effective Shutdown reaches every member: the loops are total
	c.Rule("R8", "E3 total fan-out", "the provider's only effective Shutdown (later calls are no-ops) shuts down every processor / reader: no iteration of the loop over the members is skipped or cut short — in particular not by a context that is already done (each member honours the context itself)", 4)
	{
		type fan struct {
			ix    *PkgIndex
			fname string
			what  string
			// isCall: the vertex that shuts the member down (may sit in a literal handed to sync.Once.Do)
			isCall func(info *types.Info, fn *FuncInfo, n ast.Node) bool
		}
		containsCallTo := func(info *types.Info, n ast.Node, full string) bool {
			hit := false
			ast.Inspect(n, func(m ast.Node) bool {
				if call, ok := m.(*ast.CallExpr); ok && isCallTo(info, call, full) {
					hit = true
				}
				return true
			})
			return hit
		}
		rangeValCall := func(info *types.Info, fn *FuncInfo, n ast.Node) bool {
			// a call of the loop's own range value: for _, f := range funcs { f(ctx) }
			hit := false
			inspectNoLit(n, func(m ast.Node) bool {
				call, ok := m.(*ast.CallExpr)
				if !ok {
					return true
				}
				if v, isV := objOf(info, call.Fun).(*types.Var); isV {
					inspectNoLit(fn.Body(), func(r ast.Node) bool {
						if rs, isR := r.(*ast.RangeStmt); isR && rs.Value != nil && objOf(info, rs.Value) == types.Object(v) {
							hit = true
						}
						return true
					})
				}
				return true
			})
			return hit
		}
		var fans []fan
		fans = append(fans,
			fan{tix, "(*TracerProvider).Shutdown", "every registered span processor", func(info *types.Info, fn *FuncInfo, n ast.Node) bool {
				return containsCallTo(info, n, "("+sdkTrace+".SpanProcessor).Shutdown")
			}},
			fan{lix, "(*LoggerProvider).Shutdown", "every log processor", func(info *types.Info, fn *FuncInfo, n ast.Node) bool {
				return containsCallTo(info, n, "("+sdkLog+".Processor).Shutdown")
			}},
		)
		for _, fa := range fans {
			fn := c.Fn(fa.ix, "R8", fa.fname)
			if fn == nil {
				continue
			}
			info := fa.ix.Pkg.TypesInfo
			g := fa.ix.FG(fn)
			var sites []*GNode
			for _, x := range g.Nodes {
				if x.N != nil && inLoop(fn, x.N) && fa.isCall(info, fn, x.N) {
					sites = append(sites, x)
				}
			}
			key := shortPkg(fa.ix.Pkg.PkgPath) + "|" + fa.fname + "|the loop shuts down " + fa.what
			if len(sites) == 0 {
				c.Violation("R8", key, at(fa.ix.M, fn.Pos()), "no Shutdown call on the members inside a loop: the members are not shut down by the provider's Shutdown")
				continue
			}
			good, why := true, ""
			for _, x := range sites {
				if ok, w := totalFanout(g, x); !ok {
					good, why = false, w
				}
			}
			c.Check(good, "R8", key, at(fa.ix.M, sites[0].N.Pos()), "every iteration reaches the member's Shutdown and goes on to the next member",
				"a member is never shut down (the provider's flag is already set, so no later Shutdown gets to it) and keeps exporting: "+why)
		}
		// sdk/metric: Shutdown of the provider is unifyShutdown(unify(funcs)) over r.Shutdown of every reader
		if fn := c.Fn(mix, "R8", "unify"); fn != nil {
			info := mix.Pkg.TypesInfo
			var lits []*FuncInfo
			for _, f := range mix.All {
				if f.Lit != nil && mix.Outer(f) == fn {
					lits = append(lits, f)
				}
			}
			cands := append([]*FuncInfo{fn}, lits...)
			found := false
			for _, f := range cands {
				g := mix.FG(f)
				for _, x := range g.Nodes {
					if x.N == nil || !inLoop(f, x.N) || !rangeValCall(info, f, x.N) {
						continue
					}
					found = true
					ok, w := totalFanout(g, x)
					c.Check(ok, "R8", "sdk/metric|unify|every function of the list is called", at(mix.M, x.N.Pos()), "every reader's ForceFlush / Shutdown runs",
						"a reader is never shut down (unifyShutdown runs this once) and keeps collecting and exporting: "+w)
				}
			}
			if !found {
				c.Violation("R8", "sdk/metric|unify|every function of the list is called", at(mix.M, fn.Pos()), "no call of the ranged-over function inside a loop")
			}
		}
		if fn := c.Fn(mix, "R8", "config.readerSignals"); fn != nil {
			info := mix.Pkg.TypesInfo
			g := mix.FG(fn)
			found := false
			for _, x := range g.Nodes {
				if x.N == nil || !inLoop(fn, x.N) {
					continue
				}
				isApp := false
				inspectNoLit(x.N, func(m ast.Node) bool {
					if call, ok := m.(*ast.CallExpr); ok && builtinName(info, call) == "append" && len(call.Args) == 2 {
						if sel, ok := unparen(call.Args[1]).(*ast.SelectorExpr); ok && sel.Sel.Name == "Shutdown" {
							if s := info.Selections[sel]; s != nil && s.Kind() == types.MethodVal {
								isApp = true
							}
						}
					}
					return true
				})
				if !isApp {
					continue
				}
				found = true
				ok, w := totalFanout(g, x)
				c.Check(ok, "R8", "sdk/metric|config.readerSignals|every reader's Shutdown is collected", at(mix.M, x.N.Pos()), "one entry per configured reader", "a configured reader is left out of the provider's Shutdown: "+w)
			}
			if !found {
				c.Violation("R8", "sdk/metric|config.readerSignals|every reader's Shutdown is collected", at(mix.M, fn.Pos()), "the readers' Shutdown methods are not collected in a loop over the configured readers")
			}
		}
	}

	// R9 a flush that overlaps a completed Shutdown returns
	c.Rule("R9", "E3 select arms (shared with C01.R9)", "batchSpanProcessor.ForceFlush: every wait for the flush marker's acknowledgement also has an arm on the processor's stop channel, so a flush issued around a Shutdown returns instead of blocking forever", 1)
	ruleFlushWaitStops(c, tix, "R9")
	ruleBspStoppedSync(c, tix, "R9")

	// R5 nil-exporter guards
	c.Rule("R5", "E3 nil-guard + E4 one-level value flow", "every call through an exporter field that the constructor accepts as nil is dominated by a non-nil test of that value", 8)
	type nilSpec struct {
		ix         *PkgIndex
		typ, field string
		chain      string // method whose call is discharged by the queue/batch chain instead of a local test
	}
	for _, sp := range []nilSpec{
		{tix, "batchSpanProcessor", "e", "(*batchSpanProcessor).exportSpans"},
		{tix, "simpleSpanProcessor", "exporter", ""},
		{lix, "SimpleProcessor", "exporter", ""},
	} {
		ix := sp.ix
		info := ix.Pkg.TypesInfo
		fld := lookupField(ix.Pkg, sp.typ, sp.field)
		if fld == nil {
			c.Missing("R5", shortPkg(ix.Pkg.PkgPath)+"."+sp.typ+"."+sp.field)
			continue
		}
		nonNilField := func(fi *FuncInfo) func(*GEdge) bool {
			return func(e *GEdge) bool {
				return edgeImplies(e, func(cnd ast.Expr, pol int) bool {
					nn, ok := nilCmp(info, cnd, pol, func(x ast.Expr) bool { return isField(info, x, fld) })
					return ok && nn
				})
			}
		}
		cnt := map[string]int{}
		for _, a := range ix.fieldAccesses(map[*types.Var]bool{fld.Origin(): true}) {
			if a.Write {
				continue
			}
			outer := ix.Outer(a.F)
			// how is the loaded value used?
			use, ctx := classifyUse(a.F, a.Sel)
			cnt[a.F.Name]++
			key := shortPkg(ix.Pkg.PkgPath) + "|" + a.F.Name + "|" + sp.typ + "." + sp.field + " use #" + itoa(cnt[a.F.Name]) + " (" + use + ") nil-safe"
			site := at(ix.M, a.Sel.Pos())
			c.Analysed(outer)
			switch use {
			case "compare", "store":
				c.OK("R5", key, site, "not dereferenced here")
			case "call":
				if sp.chain != "" && outer.Name == sp.chain {
					okc, why := exportChain(c, ix, a.F, ctx.(*ast.CallExpr), nonNilField)
					c.Check(okc, "R5", key, site, "discharged by the chain: call dominated by len(batch) > 0; batch grows only from queue; every send on queue is dominated by e != nil",
						"exporter may be nil here: "+why)
					continue
				}
				ok, why := ix.DominatedUp(a.F, a.Sel, nonNilField, 0)
				c.Check(ok, "R5", key, site, "dominated by "+sp.field+" != nil", "method called on an exporter field that may be nil (NewXxxProcessor(nil) is accepted): "+why)
			case "arg":
				// one-level flow: the parameter of a local closure / same-package function
				ok, why := argNilSafe(ix, a.F, ctx.(*ast.CallExpr), a.Sel, nonNilField)
				c.Check(ok, "R5", key, site, "the receiving parameter is tested before use", "a possibly-nil exporter is passed on and dereferenced without a nil test: "+why)
			case "local":
				v := objOf(info, ctx.(*ast.AssignStmt).Lhs[0])
				ok, why := localNilSafe(ix, a.F, v)
				c.Check(ok, "R5", key, site, "copied to "+v.Name()+", which is tested before every use", "a possibly-nil exporter is copied to a local and dereferenced without a nil test: "+why)
			default:
				ok, why := ix.DominatedUp(a.F, a.Sel, nonNilField, 0)
				if ok {
					c.OK("R5", key, site, "dominated by a non-nil test")
				} else {
					c.Undecided("R5", key, site, "possibly-nil exporter escapes in a way the checker does not follow: "+why)
				}
			}
		}
	}
	// NewBatchProcessor (sdk/log) replaces nil by the no-op exporter
	if fn := c.Fn(lix, "R5", "NewBatchProcessor"); fn != nil {
		info := lix.Pkg.TypesInfo
		g := lix.FG(fn)
		param := fn.Obj.Type().(*types.Signature).Params().At(0)
		good := false
		for _, x := range g.Nodes {
			for _, e := range x.Succs {
				if edgeImplies(e, func(cnd ast.Expr, pol int) bool {
					nn, ok := nilCmp(info, cnd, pol, func(x ast.Expr) bool { return sameVar(info, x, param) })
					return ok && !nn
				}) {
					seen, _ := g.ReachFromEdge(e, nil)
					for y := range seen {
						if r := assignRHS(y.N, func(e ast.Expr) bool { return sameVar(info, e, param) }); r != nil {
							if v, ok := objOf(info, r).(*types.Var); ok && v.Name() == "defaultNoopExporter" {
								good = true
							}
						}
					}
				}
			}
		}
		c.Check(good, "R5", "sdk/log|NewBatchProcessor|nil exporter replaced by the no-op exporter", at(lix.M, fn.Pos()), "exporter == nil ⇒ exporter = defaultNoopExporter",
			"a nil exporter is wrapped and later dereferenced by the export goroutine")
	}
}

// closeInCtorGoroutine: f is a literal (possibly a deferred literal) running inside the one goroutine a constructor starts for a fresh object `base`.
func closeInCtorGoroutine(ix *PkgIndex, f *FuncInfo, base ast.Expr) bool {
	var goLit *FuncInfo
	for g := f; g != nil && g.Lit != nil; g = ix.Parent[g.Lit] {
		if ix.Use[g.Lit] == LitGo {
			goLit = g
			break
		}
		if ix.Use[g.Lit] != LitDefer && ix.Use[g.Lit] != LitCalled {
			return false
		}
	}
	if goLit == nil {
		return false
	}
	ctor := ix.Parent[goLit.Lit]
	if ctor == nil || ctor.Lit != nil {
		return false
	}
	if inLoop(ctor, goLit.Lit) {
		return false
	}
	return ix.freshLocal(f, base)
}

// tokenFromChannel: base's root is a local defined (directly or via a type assertion) from a value received from a channel.
func tokenFromChannel(ix *PkgIndex, f *FuncInfo, base ast.Expr) bool {
	info := f.Info()
	root := objOf(info, base)
	if root == nil {
		return false
	}
	fromRecv := map[types.Object]bool{}
	changed := true
	for changed {
		changed = false
		inspectNoLit(f.Body(), func(n ast.Node) bool {
			as, ok := n.(*ast.AssignStmt)
			if !ok || len(as.Rhs) != 1 || len(as.Lhs) == 0 {
				return true
			}
			o := objOf(info, as.Lhs[0])
			if o == nil || fromRecv[o] {
				return true
			}
			rhs := unparen(as.Rhs[0])
			if u, ok := rhs.(*ast.UnaryExpr); ok && u.Op == token.ARROW {
				fromRecv[o] = true
				changed = true
			}
			if ta, ok := rhs.(*ast.TypeAssertExpr); ok {
				if src := objOf(info, ta.X); src != nil && fromRecv[src] {
					fromRecv[o] = true
					changed = true
				}
			}
			return true
		})
	}
	return fromRecv[root]
}

// classifyUse: how is the value of selector sel used in f: "call" (receiver of a method call; ctx = the call),
// "compare" (operand of ==/!= nil), "store" (value in a composite literal / assigned to a field, not dereferenced),
// "arg" (argument of a call; ctx = the call), "other".
func classifyUse(f *FuncInfo, sel *ast.SelectorExpr) (string, ast.Node) {
	var use string
	var ctx ast.Node
	var stack []ast.Node
	ast.Inspect(f.Body(), func(n ast.Node) bool {
		if n == nil {
			stack = stack[:len(stack)-1]
			return false
		}
		if n == ast.Node(sel) {
			// parent
			for i := len(stack) - 1; i >= 0; i-- {
				p := stack[i]
				if _, ok := p.(*ast.ParenExpr); ok {
					continue
				}
				switch x := p.(type) {
				case *ast.SelectorExpr:
					// sel.M — method value or call
					if i > 0 {
						if call, ok := stack[i-1].(*ast.CallExpr); ok && unparen(call.Fun) == ast.Expr(x) {
							use, ctx = "call", call
							return false
						}
					}
					use = "other"
				case *ast.BinaryExpr:
					if x.Op == token.EQL || x.Op == token.NEQ {
						use = "compare"
					} else {
						use = "other"
					}
				case *ast.KeyValueExpr, *ast.CompositeLit:
					use = "store"
				case *ast.CallExpr:
					use, ctx = "arg", x
				case *ast.AssignStmt:
					use = "other"
					if len(x.Lhs) == 1 && len(x.Rhs) == 1 && unparen(x.Rhs[0]) == ast.Expr(sel) {
						if _, ok := x.Lhs[0].(*ast.Ident); ok {
							use, ctx = "local", x
						}
					}
				default:
					use = "other"
				}
				return false
			}
			use = "other"
			return false
		}
		stack = append(stack, n)
		return true
	})
	if use == "" {
		use = "other"
	}
	return use, ctx
}

// argNilSafe: the field value is passed as an argument of call; resolve the callee (local closure variable or package function)
// and require that every method call on the receiving parameter is dominated by param != nil (in the callee or its nested literals).
func argNilSafe(ix *PkgIndex, f *FuncInfo, call *ast.CallExpr, arg ast.Expr, nonNilField func(*FuncInfo) func(*GEdge) bool) (bool, string) {
	info := f.Info()
	// if the call itself is dominated by field != nil, fine
	if ok, _ := ix.DominatedUp(f, call, nonNilField, 0); ok {
		return true, ""
	}
	idx := -1
	for i, a := range call.Args {
		if unparen(a) == unparen(arg) {
			idx = i
		}
	}
	if idx < 0 {
		return false, "argument position not found"
	}
	var target *FuncInfo
	if cf := callee(info, call); cf != nil {
		target = ix.ByObj(cf)
	} else if id, ok := unparen(call.Fun).(*ast.Ident); ok {
		// local closure variable: find its defining literal
		v := objOf(info, id)
		outer := ix.Outer(f)
		ast.Inspect(outer.Body(), func(n ast.Node) bool {
			if as, ok := n.(*ast.AssignStmt); ok && len(as.Lhs) == 1 && len(as.Rhs) == 1 && objOf(info, as.Lhs[0]) == v {
				if l, ok := unparen(as.Rhs[0]).(*ast.FuncLit); ok {
					target = ix.OfLit[l]
				}
			}
			return true
		})
	}
	if target == nil {
		return false, "callee of " + exprStr(call.Fun) + " not resolved"
	}
	var params *ast.FieldList
	if target.Decl != nil {
		params = target.Decl.Type.Params
	} else {
		params = target.Lit.Type.Params
	}
	var pv types.Object
	i := 0
	for _, fl := range params.List {
		for _, nm := range fl.Names {
			if i == idx {
				pv = info.Defs[nm]
			}
			i++
		}
	}
	if pv == nil {
		return false, "parameter not found"
	}
	nonNilParam := func(fi *FuncInfo) func(*GEdge) bool {
		return func(e *GEdge) bool {
			return edgeImplies(e, func(cnd ast.Expr, pol int) bool {
				nn, ok := nilCmp(info, cnd, pol, func(x ast.Expr) bool { return sameVar(info, x, pv) })
				return ok && nn
			})
		}
	}
	// every method call on pv inside target (all nested literals)
	ok := true
	why := ""
	for _, fi := range ix.All {
		in := false
		for g := fi; g != nil; {
			if g == target {
				in = true
				break
			}
			if g.Lit == nil {
				break
			}
			g = ix.Parent[g.Lit]
		}
		if !in {
			continue
		}
		for _, n := range nodesIn(fi, func(n ast.Node) bool {
			c, isCall := n.(*ast.CallExpr)
			if !isCall {
				return false
			}
			recv, m := methodCall(info, c)
			return m != nil && sameVar(info, recv, pv)
		}) {
			if d, w := dominatedUpWithin(ix, fi, n, nonNilParam, target); !d {
				ok = false
				why = "parameter " + pv.Name() + " is dereferenced at " + ix.M.posStr(n.Pos()) + " without a nil test (" + w + ")"
			}
		}
	}
	return ok, why
}

// dominatedUpWithin is DominatedUp restricted to the literal chain up to `top` (does not continue to top's callers).
func dominatedUpWithin(ix *PkgIndex, f *FuncInfo, n ast.Node, gen func(*FuncInfo) func(*GEdge) bool, top *FuncInfo) (bool, string) {
	for {
		g := ix.FG(f)
		x := g.NodeOf(n)
		if x == nil {
			return false, "site not in flow graph"
		}
		if ok, _ := g.DominatedByEdges(x, gen(f)); ok {
			return true, ""
		}
		if f == top || f.Lit == nil {
			return false, "no dominating test in " + top.Name
		}
		n = f.Lit
		f = ix.Parent[f.Lit]
	}
}

// exportChain discharges the exporter call in exportSpans: (1) dominated by len(batch) > 0, (2) every send on queue dominated (up the call chain) by e != nil.
func exportChain(c *Ctx, ix *PkgIndex, f *FuncInfo, call *ast.CallExpr, nonNilField func(*FuncInfo) func(*GEdge) bool) (bool, string) {
	info := f.Info()
	fBatch := lookupField(ix.Pkg, "batchSpanProcessor", "batch")
	fQueue := lookupField(ix.Pkg, "batchSpanProcessor", "queue")
	if fBatch == nil || fQueue == nil {
		return false, "anchors missing"
	}
	if ok, _ := ix.DominatedUp(f, call, nonNilField, 0); ok {
		return true, ""
	}
	isBatch := func(e ast.Expr) bool { return isField(info, e, fBatch) }
	lenVars := map[types.Object]bool{}
	inspectNoLit(f.Body(), func(n ast.Node) bool {
		if as, ok := n.(*ast.AssignStmt); ok && len(as.Lhs) == 1 && len(as.Rhs) == 1 && isLenOf(info, as.Rhs[0], isBatch) {
			if o := objOf(info, as.Lhs[0]); o != nil {
				lenVars[o] = true
			}
		}
		return true
	})
	g := ix.FG(f)
	x := g.NodeOf(call)
	ok1, why := g.DominatedByEdges(x, func(e *GEdge) bool {
		return edgeImplies(e, func(cnd ast.Expr, pol int) bool {
			l, op, r, ok := cmpNorm(cnd, pol)
			if !ok {
				return false
			}
			isLen := func(e ast.Expr) bool {
				if isLenOf(info, e, isBatch) {
					return true
				}
				o := objOf(info, e)
				return o != nil && lenVars[o]
			}
			if v, isC := constInt(info, r); isC && isLen(l) && ((op == token.GTR && v == 0) || (op == token.NEQ && v == 0) || (op == token.GEQ && v == 1)) {
				return true
			}
			return false
		})
	})
	if !ok1 {
		return false, "export call not dominated by len(batch) > 0: " + why
	}
	for _, s := range ix.FindNodes(func(fi *FuncInfo, n ast.Node) bool {
		st, ok := n.(*ast.SendStmt)
		return ok && isField(info, st.Chan, fQueue)
	}) {
		if ok, why := ix.DominatedUp(s.F, s.N, nonNilField, 0); !ok {
			return false, "a send on queue is possible with a nil exporter: " + why
		}
	}
	return true, ""
}

// localNilSafe: every dereference of local v (method call, or passing it to a closure/function that dereferences its parameter)
// inside f's declaration is dominated by v != nil.
func localNilSafe(ix *PkgIndex, f *FuncInfo, v types.Object) (bool, string) {
	info := f.Info()
	if v == nil {
		return false, "local not resolved"
	}
	nonNil := func(fi *FuncInfo) func(*GEdge) bool {
		return func(e *GEdge) bool {
			return edgeImplies(e, func(cnd ast.Expr, pol int) bool {
				nn, ok := nilCmp(info, cnd, pol, func(x ast.Expr) bool { return sameVar(info, x, v) })
				return ok && nn
			})
		}
	}
	outer := ix.Outer(f)
	for _, fi := range ix.All {
		if ix.Outer(fi) != outer {
			continue
		}
		for _, n := range nodesIn(fi, func(n ast.Node) bool {
			c, ok := n.(*ast.CallExpr)
			if !ok {
				return false
			}
			if recv, m := methodCall(info, c); m != nil && sameVar(info, recv, v) {
				return true
			}
			for _, a := range c.Args {
				if sameVar(info, a, v) {
					return true
				}
			}
			return false
		}) {
			call := n.(*ast.CallExpr)
			if recv, m := methodCall(info, call); m != nil && sameVar(info, recv, v) {
				if ok, w := dominatedUpWithin(ix, fi, call, nonNil, outer); !ok {
					return false, v.Name() + " dereferenced at " + ix.M.posStr(call.Pos()) + ": " + w
				}
				continue
			}
			for _, a := range call.Args {
				if sameVar(info, a, v) {
					if ok, _ := dominatedUpWithin(ix, fi, call, nonNil, outer); ok {
						continue
					}
					if ok, w := argNilSafe(ix, fi, call, a, nonNil); !ok {
						return false, w
					}
				}
			}
		}
	}
	return true, ""
}

// rulePublishedListImmutable: the span-processor list published through the atomic pointer is never written in place (readers —
// span End/Start, ForceFlush — iterate it without a lock). Shared by C15.R6 (exact membership), C10.R4's companion and C01.R10
// (a span is handed to each processor, hence to the batch processor, exactly once).
func rulePublishedListImmutable(c *Ctx, tix *PkgIndex, rule string) {
	tinfo := tix.Pkg.TypesInfo

	fSP := lookupField(tix.Pkg, "TracerProvider", "spanProcessors")
	getter := tix.Func("(*TracerProvider).getSpanProcessors")
	n := 0
	for _, fn := range sortedFuncs(tix.Funcs) {
		isRoot := func(e ast.Expr) bool {
			e = unparen(e)
			if st, ok := e.(*ast.StarExpr); ok {
				e = unparen(st.X)
			}
			call, ok := e.(*ast.CallExpr)
			if !ok {
				return false
			}
			if getter != nil && callToDecl(tinfo, getter)(call) {
				return true
			}
			return fSP != nil && fieldMethodCall(tinfo, call, fSP, "Load") != nil
		}
		uses := false
		for _, fi := range tix.All {
			if tix.Outer(fi) != fn {
				continue
			}
			inspectNoLit(fi.Body(), func(nd ast.Node) bool {
				if e, ok := nd.(ast.Expr); ok && isRoot(e) {
					uses = true
				}
				return true
			})
		}
		if !uses || fn == getter {
			continue
		}
		n++
		c.Analysed(fn)
		bad := sharedSliceWrites(tix, fn, isRoot)
		c.Check(len(bad) == 0, rule, "sdk/trace|"+fn.Name+"|no write through the published processor list", at(tix.M, fn.Pos()), "edits go to a fresh copy that is then published",
			"the processor list other goroutines are iterating (span End/Start, ForceFlush) is modified in place — a concurrent End skips one processor and delivers twice to another: "+joinStr(bad))
	}
	if n == 0 {
		c.Missing(rule, "users of TracerProvider.getSpanProcessors")
	}
}
