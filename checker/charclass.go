package main

import (
	"go/ast"
	"go/constant"
	"go/token"
	"go/types"
	"sort"
)

// E6 — charclass: exact evaluation of per-character predicates over a finite set of
// representative points of the character domain (every constant mentioned in the
// predicate, its neighbours, and — for rune-typed subjects — their images under
// +256·k and +65536, which expose lossy narrowing such as byte(r)).

type predEval struct {
	ix    *PkgIndex
	depth int
	extra func(ast.Expr) (constant.Value, bool) // consulted first (expression-shaped subjects such as key[0])
	funcs map[types.Object]*FuncInfo            // function-typed parameters bound to the declared function passed at the call judged
}

// bindEnv builds an Env from variable bindings, with conversions, nested predicate calls and array-literal lookups.
func (pe *predEval) bindEnv(bind map[types.Object]constant.Value) Env {
	info := pe.ix.Pkg.TypesInfo
	var env Env
	env = func(e ast.Expr) (constant.Value, bool) {
		if pe.extra != nil {
			if v, ok := pe.extra(e); ok {
				return v, true
			}
		}
		switch x := e.(type) {
		case *ast.Ident:
			if o := objOf(info, x); o != nil {
				if v, ok := bind[o]; ok {
					return v, true
				}
			}
		case *ast.CallExpr:
			// conversion
			if tv, ok := info.Types[x.Fun]; ok && tv.IsType() && len(x.Args) == 1 {
				v, ok := evalConst(info, x.Args[0], env)
				if !ok {
					return nil, false
				}
				if b, isB := tv.Type.Underlying().(*types.Basic); isB && v.Kind() == constant.Int {
					iv, exact := constant.Int64Val(v)
					if !exact {
						return nil, false
					}
					switch b.Kind() {
					case types.Uint8:
						return constant.MakeInt64(int64(uint8(iv))), true
					case types.Int8:
						return constant.MakeInt64(int64(int8(iv))), true
					case types.Uint16:
						return constant.MakeInt64(int64(uint16(iv))), true
					case types.Int16:
						return constant.MakeInt64(int64(int16(iv))), true
					case types.Uint32:
						return constant.MakeInt64(int64(uint32(iv))), true
					case types.Int32:
						return constant.MakeInt64(int64(int32(iv))), true
					case types.Int, types.Int64, types.Uint, types.Uint64, types.Uintptr:
						return v, true
					}
				}
				return nil, false
			}
			// a predicate received as a parameter, bound to the declared function the judged call passes
			if id, isID := unparen(x.Fun).(*ast.Ident); isID && pe.funcs != nil && pe.depth < 6 {
				if fn := pe.funcs[objOf(info, id)]; fn != nil {
					var args []constant.Value
					for _, a := range x.Args {
						v, ok := evalConst(info, a, env)
						if !ok {
							return nil, false
						}
						args = append(args, v)
					}
					sub := &predEval{ix: pe.ix, depth: pe.depth + 1}
					return sub.call(fn, args)
				}
			}
			// nested predicate in the same package
			if cf := callee(info, x); cf != nil && pe.depth < 6 {
				if fn := pe.ix.ByObj(cf); fn != nil {
					var args []constant.Value
					for _, a := range x.Args {
						v, ok := evalConst(info, a, env)
						if !ok {
							return nil, false
						}
						args = append(args, v)
					}
					sub := &predEval{ix: pe.ix, depth: pe.depth + 1}
					return sub.call(fn, args)
				}
			}
		case *ast.IndexExpr:
			// table[c] with a package-level array/slice/string literal or constant string
			iv, ok := evalConst(info, x.Index, env)
			if !ok || iv.Kind() != constant.Int {
				return nil, false
			}
			idx, _ := constant.Int64Val(iv)
			if s, ok := constString(info, x.X); ok {
				if idx < 0 || idx >= int64(len(s)) {
					return nil, false
				}
				return constant.MakeInt64(int64(s[idx])), true
			}
			if v, ok := objOf(info, x.X).(*types.Var); ok && v.Parent() == pe.ix.Pkg.Types.Scope() {
				if tbl, n := pe.ix.arrayLiteral(v); tbl != nil {
					if idx < 0 || (n >= 0 && idx >= n) {
						return nil, false // out of range: no value (the caller treats 'unknown' as a failure)
					}
					if val, ok := tbl[idx]; ok {
						return val, true
					}
					// zero value of the element type
					if a, ok := v.Type().Underlying().(*types.Array); ok {
						if b, ok := a.Elem().Underlying().(*types.Basic); ok {
							if b.Info()&types.IsBoolean != 0 {
								return constant.MakeBool(false), true
							}
							if b.Info()&types.IsInteger != 0 {
								return constant.MakeInt64(0), true
							}
						}
					}
				}
			}
		}
		return nil, false
	}
	return env
}

// call evaluates a function with constant arguments: its single reachable return value.
func (pe *predEval) call(fn *FuncInfo, args []constant.Value) (constant.Value, bool) {
	if fn.Obj == nil {
		return nil, false
	}
	sig := fn.Obj.Type().(*types.Signature)
	if sig.Params().Len() != len(args) || sig.Results().Len() != 1 {
		return nil, false
	}
	bind := map[types.Object]constant.Value{}
	for i := range args {
		bind[sig.Params().At(i)] = args[i]
	}
	g := pe.ix.FG(fn)
	vals, known := g.ReturnsUnder(pe.bindEnv(bind))
	if !known || len(vals) != 1 {
		return nil, false
	}
	return vals[0], true
}

// arrayLiteral returns the keyed elements of the composite literal initialising package variable v, and the array length (-1 for slices).
func (ix *PkgIndex) arrayLiteral(v *types.Var) (map[int64]constant.Value, int64) {
	info := ix.Pkg.TypesInfo
	for _, f := range ix.Pkg.Syntax {
		for _, d := range f.Decls {
			gd, ok := d.(*ast.GenDecl)
			if !ok || gd.Tok != token.VAR {
				continue
			}
			for _, s := range gd.Specs {
				vs := s.(*ast.ValueSpec)
				for i, nm := range vs.Names {
					if info.Defs[nm] != v || i >= len(vs.Values) {
						continue
					}
					if ix.writtenOutsideInit(v, vs) {
						return nil, 0
					}
					cl, ok := unparen(vs.Values[i]).(*ast.CompositeLit)
					if !ok {
						return ix.membershipTable(v, vs.Values[i])
					}
					out := map[int64]constant.Value{}
					next := int64(0)
					for _, el := range cl.Elts {
						val := el
						if kv, ok := el.(*ast.KeyValueExpr); ok {
							k, ok := constInt(info, kv.Key)
							if !ok {
								return nil, 0
							}
							next = k
							val = kv.Value
						}
						tv := info.Types[val]
						if tv.Value == nil {
							return nil, 0
						}
						out[next] = tv.Value
						next++
					}
					n := int64(-1)
					if a, ok := v.Type().Underlying().(*types.Array); ok {
						n = a.Len()
					}
					return out, n
				}
			}
		}
	}
	return nil, 0
}

// intConstsIn collects integer/char constants appearing in fn and (transitively) in same-package callees and referenced tables.
func (ix *PkgIndex) intConstsIn(fn *FuncInfo, seen map[*FuncInfo]bool, out map[int64]bool) {
	if fn == nil || seen[fn] {
		return
	}
	seen[fn] = true
	info := ix.Pkg.TypesInfo
	ast.Inspect(fn.Body(), func(n ast.Node) bool {
		switch x := n.(type) {
		case ast.Expr:
			if tv, ok := info.Types[x]; ok && tv.Value != nil && tv.Value.Kind() == constant.Int {
				if v, exact := constant.Int64Val(tv.Value); exact {
					out[v] = true
				}
			}
			if call, ok := x.(*ast.CallExpr); ok {
				if cf := callee(info, call); cf != nil {
					ix.intConstsIn(ix.ByObj(cf), seen, out)
				}
			}
			if id, ok := x.(*ast.Ident); ok {
				if v, ok := info.Uses[id].(*types.Var); ok && v.Parent() == ix.Pkg.Types.Scope() {
					if tbl, n := ix.arrayLiteral(v); tbl != nil {
						for k := range tbl {
							out[k] = true
						}
						if n > 0 {
							out[n] = true
						}
					}
				}
			}
		}
		return true
	})
}

// charPoints builds the representative points for a subject of the given type (byte: 0..255; rune: see above).
func charPoints(consts map[int64]bool, t types.Type) []int64 {
	pts := map[int64]bool{}
	isByte := false
	if b, ok := t.Underlying().(*types.Basic); ok && (b.Kind() == types.Uint8) {
		isByte = true
	}
	if isByte {
		for i := int64(0); i < 256; i++ {
			pts[i] = true
		}
	} else {
		for i := int64(0); i < 384; i++ {
			pts[i] = true
		}
		for k := range consts {
			for _, d := range []int64{-1, 0, 1} {
				p := k + d
				if p < 0 || p > 0x10FFFF {
					continue
				}
				pts[p] = true
				if p < 256 {
					for _, off := range []int64{256, 512, 0x100 * 0x10, 0x10000, 0x100000} {
						if p+off <= 0x10FFFF {
							pts[p+off] = true
						}
					}
				}
			}
		}
		pts[0x10FFFF] = true
		pts[0xFFFD] = true
		pts[0x7FF] = true
		pts[0x800] = true
	}
	var out []int64
	for p := range pts {
		out = append(out, p)
	}
	sort.Slice(out, func(i, j int) bool { return out[i] < out[j] })
	return out
}

// loopSubject finds the per-character variable of fn: the value variable of a range over the string parameter `over`,
// or a variable defined from over[i]. Returns nil when not found.
func loopSubject(fn *FuncInfo, over types.Object) *types.Var {
	info := fn.Info()
	var subj *types.Var
	inspectNoLit(fn.Body(), func(n ast.Node) bool {
		switch s := n.(type) {
		case *ast.RangeStmt:
			if sameVar(info, s.X, over) && s.Value != nil {
				if v, ok := objOf(info, s.Value).(*types.Var); ok {
					subj = v
				}
			}
			if se, ok := unparen(s.X).(*ast.SliceExpr); ok && sameVar(info, se.X, over) && s.Value != nil {
				if v, ok := objOf(info, s.Value).(*types.Var); ok {
					subj = v
				}
			}
		case *ast.AssignStmt:
			if len(s.Lhs) == 1 && len(s.Rhs) == 1 {
				if ie, ok := unparen(s.Rhs[0]).(*ast.IndexExpr); ok && sameVar(info, ie.X, over) {
					if v, ok := objOf(info, s.Lhs[0]).(*types.Var); ok {
						subj = v
					}
				}
			}
		}
		return true
	})
	return subj
}

// loopAccepts: with subject bound to r, is a rejecting return (constant false / non-nil error value) reachable? accepted = not reachable.
// ok=false when a reachable condition mentioning the subject could not be folded.
func (pe *predEval) loopAccepts(fn *FuncInfo, subj *types.Var, r int64) (accepted, ok bool) {
	info := fn.Info()
	g := pe.ix.FG(fn)
	bind := map[types.Object]constant.Value{}
	if subj != nil {
		bind[subj] = constant.MakeInt64(r)
	}
	env := pe.bindEnv(bind)
	seen := g.ReachUnder(env)
	accepted, ok = true, true
	for x := range seen {
		// unfoldable conditions that mention the subject make the verdict unknown
		for _, e := range x.Succs {
			if e.Cond != nil && e.Pol > 0 {
				mentions := false
				ast.Inspect(e.Cond, func(n ast.Node) bool {
					if id, isId := n.(*ast.Ident); isId && subj != nil && info.Uses[id] == types.Object(subj) {
						mentions = true
					}
					// an expression-shaped subject (key[i]) supplied through extra
					if ex, isEx := n.(ast.Expr); isEx && subj == nil && pe.extra != nil {
						if _, is := pe.extra(ex); is {
							mentions = true
						}
					}
					return true
				})
				if mentions {
					if e.Tag != nil {
						_, k1 := evalConst(info, e.Tag, env)
						_, k2 := evalConst(info, e.Cond, env)
						if !k1 || !k2 {
							ok = false
						}
					} else if _, known := evalConst(info, e.Cond, env); !known {
						ok = false
					}
				}
			}
		}
		rs, isRet := x.N.(*ast.ReturnStmt)
		if !isRet || len(rs.Results) == 0 {
			continue
		}
		// inside a loop? (a return positioned within a for/range statement)
		if !inLoop(fn, rs) {
			continue
		}
		last := rs.Results[len(rs.Results)-1]
		tv := info.Types[last]
		if tv.Value != nil && tv.Value.Kind() == constant.Bool {
			if !constant.BoolVal(tv.Value) {
				accepted = false
			}
			continue
		}
		if isNilIdent(info, last) {
			continue
		}
		// an error value / other result inside the loop: rejection
		accepted = false
	}
	return accepted, ok
}

// writtenOutsideInit: is package variable v (or an element of it) assigned, or its address taken, anywhere outside its own
// declaration? A table is only a table when nothing else writes it.
func (ix *PkgIndex) writtenOutsideInit(v *types.Var, decl *ast.ValueSpec) bool {
	info := ix.Pkg.TypesInfo
	isV := func(e ast.Expr) bool {
		for {
			switch x := unparen(e).(type) {
			case *ast.IndexExpr:
				e = x.X
				continue
			case *ast.SliceExpr:
				e = x.X
				continue
			}
			break
		}
		return sameVar(info, e, v)
	}
	hit := false
	for _, f := range ix.Pkg.Syntax {
		ast.Inspect(f, func(n ast.Node) bool {
			if n == ast.Node(decl) {
				return false
			}
			switch s := n.(type) {
			case *ast.AssignStmt:
				for _, l := range s.Lhs {
					if isV(l) {
						hit = true
					}
				}
			case *ast.IncDecStmt:
				if isV(s.X) {
					hit = true
				}
			case *ast.UnaryExpr:
				if s.Op == token.AND && isV(s.X) {
					hit = true
				}
			}
			return !hit
		})
	}
	return hit
}

// membershipTable: the initialiser is an immediately invoked literal that builds a boolean array by marking the bytes of a
// constant string —
//
//	func() (t [256]bool) { for i := 0; i < len(S); i++ { t[S[i]] = true }; return t }()
//
// (also with `var t [N]bool` declared inside, `for i := range S`, `for _, c := range S` / `range []byte(S)`). Nothing else may be
// in the literal. Returns the marked indices (all other entries are false) and the array length.
func (ix *PkgIndex) membershipTable(v *types.Var, init ast.Expr) (map[int64]constant.Value, int64) {
	info := ix.Pkg.TypesInfo
	arr, isArr := v.Type().Underlying().(*types.Array)
	if !isArr {
		return nil, 0
	}
	if b, isB := arr.Elem().Underlying().(*types.Basic); !isB || b.Info()&types.IsBoolean == 0 {
		return nil, 0
	}
	call, ok := unparen(init).(*ast.CallExpr)
	if !ok || len(call.Args) != 0 {
		return nil, 0
	}
	lit, ok := unparen(call.Fun).(*ast.FuncLit)
	if !ok {
		return nil, 0
	}
	var tbl types.Object
	if rs := lit.Type.Results; rs != nil && len(rs.List) == 1 && len(rs.List[0].Names) == 1 {
		tbl = info.Defs[rs.List[0].Names[0]]
	}
	body := lit.Body.List
	if tbl == nil && len(body) > 0 {
		if ds, isD := body[0].(*ast.DeclStmt); isD {
			if gd, isG := ds.Decl.(*ast.GenDecl); isG && gd.Tok == token.VAR && len(gd.Specs) == 1 {
				if vs := gd.Specs[0].(*ast.ValueSpec); len(vs.Names) == 1 && len(vs.Values) == 0 {
					tbl = info.Defs[vs.Names[0]]
					body = body[1:]
				}
			}
		}
	}
	if tbl == nil || len(body) != 2 {
		return nil, 0
	}
	ret, isRet := body[1].(*ast.ReturnStmt)
	if !isRet || (len(ret.Results) == 1 && !sameVar(info, ret.Results[0], tbl)) || len(ret.Results) > 1 {
		return nil, 0
	}
	// the loop: which constant string, and which expression is its current byte
	var src string
	var loopBody *ast.BlockStmt
	isCur := func(ast.Expr) bool { return false }
	strOf := func(e ast.Expr) (string, bool) {
		if c, isC := unparen(e).(*ast.CallExpr); isC && len(c.Args) == 1 {
			if tv, has := info.Types[c.Fun]; has && tv.IsType() {
				e = c.Args[0]
			}
		}
		return constString(info, e)
	}
	switch lp := body[0].(type) {
	case *ast.ForStmt:
		// for i := 0; i < len(S); i++
		as, okI := lp.Init.(*ast.AssignStmt)
		cond, okC := lp.Cond.(*ast.BinaryExpr)
		inc, okP := lp.Post.(*ast.IncDecStmt)
		if !okI || !okC || !okP || len(as.Lhs) != 1 || len(as.Rhs) != 1 || cond.Op != token.LSS || inc.Tok != token.INC {
			return nil, 0
		}
		iv := objOf(info, as.Lhs[0])
		if z, isZ := constInt(info, as.Rhs[0]); !isZ || z != 0 || iv == nil || !sameVar(info, cond.X, iv) || !sameVar(info, inc.X, iv) {
			return nil, 0
		}
		lc, isL := unparen(cond.Y).(*ast.CallExpr)
		if !isL || builtinName(info, lc) != "len" {
			return nil, 0
		}
		s, isS := strOf(lc.Args[0])
		if !isS {
			return nil, 0
		}
		src, loopBody = s, lp.Body
		isCur = func(e ast.Expr) bool {
			ie, isIE := unparen(e).(*ast.IndexExpr)
			if !isIE || !sameVar(info, ie.Index, iv) {
				return false
			}
			s2, isS2 := strOf(ie.X)
			return isS2 && s2 == s
		}
	case *ast.RangeStmt:
		s, isS := strOf(lp.X)
		if !isS {
			return nil, 0
		}
		for _, ch := range s {
			if ch >= 0x80 {
				return nil, 0 // ranging over runes of a non-ASCII string is not byte membership
			}
		}
		src, loopBody = s, lp.Body
		kv, vv := objOf(info, lp.Key), types.Object(nil)
		if lp.Value != nil {
			vv = objOf(info, lp.Value)
		}
		isCur = func(e ast.Expr) bool {
			if vv != nil && sameVar(info, e, vv) {
				return true
			}
			ie, isIE := unparen(e).(*ast.IndexExpr)
			if !isIE || kv == nil || !sameVar(info, ie.Index, kv) {
				return false
			}
			s2, isS2 := strOf(ie.X)
			return isS2 && s2 == s
		}
	default:
		return nil, 0
	}
	if loopBody == nil || len(loopBody.List) != 1 {
		return nil, 0
	}
	set, isSet := loopBody.List[0].(*ast.AssignStmt)
	if !isSet || set.Tok != token.ASSIGN || len(set.Lhs) != 1 || len(set.Rhs) != 1 {
		return nil, 0
	}
	ie, isIE := unparen(set.Lhs[0]).(*ast.IndexExpr)
	if !isIE || !sameVar(info, ie.X, tbl) || !isCur(ie.Index) {
		return nil, 0
	}
	if tv, has := info.Types[set.Rhs[0]]; !has || tv.Value == nil || tv.Value.Kind() != constant.Bool || !constant.BoolVal(tv.Value) {
		return nil, 0
	}
	out := map[int64]constant.Value{}
	for i := 0; i < len(src); i++ {
		if int64(src[i]) >= arr.Len() {
			return nil, 0
		}
		out[int64(src[i])] = constant.MakeBool(true)
	}
	return out, arr.Len()
}
