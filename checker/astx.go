package main

import (
	"go/ast"
	"go/constant"
	"go/token"
	"go/types"
	"strings"

	"golang.org/x/tools/go/types/typeutil"
)

func unparen(e ast.Expr) ast.Expr {
	for {
		p, ok := e.(*ast.ParenExpr)
		if !ok {
			return e
		}
		e = p.X
	}
}

// callee returns the statically resolved function or method of a call (also
// interface methods), or nil.
func callee(info *types.Info, call *ast.CallExpr) *types.Func {
	if f, ok := typeutil.Callee(info, call).(*types.Func); ok {
		return f
	}
	return nil
}

// funcFullName is "pkgpath.Name" or "(pkgpath.T).Name" / "(*pkgpath.T).Name".
func funcFullName(f *types.Func) string {
	if f == nil {
		return ""
	}
	return f.FullName()
}

// isCallTo reports whether call statically resolves to one of the full names.
func isCallTo(info *types.Info, call *ast.CallExpr, names ...string) bool {
	f := callee(info, call)
	if f == nil {
		return false
	}
	fn := f.Origin().FullName()
	for _, n := range names {
		if fn == n {
			return true
		}
	}
	return false
}

// builtinName returns the name of the builtin called, or "".
func builtinName(info *types.Info, call *ast.CallExpr) string {
	if id, ok := unparen(call.Fun).(*ast.Ident); ok {
		if b, ok := info.Uses[id].(*types.Builtin); ok {
			return b.Name()
		}
	}
	return ""
}

// methodCall decomposes x.m(args) where m is a method: returns receiver
// expression and the method object.
func methodCall(info *types.Info, call *ast.CallExpr) (recv ast.Expr, m *types.Func) {
	sel, ok := unparen(call.Fun).(*ast.SelectorExpr)
	if !ok {
		return nil, nil
	}
	s := info.Selections[sel]
	if s == nil || s.Kind() != types.MethodVal {
		return nil, nil
	}
	f, _ := s.Obj().(*types.Func)
	return sel.X, f
}

// fieldOf returns the field object selected by e (x.f), and x; or nil.
func fieldOf(info *types.Info, e ast.Expr) (*types.Var, ast.Expr) {
	sel, ok := unparen(e).(*ast.SelectorExpr)
	if !ok {
		return nil, nil
	}
	s := info.Selections[sel]
	if s == nil || s.Kind() != types.FieldVal {
		return nil, nil
	}
	v, _ := s.Obj().(*types.Var)
	if v != nil {
		v = v.Origin()
	}
	return v, sel.X
}

// isField reports whether e selects exactly field fld.
func isField(info *types.Info, e ast.Expr, fld *types.Var) bool {
	v, _ := fieldOf(info, e)
	return v != nil && fld != nil && v == fld.Origin()
}

// objOf returns the object an identifier expression denotes.
func objOf(info *types.Info, e ast.Expr) types.Object {
	if id, ok := unparen(e).(*ast.Ident); ok {
		if o := info.Uses[id]; o != nil {
			return o
		}
		return info.Defs[id]
	}
	return nil
}

// pathKey gives a canonical key for an access path rooted at a variable:
// "name@pos.f.g". Returns "" when e is not such a path. Pointer derefs and
// parens are transparent; index expressions are not paths.
func pathKey(info *types.Info, e ast.Expr) string {
	switch x := unparen(e).(type) {
	case *ast.Ident:
		o := objOf(info, x)
		if o == nil {
			return ""
		}
		if _, ok := o.(*types.Var); !ok {
			return ""
		}
		return x.Name + "@" + itoa(int(o.Pos()))
	case *ast.SelectorExpr:
		if s := info.Selections[x]; s != nil && s.Kind() == types.FieldVal {
			b := pathKey(info, x.X)
			if b == "" {
				return ""
			}
			return b + implicitPath(s, len(s.Index())-1) + "." + x.Sel.Name
		}
		// package-qualified variable
		if o, ok := info.Uses[x.Sel].(*types.Var); ok && o.Pkg() != nil {
			return o.Pkg().Path() + "." + o.Name()
		}
	case *ast.StarExpr:
		return pathKey(info, x.X)
	case *ast.UnaryExpr:
		if x.Op == token.AND {
			return pathKey(info, x.X)
		}
	}
	return ""
}

// constInt returns the integer constant value of e, if it is one.
func constInt(info *types.Info, e ast.Expr) (int64, bool) {
	tv, ok := info.Types[e]
	if !ok || tv.Value == nil {
		return 0, false
	}
	v := constant.ToInt(tv.Value)
	if v.Kind() != constant.Int {
		return 0, false
	}
	i, ok := constant.Int64Val(v)
	return i, ok
}

func constString(info *types.Info, e ast.Expr) (string, bool) {
	tv, ok := info.Types[e]
	if !ok || tv.Value == nil || tv.Value.Kind() != constant.String {
		return "", false
	}
	return constant.StringVal(tv.Value), true
}

// constObj returns the named constant e denotes (possibly pkg-qualified), or nil.
func constObj(info *types.Info, e ast.Expr) *types.Const {
	switch x := unparen(e).(type) {
	case *ast.Ident:
		c, _ := info.Uses[x].(*types.Const)
		return c
	case *ast.SelectorExpr:
		c, _ := info.Uses[x.Sel].(*types.Const)
		return c
	}
	return nil
}

// namedOf strips pointers and returns the named type, or nil.
func namedOf(t types.Type) *types.Named {
	for {
		switch x := t.(type) {
		case *types.Pointer:
			t = x.Elem()
			continue
		case *types.Alias:
			t = types.Unalias(x)
			continue
		case *types.Named:
			return x
		}
		return nil
	}
}

// typeIs reports whether t (pointers stripped) is the named type pkgpath.name.
func typeIs(t types.Type, pkgpath, name string) bool {
	n := namedOf(t)
	if n == nil || n.Obj() == nil {
		return false
	}
	if n.Obj().Name() != name {
		return false
	}
	if n.Obj().Pkg() == nil {
		return pkgpath == ""
	}
	return n.Obj().Pkg().Path() == pkgpath
}

// condAtoms calls atom for every atomic condition implied by (cond, pol):
// cond true ⇒ both sides of &&; cond false ⇒ both sides negated of ||; ! flips.
func condAtoms(cond ast.Expr, pol int, atom func(e ast.Expr, pol int)) {
	switch x := unparen(cond).(type) {
	case *ast.UnaryExpr:
		if x.Op == token.NOT {
			condAtoms(x.X, -pol, atom)
			return
		}
	case *ast.BinaryExpr:
		if (x.Op == token.LAND && pol > 0) || (x.Op == token.LOR && pol < 0) {
			condAtoms(x.X, pol, atom)
			condAtoms(x.Y, pol, atom)
			return
		}
		if x.Op == token.LAND || x.Op == token.LOR {
			return // a disjunction of facts: nothing atomic is implied
		}
	}
	atom(unparen(cond), pol)
}

// edgeImplies reports whether crossing e establishes an atomic fact accepted by atom, whichever way the
// condition came to have the edge's polarity: for a conjunction that is true (disjunction that is false) one accepted
// operand suffices; for a disjunction that is true (conjunction that is false) every operand must yield an accepted fact.
func edgeImplies(e *GEdge, atom func(c ast.Expr, pol int) bool) bool {
	if e.Cond == nil || e.Tag != nil {
		return false
	}
	if e.From != nil && e.From.G != nil {
		// look through boolean locals with a single, still valid definition (hoisted conditions)
		return e.From.G.edgeImpliesDeep(e, atom)
	}
	return condHolds(e.Cond, e.Pol, atom)
}

func condHolds(cond ast.Expr, pol int, atom func(c ast.Expr, pol int) bool) bool {
	switch x := unparen(cond).(type) {
	case *ast.UnaryExpr:
		if x.Op == token.NOT {
			return condHolds(x.X, -pol, atom)
		}
	case *ast.BinaryExpr:
		if (x.Op == token.LAND && pol > 0) || (x.Op == token.LOR && pol < 0) {
			return condHolds(x.X, pol, atom) || condHolds(x.Y, pol, atom)
		}
		if x.Op == token.LAND || x.Op == token.LOR {
			return condHolds(x.X, pol, atom) && condHolds(x.Y, pol, atom)
		}
	}
	return atom(unparen(cond), pol)
}

// cmpNorm normalises a comparison `a op b` so that callers can ask for it in
// one orientation: returns (lhs, op, rhs) with pol applied (negated when pol<0).
func cmpNorm(e ast.Expr, pol int) (ast.Expr, token.Token, ast.Expr, bool) {
	b, ok := unparen(e).(*ast.BinaryExpr)
	if !ok {
		return nil, 0, nil, false
	}
	op := b.Op
	switch op {
	case token.EQL, token.NEQ, token.LSS, token.LEQ, token.GTR, token.GEQ:
	default:
		return nil, 0, nil, false
	}
	if pol < 0 {
		op = map[token.Token]token.Token{token.EQL: token.NEQ, token.NEQ: token.EQL, token.LSS: token.GEQ,
			token.GEQ: token.LSS, token.GTR: token.LEQ, token.LEQ: token.GTR}[op]
	}
	return unparen(b.X), op, unparen(b.Y), true
}

func flipOp(op token.Token) token.Token {
	switch op {
	case token.LSS:
		return token.GTR
	case token.GTR:
		return token.LSS
	case token.LEQ:
		return token.GEQ
	case token.GEQ:
		return token.LEQ
	}
	return op
}

func isNilIdent(info *types.Info, e ast.Expr) bool {
	id, ok := unparen(e).(*ast.Ident)
	if !ok {
		return false
	}
	_, isNil := info.Uses[id].(*types.Nil)
	return isNil
}

// nilCmp: does (e,pol) say "X != nil" (nonNil=true) or "X == nil" for an X accepted by isX?
func nilCmp(info *types.Info, e ast.Expr, pol int, isX func(ast.Expr) bool) (nonNil, ok bool) {
	l, op, r, good := cmpNorm(e, pol)
	if !good || (op != token.EQL && op != token.NEQ) {
		return false, false
	}
	if isNilIdent(info, r) && isX(l) {
		return op == token.NEQ, true
	}
	if isNilIdent(info, l) && isX(r) {
		return op == token.NEQ, true
	}
	return false, false
}

// funcLits returns the function literals directly inside n (not nested inside other literals).
func funcLits(n ast.Node) []*ast.FuncLit {
	var out []*ast.FuncLit
	ast.Inspect(n, func(x ast.Node) bool {
		if l, ok := x.(*ast.FuncLit); ok && x != n {
			out = append(out, l)
			return false
		}
		return true
	})
	return out
}

// litInfo wraps a function literal found inside f.
func litInfo(f *FuncInfo, l *ast.FuncLit) *FuncInfo {
	return &FuncInfo{M: f.M, Pkg: f.Pkg, Lit: l, Name: f.Name + "$lit"}
}

// shortPkg strips the otel prefix from an import path.
func shortPkg(path string) string {
	p := strings.TrimPrefix(path, otelPrefix)
	p = strings.TrimPrefix(p, "/")
	if p == "" {
		return "otel"
	}
	return p
}

// exprStr is types.ExprString (note: elides literals' bodies).
func exprStr(e ast.Expr) string { return types.ExprString(e) }

// enclosingFuncs maps every function literal/decl body position to its FuncInfo for a package.
// allFuncsWithLits returns declarations and, recursively, their literals.
func allFuncsWithLits(m *Module, p *pkgT) []*FuncInfo {
	var out []*FuncInfo
	for _, f := range sortedFuncs(pkgFuncs(m, p)) {
		out = append(out, f)
		var rec func(parent *FuncInfo, body ast.Node)
		rec = func(parent *FuncInfo, body ast.Node) {
			for _, l := range funcLits(body) {
				li := litInfo(parent, l)
				out = append(out, li)
				rec(li, l.Body)
			}
		}
		rec(f, f.Decl.Body)
	}
	return out
}

// implicitPath names the first n implicit (embedded) fields a selection goes through: ".A.B".
func implicitPath(s *types.Selection, n int) string {
	t := s.Recv()
	out := ""
	idx := s.Index()
	for i := 0; i < n && i < len(idx); i++ {
		for {
			if p, ok := t.Underlying().(*types.Pointer); ok {
				t = p.Elem()
				continue
			}
			break
		}
		st, ok := t.Underlying().(*types.Struct)
		if !ok {
			return out
		}
		f := st.Field(idx[i])
		out += "." + f.Name()
		t = f.Type()
	}
	return out
}

// recvPathKey is the access path of the receiver of a method call x.m(), with
// the embedded fields the method is promoted through made explicit.
func recvPathKey(info *types.Info, call *ast.CallExpr) string {
	sel, ok := unparen(call.Fun).(*ast.SelectorExpr)
	if !ok {
		return ""
	}
	s := info.Selections[sel]
	if s == nil || s.Kind() != types.MethodVal {
		return ""
	}
	b := pathKey(info, sel.X)
	if b == "" {
		return ""
	}
	return b + implicitPath(s, len(s.Index())-1)
}

// isErrVar: e is a variable whose type is the predeclared error interface.
func isErrVar(info *types.Info, e ast.Expr) bool {
	v, ok := objOf(info, e).(*types.Var)
	if !ok {
		return false
	}
	return types.Identical(v.Type(), types.Universe.Lookup("error").Type())
}

// isBoolVar: e is a boolean variable.
func isBoolVar(info *types.Info, e ast.Expr) bool {
	v, ok := objOf(info, e).(*types.Var)
	if !ok {
		return false
	}
	b, ok := v.Type().Underlying().(*types.Basic)
	return ok && b.Info()&types.IsBoolean != 0
}

// isURLPath: e is <x>.Path with x of type (*)net/url.URL.
func isURLPath(info *types.Info, e ast.Expr) bool {
	fv, b := fieldOf(info, e)
	if fv == nil || fv.Name() != "Path" {
		return false
	}
	tv, ok := info.Types[b]
	return ok && typeIs(tv.Type, "net/url", "URL")
}

// conjuncts flattens a && b && c into its operands.
func conjuncts(e ast.Expr) []ast.Expr {
	e = unparen(e)
	if be, ok := e.(*ast.BinaryExpr); ok && be.Op == token.LAND {
		return append(conjuncts(be.X), conjuncts(be.Y)...)
	}
	return []ast.Expr{e}
}

// localFuncLit returns the function literal a local variable is bound to when it is assigned exactly once in body.
func localFuncLit(body *ast.BlockStmt, info *types.Info, v *types.Var) *ast.FuncLit {
	var lit *ast.FuncLit
	n := 0
	ast.Inspect(body, func(nd ast.Node) bool {
		switch s := nd.(type) {
		case *ast.AssignStmt:
			for i, l := range s.Lhs {
				if objOf(info, l) == types.Object(v) {
					n++
					if len(s.Rhs) == len(s.Lhs) {
						lit, _ = unparen(s.Rhs[i]).(*ast.FuncLit)
					}
				}
			}
		case *ast.ValueSpec:
			for i, nm := range s.Names {
				if info.Defs[nm] == types.Object(v) && len(s.Values) == len(s.Names) {
					n++
					lit, _ = unparen(s.Values[i]).(*ast.FuncLit)
				}
			}
		}
		return true
	})
	if n != 1 {
		return nil
	}
	return lit
}

// ParamObjs lists the receiver and parameters of a declared function.
func (f *FuncInfo) ParamObjs(info *types.Info) []types.Object {
	var out []types.Object
	if f.Obj == nil {
		return out
	}
	sig := f.Obj.Type().(*types.Signature)
	if r := sig.Recv(); r != nil {
		out = append(out, r)
	}
	for i := 0; i < sig.Params().Len(); i++ {
		out = append(out, sig.Params().At(i))
	}
	return out
}

// namedTypeName is the name of the (pointer to a) named type, or "".
func namedTypeName(t types.Type) string {
	if t == nil {
		return ""
	}
	if p, ok := t.(*types.Pointer); ok {
		t = p.Elem()
	}
	if n, ok := t.(*types.Named); ok {
		return n.Obj().Name()
	}
	return ""
}

// constNameOf: the name of the package-level constant of pkg with type t and value v, or a rendering of v.
func constNameOf(pkg *types.Package, t types.Type, v constant.Value) string {
	if pkg != nil {
		for _, nm := range pkg.Scope().Names() {
			if k, ok := pkg.Scope().Lookup(nm).(*types.Const); ok && types.Identical(k.Type(), t) && constant.Compare(k.Val(), token.EQL, v) {
				return k.Name()
			}
		}
	}
	return v.String()
}
