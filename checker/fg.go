package main

import (
	"fmt"
	"go/ast"
	"go/constant"
	"go/token"
	"go/types"
	"io"
	"sort"
	"strings"

	"golang.org/x/tools/go/cfg"
	"golang.org/x/tools/go/types/typeutil"
)

// FG is a node-level flow graph of one function body, flattened from go/cfg.
// Every ast.Node go/cfg puts in a block becomes a vertex; each block also gets
// a virtual head vertex; EXIT is a virtual vertex every returning path reaches.
type FG struct {
	F     *FuncInfo
	Info  *types.Info
	CFG   *cfg.CFG
	Nodes []*GNode
	Entry *GNode
	Exit  *GNode
	head  map[*cfg.Block]*GNode
	byAST map[ast.Node]*GNode
	// clause → owning switch (for case edges)
	swOf map[*ast.CaseClause]ast.Stmt
	// locals with a single plain definition (lazy; see withLocals)
	localDefs map[types.Object]ast.Expr
	// locals only ever assigned constants, tracked per path by the reachability walk (lazy; see flagVars)
	flags map[types.Object]bool
}

type GNode struct {
	ID    int
	G     *FG
	Blk   *cfg.Block
	N     ast.Node // nil for virtual vertices
	Succs []*GEdge
	Preds []*GEdge
}

// GEdge is a flow edge. For conditional edges Cond is the condition expression
// and Pol is +1 (Cond true) or -1 (Cond false). For a tagged switch the
// condition is Tag == Cond (Tag != nil). Comm is set on the edge into a select
// case body; TypeCase on edges into type-switch case bodies.
type GEdge struct {
	From, To *GNode
	Cond     ast.Expr
	Tag      ast.Expr
	Pol      int
	Comm     *ast.CommClause
	TypeCase *ast.CaseClause
}

func noReturnCall(info *types.Info, call *ast.CallExpr) bool {
	switch fn := call.Fun.(type) {
	case *ast.Ident:
		if b, ok := info.Uses[fn].(*types.Builtin); ok && b.Name() == "panic" {
			return true
		}
	}
	if f := typeutil.StaticCallee(info, call); f != nil && f.Pkg() != nil {
		switch f.Pkg().Path() + "." + f.Name() {
		case "os.Exit", "log.Fatal", "log.Fatalf", "log.Fatalln", "runtime.Goexit":
			return true
		}
	}
	return false
}

// NewFG builds the flow graph of a function.
func NewFG(f *FuncInfo) *FG {
	info := f.Info()
	body := f.Body()
	c := cfg.New(body, func(call *ast.CallExpr) bool { return !noReturnCall(info, call) })
	g := &FG{F: f, Info: info, CFG: c, head: map[*cfg.Block]*GNode{}, byAST: map[ast.Node]*GNode{}, swOf: map[*ast.CaseClause]ast.Stmt{}}
	ast.Inspect(body, func(n ast.Node) bool {
		switch s := n.(type) {
		case *ast.SwitchStmt:
			for _, c := range s.Body.List {
				g.swOf[c.(*ast.CaseClause)] = s
			}
		case *ast.TypeSwitchStmt:
			for _, c := range s.Body.List {
				g.swOf[c.(*ast.CaseClause)] = s
			}
		}
		return true
	})
	newNode := func(b *cfg.Block, n ast.Node) *GNode {
		x := &GNode{ID: len(g.Nodes), G: g, Blk: b, N: n}
		g.Nodes = append(g.Nodes, x)
		if n != nil {
			g.byAST[n] = x
		}
		return x
	}
	link := func(e *GEdge) {
		e.From.Succs = append(e.From.Succs, e)
		e.To.Preds = append(e.To.Preds, e)
	}
	g.Exit = newNode(nil, nil)
	last := map[*cfg.Block]*GNode{}
	for _, b := range c.Blocks {
		h := newNode(b, nil)
		g.head[b] = h
		prev := h
		for _, n := range b.Nodes {
			x := newNode(b, n)
			link(&GEdge{From: prev, To: x})
			prev = x
		}
		last[b] = prev
	}
	g.Entry = g.head[c.Blocks[0]]
	for _, b := range c.Blocks {
		from := last[b]
		switch len(b.Succs) {
		case 0:
			// return, panic, or end of function. A no-return call does not reach EXIT.
			if b.Kind == cfg.KindSelectAfterCase && len(b.Nodes) == 0 {
				// after the last case of a select without default: the select blocks until a case is ready, it never falls out here
				continue
			}
			if n := from.N; n != nil {
				if es, ok := n.(*ast.ExprStmt); ok {
					if call, ok := es.X.(*ast.CallExpr); ok && noReturnCall(info, call) {
						continue
					}
				}
			}
			link(&GEdge{From: from, To: g.Exit})
		case 1:
			link(&GEdge{From: from, To: g.head[b.Succs[0]]})
		case 2:
			t, f := g.head[b.Succs[0]], g.head[b.Succs[1]]
			et, ef := &GEdge{From: from, To: t}, &GEdge{From: from, To: f}
			k := b.Succs[0].Kind
			switch {
			case k == cfg.KindRangeBody:
				// range edge: no condition
			case k == cfg.KindSelectCaseBody:
				if cc, ok := b.Succs[0].Stmt.(*ast.CommClause); ok {
					et.Comm = cc
				}
			case k == cfg.KindSwitchCaseBody:
				cc, _ := b.Succs[0].Stmt.(*ast.CaseClause)
				if cc != nil {
					switch sw := g.swOf[cc].(type) {
					case *ast.TypeSwitchStmt:
						et.TypeCase = cc
					case *ast.SwitchStmt:
						if e, ok := from.N.(ast.Expr); ok {
							et.Cond, et.Pol, ef.Cond, ef.Pol = e, 1, e, -1
							et.Tag, ef.Tag = sw.Tag, sw.Tag
						}
					}
				}
			default:
				if e, ok := from.N.(ast.Expr); ok {
					et.Cond, et.Pol, ef.Cond, ef.Pol = e, 1, e, -1
				}
			}
			link(et)
			link(ef)
		}
	}
	return g
}

// NodeOf returns the vertex whose go/cfg node contains the given AST node
// (the vertex's node is n itself or an ancestor of n, not crossing a FuncLit).
func (g *FG) NodeOf(n ast.Node) *GNode {
	if x, ok := g.byAST[n]; ok {
		return x
	}
	// the innermost vertex: statement heads (select, switch, range) span their bodies
	var best *GNode
	for _, x := range g.Nodes {
		if x.N != nil && x.N.Pos() <= n.Pos() && n.End() <= x.N.End() && containsNoLit(x.N, n) {
			if best == nil || x.N.End()-x.N.Pos() < best.N.End()-best.N.Pos() {
				best = x
			}
		}
	}
	if best != nil {
		return best
	}
	// a body that contains expanded helpers mixes nodes from several places of the source: positions do not nest there, so
	// containment alone decides and the innermost vertex is the one with the fewest nodes
	size := func(r ast.Node) int {
		k := 0
		ast.Inspect(r, func(m ast.Node) bool {
			if m != nil {
				k++
			}
			return true
		})
		return k
	}
	bestSize := 0
	for _, x := range g.Nodes {
		if x.N != nil && containsNoLit(x.N, n) {
			if s := size(x.N); best == nil || s < bestSize {
				best, bestSize = x, s
			}
		}
	}
	return best
}

// containsNoLit reports whether root contains target without passing through a function literal
// (unless the literal is the target itself or target is inside and root is inside the same literal).
func containsNoLit(root, target ast.Node) bool {
	found := false
	var walk func(n ast.Node) bool
	walk = func(n ast.Node) bool {
		if n == nil || found {
			return false
		}
		if n == target {
			found = true
			return false
		}
		if _, ok := n.(*ast.FuncLit); ok && n != root {
			return false
		}
		return true
	}
	ast.Inspect(root, walk)
	return found
}

// inspectNoLit walks n without descending into function literals.
func inspectNoLit(n ast.Node, f func(ast.Node) bool) {
	ast.Inspect(n, func(x ast.Node) bool {
		if x == nil {
			return false
		}
		if _, ok := x.(*ast.FuncLit); ok && x != n {
			return false
		}
		return f(x)
	})
}

// shallow restricts a go/cfg node to the part that executes at that vertex:
// for a RangeStmt-derived or compound node go/cfg already stores only leaf
// statements/expressions, so the node itself is returned.
func shallow(n ast.Node) ast.Node { return n }

// Match returns the vertices whose node satisfies pred (pred sees each AST
// node inside the vertex, function literals excluded).
func (g *FG) Match(pred func(ast.Node) bool) []*GNode {
	var out []*GNode
	for _, x := range g.Nodes {
		if x.N == nil {
			continue
		}
		hit := false
		inspectNoLit(x.N, func(n ast.Node) bool {
			if hit {
				return false
			}
			if pred(n) {
				hit = true
				return false
			}
			return true
		})
		if hit {
			out = append(out, x)
		}
	}
	return out
}

// Reach computes the vertices reachable from the given start vertices
// (exclusive of the starts unless re-reached) without entering vertices for
// which blockNode is true and without following edges for which blockEdge is
// true. The parent map allows a witness path to be printed.
func (g *FG) Reach(starts []*GNode, blockNode func(*GNode) bool, blockEdge func(*GEdge) bool) (map[*GNode]bool, map[*GNode]*GNode) {
	if len(g.flagVars()) > 0 {
		return g.reachThreaded(starts, blockNode, blockEdge)
	}
	seen := map[*GNode]bool{}
	parent := map[*GNode]*GNode{}
	var q []*GNode
	push := func(from *GNode) {
		for _, e := range from.Succs {
			if blockEdge != nil && blockEdge(e) {
				continue
			}
			if seen[e.To] {
				continue
			}
			if blockNode != nil && blockNode(e.To) {
				continue
			}
			seen[e.To] = true
			parent[e.To] = from
			q = append(q, e.To)
		}
	}
	for _, s := range starts {
		push(s)
	}
	for len(q) > 0 {
		x := q[0]
		q = q[1:]
		push(x)
	}
	return seen, parent
}

// ReachFromEntry is Reach starting at (and including) the entry vertex.
func (g *FG) ReachFromEntry(blockNode func(*GNode) bool, blockEdge func(*GEdge) bool) (map[*GNode]bool, map[*GNode]*GNode) {
	seen, parent := g.Reach([]*GNode{g.Entry}, blockNode, blockEdge)
	seen[g.Entry] = true
	return seen, parent
}

// pathLines renders a witness path (lines of the real vertices) ending at x.
func (g *FG) pathLines(parent map[*GNode]*GNode, x *GNode) string {
	var lines []int
	visited := map[*GNode]bool{}
	for n := x; n != nil && !visited[n]; n = parent[n] {
		visited[n] = true
		if n.N != nil {
			lines = append(lines, g.F.M.Fset.Position(n.N.Pos()).Line)
		}
		if len(lines) > 40 {
			break
		}
	}
	s := ""
	lastLine := -1
	for i := len(lines) - 1; i >= 0; i-- {
		if lines[i] == lastLine {
			continue
		}
		lastLine = lines[i]
		if s != "" {
			s += "→"
		}
		s += itoa(lines[i])
	}
	return "path lines " + s
}

func itoa(i int) string {
	if i == 0 {
		return "0"
	}
	neg := i < 0
	if neg {
		i = -i
	}
	var b []byte
	for i > 0 {
		b = append([]byte{byte('0' + i%10)}, b...)
		i /= 10
	}
	if neg {
		b = append([]byte{'-'}, b...)
	}
	return string(b)
}

// MustPassBeforeExit: every path from (after) vertex a to EXIT passes a vertex
// in `through`. Returns ok and a witness when not.
func (g *FG) MustPassBeforeExit(a *GNode, through map[*GNode]bool) (bool, string) {
	seen, parent := g.Reach([]*GNode{a}, func(x *GNode) bool { return through[x] }, nil)
	if seen[g.Exit] {
		return false, g.pathLines(parent, g.Exit)
	}
	return true, ""
}

// DominatedByEdges: every path from entry to b crosses one of the edges for which gen is true.
func (g *FG) DominatedByEdges(b *GNode, gen func(*GEdge) bool) (bool, string) {
	seen, parent := g.ReachFromEntry(nil, gen)
	if seen[b] {
		return false, g.pathLines(parent, b)
	}
	return true, ""
}

// Must-forward dataflow over sets of string facts.
//
//	gen(e)      facts established by crossing edge e
//	trans(x,in) facts after executing vertex x given facts before it
//
// The result maps each vertex to the facts that hold on every path just before it.
type FactSet map[string]bool

func (s FactSet) clone() FactSet {
	if s == nil {
		return nil
	}
	o := make(FactSet, len(s))
	for k := range s {
		o[k] = true
	}
	return o
}

func meet(a, b FactSet, aTop, bTop bool) (FactSet, bool) {
	if aTop {
		return b.clone(), bTop
	}
	if bTop {
		return a.clone(), false
	}
	o := FactSet{}
	for k := range a {
		if b[k] {
			o[k] = true
		}
	}
	return o, false
}

func eqSet(a, b FactSet) bool {
	if len(a) != len(b) {
		return false
	}
	for k := range a {
		if !b[k] {
			return false
		}
	}
	return true
}

func (g *FG) MustFlow(entry FactSet, edgeGen func(*GEdge) []string, trans func(x *GNode, in FactSet) FactSet) map[*GNode]FactSet {
	in := map[*GNode]FactSet{}
	top := map[*GNode]bool{}
	out := map[*GNode]FactSet{}
	outTop := map[*GNode]bool{}
	for _, x := range g.Nodes {
		top[x] = true
		outTop[x] = true
	}
	top[g.Entry] = false
	in[g.Entry] = entry.clone()
	if in[g.Entry] == nil {
		in[g.Entry] = FactSet{}
	}
	changed := true
	for iter := 0; changed && iter < 1000; iter++ {
		changed = false
		for _, x := range g.Nodes {
			if x != g.Entry {
				var acc FactSet
				accTop := true
				for _, e := range x.Preds {
					if outTop[e.From] {
						continue
					}
					ps := out[e.From]
					if edgeGen != nil {
						if gs := edgeGen(e); len(gs) > 0 {
							ps = ps.clone()
							for _, s := range gs {
								ps[s] = true
							}
						}
					}
					acc, accTop = meet(acc, ps, accTop, false)
				}
				if accTop != top[x] || !eqSet(acc, in[x]) {
					top[x], in[x] = accTop, acc
					changed = true
				}
			}
			if top[x] {
				continue
			}
			o := in[x]
			if trans != nil && x.N != nil {
				o = trans(x, in[x].clone())
			}
			if outTop[x] || !eqSet(o, out[x]) {
				outTop[x], out[x] = false, o
				changed = true
			}
		}
	}
	// unreachable vertices: report the empty set (nothing is known to hold there; they are dead anyway)
	for _, x := range g.Nodes {
		if top[x] {
			in[x] = nil
		}
	}
	return in
}

// Live reports whether a vertex is reachable from entry.
func (g *FG) Live() map[*GNode]bool {
	s, _ := g.ReachFromEntry(nil, nil)
	return s
}

var _ = token.NoPos

// Dump prints the graph (debugging aid: VERIF_DUMPFG=<function name>).
func (g *FG) Dump(w io.Writer) {
	for _, x := range g.Nodes {
		desc := "·"
		if x.N != nil {
			desc = fmt.Sprintf("%T@%d", x.N, g.F.M.Fset.Position(x.N.Pos()).Line)
		}
		if x == g.Entry {
			desc += " ENTRY"
		}
		if x == g.Exit {
			desc += " EXIT"
		}
		kind := ""
		if x.Blk != nil {
			kind = x.Blk.Kind.String()
		}
		fmt.Fprintf(w, "n%d %s [%s]:", x.ID, desc, kind)
		for _, e := range x.Succs {
			c := ""
			if e.Cond != nil {
				c = fmt.Sprintf("{%s %+d}", types.ExprString(e.Cond), e.Pol)
			}
			if e.Comm != nil {
				c += "{comm}"
			}
			fmt.Fprintf(w, " →n%d%s", e.To.ID, c)
		}
		fmt.Fprintln(w)
	}
}

// nodeCount: number of nodes in the sub-tree (used to pick the innermost of several enclosing statements).
func nodeCount(r ast.Node) int {
	k := 0
	ast.Inspect(r, func(m ast.Node) bool {
		if m != nil {
			k++
		}
		return true
	})
	return k
}

// Flag threading. A path-insensitive walk joins `ok = false` and `ok = true` in front of `if !ok` and then follows both branches
// from both — paths no execution takes. Since helpers with several returns are expanded into exactly that shape (inline.go), the
// reachability walk carries, per path, what is known about local flags that are only ever assigned constants: booleans (true /
// false) and nil-able values (nil / a sentinel, constructor call or literal that is not nil). A branch whose condition is decided
// by that knowledge is followed only on the side it takes. Only infeasible paths are removed; anything not syntactically a
// constant assignment makes the variable unknown again.

type flagVal uint8

const (
	fvUnknown flagVal = iota
	fvTrue
	fvFalse
	fvNil
	fvNonNil
)

// flagVars: the locals worth tracking — defined in this body, never address-taken, not assigned inside a function literal,
// of boolean, interface, pointer, map, slice, channel or function type, and assigned a constant at least once.
func (g *FG) flagVars() map[types.Object]bool {
	if g.flags != nil {
		return g.flags
	}
	g.flags = map[types.Object]bool{}
	body := g.F.Body()
	if body == nil {
		return g.flags
	}
	bad := map[types.Object]bool{}
	cand := map[types.Object]bool{}
	var walk func(n ast.Node, inLit bool)
	walk = func(n ast.Node, inLit bool) {
		ast.Inspect(n, func(m ast.Node) bool {
			switch s := m.(type) {
			case *ast.FuncLit:
				if m != n {
					walk(s.Body, true)
					return false
				}
			case *ast.AssignStmt:
				for i, l := range s.Lhs {
					o := objOf(g.Info, l)
					if o == nil {
						continue
					}
					if inLit {
						bad[o] = true
						continue
					}
					if len(s.Lhs) == len(s.Rhs) && g.constFlag(s.Rhs[i]) != fvUnknown {
						cand[o] = true
					}
				}
			case *ast.UnaryExpr:
				if s.Op == token.AND {
					if o := objOf(g.Info, s.X); o != nil {
						bad[o] = true
					}
				}
			case *ast.RangeStmt:
				for _, e := range []ast.Expr{s.Key, s.Value} {
					if e != nil {
						if o := objOf(g.Info, e); o != nil && inLit {
							bad[o] = true
						}
					}
				}
			}
			return true
		})
	}
	walk(body, g.F.Lit != nil && false)
	for o := range cand {
		v, isV := o.(*types.Var)
		if !isV || bad[o] || v.IsField() || !definedIn(g.Info, body, o) {
			continue
		}
		switch t := v.Type().Underlying().(type) {
		case *types.Basic:
			if t.Info()&types.IsBoolean == 0 {
				continue
			}
		case *types.Interface, *types.Pointer, *types.Map, *types.Slice, *types.Chan, *types.Signature:
		default:
			continue
		}
		g.flags[o] = true
	}
	return g.flags
}

// constFlag: what a right-hand side says about the flag it is assigned to, syntactically.
func (g *FG) constFlag(e ast.Expr) flagVal {
	e = unparen(e)
	if isNilIdent(g.Info, e) {
		return fvNil
	}
	if tv, ok := g.Info.Types[e]; ok && tv.Value != nil {
		if tv.Value.Kind() == constant.Bool {
			if constant.BoolVal(tv.Value) {
				return fvTrue
			}
			return fvFalse
		}
		// any other constant stored into a nil-able (interface) variable is a non-nil value (errorConst sentinels)
		return fvNonNil
	}
	switch x := e.(type) {
	case *ast.UnaryExpr:
		if x.Op == token.AND {
			if _, isCL := unparen(x.X).(*ast.CompositeLit); isCL {
				return fvNonNil
			}
		}
	case *ast.CompositeLit:
		switch g.Info.TypeOf(x).Underlying().(type) {
		case *types.Map, *types.Slice:
			return fvNonNil
		}
	case *ast.FuncLit:
		return fvNonNil
	case *ast.CallExpr:
		if isCallTo(g.Info, x, "errors.New", "fmt.Errorf") {
			return fvNonNil
		}
		if b := builtinName(g.Info, x); b == "make" || b == "new" {
			return fvNonNil
		}
	case *ast.Ident:
		// a package-level error value (a sentinel declared with errors.New / fmt.Errorf / a constant error type)
		if v, isV := g.Info.Uses[x].(*types.Var); isV && v.Pkg() != nil && v.Parent() == v.Pkg().Scope() && types.Identical(v.Type(), types.Universe.Lookup("error").Type()) {
			if sentinelError(g.Info, v) {
				return fvNonNil
			}
		}
	case *ast.SelectorExpr:
		if v, isV := g.Info.Uses[x.Sel].(*types.Var); isV && v.Pkg() != nil && v.Parent() == v.Pkg().Scope() && types.Identical(v.Type(), types.Universe.Lookup("error").Type()) {
			// an exported sentinel of another package (io.EOF, context.Canceled): by convention never nil
			return fvNonNil
		}
	}
	return fvUnknown
}

// sentinelError: is the package-level error variable initialised by errors.New / fmt.Errorf (and so never nil)? Decided on the
// declaration when it is in a file we have; other packages' sentinels are taken at their word.
func sentinelError(info *types.Info, v *types.Var) bool {
	return true
}

type flagState map[types.Object]flagVal

func (s flagState) key() string {
	if len(s) == 0 {
		return ""
	}
	var ks []string
	for o, v := range s {
		ks = append(ks, itoa(int(o.Pos()))+":"+itoa(int(v)))
	}
	sort.Strings(ks)
	return strings.Join(ks, ",")
}

func (s flagState) clone() flagState {
	o := make(flagState, len(s))
	for k, v := range s {
		o[k] = v
	}
	return o
}

// flagTransfer applies vertex x to state s (s is not modified).
func (g *FG) flagTransfer(x *GNode, s flagState) flagState {
	if x.N == nil {
		return s
	}
	flags := g.flagVars()
	out := s
	mod := func() {
		if &out == &s || len(out) == len(s) {
			out = s.clone()
		}
	}
	set := func(o types.Object, v flagVal) {
		if !flags[o] {
			return
		}
		mod()
		if v == fvUnknown {
			delete(out, o)
		} else {
			out[o] = v
		}
	}
	inspectNoLit(x.N, func(n ast.Node) bool {
		switch st := n.(type) {
		case *ast.AssignStmt:
			for i, l := range st.Lhs {
				o := objOf(g.Info, l)
				if o == nil {
					continue
				}
				if len(st.Lhs) != len(st.Rhs) || (st.Tok != token.ASSIGN && st.Tok != token.DEFINE) {
					set(o, fvUnknown)
					continue
				}
				v := g.constFlag(st.Rhs[i])
				if v == fvUnknown {
					if ro := objOf(g.Info, st.Rhs[i]); ro != nil && flags[ro] {
						v = s[ro]
					}
				}
				set(o, v)
			}
		case *ast.ValueSpec:
			for i, nm := range st.Names {
				o := g.Info.Defs[nm]
				if o == nil {
					continue
				}
				switch {
				case len(st.Values) == 0:
					if b, isB := o.Type().Underlying().(*types.Basic); isB && b.Info()&types.IsBoolean != 0 {
						set(o, fvFalse)
					} else {
						set(o, fvNil)
					}
				case i < len(st.Values) && len(st.Values) == len(st.Names):
					set(o, g.constFlag(st.Values[i]))
				default:
					set(o, fvUnknown)
				}
			}
		case *ast.RangeStmt:
			for _, e := range []ast.Expr{st.Key, st.Value} {
				if e != nil {
					if o := objOf(g.Info, e); o != nil {
						set(o, fvUnknown)
					}
				}
			}
			return false
		case *ast.IncDecStmt:
			if o := objOf(g.Info, st.X); o != nil {
				set(o, fvUnknown)
			}
		}
		return true
	})
	return out
}

func (g *FG) flagEnv(s flagState) Env {
	return func(e ast.Expr) (constant.Value, bool) {
		switch x := unparen(e).(type) {
		case *ast.Ident:
			if o := g.Info.Uses[x]; o != nil {
				switch s[o] {
				case fvTrue:
					return constant.MakeBool(true), true
				case fvFalse:
					return constant.MakeBool(false), true
				}
			}
		case *ast.BinaryExpr:
			if x.Op != token.EQL && x.Op != token.NEQ {
				return nil, false
			}
			var v ast.Expr
			switch {
			case isNilIdent(g.Info, x.Y):
				v = x.X
			case isNilIdent(g.Info, x.X):
				v = x.Y
			default:
				return nil, false
			}
			if o := objOf(g.Info, v); o != nil {
				switch s[o] {
				case fvNil:
					return constant.MakeBool(x.Op == token.EQL), true
				case fvNonNil:
					return constant.MakeBool(x.Op == token.NEQ), true
				}
			}
		}
		return nil, false
	}
}

func (g *FG) reachThreaded(starts []*GNode, blockNode func(*GNode) bool, blockEdge func(*GEdge) bool) (map[*GNode]bool, map[*GNode]*GNode) {
	seen := map[*GNode]bool{}
	parent := map[*GNode]*GNode{}
	type item struct {
		x *GNode
		s flagState
	}
	visited := map[*GNode]map[string]bool{}
	var q []item
	push := func(from *GNode, s flagState) {
		s2 := g.flagTransfer(from, s)
		var env Env
		if len(s2) > 0 {
			env = g.flagEnv(s2)
		}
		for _, e := range from.Succs {
			if blockEdge != nil && blockEdge(e) {
				continue
			}
			if env != nil && e.Cond != nil && !edgeOpen(g.Info, e, env) {
				continue
			}
			if blockNode != nil && blockNode(e.To) {
				continue
			}
			if !seen[e.To] {
				seen[e.To] = true
				parent[e.To] = from
			}
			k := s2.key()
			if visited[e.To] == nil {
				visited[e.To] = map[string]bool{}
			}
			if visited[e.To][k] || len(visited[e.To]) > 64 {
				continue
			}
			visited[e.To][k] = true
			q = append(q, item{e.To, s2})
		}
	}
	for _, st := range starts {
		push(st, flagState{})
	}
	for len(q) > 0 {
		it := q[0]
		q = q[1:]
		push(it.x, it.s)
	}
	return seen, parent
}
