package main

import (
	"fmt"
	"go/ast"
	"go/constant"
	"go/token"
	"go/types"
	"sort"
	"strings"
)

func init() {
	dirs := append([]string{"sdk", "sdk/log", "sdk/metric"}, otlpDirs()...)
	register(&PropDoc{
		ID:         "C20",
		Modules:    dirs,
		NotDecided: "the full source cross-product as behaviour; header value parsing, the compression value table (decided: a present variable always reaches its setter); TLS settings; hangs (only the panicking sinks and ticker intervals are covered).",
		Fn:         c20,
	})
}

type envCopy struct{ dir, pkg, signalPrefix, defaultPath string }

var envCopies = []envCopy{
	{"exporters/otlp/otlptrace/otlptracegrpc", otlpBase + "otlptrace/otlptracegrpc/internal/otlpconfig", "TRACES_", "DefaultTracesPath"},
	{"exporters/otlp/otlptrace/otlptracehttp", otlpBase + "otlptrace/otlptracehttp/internal/otlpconfig", "TRACES_", "DefaultTracesPath"},
	{"exporters/otlp/otlpmetric/otlpmetricgrpc", otlpBase + "otlpmetric/otlpmetricgrpc/internal/oconf", "METRICS_", "DefaultMetricsPath"},
	{"exporters/otlp/otlpmetric/otlpmetrichttp", otlpBase + "otlpmetric/otlpmetrichttp/internal/oconf", "METRICS_", "DefaultMetricsPath"},
}

func c20(c *Ctx) {
	c.Rule("R1", "E4 ordering table", "generic OTEL_EXPORTER_OTLP_X is read before the signal-specific <SIGNAL>_X where later wins (trace/metric exporters); the log exporters list the signal-specific variable first where the first hit wins; option-aware resolvers run before the fallback", 60)
	c.Rule("R2", "E3 ordering", "defaults → environment → user options in NewHTTPConfig/NewGRPCConfig (four copies); log exporters apply options before resolving environment and defaults", 10)
	c.Rule("R3", "E4 constants", "endpoint path rule: generic ENDPOINT appends the signal's default path to the URL path, the signal-specific ENDPOINT is used verbatim ('/' when empty)", 11)
	c.Rule("R4", "E7 cfgflow", "no environment- or option-derived integer reaches a panicking sink unsanitised: BatchSpanProcessor sizes, sdk/log batch settings (clearLessThanOne → fallback chain), PeriodicReader interval/timeout", 12)
	c.Rule("R5", "E2 table", "samplerFromEnv: six sampler names ↦ constructors, missing argument ↦ ratio 1.0, invalid argument ↦ ratio 1.0 plus the error, unknown name ↦ error; firstInt / IntEnvOr return the default on parse errors and prefer the signal-specific key; a set key always decides", 13)
	c.Rule("R6", "E3 ordering", "SDK constructors read the environment before applying options", 3)

	c.Rule("R7", "E3 must-pass (negative form)", "environment readers of the trace/metric exporters (later reader wins): once the variable is present the setter is called on every path, excused only by a parse/read error — so a signal-specific value always replaces what the generic variable set", 32)
	for _, ec := range envCopies {
		ix := c.Index(ec.dir, ec.pkg)
		if ix == nil {
			continue
		}
		c20EnvCopy(c, ix, ec)
		c20EnvReaders(c, ix, "WithEnvCompression")
		if ex := c.Index(ec.dir, ec.pkg[:strings.LastIndex(ec.pkg, "/")]+"/envconfig"); ex != nil {
			c20EnvReaders(c, ex, "WithString", "WithBool", "WithDuration", "WithHeaders", "WithURL", "WithCertPool", "WithClientCert")
		}
	}
	for _, m := range otlpClients {
		if m.signal != "log" {
			continue
		}
		if ix := c.Index(m.dir, m.pkg); ix != nil {
			c20LogConfig(c, ix, m)
		}
	}
	c.Rule("R8", "E3 must-pass (negative form)", "gRPC clients: the resolved headers become the outgoing metadata on every path of client construction that yields a client (also when the caller supplies the connection), excused only by an empty header map", 3)
	for _, m := range otlpClients {
		if m.kind != "grpc" {
			continue
		}
		ix := c.Index(m.dir, m.pkg)
		if ix == nil {
			continue
		}
		info := ix.Pkg.TypesInfo
		fn := c.Fn(ix, "R8", "newClient")
		if fn == nil {
			continue
		}
		g := ix.FG(fn)
		var hdrText string
		through := toSet(g.Match(func(n ast.Node) bool {
			call, ok := n.(*ast.CallExpr)
			if ok && isCallTo(info, call, "google.golang.org/grpc/metadata.New") && len(call.Args) == 1 {
				hdrText = exprStr(call.Args[0])
				return true
			}
			return false
		}))
		noHeaders := func(e *GEdge) bool {
			return edgeImplies(e, func(cnd ast.Expr, pol int) bool {
				l, op, r, ok := cmpNorm(cnd, pol)
				if !ok {
					return false
				}
				isLenH := func(x ast.Expr) bool {
					call, ok := unparen(x).(*ast.CallExpr)
					return ok && builtinName(info, call) == "len" && len(call.Args) == 1 && exprStr(call.Args[0]) == hdrText
				}
				if v, isC := constInt(info, r); isC && isLenH(l) {
					return (op == token.LEQ && v == 0) || (op == token.EQL && v == 0) || (op == token.LSS && v == 1)
				}
				return false
			})
		}
		// success returns: every return whose client result is not nil
		bad := ""
		seen, parent := g.ReachFromEntry(func(x *GNode) bool { return through[x] }, noHeaders)
		for x := range seen {
			rs, ok := x.N.(*ast.ReturnStmt)
			if !ok || len(rs.Results) == 0 || isNilIdent(info, rs.Results[0]) {
				continue
			}
			bad = g.pathLines(parent, x)
		}
		c.Check(len(through) > 0 && bad == "", "R8", short(m)+"|newClient|headers → metadata on every constructing path", at(ix.M, fn.Pos()), "metadata.New("+hdrText+") cut only by an empty map",
			"a client is returned without the configured headers ("+bad+"): headers from options or OTEL_EXPORTER_OTLP_*_HEADERS are silently not sent on that path (e.g. with a caller-supplied connection)")
	}
	c20SDK(c)
}

func c20EnvCopy(c *Ctx, ix *PkgIndex, ec envCopy) {
	info := ix.Pkg.TypesInfo
	sp := shortPkg(ix.Pkg.PkgPath)
	sp = sp[strings.Index(sp, "otlp/")+5:]
	fn := c.Fn(ix, "R1", "getOptionsFromEnv")
	if fn == nil {
		return
	}
	// the Apply(...) call
	var apply *ast.CallExpr
	inspectNoLit(fn.Body(), func(n ast.Node) bool {
		if call, ok := n.(*ast.CallExpr); ok {
			if cf := callee(info, call); cf != nil && cf.Name() == "Apply" && len(call.Args) > 5 {
				apply = call
			}
		}
		return true
	})
	if apply == nil {
		c.Violation("R1", sp+"|getOptionsFromEnv|Apply(...)", at(ix.M, fn.Pos()), "the reader Apply call was not found")
		return
	}
	pos := map[string]int{}
	var lits = map[string]*ast.FuncLit{}
	for i, a := range apply.Args {
		call, ok := unparen(a).(*ast.CallExpr)
		if !ok {
			continue
		}
		for _, arg := range call.Args {
			if s, isS := constString(info, arg); isS {
				pos[s] = i
			}
			if l, isL := unparen(arg).(*ast.FuncLit); isL && len(call.Args) >= 1 {
				if s, isS := constString(info, call.Args[0]); isS {
					lits[s] = l
				}
			}
		}
	}
	var keys []string
	for k := range pos {
		keys = append(keys, k)
	}
	sort.Strings(keys)
	n := 0
	for _, k := range keys {
		if strings.HasPrefix(k, ec.signalPrefix) {
			g := strings.TrimPrefix(k, ec.signalPrefix)
			if g == "TEMPORALITY_PREFERENCE" || g == "DEFAULT_HISTOGRAM_AGGREGATION" {
				continue // metrics-only settings: the specification defines no generic variable
			}
			gi, has := pos[g]
			n++
			c.Check(has && gi < pos[k], "R1", sp+"|getOptionsFromEnv|"+g+" read before "+k, at(ix.M, apply.Pos()), "later reader wins ⇒ signal-specific overrides generic",
				"the signal-specific variable "+k+" is read before (or without) the generic "+g+": the generic value would override the specific one")
		}
	}
	if n < 8 {
		c.Violation("R1", sp+"|getOptionsFromEnv|pairs", at(ix.M, apply.Pos()), "fewer generic/specific variable pairs than expected ("+itoa(n)+")")
	}
	// R3 endpoint closures
	fPath := (*types.Var)(nil)
	if sc := lookupType(ix.Pkg, "SignalConfig"); sc != nil {
		fPath = lookupField(ix.Pkg, "SignalConfig", "URLPath")
	}
	for _, k := range []string{"ENDPOINT", ec.signalPrefix + "ENDPOINT"} {
		l := lits[k]
		key := sp + "|getOptionsFromEnv|" + k + " URL path rule"
		if l == nil || fPath == nil {
			c.Violation("R3", key, at(ix.M, apply.Pos()), "endpoint closure not found")
			continue
		}
		var srcs []string
		usesDefault := false
		ast.Inspect(l, func(n ast.Node) bool {
			if as, ok := n.(*ast.AssignStmt); ok && len(as.Lhs) == 1 && len(as.Rhs) == 1 && isField(info, as.Lhs[0], fPath) {
				srcs = append(srcs, exprStr(as.Rhs[0]))
			}
			if id, ok := n.(*ast.Ident); ok && id.Name == ec.defaultPath {
				usesDefault = true
			}
			return true
		})
		// the (single) assigned expression, analysed by type rather than by the closure's parameter name
		var rhs ast.Expr
		ast.Inspect(l, func(n ast.Node) bool {
			if as, ok := n.(*ast.AssignStmt); ok && len(as.Lhs) == 1 && len(as.Rhs) == 1 && isField(info, as.Lhs[0], fPath) {
				rhs = as.Rhs[0]
			}
			return true
		})
		if k == "ENDPOINT" {
			good := false
			if call, ok := unparen(rhs).(*ast.CallExpr); ok && len(srcs) == 1 && isCallTo(info, call, "path.Join") && len(call.Args) == 2 {
				k2 := constObj(info, call.Args[1])
				good = isURLPath(info, call.Args[0]) && k2 != nil && k2.Name() == ec.defaultPath
			}
			c.Check(good, "R3", key, at(ix.M, l.Pos()), "URLPath ← "+strings.Join(srcs, ","),
				"generic endpoint: URLPath ← "+strings.Join(srcs, ",")+", specified path.Join(<url>.Path, "+ec.defaultPath+")")
		} else {
			// verbatim: <url>.Path (possibly through a local) with "/" for empty, never the default path
			okV := len(srcs) == 1 && !usesDefault
			if okV {
				okV = isURLPath(info, rhs)
				if v := objOf(info, rhs); v != nil && !okV {
					// a local defined from <url>.Path
					ast.Inspect(l, func(n ast.Node) bool {
						if as, ok := n.(*ast.AssignStmt); ok && as.Tok == token.DEFINE && len(as.Lhs) == 1 && len(as.Rhs) == 1 && objOf(info, as.Lhs[0]) == v && isURLPath(info, as.Rhs[0]) {
							okV = true
						}
						return true
					})
				}
			}
			root := false
			ast.Inspect(l, func(n ast.Node) bool {
				if bl, ok := n.(*ast.BasicLit); ok && bl.Value == `"/"` {
					root = true
				}
				return true
			})
			c.Check(okV && root, "R3", key, at(ix.M, l.Pos()), "URLPath ← <url>.Path (\"/\" when empty)", "signal-specific endpoint is not used verbatim (default path appended: "+boolStr(usesDefault)+")")
		}
		// Endpoint host
	}
	// R2 constructor order
	for _, ctor := range []struct{ name, envFn, applyM string }{{"NewHTTPConfig", "ApplyHTTPEnvConfigs", "ApplyHTTPOption"}, {"NewGRPCConfig", "ApplyGRPCEnvConfigs", "ApplyGRPCOption"}} {
		fn := c.Fn(ix, "R2", ctor.name)
		if fn == nil {
			continue
		}
		g := ix.FG(fn)
		lit := g.Match(func(n ast.Node) bool {
			cl, ok := n.(*ast.CompositeLit)
			return ok && typeIs(info.Types[cl].Type, ix.Pkg.PkgPath, "Config")
		})
		env := g.Match(func(n ast.Node) bool {
			call, ok := n.(*ast.CallExpr)
			if !ok {
				return false
			}
			cf := callee(info, call)
			return cf != nil && cf.Name() == ctor.envFn
		})
		opts := g.Match(func(n ast.Node) bool {
			call, ok := n.(*ast.CallExpr)
			if !ok {
				return false
			}
			cf := callee(info, call)
			return cf != nil && cf.Name() == ctor.applyM
		})
		good := len(lit) >= 1 && len(env) == 1 && len(opts) == 1
		if good {
			d1, _ := g.DominatedByNodes(env[0], toSet(lit[:1]))
			d2, _ := g.DominatedByNodes(opts[0], toSet(env))
			s, _ := g.Reach([]*GNode{opts[0]}, nil, nil)
			good = d1 && d2 && !s[env[0]]
		}
		c.Check(good, "R2", sp+"|"+ctor.name+"|defaults → "+ctor.envFn+" → user options", at(ix.M, fn.Pos()), "options override environment overrides defaults", "configuration sources are applied in another order: an environment variable overrides an explicit option (or defaults override both)")
	}
	// what the connection derives from a setting is derived from the setting's final value: the compressor dial option is
	// appended in NewGRPCConfig, after every source has been applied, under a test of the resolved Compression field — an option
	// or environment hook that appends it while the sources are applied cannot be overridden by a later source saying "none"
	if fn := ix.Func("NewGRPCConfig"); fn != nil {
		g := ix.FG(fn)
		n, good, why := 0, true, ""
		var pos token.Pos = fn.Pos()
		for _, f := range ix.All {
			inspectNoLit(f.Body(), func(nd ast.Node) bool {
				call, ok := nd.(*ast.CallExpr)
				if !ok || !isCallTo(info, call, "google.golang.org/grpc.UseCompressor") {
					return true
				}
				n++
				if f != fn {
					good, why, pos = false, "in "+ix.Outer(f).Name+" (applied while the sources are still being merged)", call.Pos()
					return true
				}
				x := g.NodeOf(call)
				if x == nil {
					good, why, pos = false, "not located in the flow graph", call.Pos()
					return true
				}
				apply := g.Match(func(m ast.Node) bool {
					c2, ok := m.(*ast.CallExpr)
					if !ok {
						return false
					}
					cf := callee(info, c2)
					return cf != nil && cf.Name() == "ApplyGRPCOption"
				})
				after := len(apply) == 1 && !g.InCycle(x)
				if after {
					// the loop over the options lies behind: the call is reachable from it, and it is not reachable from the call
					s1, _ := g.Reach([]*GNode{apply[0]}, nil, nil)
					s2, _ := g.Reach([]*GNode{x}, nil, nil)
					after = s1[x] && !s2[apply[0]]
				}
				tested, _ := g.DominatedByEdges(x, func(e *GEdge) bool {
					return edgeImplies(e, func(cnd ast.Expr, pol int) bool {
						l, op, r, ok := cmpNorm(cnd, pol)
						if !ok || op != token.EQL {
							return false
						}
						isComp := func(y ast.Expr) bool {
							sel, isSel := unparen(y).(*ast.SelectorExpr)
							return isSel && sel.Sel.Name == "Compression"
						}
						isGzip := func(y ast.Expr) bool {
							o := objOf(info, y)
							return o != nil && o.Name() == "GzipCompression"
						}
						return (isComp(l) && isGzip(r)) || (isComp(r) && isGzip(l))
					})
				})
				if !after || !tested {
					good, why, pos = false, "not under a test of the resolved Compression setting after the options have been applied", call.Pos()
				}
				return true
			})
		}
		c.Check(good && n >= 1, "R2", sp+"|NewGRPCConfig|the compressor dial option is derived from the resolved Compression", at(ix.M, pos), itoa(n)+" site(s), after defaults → environment → options",
			"the gzip dial option is appended "+why+": a source of higher precedence that turns compression off (OTEL_EXPORTER_OTLP_<SIGNAL>_COMPRESSION=none, WithCompression(NoCompression)) cannot retract it")
	}
	// env helper: the value parsers ignore unparsable values (WithDuration returns before fn on error)
	if ep := ix.M.Pkg(strings.Replace(ec.pkg, "/otlpconfig", "/envconfig", 1)); ep != nil || true {
		path := strings.Replace(strings.Replace(ec.pkg, "/otlpconfig", "/envconfig", 1), "/oconf", "/envconfig", 1)
		ex := c.Index(ec.dir, path)
		if ex != nil {
			einfo := ex.Pkg.TypesInfo
			if wd := c.Fn(ex, "R4", "WithDuration"); wd != nil {
				for _, f := range ex.All {
					if f.Lit == nil || ex.Parent[f.Lit] != wd {
						continue
					}
					g := ex.FG(f)
					fnP := wd.Obj.Type().(*types.Signature).Params().At(1)
					calls := g.Match(func(n ast.Node) bool { call, ok := n.(*ast.CallExpr); return ok && sameVar(einfo, call.Fun, fnP) })
					good := len(calls) == 1
					if good {
						good, _ = g.DominatedByEdges(calls[0], func(e *GEdge) bool {
							return edgeImplies(e, func(cnd ast.Expr, pol int) bool {
								nn, ok := nilCmp(einfo, cnd, pol, func(x ast.Expr) bool { return isErrVar(einfo, x) })
								return ok && !nn
							})
						})
					}
					// and the unit
					unit := false
					inspectNoLit(f.Body(), func(n ast.Node) bool {
						if be, ok := n.(*ast.BinaryExpr); ok && be.Op == token.MUL && strings.Contains(exprStr(be), "time.Millisecond") {
							unit = true
						}
						return true
					})
					c.Check(good && unit, "R4", sp+"|envconfig.WithDuration|unparsable timeout ignored; value × time.Millisecond", at(ex.M, wd.Pos()), "callback only on a parsed value", "an unparsable OTEL_EXPORTER_OTLP_*TIMEOUT reaches the configuration (or loses its millisecond unit)")
				}
			}
		}
	}
}

func c20LogConfig(c *Ctx, ix *PkgIndex, m otlpMod) {
	info := ix.Pkg.TypesInfo
	sp := short(m)
	// env key lists: signal-specific first
	n := 0
	for _, f := range ix.Pkg.Syntax {
		ast.Inspect(f, func(nd ast.Node) bool {
			vs, ok := nd.(*ast.ValueSpec)
			if !ok {
				return true
			}
			for i, nm := range vs.Names {
				if !strings.HasPrefix(nm.Name, "env") || i >= len(vs.Values) {
					continue
				}
				cl, ok := unparen(vs.Values[i]).(*ast.CompositeLit)
				if !ok {
					continue
				}
				var ks []string
				ast.Inspect(cl, func(m2 ast.Node) bool {
					if e, ok := m2.(ast.Expr); ok {
						if s, isS := constString(info, e); isS && strings.HasPrefix(s, "OTEL_EXPORTER_OTLP_") {
							ks = append(ks, s)
						}
					}
					return true
				})
				if len(ks) < 2 {
					continue
				}
				// every LOGS_ key precedes its generic counterpart
				good := true
				idx := map[string]int{}
				for j, k := range ks {
					idx[k] = j
				}
				for k, j := range idx {
					if strings.Contains(k, "_LOGS_") {
						g := strings.Replace(k, "_LOGS_", "_", 1)
						if gj, has := idx[g]; !has || gj < j {
							good = false
						}
					}
				}
				n++
				c.Check(good, "R1", sp+"|"+nm.Name+"|signal-specific key listed before the generic one", at(ix.M, nm.Pos()), strings.Join(ks, " > "), "the generic variable is consulted before the LOGS-specific one ("+strings.Join(ks, ", ")+"): first hit wins, so the generic value overrides the specific one")
			}
			return true
		})
	}
	if n < 5 {
		c.Violation("R1", sp+"|env key lists", at(ix.M, ix.Pkg.Syntax[0].Pos()), "fewer env key lists than expected")
	}
	// getenv: option wins (s.Set ⇒ return), first successful key wins (break), invalid values skipped
	getenvName := "getenv"
	if ix.Func("getenv") == nil && ix.Func("getEnv") != nil {
		getenvName = "getEnv"
	}
	c20SettingPrecedence(c, ix, sp, getenvName)
	// every walk over a list of environment variable names that converts the value: a value that does not convert is reported
	// and the NEXT name is consulted — "the highest-precedence source that provides it", and an unparsable value provides nothing.
	// (Loops that take the first set variable without converting inside the loop, like the TLS files, have no error arm to judge.)
	{
		var bad []string
		nLoops := 0
		for _, f := range ix.All {
			if f.Body() == nil {
				continue
			}
			var loops []*ast.RangeStmt
			inspectNoLit(f.Body(), func(n ast.Node) bool {
				if r, ok := n.(*ast.RangeStmt); ok && r.Value != nil {
					loops = append(loops, r)
				}
				return true
			})
			for _, r := range loops {
				kv := objOf(info, r.Value)
				if kv == nil {
					continue
				}
				// v := os.Getenv(key)
				envVals := map[types.Object]bool{}
				inspectNoLit(r.Body, func(n ast.Node) bool {
					if as, ok := n.(*ast.AssignStmt); ok && len(as.Lhs) == len(as.Rhs) {
						for i, rhs := range as.Rhs {
							if call, isC := unparen(rhs).(*ast.CallExpr); isC && isCallTo(info, call, "os.Getenv") && len(call.Args) == 1 && objOf(info, call.Args[0]) == kv {
								if o := objOf(info, as.Lhs[i]); o != nil {
									envVals[o] = true
								}
							}
						}
					}
					return true
				})
				if len(envVals) == 0 {
					continue
				}
				// x, err := conv(v)
				errVars := map[types.Object]bool{}
				inspectNoLit(r.Body, func(n ast.Node) bool {
					as, ok := n.(*ast.AssignStmt)
					if !ok || len(as.Rhs) != 1 || len(as.Lhs) < 1 {
						return true
					}
					call, isC := unparen(as.Rhs[0]).(*ast.CallExpr)
					if !isC {
						return true
					}
					takes := false
					for _, a := range call.Args {
						if envVals[objOf(info, a)] {
							takes = true
						}
					}
					last := as.Lhs[len(as.Lhs)-1]
					if takes && isErrVar(info, last) {
						if o := objOf(info, last); o != nil {
							errVars[o] = true
						}
					}
					return true
				})
				if len(errVars) == 0 {
					continue
				}
				nLoops++
				g := ix.FG(f)
				isHead := func(y *GNode) bool {
					return y.N == nil && y.Blk != nil && y.Blk.Kind.String() == "RangeLoop"
				}
				for _, x := range g.Nodes {
					if x.N == nil || !containsNoLitOrIn(r.Body, x.N) {
						continue
					}
					for _, e := range x.Succs {
						isErrArm := edgeImplies(e, func(cnd ast.Expr, pol int) bool {
							nn, ok := nilCmp(info, cnd, pol, func(y ast.Expr) bool { return errVars[objOf(info, y)] })
							return ok && nn
						})
						if !isErrArm {
							continue
						}
						seen, par := g.ReachFromEdge(e, isHead)
						for y := range seen {
							if y == g.Exit || (y.N == nil && y.Blk != nil && y.Blk.Kind.String() == "RangeDone") {
								bad = append(bad, f.Name+" ("+g.pathLines(par, y)+")")
							}
						}
					}
				}
			}
		}
		sort.Strings(bad)
		c.Check(len(bad) == 0, "R1", sp+"|environment walks|a value that does not convert is skipped, the next variable is consulted", at(ix.M, ix.Pkg.Syntax[0].Pos()), itoa(nLoops)+" converting walk(s)",
			"an unparsable value of the signal-specific variable ends the look-up instead of falling through to the generic variable: "+joinStr(bad)+" — the setting silently becomes the default although the generic variable provides it")
	}
	// newConfig: options applied before every Resolve; in each Resolve the fallback is last and getenv precedes it
	if fn := c.Fn(ix, "R2", "newConfig"); fn != nil {
		g := ix.FG(fn)
		opts := g.Match(func(n ast.Node) bool {
			call, ok := n.(*ast.CallExpr)
			if !ok {
				return false
			}
			cf := callee(info, call)
			return cf != nil && (cf.Name() == "applyHTTPOption" || cf.Name() == "applyGRPCOption" || cf.Name() == "applyOption")
		})
		res := g.Match(func(n ast.Node) bool {
			call, ok := n.(*ast.CallExpr)
			if !ok {
				return false
			}
			cf := callee(info, call)
			return cf != nil && cf.Name() == "Resolve"
		})
		good := len(opts) == 1 && len(res) >= 5
		if good {
			s, _ := g.Reach([]*GNode{res[0]}, nil, nil)
			for _, r := range res {
				if d, _ := g.DominatedByNodes(r, toSet(opts)); !d {
					// the options loop may be empty: dominance by the loop's range expression is enough
					good = good && true
				}
				_ = r
			}
			if s[opts[0]] {
				good = false
			}
		}
		c.Check(good, "R2", sp+"|newConfig|options applied before environment/default resolution", at(ix.M, fn.Pos()), itoa(len(res))+" Resolve chains after the options loop", "environment/default resolution runs before the options are applied: options cannot take precedence")
		// Resolve argument order
		cnt := 0
		inspectNoLit(fn.Body(), func(n ast.Node) bool {
			call, ok := n.(*ast.CallExpr)
			if !ok {
				return true
			}
			cf := callee(info, call)
			if cf == nil || cf.Name() != "Resolve" {
				return true
			}
			var names []string
			for _, a := range call.Args {
				if ac, ok := unparen(a).(*ast.CallExpr); ok {
					if f2 := callee(info, ac); f2 != nil {
						names = append(names, f2.Name())
					}
				}
			}
			good := true
			seenFallback := false
			for _, nm := range names {
				if seenFallback {
					good = false
				}
				if nm == "fallback" {
					seenFallback = true
				}
			}
			cnt++
			recv, _ := methodCall(info, call)
			c.Check(good, "R1", sp+"|newConfig|Resolve("+exprStr(recv)+"): fallback last", at(ix.M, call.Pos()), strings.Join(names, " → "), "a resolver runs after the fallback in "+strings.Join(names, " → ")+": the default wins over the environment")
			return true
		})
	}
	// R3 path converters
	for _, sp2 := range []struct {
		fn      string
		verbose string
		exact   bool
	}{{"convPathExact", "signal-specific endpoint: path verbatim, '/' when empty", true}, {"convPath", "generic endpoint: default logs path appended", false}} {
		if m.kind != "http" {
			continue // gRPC has no URL path
		}
		fn := c.Fn(ix, "R3", sp2.fn)
		if fn == nil {
			continue
		}
		usesDefault, root, joins := false, false, false
		inspectNoLit(fn.Body(), func(n ast.Node) bool {
			switch x := n.(type) {
			case *ast.Ident:
				if x.Name == "defaultPath" {
					usesDefault = true
				}
			case *ast.BasicLit:
				if x.Value == `"/"` {
					root = true
				}
				if x.Value == `"/v1/logs"` {
					usesDefault = true
				}
			case *ast.BinaryExpr:
				if x.Op == token.ADD && isURLPath(info, x.X) {
					joins = true
				}
			case *ast.CallExpr:
				if isCallTo(info, x, "path.Join") || strings.Contains(exprStr(x), "JoinPath") {
					joins = true
				}
			}
			return true
		})
		if sp2.exact {
			c.Check(!usesDefault && root, "R3", sp+"|"+sp2.fn+"|"+sp2.verbose, at(ix.M, fn.Pos()), "u.Path or \"/\"", "the signal-specific endpoint's path is not used verbatim")
		} else {
			c.Check(usesDefault && joins, "R3", sp+"|"+sp2.fn+"|"+sp2.verbose, at(ix.M, fn.Pos()), "path.Join(u.Path, defaultPath)", "the generic endpoint does not get the signal's default path appended")
		}
	}
	// which converter goes with which key list
	if fn := ix.Func("newConfig"); fn != nil {
		pairs := map[string]string{}
		inspectNoLit(fn.Body(), func(n ast.Node) bool {
			if call, ok := n.(*ast.CallExpr); ok && len(call.Args) == 2 {
				if cf := callee(info, call); cf != nil && (cf.Name() == "getenv" || cf.Name() == "getEnv") {
					pairs[exprStr(call.Args[0])] = exprStr(call.Args[1])
				}
			}
			return true
		})
		if m.kind == "http" {
			c.Check(pairs["envPathSignal"] == "convPathExact" && pairs["envPathOTLP"] == "convPath", "R3", sp+"|newConfig|LOGS_ENDPOINT ↦ convPathExact, ENDPOINT ↦ convPath, signal first", at(ix.M, fn.Pos()), "exact for the signal variable, joined for the generic one",
				"path converters are attached to the wrong variables: "+pairs["envPathSignal"]+" / "+pairs["envPathOTLP"])
		}
	}
}

// c20SettingPrecedence: the two resolvers every setting chain is built from keep "option over environment over default":
// getenv leaves a set value alone and stores only a parsed value; fallback stores only when nothing is set.
func c20SettingPrecedence(c *Ctx, ix *PkgIndex, sp, getenvName string) {
	info := ix.Pkg.TypesInfo
	if fn := c.Fn(ix, "R1", getenvName); fn != nil {
		for _, f := range ix.All {
			if f.Lit == nil || ix.Parent[f.Lit] != fn {
				continue
			}
			g := ix.FG(f)
			fSet := (*types.Var)(nil)
			if st := lookupType(ix.Pkg, "setting"); st != nil {
				fSet = lookupField(ix.Pkg, "setting", "Set")
			}
			// under s.Set == true (at entry) nothing reads the environment
			env := func(e ast.Expr) (constant.Value, bool) {
				if fSet != nil && isField(info, e, fSet) {
					return constant.MakeBool(true), true
				}
				return nil, false
			}
			reads := false
			for x := range g.ReachUnder(env) {
				if x.N == nil {
					continue
				}
				inspectNoLit(x.N, func(n ast.Node) bool {
					if call, ok := n.(*ast.CallExpr); ok && (isCallTo(info, call, "os.Getenv") || isCallTo(info, call, "os.LookupEnv")) {
						reads = true
					}
					return true
				})
			}
			// after a successful conversion the loop is left (break / return); a value is produced either by storing
			// s.Set = true or by returning newSetting(v) / a setting literal with Set: true
			stores := g.Match(func(n ast.Node) bool { return producesSetting(ix, n, fSet) })
			leaves := len(stores) >= 1
			emptyOK := true
			for _, st := range stores {
				s, _ := g.Reach([]*GNode{st}, func(y *GNode) bool {
					return y.N == nil && y.Blk != nil && (y.Blk.Kind.String() == "RangeDone")
				}, nil)
				for y := range s {
					if y.N == nil && y.Blk != nil && y.Blk.Kind.String() == "RangeLoop" {
						leaves = false
					}
				}
				// dominated by err == nil
				d, _ := g.DominatedByEdges(st, func(e *GEdge) bool {
					return edgeImplies(e, func(cnd ast.Expr, pol int) bool {
						nn, ok := nilCmp(info, cnd, pol, func(x ast.Expr) bool { return isErrVar(info, x) })
						return ok && !nn
					})
				})
				leaves = leaves && d
				// a variable that is set to the empty string provides nothing (the OTLP exporter specification treats it as unset):
				// the converted value is stored only for a non-empty string, so the walk goes on to the generic variable
				ne, _ := g.DominatedByEdges(st, func(e *GEdge) bool {
					return edgeImplies(e, func(cnd ast.Expr, pol int) bool {
						l, op, r, ok := cmpNorm(cnd, pol)
						if !ok || op != token.NEQ {
							return false
						}
						for _, pr := range [][2]ast.Expr{{l, r}, {r, l}} {
							if sv, isS := constString(info, pr[1]); isS && sv == "" {
								if tv, has := info.Types[pr[0]]; has {
									if b, isB := tv.Type.Underlying().(*types.Basic); isB && b.Info()&types.IsString != 0 {
										return true
									}
								}
							}
						}
						return false
					})
				})
				if !ne {
					emptyOK = false
				}
			}
			c.Check(emptyOK, "R1", sp+"|getenv|a variable set to the empty string is skipped", at(ix.M, f.Pos()), "the converted value is stored only for a non-empty string",
				"a signal-specific variable that is set but empty is handed to the converter and can win over the generic variable (an empty compression value selects no compression, an empty endpoint an empty host)")
			c.Check(!reads && leaves, "R1", sp+"|getenv|an explicit option wins; the first valid variable wins; invalid values are skipped", at(ix.M, f.Pos()), "s.Set short-circuits; break after the first success; store dominated by err == nil",
				"environment resolution semantics changed (env read although an option is set: "+boolStr(reads)+")")
		}
	}
	if fn := c.Fn(ix, "R1", "fallback"); fn != nil {
		for _, f := range ix.All {
			if f.Lit == nil || ix.Parent[f.Lit] != fn {
				continue
			}
			g := ix.FG(f)
			fVal := lookupField(ix.Pkg, "setting", "Value")
			fSet := lookupField(ix.Pkg, "setting", "Set")
			st := g.Match(func(n ast.Node) bool {
				return assignRHS(n, func(e ast.Expr) bool { return isField(info, e, fVal) }) != nil || producesSetting(ix, n, fSet)
			})
			good := len(st) >= 1
			for _, x := range st {
				d, _ := g.DominatedByEdges(x, func(e *GEdge) bool {
					return edgeImplies(e, func(cnd ast.Expr, pol int) bool { return pol < 0 && isField(info, cnd, fSet) })
				})
				good = good && d
			}
			c.Check(good, "R1", sp+"|fallback|default only when nothing set the value", at(ix.M, f.Pos()), "Value ← default dominated by !s.Set", "the default overrides an explicitly configured value")
		}
	}
}

func c20SDK(c *Ctx) {
	tx := c.Index("sdk", sdkTrace)
	lx := c.Index("sdk/log", sdkLog)
	mx := c.Index("sdk/metric", sdkMetric)
	ex := c.Index("sdk", "go.opentelemetry.io/otel/sdk/internal/env")
	if tx == nil || lx == nil || mx == nil || ex == nil {
		return
	}
	tinfo := tx.Pkg.TypesInfo

	// R4 (a) BatchSpanProcessor sizes
	if fn := c.Fn(tx, "R4", "NewBatchSpanProcessor"); fn != nil {
		g := tx.FG(fn)
		for _, fld := range []string{"MaxQueueSize", "MaxExportBatchSize"} {
			fv := lookupField(tx.Pkg, "BatchSpanProcessorOptions", fld)
			sinks := g.Match(func(n ast.Node) bool {
				call, ok := n.(*ast.CallExpr)
				if !ok || builtinName(tinfo, call) != "make" || len(call.Args) < 2 {
					return false
				}
				for _, a := range call.Args[1:] {
					if isField(tinfo, a, fv) {
						return true
					}
				}
				return false
			})
			key := "sdk/trace|NewBatchSpanProcessor|make(…, o." + fld + ") only with a non-negative size"
			if len(sinks) == 0 {
				c.Violation("R4", key, at(tx.M, fn.Pos()), "allocation sized by "+fld+" not found")
				continue
			}
			facts := g.MustFlow(nil, func(e *GEdge) []string {
				if edgeImplies(e, func(cnd ast.Expr, pol int) bool {
					l, op, r, ok := cmpNorm(cnd, pol)
					k, isC := constInt(tinfo, r)
					return ok && isField(tinfo, l, fv) && isC && ((op == token.GEQ && k >= 0) || (op == token.GTR && k >= -1))
				}) {
					return []string{"ok"}
				}
				return nil
			}, func(y *GNode, in FactSet) FactSet {
				inspectNoLit(y.N, func(m ast.Node) bool {
					switch s := m.(type) {
					case *ast.AssignStmt:
						for i, l := range s.Lhs {
							if isField(tinfo, l, fv) {
								// x.f = x.f leaves what is known about it as it is
								if len(s.Lhs) == len(s.Rhs) && isField(tinfo, s.Rhs[i], fv) && pathKey(tinfo, l) != "" && pathKey(tinfo, l) == pathKey(tinfo, s.Rhs[i]) {
									continue
								}
								delete(in, "ok")
								if len(s.Lhs) == len(s.Rhs) {
									r := unparen(s.Rhs[i])
									if k := constObj(tinfo, r); k != nil {
										if v, isC := constant.Int64Val(constant.ToInt(k.Val())); isC && v >= 0 {
											in["ok"] = true
										}
									}
									if v, isC := constInt(tinfo, r); isC && v >= 0 {
										in["ok"] = true
									}
									if call, ok := r.(*ast.CallExpr); ok && nonNegativeCall(tx, call) {
										in["ok"] = true
									}
									if call, ok := r.(*ast.CallExpr); ok && builtinName(tinfo, call) == "max" {
										for _, a := range call.Args {
											if v, isC := constInt(tinfo, a); isC && v >= 0 {
												in["ok"] = true
											}
										}
									}
								}
							}
						}
					case *ast.CallExpr:
						// a call that receives &o may write the field
						for _, a := range s.Args {
							if u, ok := unparen(a).(*ast.UnaryExpr); ok && u.Op == token.AND {
								if tv, ok := tinfo.Types[u.X]; ok && typeIs(tv.Type, sdkTrace, "BatchSpanProcessorOptions") {
									delete(in, "ok")
								}
							}
						}
					case *ast.CompositeLit:
						if typeIs(tinfo.Types[s].Type, sdkTrace, "BatchSpanProcessorOptions") {
							delete(in, "ok")
						}
					}
					return true
				})
				return in
			})
			good := true
			for _, x := range sinks {
				if !facts[x]["ok"] {
					good = false
				}
			}
			c.Check(good, "R4", key, at(tx.M, sinks[0].N.Pos()), "size is known non-negative at the allocation",
				"a negative "+fld+" (With"+fld+"(-1) or OTEL_BSP_* = -1) reaches make(): the constructor panics (makechan/makeslice: size out of range)")
		}
	}
	ruleLogSettingChains(c, lx, "R4")
	// R4 (c) periodic reader
	minfo := mx.Pkg.TypesInfo
	// the environment value is a number of milliseconds: multiplied into a time.Duration it overflows (to a negative value) beyond
	// about 9.2e12 — the product is returned only for a number that passed an upper bound, or after it was itself found positive
	if fn := c.Fn(mx, "R4", "envDuration"); fn != nil {
		g := mx.FG(fn)
		n, bad := 0, ""
		var badPos token.Pos
		for _, x := range g.Nodes {
			rs, ok := x.N.(*ast.ReturnStmt)
			if !ok || len(rs.Results) != 1 {
				continue
			}
			res := unparen(rs.Results[0])
			var prod *ast.BinaryExpr
			checkedVar := types.Object(nil)
			if be, isB := res.(*ast.BinaryExpr); isB && be.Op == token.MUL {
				prod = be
			} else if v := objOf(minfo, res); v != nil {
				if d := g.LocalDef(v); d != nil {
					if be, isB := unparen(d).(*ast.BinaryExpr); isB && be.Op == token.MUL {
						prod, checkedVar = be, v
					}
				}
			}
			if prod == nil {
				continue
			}
			// the integer factor
			var factor types.Object
			for _, side := range []ast.Expr{prod.X, prod.Y} {
				if cv, isC := unparen(side).(*ast.CallExpr); isC && len(cv.Args) == 1 && minfo.Types[cv.Fun].IsType() {
					factor = objOf(minfo, cv.Args[0])
				}
			}
			if factor == nil {
				continue
			}
			n++
			ok2, _ := g.DominatedByEdges(x, func(e *GEdge) bool {
				return edgeImplies(e, func(cnd ast.Expr, pol int) bool {
					l, op, r, good := cmpNorm(cnd, pol)
					if !good {
						return false
					}
					// factor <= K / factor < K (an upper bound on the number of milliseconds), through an integer conversion
					if cv, isC := unparen(l).(*ast.CallExpr); isC && len(cv.Args) == 1 && minfo.Types[cv.Fun].IsType() {
						l = cv.Args[0]
					}
					if sameVar(minfo, l, factor) && (op == token.LEQ || op == token.LSS) {
						if tv, has := minfo.Types[r]; has && tv.Value != nil {
							return true
						}
					}
					// the product itself found positive
					if checkedVar != nil && sameVar(minfo, l, checkedVar) && (op == token.GTR || op == token.GEQ) {
						if k, isC := constInt(minfo, r); isC && ((op == token.GTR && k >= 0) || (op == token.GEQ && k >= 1)) {
							return true
						}
					}
					return false
				})
			})
			if !ok2 {
				bad, badPos = exprStr(prod)+" is returned without an upper bound on "+factor.Name(), rs.Pos()
			}
		}
		if n > 0 {
			pos := fn.Pos()
			if bad != "" {
				pos = badPos
			}
			c.Check(bad == "", "R4", "sdk/metric|envDuration|milliseconds × time.Millisecond cannot overflow", at(mx.M, pos), itoa(n)+" product(s), each bounded from above",
				"OTEL_METRIC_EXPORT_INTERVAL / _TIMEOUT above about 9.2e12 overflow time.Duration to a negative value, which reaches time.NewTicker in the reader's goroutine (panic: non-positive interval for NewTicker — the process dies): "+bad)
		}
	}
	for _, nm := range []string{"WithInterval", "WithTimeout"} {
		fn := c.Fn(mx, "R4", nm)
		if fn == nil {
			continue
		}
		d := fn.Obj.Type().(*types.Signature).Params().At(0)
		for _, f := range mx.All {
			if f.Lit == nil || mx.Parent[f.Lit] != fn {
				continue
			}
			g := mx.FG(f)
			st := g.Match(func(n ast.Node) bool {
				as, ok := n.(*ast.AssignStmt)
				return ok && len(as.Rhs) == 1 && sameVar(minfo, as.Rhs[0], d)
			})
			good := len(st) == 1
			if good {
				good, _ = g.DominatedByEdges(st[0], func(e *GEdge) bool {
					return edgeImplies(e, func(cnd ast.Expr, pol int) bool {
						l, op, r, ok := cmpNorm(cnd, pol)
						k, isC := constInt(minfo, r)
						return ok && sameVar(minfo, l, d) && isC && op == token.GTR && k == 0
					})
				})
			}
			c.Check(good, "R4", "sdk/metric|"+nm+"|non-positive durations ignored", at(mx.M, fn.Pos()), "store dominated by d > 0", "a non-positive "+strings.ToLower(strings.TrimPrefix(nm, "With"))+" reaches time.NewTicker / context.WithTimeout (NewTicker panics on a non-positive interval)")
		}
	}
	if fn := c.Fn(mx, "R4", "envDuration"); fn != nil {
		g := mx.FG(fn)
		good := true
		n := 0
		for _, x := range g.Nodes {
			rs, ok := x.N.(*ast.ReturnStmt)
			if !ok || len(rs.Results) != 1 {
				continue
			}
			if v, isV := objOf(minfo, rs.Results[0]).(*types.Var); isV && isParamOf(v, g.F) { // the default handed in by the caller
				continue
			}
			n++
			d1, _ := g.DominatedByEdges(x, func(e *GEdge) bool {
				return edgeImplies(e, func(cnd ast.Expr, pol int) bool {
					_, op, r, ok := cmpNorm(cnd, pol)
					k, isC := constInt(minfo, r)
					return ok && isC && op == token.GTR && k == 0
				})
			})
			d2, _ := g.DominatedByEdges(x, func(e *GEdge) bool {
				return edgeImplies(e, func(cnd ast.Expr, pol int) bool {
					nn, ok := nilCmp(minfo, cnd, pol, func(y ast.Expr) bool { return isErrVar(minfo, y) })
					return ok && !nn
				})
			})
			if !d1 || !d2 || !strings.Contains(exprStr(rs.Results[0]), "time.Millisecond") {
				good = false
			}
		}
		c.Check(good && n == 1, "R4", "sdk/metric|envDuration|parsed, positive, × time.Millisecond — otherwise the default", at(mx.M, fn.Pos()), "invalid OTEL_METRIC_EXPORT_* values fall back", "an unparsable or non-positive OTEL_METRIC_EXPORT_INTERVAL/TIMEOUT is used")
	}

	// R5 sampler table
	if fn := c.Fn(tx, "R5", "samplerFromEnv"); fn != nil {
		g := tx.FG(fn)
		var samplerVar, hasArg types.Object
		// the text of OTEL_TRACES_SAMPLER_ARG: the looked-up value, trimmed or not, under whatever name it is kept
		argVars := map[types.Object]bool{}
		var isArgValue func(e ast.Expr) bool
		isArgValue = func(e ast.Expr) bool {
			e = unparen(e)
			if call, ok := e.(*ast.CallExpr); ok {
				if isCallTo(tinfo, call, "strings.TrimSpace") && len(call.Args) == 1 {
					return isArgValue(call.Args[0])
				}
				return isCallTo(tinfo, call, "os.Getenv") && len(call.Args) == 1 && strings.Contains(exprStr(call.Args[0]), "Arg")
			}
			o := objOf(tinfo, e)
			return o != nil && argVars[o]
		}
		canon := func(e ast.Expr) string {
			if call, ok := unparen(e).(*ast.CallExpr); ok && len(call.Args) == 1 && isArgValue(call.Args[0]) {
				if cf := callee(tinfo, call); cf != nil && cf.Name() == "parseTraceIDRatio" {
					return "parseTraceIDRatio(samplerArg)"
				}
			}
			return exprStr(e)
		}
		inspectNoLit(fn.Body(), func(n ast.Node) bool {
			if as, ok := n.(*ast.AssignStmt); ok && len(as.Lhs) == 2 && len(as.Rhs) == 1 {
				if call, ok := unparen(as.Rhs[0]).(*ast.CallExpr); ok && isCallTo(tinfo, call, "os.LookupEnv") {
					if strings.Contains(exprStr(call.Args[0]), "Arg") {
						hasArg = objOf(tinfo, as.Lhs[1])
						if o := objOf(tinfo, as.Lhs[0]); o != nil {
							argVars[o] = true
						}
					} else {
						samplerVar = objOf(tinfo, as.Lhs[0])
					}
				}
			}
			return true
		})
		want := map[string][2]string{
			"always_on":                {"AlwaysSample()", "AlwaysSample()"},
			"always_off":               {"NeverSample()", "NeverSample()"},
			"traceidratio":             {"TraceIDRatioBased(1.0)", "parseTraceIDRatio(samplerArg)"},
			"parentbased_always_on":    {"ParentBased(AlwaysSample())", "ParentBased(AlwaysSample())"},
			"parentbased_always_off":   {"ParentBased(NeverSample())", "ParentBased(NeverSample())"},
			"parentbased_traceidratio": {"ParentBased(TraceIDRatioBased(1.0))", "ParentBased(parseTraceIDRatio(samplerArg)#0)"},
			"nonsense":                 {"nil+err", "nil+err"},
		}
		var names []string
		for k := range want {
			names = append(names, k)
		}
		sort.Strings(names)
		for _, nm := range names {
			for ai, arg := range []bool{false, true} {
				env := func(e ast.Expr) (constant.Value, bool) {
					if samplerVar != nil && sameVar(tinfo, e, samplerVar) {
						return constant.MakeString(nm), true
					}
					if hasArg != nil && sameVar(tinfo, e, hasArg) {
						return constant.MakeBool(arg), true
					}
					if isBoolVar(tinfo, e) && !sameVar(tinfo, e, hasArg) {
						return constant.MakeBool(true), true
					}
					return nil, false
				}
				var got []string
				seenU := g.ReachUnder(env)
				// the sampler expression with its variable operands replaced by what they hold on this path: ParentBased(root) with
				// root defined as the first result of parseTraceIDRatio(arg) renders as ParentBased(parseTraceIDRatio(arg)#0)
				render := func(e ast.Expr, at *GNode) string {
					call, isC := unparen(e).(*ast.CallExpr)
					if !isC || len(call.Args) != 1 {
						return canon(e)
					}
					if _, isID := unparen(call.Args[0]).(*ast.Ident); !isID {
						return canon(e)
					}
					r := g.ResolveUnder(env, seenU, call.Args[0], at)
					inner := canon(r)
					if rc, isRC := unparen(r).(*ast.CallExpr); isRC {
						if tup, isT := tinfo.TypeOf(rc).(*types.Tuple); isT && tup.Len() > 1 {
							inner += "#0"
						}
					}
					return exprStr(call.Fun) + "(" + inner + ")"
				}
				for x := range seenU {
					if rs, ok := x.N.(*ast.ReturnStmt); ok && len(rs.Results) == 2 {
						d := render(rs.Results[0], x)
						if !isNilIdent(tinfo, rs.Results[1]) && d == "nil" {
							d += "+err"
						}
						got = append(got, d)
					} else if ok && len(rs.Results) == 1 {
						got = append(got, canon(rs.Results[0]))
					}
				}
				sort.Strings(got)
				c.Check(len(got) == 1 && got[0] == want[nm][ai], "R5", "sdk/trace|samplerFromEnv|"+nm+" arg="+boolStr(arg), at(tx.M, fn.Pos()), "→ "+strings.Join(got, ","),
					"OTEL_TRACES_SAMPLER="+nm+" (argument present: "+boolStr(arg)+") yields "+strings.Join(got, ",")+", specified "+want[nm][ai])
			}
		}
	}
	if fn := c.Fn(tx, "R5", "parseTraceIDRatio"); fn != nil {
		g := tx.FG(fn)
		good, n := true, 0
		// the parsed value: first result of strconv.ParseFloat
		var parsed, parseErr types.Object
		inspectNoLit(fn.Body(), func(nd ast.Node) bool {
			if as, ok := nd.(*ast.AssignStmt); ok && len(as.Lhs) == 2 && len(as.Rhs) == 1 {
				if call, isC := unparen(as.Rhs[0]).(*ast.CallExpr); isC && isCallTo(tinfo, call, "strconv.ParseFloat") {
					parsed, parseErr = objOf(tinfo, as.Lhs[0]), objOf(tinfo, as.Lhs[1])
				}
			}
			return true
		})
		ratioArg := func(e ast.Expr) ast.Expr {
			call, ok := unparen(e).(*ast.CallExpr)
			if !ok || len(call.Args) != 1 {
				return nil
			}
			if cf := callee(tinfo, call); cf == nil || cf.Name() != "TraceIDRatioBased" {
				return nil
			}
			return call.Args[0]
		}
		isOne := func(e ast.Expr, env Env) bool {
			v, known := evalConst(tinfo, e, env)
			if !known {
				return false
			}
			f, _ := constant.Float64Val(constant.ToFloat(v))
			return f == 1.0
		}
		for _, x := range g.Nodes {
			rs, ok := x.N.(*ast.ReturnStmt)
			if !ok || len(rs.Results) != 2 {
				continue
			}
			n++
			a := ratioArg(rs.Results[0])
			if a == nil {
				good = false
				continue
			}
			ev, isVar := objOf(tinfo, rs.Results[1]).(*types.Var)
			switch {
			case isNilIdent(tinfo, rs.Results[1]):
				// success: the parsed value itself
				if parsed == nil || !sameVar(tinfo, a, parsed) {
					good = false
				}
			case isVar && !ev.IsField() && definedIn(tinfo, fn.Body(), ev):
				// one return for all outcomes: with the error set the ratio is 1.0, without it the parsed value
				for _, set := range []bool{true, false} {
					env := func(e ast.Expr) (constant.Value, bool) {
						if be, isB := unparen(e).(*ast.BinaryExpr); isB && (be.Op == token.NEQ || be.Op == token.EQL) && isNilIdent(tinfo, be.Y) && sameVar(tinfo, be.X, ev) {
							return constant.MakeBool((be.Op == token.NEQ) == set), true
						}
						return nil, false
					}
					seen := g.ReachUnder(env)
					if !seen[x] {
						continue
					}
					r := g.ResolveUnder(env, seen, a, x)
					if set && !isOne(r, g.withLocals(env)) {
						good = false
					}
					if !set && (parsed == nil || !sameVar(tinfo, r, parsed)) {
						// the parsed variable itself, or an unresolved use of it
						if !(parsed != nil && sameVar(tinfo, a, parsed) && !isOne(r, g.withLocals(env))) {
							good = false
						}
					}
				}
			default:
				// an error value: the fallback ratio
				if !isOne(a, g.withLocals(func(ast.Expr) (constant.Value, bool) { return nil, false })) {
					good = false
				}
			}
		}
		_ = parseErr
		// bounds: a test `< 0` and a test `> 1` on the parsed value, each leading to an error outcome (an error return, or the
		// error variable set)
		lo, hi := false, false
		for _, x := range g.Nodes {
			for _, e := range x.Succs {
				var which *bool
				if edgeImplies(e, func(cnd ast.Expr, pol int) bool {
					l, op, r, ok := cmpNorm(cnd, pol)
					if !ok || parsed == nil || !sameVar(tinfo, l, parsed) {
						return false
					}
					v, isC := constFloat(tinfo, r)
					if isC && op == token.LSS && v == 0 {
						which = &lo
						return true
					}
					if isC && op == token.GTR && v == 1 {
						which = &hi
						return true
					}
					return false
				}) && which != nil {
					// no success (nil error literal) return from here without the error variable having been set
					s, _ := g.ReachFromEdge(e, func(y *GNode) bool {
						as, isAs := y.N.(*ast.AssignStmt)
						if !isAs || len(as.Lhs) != len(as.Rhs) {
							return false
						}
						for i, l := range as.Lhs {
							if v, isV := objOf(tinfo, l).(*types.Var); isV && types.Identical(v.Type(), types.Universe.Lookup("error").Type()) && g.constFlag(as.Rhs[i]) == fvNonNil {
								return true
							}
						}
						return false
					})
					okEdge := true
					for y := range s {
						if rs, isR := y.N.(*ast.ReturnStmt); isR && len(rs.Results) == 2 {
							// reached without the error having been set: a nil literal, or the (still unset) local error variable
							if isNilIdent(tinfo, rs.Results[1]) {
								okEdge = false
							}
							if lv := objOf(tinfo, rs.Results[1]); lv != nil && definedIn(tinfo, fn.Body(), lv) {
								okEdge = false
							}
						}
					}
					if okEdge {
						*which = true
					}
				}
			}
		}
		c.Check(good && n >= 1 && lo && hi, "R5", "sdk/trace|parseTraceIDRatio|invalid / negative / >1 ⇒ ratio 1.0 with the error; valid ⇒ that ratio", at(tx.M, fn.Pos()), "documented fallback", "an invalid sampler argument no longer falls back to ratio 1.0 with an error")
	}
	einfo := ex.Pkg.TypesInfo
	for _, nm := range []string{"firstInt", "IntEnvOr"} {
		fn := c.Fn(ex, "R5", nm)
		if fn == nil {
			continue
		}
		// the default is the int parameter; the parsing may live in a helper this function returns the result of
		var def *types.Var
		if ps := fn.Obj.Type().(*types.Signature).Params(); true {
			for i := 0; i < ps.Len(); i++ {
				if b, isB := ps.At(i).Type().(*types.Basic); isB && b.Kind() == types.Int {
					def = ps.At(i)
				}
			}
		}
		outer := fn
		work, paramOf := ex.workFunc(fn, func(n ast.Node) bool {
			call, isC := n.(*ast.CallExpr)
			return isC && isCallTo(einfo, call, "strconv.Atoi", "strconv.ParseInt")
		})
		delegated := true
		if work != fn && def != nil {
			outerDef := def
			def = paramOf(def)
			inspectNoLit(outer.Body(), func(n ast.Node) bool {
				if rs, isR := n.(*ast.ReturnStmt); isR && len(rs.Results) == 1 {
					call, isC := unparen(rs.Results[0]).(*ast.CallExpr)
					if !(isC && callToDecl(einfo, work)(call)) && !sameVar(einfo, rs.Results[0], outerDef) {
						delegated = false
					}
				}
				return true
			})
			fn = work
		}
		g := ex.FG(fn)
		// err != nil ⇒ return defaultValue
		good := false
		for _, x := range g.Nodes {
			for _, e := range x.Succs {
				if edgeImplies(e, func(cnd ast.Expr, pol int) bool {
					nn, ok := nilCmp(einfo, cnd, pol, func(y ast.Expr) bool { return isErrVar(einfo, y) })
					return ok && nn
				}) {
					s, _ := g.ReachFromEdge(e, nil)
					only, k := true, 0
					for y := range s {
						if rs, ok := y.N.(*ast.ReturnStmt); ok && inEdgeScope(y, e) {
							k++
							if v, isV := objOf(einfo, rs.Results[0]).(*types.Var); !isV || def == nil || v != def {
								only = false
							}
						}
					}
					_ = k
					good = only
				}
			}
		}
		good = good && delegated
		fn = outer
		c.Check(good, "R5", "sdk/internal/env|"+nm+"|parse error ⇒ default", at(ex.M, fn.Pos()), "unparsable values are ignored", "an unparsable integer variable does not fall back to the default")
	}
	// firstInt: the next key is consulted only when this one is unset — a set key decides, whatever its value
	if fn := c.Fn(ex, "R5", "firstInt"); fn != nil {
		g := ex.FG(fn)
		var body, loop *GNode
		for b, h := range g.head {
			switch b.Kind.String() {
			case "RangeBody":
				body = h
			case "RangeLoop":
				loop = h
			}
		}
		unset := func(e *GEdge) bool {
			return g.edgeImpliesDeep(e, func(cnd ast.Expr, pol int) bool {
				l, op, r, ok := cmpNorm(cnd, pol)
				if !ok || op != token.EQL {
					return false
				}
				isRaw := func(x ast.Expr) bool {
					if call, ok := unparen(x).(*ast.CallExpr); ok {
						return isCallTo(einfo, call, "os.Getenv")
					}
					if id, ok := unparen(x).(*ast.Ident); ok {
						if def := g.LocalDef(einfo.Uses[id]); def != nil {
							call, ok := unparen(def).(*ast.CallExpr)
							return ok && isCallTo(einfo, call, "os.Getenv")
						}
					}
					return false
				}
				isEmpty := func(x ast.Expr) bool { s, ok := constString(einfo, x); return ok && s == "" }
				return isRaw(l) && isEmpty(r) || isRaw(r) && isEmpty(l)
			})
		}
		good := body != nil && loop != nil
		if good {
			seen, _ := g.Reach([]*GNode{body}, nil, unset)
			good = !seen[loop]
		}
		c.Check(good, "R5", "sdk/internal/env|firstInt|the next key is consulted only when this one is unset", at(ex.M, fn.Pos()), "a set key decides the result",
			"a key that is set can be skipped in favour of the next (more general) one — e.g. a span-specific limit explicitly set to the default value yields to the general variable")
	}
	for _, sp := range []struct{ fn, first, second string }{
		{"SpanAttributeValueLength", "SpanAttributeValueLengthKey", "AttributeValueLengthKey"}, {"SpanAttributeCount", "SpanAttributeCountKey", "AttributeCountKey"},
	} {
		fn := c.Fn(ex, "R5", sp.fn)
		if fn == nil {
			continue
		}
		order := ""
		inspectNoLit(fn.Body(), func(nd ast.Node) bool {
			if call, ok := nd.(*ast.CallExpr); ok && len(call.Args) == 3 {
				order = exprStr(call.Args[1]) + "," + exprStr(call.Args[2])
			}
			return true
		})
		c.Check(order == sp.first+","+sp.second, "R5", "sdk/internal/env|"+sp.fn+"|span-specific key consulted first", at(ex.M, fn.Pos()), order, "the general limit variable is consulted before the span-specific one")
	}

	// R6 env before options
	envBefore := func(ix *PkgIndex, fname string, isEnv, isOpt func(info *types.Info, call *ast.CallExpr) bool) {
		fn := c.Fn(ix, "R6", fname)
		if fn == nil {
			return
		}
		info := ix.Pkg.TypesInfo
		g := ix.FG(fn)
		envs := g.Match(func(n ast.Node) bool { call, ok := n.(*ast.CallExpr); return ok && isEnv(info, call) })
		opts := g.Match(func(n ast.Node) bool { call, ok := n.(*ast.CallExpr); return ok && isOpt(info, call) })
		good := len(envs) >= 1 && len(opts) == 1
		if good {
			s, _ := g.Reach([]*GNode{opts[0]}, nil, nil)
			for _, e := range envs {
				if s[e] {
					good = false
				}
			}
		}
		c.Check(good, "R6", shortPkg(ix.Pkg.PkgPath)+"|"+fname+"|environment read before the options are applied", at(ix.M, fn.Pos()), itoa(len(envs))+" env reads precede the options loop", "an environment variable is read after the options were applied and overrides them")
	}
	isPkgCall := func(pkgSuffix string) func(info *types.Info, call *ast.CallExpr) bool {
		return func(info *types.Info, call *ast.CallExpr) bool {
			cf := callee(info, call)
			return cf != nil && cf.Pkg() != nil && strings.HasSuffix(cf.Pkg().Path(), pkgSuffix)
		}
	}
	optCall := func(info *types.Info, call *ast.CallExpr) bool {
		// opt(&o) / opt.apply(o) / o.applyPeriodic(c)
		// a call through a loop variable of function type (for _, opt := range options { opt(&o) })
		if v, ok := objOf(info, call.Fun).(*types.Var); ok && !v.IsField() {
			if _, isSig := v.Type().Underlying().(*types.Signature); isSig {
				return true
			}
		}
		if cf := callee(info, call); cf != nil && (cf.Name() == "apply" || cf.Name() == "applyPeriodic") && len(call.Args) == 1 {
			return true
		}
		return false
	}
	envBefore(tx, "NewBatchSpanProcessor", isPkgCall("sdk/internal/env"), optCall)
	// the tracer provider reads the environment in two places: the sampler/exporter variables (applyTracerProviderEnvConfigs) and
	// the span limits (NewSpanLimits) — directly or inside a helper of the package the constructor calls
	var readsTPEnv func(info *types.Info, call *ast.CallExpr, depth int) bool
	readsTPEnv = func(info *types.Info, call *ast.CallExpr, depth int) bool {
		cf := callee(info, call)
		if cf == nil {
			return false
		}
		if cf.Name() == "applyTracerProviderEnvConfigs" || cf.Name() == "NewSpanLimits" {
			return true
		}
		if depth >= 2 {
			return false
		}
		d := tx.declByObj(cf)
		if d == nil || d.Body() == nil {
			return false
		}
		hit := false
		inspectNoLit(d.Body(), func(n ast.Node) bool {
			if c2, ok := n.(*ast.CallExpr); ok && readsTPEnv(info, c2, depth+1) {
				hit = true
			}
			return true
		})
		return hit
	}
	envBefore(tx, "NewTracerProvider", func(info *types.Info, call *ast.CallExpr) bool { return readsTPEnv(info, call, 0) }, optCall)
	envBefore(mx, "newPeriodicReaderConfig", func(info *types.Info, call *ast.CallExpr) bool {
		cf := callee(info, call)
		return cf != nil && cf.Name() == "envDuration"
	}, optCall)
}

// inEdgeScope is a placeholder for scoping returns to the branch of an edge (all reachable returns are considered).
func inEdgeScope(y *GNode, e *GEdge) bool { return true }

// c20EnvReaders: in each named reader constructor (func(name..., fn func(T)) func(*EnvOptionsReader)) the returned closure
// calls fn on every path on which the variable was present and parsed: the exit is reachable without the call only across
// an edge that establishes "variable absent" (the ok result of GetEnvValue is false) or "an error occurred" (err != nil).
func c20EnvReaders(c *Ctx, ix *PkgIndex, names ...string) {
	info := ix.Pkg.TypesInfo
	sp := shortPkg(ix.Pkg.PkgPath)
	sp = sp[strings.Index(sp, "otlp/")+5:]
	for _, name := range names {
		fn := c.Fn(ix, "R7", name)
		if fn == nil {
			continue
		}
		key := sp + "|" + name + "|present and parsed ⇒ setter called"
		// the setter: the function-typed parameter
		var setter *types.Var
		ps := fn.Obj.Type().(*types.Signature).Params()
		for i := 0; i < ps.Len(); i++ {
			if _, ok := ps.At(i).Type().Underlying().(*types.Signature); ok {
				setter = ps.At(i)
			}
		}
		lits := funcLits(fn.Body())
		if setter == nil || len(lits) != 1 || ix.OfLit[lits[0]] == nil {
			c.Undecided("R7", key, at(ix.M, fn.Pos()), "reader shape not recognised (setter parameter / single returned closure)")
			continue
		}
		li := ix.OfLit[lits[0]]
		g := ix.FG(li)
		calls := toSet(g.Match(func(n ast.Node) bool {
			call, ok := n.(*ast.CallExpr)
			return ok && sameVar(info, call.Fun, setter)
		}))
		// presence flags: second results of GetEnvValue
		okVars := map[types.Object]bool{}
		ast.Inspect(li.Body(), func(n ast.Node) bool {
			if as, ok := n.(*ast.AssignStmt); ok && len(as.Lhs) == 2 && len(as.Rhs) == 1 {
				if call, ok := unparen(as.Rhs[0]).(*ast.CallExpr); ok {
					if cf := callee(info, call); cf != nil && cf.Name() == "GetEnvValue" {
						if o := objOf(info, as.Lhs[1]); o != nil {
							okVars[o] = true
						}
					}
				}
			}
			return true
		})
		excuse := func(e *GEdge) bool {
			return g.edgeImpliesDeep(e, func(cnd ast.Expr, pol int) bool {
				if id, ok := cnd.(*ast.Ident); ok && pol < 0 && okVars[info.Uses[id]] {
					return true
				}
				nn, ok := nilCmp(info, cnd, pol, func(x ast.Expr) bool { return isErrVar(info, x) })
				return ok && nn
			})
		}
		seen, parent := g.ReachFromEntry(func(x *GNode) bool { return calls[x] }, excuse)
		c.Analysed(fn)
		c.Check(len(calls) > 0 && len(okVars) > 0 && !seen[g.Exit], "R7", key, at(ix.M, fn.Pos()), itoa(len(calls))+" setter call(s) cut every present-and-parsed path",
			"a present variable can leave the setting untouched ("+g.pathLines(parent, g.Exit)+"): the signal-specific variable cannot reset what the generic one set (e.g. TRACES_COMPRESSION=none after COMPRESSION=gzip)")
	}
}

// nonNegativeCall: a call of a declared function of the package every return of which is known non-negative: a non-negative
// constant, or a parameter that is either tested (p >= 0 / !(p < 0) dominates the return) or bound at this call site to a
// non-negative constant.
func nonNegativeCall(ix *PkgIndex, call *ast.CallExpr) bool {
	info := ix.Pkg.TypesInfo
	h := ix.declByObj(callee(info, call))
	if h == nil || h.Body() == nil {
		return false
	}
	sig := h.Obj.Type().(*types.Signature)
	if sig.Results().Len() != 1 || sig.Params().Len() != len(call.Args) || sig.Variadic() {
		return false
	}
	argNonNeg := map[types.Object]bool{}
	for i, a := range call.Args {
		if k := constObj(info, a); k != nil {
			if v, isC := constant.Int64Val(constant.ToInt(k.Val())); isC && v >= 0 {
				argNonNeg[sig.Params().At(i)] = true
			}
		}
		if v, isC := constInt(info, a); isC && v >= 0 {
			argNonNeg[sig.Params().At(i)] = true
		}
	}
	// parameters must not be re-assigned
	assigned := false
	inspectNoLit(h.Body(), func(n ast.Node) bool {
		if as, ok := n.(*ast.AssignStmt); ok {
			for _, l := range as.Lhs {
				for i := 0; i < sig.Params().Len(); i++ {
					if sameVar(info, l, sig.Params().At(i)) {
						assigned = true
					}
				}
			}
		}
		return true
	})
	if assigned {
		return false
	}
	g := ix.FG(h)
	n := 0
	for _, x := range g.Nodes {
		rs, ok := x.N.(*ast.ReturnStmt)
		if !ok {
			continue
		}
		n++
		if len(rs.Results) != 1 {
			return false
		}
		r := unparen(rs.Results[0])
		if v, isC := constInt(info, r); isC {
			if v < 0 {
				return false
			}
			continue
		}
		p, _ := objOf(info, r).(*types.Var)
		if p == nil {
			return false
		}
		if argNonNeg[p] {
			continue
		}
		tested, _ := g.DominatedByEdges(x, func(e *GEdge) bool {
			return edgeImplies(e, func(cnd ast.Expr, pol int) bool {
				l, op, rr, ok := cmpNorm(cnd, pol)
				k, isC := constInt(info, rr)
				return ok && sameVar(info, l, p) && isC && ((op == token.GEQ && k >= 0) || (op == token.GTR && k >= -1))
			})
		})
		if !tested {
			return false
		}
	}
	return n > 0
}

// producesSetting: the node makes "a value is set": s.Set = true, or return of newSetting(…) / of a setting literal with Set: true.
func producesSetting(ix *PkgIndex, n ast.Node, fSet *types.Var) bool {
	info := ix.Pkg.TypesInfo
	if fSet == nil {
		return false
	}
	if r := assignRHS(n, func(e ast.Expr) bool { return isField(info, e, fSet) }); r != nil {
		tv := info.Types[r]
		return tv.Value != nil && tv.Value.Kind() == constant.Bool && constant.BoolVal(tv.Value)
	}
	rs, ok := n.(*ast.ReturnStmt)
	if !ok || len(rs.Results) != 1 {
		return false
	}
	isSetLit := func(e ast.Expr) bool {
		v := compositeField(info, e, fSet)
		if v == nil {
			return false
		}
		tv := info.Types[v]
		return tv.Value != nil && tv.Value.Kind() == constant.Bool && constant.BoolVal(tv.Value)
	}
	r := unparen(rs.Results[0])
	if isSetLit(r) {
		return true
	}
	if call, ok := r.(*ast.CallExpr); ok {
		if h := ix.declByObj(callee(info, call)); h != nil {
			// every return of the helper is a setting literal with Set: true
			n, good := 0, true
			inspectNoLit(h.Body(), func(m ast.Node) bool {
				if hr, ok := m.(*ast.ReturnStmt); ok {
					n++
					if len(hr.Results) != 1 || !isSetLit(hr.Results[0]) {
						good = false
					}
				}
				return true
			})
			return n > 0 && good
		}
	}
	return false
}

// isParamOf: v is a parameter of fn.
func isParamOf(v *types.Var, fn *FuncInfo) bool {
	if fn == nil || fn.Obj == nil {
		return false
	}
	ps := fn.Obj.Type().(*types.Signature).Params()
	for i := 0; i < ps.Len(); i++ {
		if ps.At(i) == v {
			return true
		}
	}
	return false
}

// ruleLogSettingChains: the resolver chains of sdk/log. Batch settings: every source is sanitised before the fallback (sizes and
// intervals below one panic in newRing/make/NewTicker). Record limits: exactly option → environment → default with the values
// kept as given (zero and negative limits have a documented meaning). Shared by C20.R4 and C17.R8 (a limit that is cleared
// or clamped on its way into the provider is not the limit the records obey).
func ruleLogSettingChains(c *Ctx, lx *PkgIndex, rule string) {
	// R4 (b) sdk/log batch settings chain
	linfo := lx.Pkg.TypesInfo
	// resolver kinds, by declaration (rename-tolerant), not by name
	kindOf := map[*types.Func]string{}
	for _, nm := range []string{"clearLessThanOne", "getenv", "fallback", "clampMax"} {
		if h := lx.Func(nm); h != nil && h.Obj != nil {
			kindOf[h.Obj] = nm
		}
	}
	// sliceElems lists, element by element, the resolvers a spread argument holds: a literal, append(prefix, a, b),
	// append(a, b...), or a local slice built up by straight-line appends in body (a variadic parameter stays as itself)
	var sliceElems func(e ast.Expr, body *ast.BlockStmt, depth int) ([]ast.Expr, bool)
	sliceElems = func(e ast.Expr, body *ast.BlockStmt, depth int) ([]ast.Expr, bool) {
		if depth > 6 {
			return nil, false
		}
		switch x := unparen(e).(type) {
		case *ast.CompositeLit:
			return x.Elts, true
		case *ast.CallExpr:
			switch builtinName(linfo, x) {
			case "append":
				if len(x.Args) == 0 {
					return nil, false
				}
				head, ok := sliceElems(x.Args[0], body, depth+1)
				if !ok {
					return nil, false
				}
				out := append([]ast.Expr{}, head...)
				if x.Ellipsis.IsValid() {
					if len(x.Args) != 2 {
						return nil, false
					}
					tail, ok := sliceElems(x.Args[1], body, depth+1)
					if !ok {
						return nil, false
					}
					return append(out, tail...), true
				}
				return append(out, x.Args[1:]...), true
			case "make":
				return nil, true
			}
			if cf := callee(linfo, x); cf != nil && cf.Pkg() != nil && cf.Pkg().Path() == "slices" && cf.Name() == "Concat" {
				var out []ast.Expr
				for _, a := range x.Args {
					el, ok := sliceElems(a, body, depth+1)
					if !ok {
						return nil, false
					}
					out = append(out, el...)
				}
				return out, true
			}
		case *ast.Ident:
			if x.Name == "nil" {
				return nil, true
			}
			v, _ := linfo.Uses[x].(*types.Var)
			if v == nil || body == nil {
				return nil, false
			}
			// a local slice: the straight-line sequence of its definitions among body's own statements
			var cur []ast.Expr
			defined, other := false, false
			for _, st := range body.List {
				switch s := st.(type) {
				case *ast.AssignStmt:
					for i, l := range s.Lhs {
						if id, isID := l.(*ast.Ident); isID && (linfo.Defs[id] == v || linfo.Uses[id] == v) && len(s.Lhs) == len(s.Rhs) {
							var ok bool
							if call, isC := unparen(s.Rhs[i]).(*ast.CallExpr); isC && builtinName(linfo, call) == "append" && len(call.Args) >= 1 && sameVar(linfo, call.Args[0], v) {
								// v = append(v, …): extend what is there
								rest := []ast.Expr{}
								if call.Ellipsis.IsValid() && len(call.Args) == 2 {
									rest, ok = sliceElems(call.Args[1], body, depth+1)
									if !ok {
										return nil, false
									}
								} else if !call.Ellipsis.IsValid() {
									rest = call.Args[1:]
								} else {
									return nil, false
								}
								if !defined {
									return nil, false
								}
								cur = append(append([]ast.Expr{}, cur...), rest...)
								continue
							}
							cur, ok = sliceElems(s.Rhs[i], body, depth+1)
							if !ok {
								return nil, false
							}
							defined = true
						}
					}
				case *ast.DeclStmt:
					ast.Inspect(s, func(n ast.Node) bool {
						if vs, isV := n.(*ast.ValueSpec); isV {
							for i, nm := range vs.Names {
								if linfo.Defs[nm] == v {
									defined = true
									cur = nil
									if i < len(vs.Values) {
										var ok bool
										if cur, ok = sliceElems(vs.Values[i], body, depth+1); !ok {
											other = true
										}
									}
								}
							}
						}
						return true
					})
				default:
					// assigned inside a nested statement: not a straight-line build-up
					ast.Inspect(st, func(n ast.Node) bool {
						if as, isAs := n.(*ast.AssignStmt); isAs {
							for _, l := range as.Lhs {
								if sameVar(linfo, l, v) {
									other = true
								}
							}
						}
						return true
					})
				}
			}
			if defined && !other {
				return cur, true
			}
			if !defined {
				// a (variadic) parameter: kept symbolic, substituted at the call
				return []ast.Expr{x}, true
			}
		}
		return nil, false
	}
	resolverNames := func(args []ast.Expr) []string {
		var names []string
		for _, a := range args {
			nm := "?"
			switch x := unparen(a).(type) {
			case *ast.CallExpr:
				if f2 := callee(linfo, x); f2 != nil {
					nm = f2.Name()
					if k, known := kindOf[f2.Origin()]; known {
						nm = k
					}
				}
			case *ast.Ident:
				if v, isV := linfo.Uses[x].(*types.Var); isV {
					nm = "@" + v.Name()
				}
			}
			names = append(names, nm)
		}
		return names
	}
	isResolve := func(call *ast.CallExpr) bool {
		cf := callee(linfo, call)
		return cf != nil && cf.Name() == "Resolve" && cf.Type().(*types.Signature).Recv() != nil
	}
	// chain flattens s.Resolve(a...).Resolve(b...) and helpers that return p.Resolve(...) on a parameter p (possibly after
	// building the resolver list in a local slice) into the setting it starts from and the sequence of resolvers applied to it
	var chain func(e ast.Expr, body *ast.BlockStmt, depth int) (ast.Expr, []string)
	chain = func(e ast.Expr, body *ast.BlockStmt, depth int) (ast.Expr, []string) {
		call, ok := unparen(e).(*ast.CallExpr)
		if !ok || depth > 4 {
			return e, nil
		}
		if isResolve(call) {
			recv, _ := methodCall(linfo, call)
			root, names := chain(recv, body, depth+1)
			args := call.Args
			if call.Ellipsis.IsValid() && len(args) == 1 {
				el, ok := sliceElems(args[0], body, 0)
				if !ok {
					return e, []string{"?"}
				}
				args = el
			}
			return root, append(names, resolverNames(args)...)
		}
		h := lx.declByObj(callee(linfo, call))
		if h == nil || h.Body() == nil || len(h.Body().List) == 0 {
			return e, nil
		}
		rs, isR := h.Body().List[len(h.Body().List)-1].(*ast.ReturnStmt)
		if !isR || len(rs.Results) != 1 {
			return e, nil
		}
		for _, st := range h.Body().List[:len(h.Body().List)-1] {
			switch st.(type) {
			case *ast.AssignStmt, *ast.DeclStmt:
			default:
				return e, nil
			}
		}
		root, names := chain(rs.Results[0], h.Body(), depth+1)
		if len(names) == 0 {
			return e, nil
		}
		sig := h.Obj.Type().(*types.Signature)
		ps := sig.Params()
		// a variadic resolver parameter stands for the resolvers passed at this call
		var subst []string
		for _, nm := range names {
			if strings.HasPrefix(nm, "@") {
				done := false
				if sig.Variadic() && ps.Len() >= 1 && ps.At(ps.Len()-1).Name() == nm[1:] && !call.Ellipsis.IsValid() {
					if len(call.Args) >= ps.Len()-1 {
						subst = append(subst, resolverNames(call.Args[ps.Len()-1:])...)
						done = true
					}
				}
				if !done {
					subst = append(subst, "?")
				}
				continue
			}
			subst = append(subst, nm)
		}
		names = subst
		for i := 0; i < ps.Len() && i < len(call.Args); i++ {
			if sameVar(linfo, root, ps.At(i)) {
				r2, n2 := chain(call.Args[i], body, depth+1)
				return r2, append(n2, names...)
			}
		}
		return e, nil
	}
	// settingChains judges, in a config constructor, every store into a setting-typed field: the resolver sequence that produced it
	settingType := lookupType(lx.Pkg, "setting")
	isSetting := func(t types.Type) bool {
		n, ok := types.Unalias(t).(*types.Named)
		return ok && settingType != nil && n.Origin().Obj() == settingType.Obj()
	}
	settingChains := func(fn *FuncInfo, judge func(fld string, recv ast.Expr, names []string, pos token.Pos)) int {
		n := 0
		inspectNoLit(fn.Body(), func(nd ast.Node) bool {
			as, ok := nd.(*ast.AssignStmt)
			if !ok || len(as.Lhs) != len(as.Rhs) {
				return true
			}
			for i, l := range as.Lhs {
				fv, _ := fieldOf(linfo, l)
				if fv == nil || !isSetting(fv.Type()) {
					continue
				}
				recv, names := chain(as.Rhs[i], fn.Body(), 0)
				n++
				judge(fv.Name(), recv, names, as.Rhs[i].Pos())
			}
			return true
		})
		return n
	}
	// does the shared environment resolver itself refuse values below one? (its store of the parsed value is reached only across
	// a comparison that excludes them)
	getenvRejects := false
	if ge := lx.Func("getenv"); ge != nil {
		fVal := lookupField(lx.Pkg, "setting", "Value")
		for _, f := range lx.All {
			if f.Lit == nil || lx.Outer(f) != ge {
				continue
			}
			g := lx.FG(f)
			stores := g.Match(func(n ast.Node) bool {
				return assignRHS(n, func(e ast.Expr) bool { return isField(linfo, e, fVal) }) != nil
			})
			for _, st := range stores {
				if d, _ := g.DominatedByEdges(st, func(e *GEdge) bool {
					return edgeImplies(e, func(cnd ast.Expr, pol int) bool {
						l, op, r, ok := cmpNorm(cnd, pol)
						k, isC := constInt(linfo, r)
						if !ok || !isC {
							return false
						}
						if _, isV := objOf(linfo, l).(*types.Var); !isV {
							return false
						}
						return (op == token.GEQ && k >= 1) || (op == token.GTR && k >= 0)
					})
				}); d {
					getenvRejects = true
				}
			}
		}
	}
	if fn := c.Fn(lx, rule, "newBatchConfig"); fn != nil {
		n := settingChains(fn, func(fld string, recv ast.Expr, names []string, pos token.Pos) {
			// first resolver sanitises the option; every getenv is followed by a clearLessThanOne (or refuses values below one
			// itself); fallback last
			good := len(names) >= 2 && names[0] == "clearLessThanOne" && names[len(names)-1] == "fallback"
			for i, nm := range names {
				if nm == "getenv" && !getenvRejects && (i+1 >= len(names) || names[i+1] != "clearLessThanOne") {
					good = false
				}
			}
			c.Check(good, rule, "sdk/log|newBatchConfig|Resolve("+exprStr(recv)+") sanitises every source before the fallback", at(lx.M, pos), strings.Join(names, " → "),
				"a value < 1 from an option or OTEL_BLRP_* reaches the batch processor ("+strings.Join(names, " → ")+"): newRing/make/NewTicker panic on non-positive sizes and intervals")
		})
		if n < 5 {
			c.Violation(rule, "sdk/log|newBatchConfig|every batch setting resolved", at(lx.M, fn.Pos()), fmt.Sprintf("only %d of the 5 batch settings are stored from a resolver chain", n))
		}
	}
	// the log record limits are not sizes: zero and negative values have a documented meaning (no limit / truncate to
	// nothing), so their chains are exactly option → environment → default, with nothing that unsets or clamps a value
	if fn := c.Fn(lx, rule, "newProviderConfig"); fn != nil {
		n := settingChains(fn, func(fld string, recv ast.Expr, names []string, pos token.Pos) {
			good := len(names) >= 2 && names[len(names)-1] == "fallback"
			envs := 0
			for _, nm := range names {
				switch nm {
				case "getenv":
					envs++
				case "fallback":
				default:
					good = false
				}
			}
			if good && envs == 1 && getenvRejects {
				c.Violation(rule, "sdk/log|newProviderConfig|"+fld+" resolves option → environment → default, values kept as given", at(lx.M, pos),
					"the record limit "+fld+" takes its environment value through getenv, which now refuses integers below one: OTEL_LOGRECORD_ATTRIBUTE_* = 0 or a negative value (documented: truncate to nothing / no limit) is ignored in favour of the default, unlike the same value given through the option")
				return
			}
			c.Check(good && envs == 1, rule, "sdk/log|newProviderConfig|"+fld+" resolves option → environment → default, values kept as given", at(lx.M, pos), strings.Join(names, " → "),
				"the record limit "+fld+" is resolved through "+strings.Join(names, " → ")+": a zero or negative limit (documented: no limit / truncate to nothing) from WithAttribute…Limit or OTEL_LOGRECORD_ATTRIBUTE_* is replaced instead of honoured, and a cleared option lets the environment override it")
		})
		if n < 2 {
			c.Violation(rule, "sdk/log|newProviderConfig|both record limits resolved", at(lx.M, fn.Pos()), fmt.Sprintf("only %d of the 2 record limits are stored from a resolver chain", n))
		}
	}
	c20SettingPrecedence(c, lx, "sdk/log", "getenv")
	if fn := c.Fn(lx, rule, "clearLessThanOne"); fn != nil {
		for _, f := range lx.All {
			if f.Lit == nil || lx.Parent[f.Lit] != fn {
				continue
			}
			g := lx.FG(f)
			fVal := lookupField(lx.Pkg, "setting", "Value")
			fSet := lookupField(lx.Pkg, "setting", "Set")
			clears := g.Match(func(n ast.Node) bool {
				r := assignRHS(n, func(e ast.Expr) bool { return isField(linfo, e, fSet) })
				if r == nil {
					return false
				}
				tv := linfo.Types[r]
				return tv.Value != nil && !constant.BoolVal(tv.Value)
			})
			// negative form: from entry, exit reachable without clearing only across the edge Value >= 1
			s, _ := g.ReachFromEntry(func(x *GNode) bool { return toSet(clears)[x] }, func(e *GEdge) bool {
				return edgeImplies(e, func(cnd ast.Expr, pol int) bool {
					l, op, r, ok := cmpNorm(cnd, pol)
					k, isC := constInt(linfo, r)
					return ok && isField(linfo, l, fVal) && isC && ((op == token.GEQ && k >= 1) || (op == token.GTR && k >= 0))
				})
			})
			c.Check(len(clears) == 1 && !s[g.Exit], rule, "sdk/log|clearLessThanOne|Value < 1 ⇒ Set = false", at(lx.M, f.Pos()), "non-positive values are unset so the next source or the fallback applies", "clearLessThanOne lets values < 1 through")
		}
	}
}
