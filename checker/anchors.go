package main

import (
	_ "embed"
	"encoding/json"
	"go/ast"
	"go/types"
	"os"
	"sort"
	"strings"
	"sync"

	"golang.org/x/tools/go/packages"
)

// Rename-tolerant anchors. Rules find their subjects by name (a field of a struct, a function of a package). A consistent
// rename of an unexported identifier leaves behaviour unchanged but would make every such rule report "anchor missing". The
// frozen table anchors.json records, for every anchor the rules resolved on the pinned tree, the type of the field resp. the
// signature of the function. When a name is not found, the anchor resolves to the only declaration in the same struct /
// package (same receiver) that has exactly that type / signature and is not itself a recorded anchor under its own name. With
// no such unique candidate the anchor stays missing (and the check fails, as before). The table is regenerated with
// VERIF_RECORD_ANCHORS=<file> on a tree where every anchor resolves; it is data of the checker, never written by a check run.

//go:embed anchors.json
var anchorsJSON []byte

type anchorTable struct {
	Fields map[string]string `json:"fields"` // pkg|Type|field → type string
	Funcs  map[string]string `json:"funcs"`  // pkg|name → signature string
	Types  map[string]string `json:"types"`  // pkg|name → shape string (field types without names)
	Bodies map[string]string `json:"bodies"` // pkg|name → control-structure fingerprint of the function body (tie-break between equal signatures)
	// AllFuncs: package path → names of all function declarations of the pinned tree in the packages the rules index; a declared
	// function whose name is not listed is a helper introduced later and is expanded into its callers (inline.go)
	AllFuncs map[string][]string `json:"allfuncs"`
	AllVars  map[string][]string `json:"allvars"` // package path → package-level variables of the pinned tree (tables.go)
}

var (
	anchorsOnce sync.Once
	anchors     anchorTable
	recMu       sync.Mutex
	recorded    = anchorTable{Fields: map[string]string{}, Funcs: map[string]string{}, Types: map[string]string{}, Bodies: map[string]string{}}
	renamedNote sync.Map // key → resolved name (reported in the evidence notes)
)

func loadAnchors() *anchorTable {
	anchorsOnce.Do(func() {
		anchors = anchorTable{Fields: map[string]string{}, Funcs: map[string]string{}}
		_ = json.Unmarshal(anchorsJSON, &anchors)
		if anchors.Fields == nil {
			anchors.Fields = map[string]string{}
		}
		if anchors.Funcs == nil {
			anchors.Funcs = map[string]string{}
		}
		if anchors.Types == nil {
			anchors.Types = map[string]string{}
		}
		if anchors.Bodies == nil {
			anchors.Bodies = map[string]string{}
		}
	})
	return &anchors
}

func typeStr(t types.Type) string {
	return types.TypeString(t, func(p *types.Package) string { return p.Path() })
}

// sigStr renders a function's signature by types only (parameter and result names are not part of the identity: they are
// renamed together with the function's locals).
func sigStr(f *types.Func) string {
	sig := f.Type().(*types.Signature)
	tup := func(t *types.Tuple) string {
		var parts []string
		for i := 0; i < t.Len(); i++ {
			parts = append(parts, typeStr(t.At(i).Type()))
		}
		return "(" + strings.Join(parts, ", ") + ")"
	}
	s := "func" + tup(sig.Params())
	if sig.Variadic() {
		s += "..."
	}
	s += " " + tup(sig.Results())
	if sig.Recv() != nil {
		s = "recv " + typeStr(sig.Recv().Type()) + " " + s
	}
	return s
}

func recordField(p *packages.Package, typ, name string, f *types.Var) {
	if os.Getenv("VERIF_RECORD_ANCHORS") == "" {
		return
	}
	recMu.Lock()
	recorded.Fields[p.PkgPath+"|"+typ+"|"+name] = typeStr(f.Type())
	recMu.Unlock()
}

func recordFunc(p *packages.Package, name string, f *FuncInfo) {
	if os.Getenv("VERIF_RECORD_ANCHORS") == "" || f == nil || f.Obj == nil {
		return
	}
	recMu.Lock()
	recorded.Funcs[p.PkgPath+"|"+name] = sigStr(f.Obj)
	recorded.Bodies[p.PkgPath+"|"+name] = bodyPrint(f)
	recMu.Unlock()
}

// flushRecordedAnchors merges what this process resolved into the file named by VERIF_RECORD_ANCHORS.
func flushRecordedAnchors() {
	path := os.Getenv("VERIF_RECORD_ANCHORS")
	if path == "" {
		return
	}
	recMu.Lock()
	defer recMu.Unlock()
	cur := anchorTable{Fields: map[string]string{}, Funcs: map[string]string{}, Types: map[string]string{}}
	if b, err := os.ReadFile(path); err == nil {
		_ = json.Unmarshal(b, &cur)
	}
	if cur.Types == nil {
		cur.Types = map[string]string{}
	}
	for k, v := range recorded.Types {
		cur.Types[k] = v
	}
	if cur.Bodies == nil {
		cur.Bodies = map[string]string{}
	}
	for k, v := range recorded.Bodies {
		cur.Bodies[k] = v
	}
	if cur.Fields == nil {
		cur.Fields = map[string]string{}
	}
	if cur.Funcs == nil {
		cur.Funcs = map[string]string{}
	}
	for k, v := range recorded.Fields {
		cur.Fields[k] = v
	}
	for k, v := range recorded.Funcs {
		cur.Funcs[k] = v
	}
	if cur.AllFuncs == nil {
		cur.AllFuncs = map[string][]string{}
	}
	for k, v := range recorded.AllFuncs {
		cur.AllFuncs[k] = v
	}
	if cur.AllVars == nil {
		cur.AllVars = map[string][]string{}
	}
	for k, v := range recorded.AllVars {
		cur.AllVars[k] = v
	}
	b, _ := json.MarshalIndent(cur, "", " ")
	_ = os.WriteFile(path, append(b, '\n'), 0o644)
}

// renamedField: the unique field of struct typ whose type equals the recorded type of the missing anchor and whose own name is
// not a recorded anchor of that struct.
func renamedField(p *packages.Package, typ, name string, st *types.Struct) *types.Var {
	tab := loadAnchors()
	want, ok := tab.Fields[p.PkgPath+"|"+typ+"|"+name]
	if !ok {
		return nil
	}
	var cand []*types.Var
	for i := 0; i < st.NumFields(); i++ {
		f := st.Field(i)
		if _, known := tab.Fields[p.PkgPath+"|"+typ+"|"+f.Name()]; known {
			continue
		}
		if typeStr(f.Type()) == want {
			cand = append(cand, f)
		}
	}
	if len(cand) == 1 {
		renamedNote.Store(p.PkgPath+"."+typ+"."+name, cand[0].Name())
		return cand[0]
	}
	if len(cand) == 0 {
		// moved into a nested struct? (see nestedField)
		if _, f := nestedField(p, typ, name, st); f != nil {
			return f
		}
	}
	return nil
}

// nestedField: the anchor field was moved into a struct that typ now holds (by value or embedded) in a field that is not itself
// a recorded anchor and whose type is a named struct of the same package that is not a recorded anchor type either: the unique
// field of such a nested struct with the recorded type. Returns the path of field names from typ and the field.
func nestedField(p *packages.Package, typ, name string, st *types.Struct) ([]string, *types.Var) {
	tab := loadAnchors()
	want, ok := tab.Fields[p.PkgPath+"|"+typ+"|"+name]
	if !ok {
		return nil, nil
	}
	type hit struct {
		path []string
		f    *types.Var
	}
	var hits []hit
	for i := 0; i < st.NumFields(); i++ {
		h := st.Field(i)
		if _, known := tab.Fields[p.PkgPath+"|"+typ+"|"+h.Name()]; known {
			continue
		}
		n := namedOf(h.Type())
		if n == nil || n.Obj().Pkg() == nil || n.Obj().Pkg().Path() != p.PkgPath {
			continue
		}
		if _, known := tab.Types[p.PkgPath+"|"+n.Obj().Name()]; known {
			continue
		}
		ns, isS := n.Underlying().(*types.Struct)
		if !isS {
			continue
		}
		for j := 0; j < ns.NumFields(); j++ {
			if typeStr(ns.Field(j).Type()) == want {
				hits = append(hits, hit{[]string{h.Name(), ns.Field(j).Name()}, ns.Field(j)})
			}
		}
	}
	if len(hits) > 1 {
		// several fields of that type moved together (min, max): the one that kept its name
		var same []hit
		for _, h := range hits {
			if h.path[len(h.path)-1] == name {
				same = append(same, h)
			}
		}
		hits = same
	}
	if len(hits) == 1 {
		renamedNote.Store(p.PkgPath+"."+typ+"."+name, strings.Join(hits[0].path, "."))
		return hits[0].path, hits[0].f
	}
	return nil, nil
}

// renamedFunc: the unique function of the package with the recorded signature (and receiver) of the missing anchor whose own
// name is not a recorded anchor.
func renamedFunc(m *Module, p *packages.Package, name string) *FuncInfo {
	tab := loadAnchors()
	want, ok := tab.Funcs[p.PkgPath+"|"+name]
	if !ok {
		return nil
	}
	fs := pkgFuncs(m, p)
	var names []string
	for n := range fs {
		names = append(names, n)
	}
	sort.Strings(names)
	// a function that existed under its present name on the pinned tree is not a renamed anchor
	pinnedNames := map[string]bool{}
	for _, n := range tab.AllFuncs[p.PkgPath] {
		pinnedNames[n] = true
	}
	var cand []*FuncInfo
	for _, n := range names {
		f := fs[n]
		if f.Obj == nil {
			continue
		}
		if _, known := tab.Funcs[p.PkgPath+"|"+n]; known {
			continue
		}
		if pinnedNames[n] {
			continue
		}
		// the alternative spelling of the name may be the recorded one
		alt := n
		if strings.HasPrefix(n, "(*") {
			alt = strings.Replace(strings.TrimPrefix(n, "(*"), ").", ".", 1)
		}
		if _, known := tab.Funcs[p.PkgPath+"|"+alt]; known {
			continue
		}
		if sigStr(f.Obj) == want {
			cand = append(cand, f)
		}
	}
	if len(cand) > 1 {
		// several functions share the signature (enqueueBlockOnQueueFull / enqueueDrop): the body's control structure decides
		if fp, ok := tab.Bodies[p.PkgPath+"|"+name]; ok {
			var same []*FuncInfo
			for _, f := range cand {
				if bodyPrint(f) == fp {
					same = append(same, f)
				}
			}
			cand = same
		}
	}
	if len(cand) == 1 {
		renamedNote.Store(p.PkgPath+"."+name, cand[0].Name)
		return cand[0]
	}
	if len(cand) == 0 {
		if f := movedFunc(p, name, want, fs, names); f != nil {
			renamedNote.Store(p.PkgPath+"."+name, f.Name)
			return f
		}
	}
	return nil
}

// movedFunc: the anchor method went with its state to another type (same parameters and results, another receiver) or became
// a package-level function that takes the former receiver as its first parameter (or the reverse). Only functions whose
// names did not exist on the pinned tree are candidates, and the match must be unique.
func movedFunc(p *packages.Package, name, want string, fs map[string]*FuncInfo, names []string) *FuncInfo {
	tab := loadAnchors()
	pinned := map[string]bool{}
	for _, n := range tab.AllFuncs[p.PkgPath] {
		pinned[n] = true
	}
	if len(pinned) == 0 {
		return nil
	}
	core, recvT := want, ""
	if strings.HasPrefix(want, "recv ") {
		rest := strings.TrimPrefix(want, "recv ")
		i := strings.Index(rest, " func(")
		if i < 0 {
			return nil
		}
		recvT, core = rest[:i], rest[i+1:]
	}
	coreOf := func(s string) (string, string) {
		if strings.HasPrefix(s, "recv ") {
			rest := strings.TrimPrefix(s, "recv ")
			if i := strings.Index(rest, " func("); i >= 0 {
				return rest[i+1:], rest[:i]
			}
		}
		return s, ""
	}
	withFirst := func(coreSig, first string) string {
		// func(P) (R)  →  func(first, P) (R)
		if strings.HasPrefix(coreSig, "func()") {
			return "func(" + first + ")" + strings.TrimPrefix(coreSig, "func()")
		}
		return "func(" + first + ", " + strings.TrimPrefix(coreSig, "func(")
	}
	var cand []*FuncInfo
	for _, n := range names {
		f := fs[n]
		if f.Obj == nil || pinned[n] {
			continue
		}
		c2, r2 := coreOf(sigStr(f.Obj))
		switch {
		case recvT != "" && r2 != "" && c2 == core:
			cand = append(cand, f) // method moved to another receiver
		case recvT != "" && r2 == "" && c2 == withFirst(core, recvT):
			cand = append(cand, f) // method became a function of its former receiver
		case recvT == "" && r2 != "" && core == withFirst(c2, r2):
			cand = append(cand, f) // function became a method of its former first parameter
		}
	}
	if len(cand) > 1 {
		if fp, ok := tab.Bodies[p.PkgPath+"|"+name]; ok {
			var same []*FuncInfo
			for _, f := range cand {
				if bodyPrint(f) == fp {
					same = append(same, f)
				}
			}
			cand = same
		}
	}
	if len(cand) == 1 {
		return cand[0]
	}
	return nil
}

// bodyPrint: counts of the control structures in a function body (renames and reformatting do not change it).
func bodyPrint(f *FuncInfo) string {
	if f == nil || f.Body() == nil {
		return ""
	}
	cnt := map[string]int{}
	ast.Inspect(f.Body(), func(n ast.Node) bool {
		switch x := n.(type) {
		case *ast.IfStmt:
			cnt["if"]++
		case *ast.ForStmt:
			cnt["for"]++
		case *ast.RangeStmt:
			cnt["range"]++
		case *ast.SelectStmt:
			cnt["select"]++
		case *ast.SwitchStmt, *ast.TypeSwitchStmt:
			cnt["switch"]++
		case *ast.CommClause:
			if x.Comm == nil {
				cnt["default"]++
			} else {
				cnt["comm"]++
			}
		case *ast.ReturnStmt:
			cnt["return"]++
		case *ast.GoStmt:
			cnt["go"]++
		case *ast.DeferStmt:
			cnt["defer"]++
		case *ast.SendStmt:
			cnt["send"]++
		case *ast.FuncLit:
			cnt["lit"]++
		}
		return true
	})
	var ks []string
	for k := range cnt {
		ks = append(ks, k)
	}
	sort.Strings(ks)
	s := ""
	for _, k := range ks {
		s += k + "=" + itoa(cnt[k]) + " "
	}
	return strings.TrimSpace(s)
}

// resolvePath maps a field path written with the pinned tree's names (".valueMap.Mutex") to the names of the current tree,
// component by component through lookupField (and therefore through the rename fall-back); unresolvable paths are returned as
// written.
func resolvePath(p *packages.Package, typ, path string) string {
	comps := strings.Split(strings.TrimPrefix(path, "."), ".")
	cur := typ
	out := ""
	for _, cname := range comps {
		f := lookupField(p, cur, cname)
		if f == nil {
			return path
		}
		// a field that moved into a nested struct contributes both path components
		if n := lookupType(p, cur); n != nil {
			if st, isS := n.Underlying().(*types.Struct); isS {
				direct := false
				for i := 0; i < st.NumFields(); i++ {
					if st.Field(i) == f {
						direct = true
					}
				}
				if !direct {
					if np, nf := nestedField(p, cur, cname, st); nf == f && len(np) == 2 {
						out += "." + np[0]
					}
				}
			}
		}
		out += "." + f.Name()
		n := namedOf(f.Type())
		if n == nil {
			cur = ""
		} else {
			cur = n.Obj().Name()
		}
	}
	return out
}

// shapeStr: a struct type's field types in order (names left out), any other type's underlying type string.
func shapeStr(n *types.Named) string {
	var ms []string
	for i := 0; i < n.NumMethods(); i++ {
		ms = append(ms, n.Method(i).Name())
	}
	sort.Strings(ms)
	meths := " methods[" + strings.Join(ms, ",") + "]"
	st, ok := n.Underlying().(*types.Struct)
	if !ok {
		return typeStr(n.Underlying()) + meths
	}
	var parts []string
	for i := 0; i < st.NumFields(); i++ {
		parts = append(parts, typeStr(st.Field(i).Type()))
	}
	return "struct{" + strings.Join(parts, "; ") + "}" + meths
}

func recordType(p *packages.Package, name string, n *types.Named) {
	if os.Getenv("VERIF_RECORD_ANCHORS") == "" || n == nil {
		return
	}
	recMu.Lock()
	recorded.Types[p.PkgPath+"|"+name] = shapeStr(n)
	recMu.Unlock()
}

// renamedType: the unique named type of the package with the recorded shape whose own name is not a recorded anchor.
func renamedType(p *packages.Package, name string) *types.Named {
	tab := loadAnchors()
	want, ok := tab.Types[p.PkgPath+"|"+name]
	if !ok {
		return nil
	}
	var cand []*types.Named
	sc := p.Types.Scope()
	for _, nm := range sc.Names() {
		tn, ok := sc.Lookup(nm).(*types.TypeName)
		if !ok {
			continue
		}
		n, _ := tn.Type().(*types.Named)
		if n == nil {
			continue
		}
		if _, known := tab.Types[p.PkgPath+"|"+nm]; known {
			continue
		}
		if shapeStr(n) == want {
			cand = append(cand, n)
		}
	}
	if len(cand) == 1 {
		renamedNote.Store(p.PkgPath+"."+name, cand[0].Obj().Name())
		return cand[0]
	}
	return nil
}

// fieldRemoved: the recorded anchor field typ.name is gone and so is every field of its recorded type in typ (directly or one
// struct level down) — it was removed from the representation, not renamed or moved.
func fieldRemoved(p *packages.Package, typ, name string) bool {
	tab := loadAnchors()
	want, ok := tab.Fields[p.PkgPath+"|"+typ+"|"+name]
	if !ok {
		return false
	}
	n := lookupType(p, typ)
	if n == nil {
		return false
	}
	st, isS := n.Underlying().(*types.Struct)
	if !isS {
		return false
	}
	for i := 0; i < st.NumFields(); i++ {
		f := st.Field(i)
		if typeStr(f.Type()) == want {
			// another recorded anchor of the same type does not count as a candidate
			if _, known := tab.Fields[p.PkgPath+"|"+typ+"|"+f.Name()]; !known {
				return false
			}
		}
		if nn := namedOf(f.Type()); nn != nil {
			if ns, isNS := nn.Underlying().(*types.Struct); isNS && nn.Obj().Pkg() != nil && nn.Obj().Pkg().Path() == p.PkgPath {
				for j := 0; j < ns.NumFields(); j++ {
					if typeStr(ns.Field(j).Type()) == want {
						return false
					}
				}
			}
		}
	}
	return true
}
