package main

import (
	"go/ast"
	"go/constant"
	"go/token"
	"go/types"
)

// Table-driven code back into the switch it stands for. T is a package-level map or array of the package whose initialiser is
// a composite literal with constant keys and which nothing else writes. Then
//
//	if v, ok := T[k]; ok { BODY } else { ELSE }          (also: if v := T[k]; v != nil { BODY } for tables of functions)
//	v, ok := T[k]; if !ok { FAIL }; REST
//	switch T[k] { case C1: A; case C2: B; default: D }   (constant values)
//
// are, key by key, the switch over k whose clauses are the entries of T: `case Ki:` runs BODY (resp. REST, when FAIL ends in a
// return and REST is short) with v standing for the entry's value Vi, `default:` runs ELSE / FAIL. The third form regroups the
// keys by the constant their entry holds. The rewriting is exact; it lets every rule — syntactic or evaluating — see the cases
// again, and an entry that is a function (literal) is then expanded like any other helper.

type tableInfo struct {
	keys, vals []ast.Expr
	zeroIsNil  bool // entries are functions / pointers: an absent entry is nil, a present one is not
	elemT      types.Type
	elemExpr   ast.Expr // the element type as written in the table's type, when it is
}

func (in *inliner) tableOf(e ast.Expr) *tableInfo {
	v, ok := objOf(in.info, unparen(e)).(*types.Var)
	if !ok {
		return nil
	}
	return in.tableOfVar(v)
}

func (in *inliner) tableOfVar(v *types.Var) *tableInfo {
	if v.Pkg() == nil || v.Parent() != v.Pkg().Scope() || v.Pkg() != in.p.Types {
		return nil
	}
	if !in.freshVars[v] {
		return nil // a table of the pinned tree is left as it is
	}
	if t, done := in.tables[v]; done {
		return t
	}
	if in.tables == nil {
		in.tables = map[*types.Var]*tableInfo{}
	}
	in.tables[v] = nil
	var spec *ast.ValueSpec
	var init ast.Expr
	for _, f := range in.p.Syntax {
		for _, d := range f.Decls {
			gd, isG := d.(*ast.GenDecl)
			if !isG || gd.Tok != token.VAR {
				continue
			}
			for _, s := range gd.Specs {
				vs := s.(*ast.ValueSpec)
				for i, nm := range vs.Names {
					if in.info.Defs[nm] == types.Object(v) && i < len(vs.Values) && len(vs.Values) == len(vs.Names) {
						spec, init = vs, vs.Values[i]
					}
				}
			}
		}
	}
	cl, isCL := unparen(init).(*ast.CompositeLit)
	if spec == nil || !isCL {
		return nil
	}
	var elemT types.Type
	switch tt := v.Type().Underlying().(type) {
	case *types.Map:
		elemT = tt.Elem()
	case *types.Array:
		elemT = tt.Elem()
	case *types.Slice:
		elemT = tt.Elem()
	default:
		return nil
	}
	// nothing else writes it
	written := false
	isV := func(x ast.Expr) bool {
		for {
			switch y := unparen(x).(type) {
			case *ast.IndexExpr:
				x = y.X
				continue
			case *ast.SliceExpr:
				x = y.X
				continue
			}
			break
		}
		return sameVar(in.info, x, v)
	}
	for _, f := range in.p.Syntax {
		ast.Inspect(f, func(n ast.Node) bool {
			if n == ast.Node(spec) {
				return false
			}
			switch s := n.(type) {
			case *ast.AssignStmt:
				for _, l := range s.Lhs {
					if isV(l) {
						written = true
					}
				}
			case *ast.IncDecStmt:
				if isV(s.X) {
					written = true
				}
			case *ast.UnaryExpr:
				if s.Op == token.AND && isV(s.X) {
					written = true
				}
			case *ast.CallExpr:
				// delete(T, k), clear(T), or T handed to a function as a whole
				for _, a := range s.Args {
					if sameVar(in.info, a, v) && builtinName(in.info, s) != "len" {
						written = true
					}
				}
			}
			return !written
		})
	}
	if written {
		return nil
	}
	ti := &tableInfo{elemT: elemT}
	switch tx := cl.Type.(type) {
	case *ast.MapType:
		ti.elemExpr = tx.Value
	case *ast.ArrayType:
		ti.elemExpr = tx.Elt
	}
	_, isMap := v.Type().Underlying().(*types.Map)
	next := int64(0)
	for _, el := range cl.Elts {
		kv, isKV := el.(*ast.KeyValueExpr)
		if isMap && !isKV {
			return nil
		}
		if isKV {
			tv, has := in.info.Types[kv.Key]
			if !has || tv.Value == nil {
				return nil
			}
			if !isMap {
				k, exact := constant.Int64Val(tv.Value)
				if !exact {
					return nil
				}
				next = k
			}
			ti.keys = append(ti.keys, kv.Key)
			ti.vals = append(ti.vals, kv.Value)
		} else {
			lit := &ast.BasicLit{ValuePos: el.Pos(), Kind: token.INT, Value: itoa(int(next))}
			in.info.Types[lit] = types.TypeAndValue{Type: types.Typ[types.Int], Value: constant.MakeInt64(next)}
			ti.keys = append(ti.keys, lit)
			ti.vals = append(ti.vals, el)
		}
		next++
	}
	switch elemT.Underlying().(type) {
	case *types.Signature, *types.Pointer:
		ti.zeroIsNil = true
		for _, val := range ti.vals {
			if isNilIdent(in.info, val) {
				return nil
			}
		}
	}
	in.tables[v] = ti
	// a table whose entries are all constants is also readable by the evaluator (T[k] in any expression)
	{
		ct := &constTable{}
		allConst := true
		for i := range ti.keys {
			kt, kok := in.info.Types[ti.keys[i]]
			vt, vok := in.info.Types[ti.vals[i]]
			if !kok || !vok || kt.Value == nil || vt.Value == nil {
				allConst = false
				break
			}
			ct.keys = append(ct.keys, kt.Value)
			ct.vals = append(ct.vals, vt.Value)
		}
		// … and one whose entries are keyed struct literals by field (v := T[k]; v.f)
		if _, isStruct := elemT.Underlying().(*types.Struct); isStruct {
			st := &structTable{}
			okS := true
			for i := range ti.keys {
				kt, kok := in.info.Types[ti.keys[i]]
				cl, isCL := unparen(ti.vals[i]).(*ast.CompositeLit)
				if !kok || kt.Value == nil || !isCL {
					okS = false
					break
				}
				st.keys = append(st.keys, kt.Value)
				st.vals = append(st.vals, cl)
			}
			if okS {
				constTablesMu.Lock()
				structTables[v] = st
				constTablesMu.Unlock()
			}
		}
		if allConst {
			if b, isB := elemT.Underlying().(*types.Basic); isB {
				switch {
				case b.Info()&types.IsBoolean != 0:
					ct.zero = constant.MakeBool(false)
				case b.Info()&types.IsInteger != 0:
					ct.zero = constant.MakeInt64(0)
				case b.Info()&types.IsString != 0:
					ct.zero = constant.MakeString("")
				}
			}
			constTablesMu.Lock()
			constTables[v] = ct
			constTablesMu.Unlock()
		}
	}
	return ti
}

// lookupDef: `v[, ok] := T[k]` / `v[, ok] = T[k]`
func (in *inliner) lookupDef(s ast.Stmt) (as *ast.AssignStmt, ti *tableInfo, key ast.Expr) {
	a, isAs := s.(*ast.AssignStmt)
	if !isAs || len(a.Rhs) != 1 || len(a.Lhs) < 1 || len(a.Lhs) > 2 {
		return nil, nil, nil
	}
	ie, isIE := unparen(a.Rhs[0]).(*ast.IndexExpr)
	if !isIE {
		return nil, nil, nil
	}
	t := in.tableOf(ie.X)
	if t == nil {
		return nil, nil, nil
	}
	for _, l := range a.Lhs {
		if _, isID := l.(*ast.Ident); !isID {
			return nil, nil, nil
		}
	}
	return a, t, ie.Index
}

func (in *inliner) boolLit(pos token.Pos, b bool) ast.Expr {
	name := "false"
	if b {
		name = "true"
	}
	id := &ast.Ident{NamePos: pos, Name: name}
	in.info.Uses[id] = types.Universe.Lookup(name)
	in.info.Types[id] = types.TypeAndValue{Type: types.Typ[types.UntypedBool], Value: constant.MakeBool(b)}
	return id
}

// caseBody: stmts with v standing for val (substituted when simple, otherwise defined in front); ok (when there is one) is
// defined as the given constant if the statements use it.
func (in *inliner) caseBody(as *ast.AssignStmt, val ast.Expr, present bool, stmts []ast.Stmt) []ast.Stmt {
	vObj := objOf(in.info, as.Lhs[0])
	var okObj types.Object
	if len(as.Lhs) == 2 {
		okObj = objOf(in.info, as.Lhs[1])
	}
	uses := func(o types.Object) bool {
		if o == nil {
			return false
		}
		hit := false
		for _, s := range stmts {
			ast.Inspect(s, func(n ast.Node) bool {
				if id, isID := n.(*ast.Ident); isID && in.info.Uses[id] == o {
					hit = true
				}
				return !hit
			})
		}
		return hit
	}
	var out []ast.Stmt
	subst := map[types.Object]ast.Expr{}
	rename := map[types.Object]types.Object{}
	if vObj != nil && val != nil && uses(vObj) {
		assigned := false
		for _, s := range stmts {
			if assignedIn(in.info, s, vObj) {
				assigned = true
			}
		}
		if in.simpleArg(val) && !assigned {
			subst[vObj] = val
		} else {
			// every clause gets a variable of its own (one definition each), when v was defined by the lookup
			lhs := (&copier{info: in.info}).ident(as.Lhs[0].(*ast.Ident))
			if as.Tok == token.DEFINE {
				if ov, isV := vObj.(*types.Var); isV {
					nv := types.NewVar(ov.Pos(), ov.Pkg(), ov.Name(), ov.Type())
					rename[vObj] = nv
					in.info.Defs[lhs] = nv
					delete(in.info.Uses, lhs)
				}
			}
			out = append(out, &ast.AssignStmt{Lhs: []ast.Expr{lhs}, TokPos: as.Pos(), Tok: as.Tok, Rhs: []ast.Expr{val}})
		}
	}
	if okObj != nil && uses(okObj) {
		lhs := (&copier{info: in.info}).ident(as.Lhs[1].(*ast.Ident))
		out = append(out, &ast.AssignStmt{Lhs: []ast.Expr{lhs}, TokPos: as.Pos(), Tok: as.Tok, Rhs: []ast.Expr{in.boolLit(as.Pos(), present)}})
	}
	cp := &copier{info: in.info, subst: subst, rename: rename}
	for _, s := range stmts {
		out = append(out, cp.node(s).(ast.Stmt))
	}
	return out
}

func (in *inliner) switchOver(pos token.Pos, key ast.Expr, ti *tableInfo, perEntry func(i int) []ast.Stmt, deflt []ast.Stmt) ast.Stmt {
	sw := &ast.SwitchStmt{Switch: pos, Tag: key, Body: &ast.BlockStmt{Lbrace: pos, Rbrace: pos}}
	for i := range ti.keys {
		sw.Body.List = append(sw.Body.List, &ast.CaseClause{Case: ti.keys[i].Pos(), List: []ast.Expr{ti.keys[i]}, Colon: ti.keys[i].End(), Body: perEntry(i)})
	}
	sw.Body.List = append(sw.Body.List, &ast.CaseClause{Case: pos, Colon: pos, Body: deflt})
	in.count++
	return sw
}

func endsInReturn(list []ast.Stmt) bool {
	if len(list) == 0 {
		return false
	}
	_, isRet := list[len(list)-1].(*ast.ReturnStmt)
	return isRet
}

func hasBranch(list []ast.Stmt) bool {
	hit := false
	for _, s := range list {
		ast.Inspect(s, func(n ast.Node) bool {
			switch n.(type) {
			case *ast.BranchStmt:
				hit = true
			case *ast.FuncLit:
				return false
			}
			return !hit
		})
	}
	return hit
}

// tableLookup recognises the forms at position i of a statement list; it returns the replacement and how many statements of the
// list it consumed.
func (in *inliner) tableLookup(list []ast.Stmt, i int) ([]ast.Stmt, int, bool) {
	s := list[i]
	copyAll := func(stmts []ast.Stmt) []ast.Stmt {
		cp := &copier{info: in.info, subst: map[types.Object]ast.Expr{}}
		var out []ast.Stmt
		for _, st := range stmts {
			out = append(out, cp.node(st).(ast.Stmt))
		}
		return out
	}
	// if v, ok := T[k]; ok { BODY } else { ELSE }      /      if v := T[k]; v != nil { BODY }
	if ifs, isIf := s.(*ast.IfStmt); isIf && ifs.Init != nil {
		if as, ti, key := in.lookupDef(ifs.Init); as != nil && as.Tok == token.DEFINE {
			present := false
			if len(as.Lhs) == 2 {
				present = sameVar(in.info, ifs.Cond, objOf(in.info, as.Lhs[1]))
			} else if ti.zeroIsNil {
				nn, isCmp := nilCmp(in.info, ifs.Cond, 1, func(e ast.Expr) bool { return sameVar(in.info, e, objOf(in.info, as.Lhs[0])) })
				present = isCmp && nn
			}
			if present && !hasBranch(ifs.Body.List) {
				var deflt []ast.Stmt
				switch e := ifs.Else.(type) {
				case *ast.BlockStmt:
					deflt = e.List
				case *ast.IfStmt:
					deflt = []ast.Stmt{e}
				}
				if !hasBranch(deflt) {
					sw := in.switchOver(ifs.Pos(), key, ti, func(j int) []ast.Stmt { return in.caseBody(as, ti.vals[j], true, ifs.Body.List) }, in.caseBody(as, nil, false, deflt))
					return []ast.Stmt{sw}, 1, true
				}
			}
		}
	}
	// if v := T[k]; COND { A } else { B } — one value, an absent key gives the zero value: every entry and the default run the
	// same test on their own v
	if ifs, isIf := s.(*ast.IfStmt); isIf && ifs.Init != nil {
		if as, ti, key := in.lookupDef(ifs.Init); as != nil && as.Tok == token.DEFINE && len(as.Lhs) == 1 && !ti.zeroIsNil {
			inner := *ifs
			inner.Init = nil
			if !hasBranch([]ast.Stmt{&inner}) {
				zero := in.zeroOf(ti, as.Pos())
				if zero != nil {
					sw := in.switchOver(ifs.Pos(), key, ti, func(j int) []ast.Stmt { return in.caseBody(as, ti.vals[j], true, []ast.Stmt{&inner}) }, in.caseBody(as, zero, false, []ast.Stmt{&inner}))
					return []ast.Stmt{sw}, 1, true
				}
			}
		}
	}
	// v, ok := T[k]; if !ok { FAIL }; REST
	if as, ti, key := in.lookupDef(s); as != nil && len(as.Lhs) == 2 && i+1 < len(list) {
		if ifs, isIf := list[i+1].(*ast.IfStmt); isIf && ifs.Init == nil && ifs.Else == nil {
			if u, isU := unparen(ifs.Cond).(*ast.UnaryExpr); isU && u.Op == token.NOT && sameVar(in.info, u.X, objOf(in.info, as.Lhs[1])) && !hasBranch(ifs.Body.List) {
				rest := list[i+2:]
				if endsInReturn(ifs.Body.List) && len(rest) > 0 && len(rest) <= 4 && endsInReturn(rest) && !hasBranch(rest) {
					// every entry continues with its own copy of the short rest
					sw := in.switchOver(s.Pos(), key, ti, func(j int) []ast.Stmt { return in.caseBody(as, ti.vals[j], true, rest) }, copyAll(ifs.Body.List))
					return []ast.Stmt{sw}, len(list) - i, true
				}
				// otherwise the entries only define v; FAIL is the default clause
				sw := in.switchOver(s.Pos(), key, ti, func(j int) []ast.Stmt {
					lhs := (&copier{info: in.info}).ident(as.Lhs[0].(*ast.Ident))
					out := []ast.Stmt{&ast.AssignStmt{Lhs: []ast.Expr{lhs}, TokPos: as.Pos(), Tok: as.Tok, Rhs: []ast.Expr{ti.vals[j]}}}
					return out
				}, copyAll(ifs.Body.List))
				return []ast.Stmt{sw}, 2, true
			}
		}
	}
	// switch T[k] { case C1: …; default: … } with constant entries
	if sw, isSw := s.(*ast.SwitchStmt); isSw && sw.Init == nil && sw.Tag != nil {
		if ie, isIE := unparen(sw.Tag).(*ast.IndexExpr); isIE {
			if ti := in.tableOf(ie.X); ti != nil && !ti.zeroIsNil {
				return in.regroup(sw, ti, ie.Index)
			}
		}
	}
	return nil, 0, false
}

// regroup: switch T[k] {case C…} → switch k {case the keys whose entry is C…}; keys whose constant no clause names, and all keys
// not in T, take the default. Not done when a clause names the zero value (absent keys would have to join it).
func (in *inliner) regroup(sw *ast.SwitchStmt, ti *tableInfo, key ast.Expr) ([]ast.Stmt, int, bool) {
	var vals []constant.Value
	for _, v := range ti.vals {
		tv, has := in.info.Types[v]
		if !has || tv.Value == nil {
			return nil, 0, false
		}
		vals = append(vals, tv.Value)
	}
	isZero := func(c constant.Value) bool {
		switch c.Kind() {
		case constant.Int, constant.Float:
			return constant.Sign(c) == 0
		case constant.String:
			return constant.StringVal(c) == ""
		case constant.Bool:
			return !constant.BoolVal(c)
		}
		return false
	}
	out := &ast.SwitchStmt{Switch: sw.Switch, Tag: key, Body: &ast.BlockStmt{Lbrace: sw.Body.Lbrace, Rbrace: sw.Body.Rbrace}}
	taken := map[int]bool{}
	hasDefault := false
	for _, cl := range sw.Body.List {
		cc := cl.(*ast.CaseClause)
		if cc.List == nil {
			hasDefault = true
			out.Body.List = append(out.Body.List, cc)
			continue
		}
		ncc := &ast.CaseClause{Case: cc.Case, Colon: cc.Colon, Body: cc.Body}
		for _, ce := range cc.List {
			tv, has := in.info.Types[ce]
			if !has || tv.Value == nil || isZero(tv.Value) {
				return nil, 0, false
			}
			for j, v := range vals {
				if !taken[j] && v.Kind() == tv.Value.Kind() && constant.Compare(v, token.EQL, tv.Value) {
					ncc.List = append(ncc.List, ti.keys[j])
					taken[j] = true
				}
			}
		}
		if len(ncc.List) == 0 {
			continue // a constant no entry holds: dead clause
		}
		out.Body.List = append(out.Body.List, ncc)
	}
	_ = hasDefault
	in.count++
	return []ast.Stmt{out}, 1, true
}

// zeroOf: an expression for the zero value of the table's element type — a constant for basic types, `T{}` for structs whose type
// is written in the table's own type.
func (in *inliner) zeroOf(ti *tableInfo, pos token.Pos) ast.Expr {
	if z := zeroLit(in.info, ti.elemT, pos); z != nil {
		return z
	}
	if _, isS := ti.elemT.Underlying().(*types.Struct); isS && ti.elemExpr != nil {
		cl := &ast.CompositeLit{Type: ti.elemExpr, Lbrace: pos, Rbrace: pos}
		in.info.Types[cl] = types.TypeAndValue{Type: ti.elemT}
		return cl
	}
	return nil
}
