package main

import (
	"go/ast"
	"go/constant"
	"go/token"
	"go/types"
	"sort"
	"strings"
)

const (
	aggPkg     = "go.opentelemetry.io/otel/sdk/metric/internal/aggregate"
	metricdata = "go.opentelemetry.io/otel/sdk/metric/metricdata"
)

func init() {
	register(&PropDoc{
		ID:      "C02",
		Modules: []string{"sdk/metric"},
		NotDecided: "numerical conservation (float rounding, overflow); that a monotonic sum never decreases as a value property; any schedule argument beyond 'same lock' and 'one critical section'; " +
			"the data points reached through the values maps are covered by the lock on the map, not tracked field by field.",
		Fn: c02,
	})
}

// aggregator table: type, mutex suffix for the type's own fields, the field path to `values`' owner lock
type aggSpec struct {
	typ      string
	ownMu    string   // mutex guarding the type's own fields (start, reported), relative to the receiver
	own      []string // own guarded fields
	syncKind bool     // synchronous aggregator: cumulative must retain state
}

var aggSpecs = []aggSpec{
	{"sum", ".valueMap.Mutex", []string{"start"}, true},
	{"precomputedSum", ".valueMap.Mutex", []string{"start", "reported"}, false},
	{"lastValue", ".Mutex", []string{"values", "start"}, true},
	{"precomputedLastValue", "", nil, false},
	{"histogram", ".histValues.valuesMu", []string{"start"}, true},
	{"expoHistogram", ".valuesMu", []string{"values", "start"}, true},
}

// aggGuards is the guarded-by table of the aggregate package (C02.R1; reused by C08, C12).
func aggGuards() []GuardSpec {
	return []GuardSpec{
		{Type: "valueMap", Mutex: ".Mutex", Fields: []string{"values"}},
		{Type: "sum", Mutex: ".valueMap.Mutex", Fields: []string{"start"}},
		{Type: "precomputedSum", Mutex: ".valueMap.Mutex", Fields: []string{"start", "reported"}},
		{Type: "lastValue", Mutex: ".Mutex", Fields: []string{"values", "start"}},
		{Type: "histValues", Mutex: ".valuesMu", Fields: []string{"values"}},
		{Type: "histogram", Mutex: ".histValues.valuesMu", Fields: []string{"start"}},
		{Type: "expoHistogram", Mutex: ".valuesMu", Fields: []string{"values", "start"}},
	}
}

// valuesFieldOf / startFieldOf resolve the `values` and `start` fields reachable from aggregator type typ (through embedding).
func aggField(ix *PkgIndex, typ, name string) *types.Var {
	n := lookupType(ix.Pkg, typ)
	if n == nil {
		return nil
	}
	obj, _, _ := types.LookupFieldOrMethod(n, true, ix.Pkg.Types, name)
	v, _ := obj.(*types.Var)
	if v != nil {
		return v.Origin()
	}
	return nil
}

// isEmptying: n empties map/slice field fld: clear(x.f), x.f = make(...), x.f = map[..]..{}.
func isEmptying(info *types.Info, n ast.Node, fld *types.Var) bool {
	if call, ok := n.(*ast.CallExpr); ok && builtinName(info, call) == "clear" && len(call.Args) == 1 && isField(info, call.Args[0], fld) {
		return true
	}
	if r := assignRHS(n, func(e ast.Expr) bool { return isField(info, e, fld) }); r != nil {
		switch x := unparen(r).(type) {
		case *ast.CallExpr:
			return builtinName(info, x) == "make"
		case *ast.CompositeLit:
			return len(x.Elts) == 0
		}
	}
	return false
}

// ruleDeltaAtomic (C02.R2 / C08.R1): in T.delta the read-out of values, its emptying and start = t are one critical section, on every path.
func ruleDeltaAtomic(c *Ctx, ix *PkgIndex, rule string) {
	info := ix.Pkg.TypesInfo
	le := c.Locks(ix)
	for _, a := range aggSpecs {
		fn := c.Fn(ix, rule, "(*"+a.typ+").delta")
		if fn == nil {
			continue
		}
		fVals, fStart := aggField(ix, a.typ, "values"), aggField(ix, a.typ, "start")
		if fVals == nil || fStart == nil {
			c.Missing(rule, "aggregate."+a.typ+".values/start")
			continue
		}
		g := ix.FG(fn)
		key := "aggregate|(*" + a.typ + ").delta|read-out, emptying of values and start = t in one critical section on every path"
		// the read-out: a direct read of the map, or a call of a helper of the package that reads it (copyDpts, a shared
		// snapshot routine, …)
		reads, _ := ix.effectNodes(fn, func(n ast.Node) bool {
			e, ok := n.(ast.Expr)
			return ok && isField(info, e, fVals)
		})
		empt := g.Match(func(n ast.Node) bool { return isEmptying(info, n, fVals) })
		var tvar types.Object
		inspectNoLit(fn.Body(), func(n ast.Node) bool {
			if as, ok := n.(*ast.AssignStmt); ok && len(as.Lhs) == 1 && len(as.Rhs) == 1 {
				if call, ok := unparen(as.Rhs[0]).(*ast.CallExpr); ok {
					if v, ok := objOf(info, call.Fun).(*types.Var); ok && v.Name() == "now" && tvar == nil {
						tvar = objOf(info, as.Lhs[0])
					}
				}
			}
			return true
		})
		starts := g.Match(func(n ast.Node) bool {
			r := assignRHS(n, func(e ast.Expr) bool { return isField(info, e, fStart) })
			return r != nil && tvar != nil && sameVar(info, r, tvar)
		})
		site := at(ix.M, fn.Pos())
		if len(empt) == 0 {
			c.Violation(rule, key, site, "delta never empties values: every collection re-reports all earlier measurements (double counting across intervals)")
			continue
		}
		if len(starts) == 0 {
			c.Violation(rule, key, site, "delta does not advance start to this collection's timestamp: intervals overlap")
			continue
		}
		se, _ := g.ReachFromEntry(func(x *GNode) bool { return toSet(empt)[x] }, nil)
		ss, _ := g.ReachFromEntry(func(x *GNode) bool { return toSet(starts)[x] }, nil)
		if se[g.Exit] || ss[g.Exit] {
			c.Violation(rule, key, site, "a path through delta skips the emptying of values or the start update")
			continue
		}
		// emptying after the read-out, with no release in between; all under the lock
		recv := fn.Recv()
		mu := varKey(recv) + resolvePath(ix.Pkg, a.typ, a.ownMu)
		if a.ownMu == "" {
			mu = varKey(recv) + resolvePath(ix.Pkg, a.typ, ".lastValue.Mutex")
		}
		// the function analysed may be the embedded type's method this one forwards to: the mutex path is relative to its receiver
		if rn := namedOf(recv.Type()); rn != nil && rn.Obj().Name() != a.typ {
			for _, b := range aggSpecs {
				if b.typ == rn.Obj().Name() && b.ownMu != "" {
					mu = varKey(recv) + resolvePath(ix.Pkg, b.typ, b.ownMu)
				}
			}
		}
		bad := ""
		for _, e := range empt {
			// at least one read of the map dominates the emptying
			dom := false
			for _, r := range reads {
				if r == e {
					continue
				}
				if d, _ := g.DominatedByNodes(e, map[*GNode]bool{r: true}); d {
					dom = true
					if rel := le.ReleasesBetween(fn, r, e, mu); rel != nil {
						bad = "lock released at " + ix.M.posStr(rel.N.Pos()) + " between the read-out and the emptying (measurements recorded in between are lost)"
					}
				}
			}
			if !dom {
				bad = "values is emptied before it is read out"
			}
			if !le.Held(fn)[e][mu] {
				bad = "values emptied without the aggregator lock"
			}
		}
		for _, s := range starts {
			if !le.Held(fn)[s][mu] {
				bad = "start updated without the aggregator lock"
			}
		}
		c.Check(bad == "", rule, key, site, "range → clear → start = t under "+mu[strings.Index(mu, ".")+1:], bad)
	}
}

// ruleCumulativeRetains (C02.R3 / C08.R1): cumulative of the synchronous aggregators writes neither values nor start.
func ruleCumulativeRetains(c *Ctx, ix *PkgIndex, rule string) {
	info := ix.Pkg.TypesInfo
	for _, a := range aggSpecs {
		if !a.syncKind {
			continue
		}
		fn := c.Fn(ix, rule, "(*"+a.typ+").cumulative")
		if fn == nil {
			continue
		}
		fVals, fStart := aggField(ix, a.typ, "values"), aggField(ix, a.typ, "start")
		var bad []string
		for _, acc := range ix.fieldAccesses(map[*types.Var]bool{fVals: true, fStart: true}) {
			if ix.Outer(acc.F) == fn && acc.Write {
				bad = append(bad, acc.Field.Name()+" at "+ix.M.posStr(acc.Sel.Pos()))
			}
		}
		inspectNoLit(fn.Body(), func(n ast.Node) bool {
			if isEmptying(info, n, fVals) {
				bad = append(bad, "values emptied at "+ix.M.posStr(n.Pos()))
			}
			return true
		})
		c.Check(len(bad) == 0, rule, "aggregate|(*"+a.typ+").cumulative|retains values and start", at(ix.M, fn.Pos()), "no write to values/start",
			"cumulative collection of a synchronous aggregator modifies its state ("+strings.Join(bad, "; ")+"): the running total restarts")
	}
}

// ruleCollectRebuilds: every collect method reports from its own state on every call — each path from its entry to its exit passes
// the walk over the aggregator's values (in the method or in a helper it calls). The destination it is handed is scratch memory
// that pipeline.produce pairs with instruments by position: a path that keeps what the destination already holds ("nothing
// changed since last time") reports another stream's points as soon as the positions shift. Shared by C02.R12 and C08.R11.
func ruleCollectRebuilds(c *Ctx, ix *PkgIndex, rule string) {
	info := ix.Pkg.TypesInfo
	for _, a := range aggSpecs {
		fVals := aggField(ix, a.typ, "values")
		if fVals == nil {
			continue
		}
		var walksD func(body ast.Node, depth int) bool
		walksD = func(body ast.Node, depth int) bool {
			hit := false
			if body == nil || depth > 3 {
				return false
			}
			inspectNoLit(body, func(n ast.Node) bool {
				switch x := n.(type) {
				case *ast.RangeStmt:
					if isField(info, x.X, fVals) {
						hit = true
					}
				case *ast.CallExpr:
					// … or hands the job to another declared function that does (the embedded aggregator's method, a copy helper)
					if d := ix.declByObj(callee(info, x)); d != nil && d.Body() != nil && d.Body() != body && walksD(d.Body(), depth+1) {
						hit = true
					}
				}
				return true
			})
			return hit
		}
		walks := func(body ast.Node) bool { return walksD(body, 0) }
		for _, m := range []string{"delta", "cumulative"} {
			fn := ix.Func("(*" + a.typ + ")." + m)
			if fn == nil || fn.Body() == nil {
				continue // promoted from the embedded aggregator: judged there
			}
			g := ix.FG(fn)
			through := map[*GNode]bool{}
			for _, x := range g.Nodes {
				if x.N == nil {
					continue
				}
				if rs, ok := x.N.(*ast.RangeStmt); ok && isField(info, rs.X, fVals) {
					through[x] = true
					continue
				}
				if e, ok := x.N.(ast.Expr); ok && isField(info, e, fVals) {
					// the range expression is a vertex of its own in the flow graph
					isRangeX := false
					inspectNoLit(fn.Body(), func(n ast.Node) bool {
						if rs, ok := n.(*ast.RangeStmt); ok && rs.X == e {
							isRangeX = true
						}
						return true
					})
					if isRangeX {
						through[x] = true
						continue
					}
				}
				inspectNoLit(x.N, func(n ast.Node) bool {
					if call, ok := n.(*ast.CallExpr); ok {
						if d := ix.declByObj(callee(info, call)); d != nil && d != fn && walks(d.Body()) {
							through[x] = true
						}
					}
					return true
				})
			}
			key := "aggregate|(*" + a.typ + ")." + m + "|every call walks the aggregator's values"
			if len(through) == 0 {
				c.Violation(rule, key, at(ix.M, fn.Pos()), "the method does not walk values at all: it reports nothing of its own")
				continue
			}
			seen, par := g.ReachFromEntry(func(y *GNode) bool { return through[y] }, nil)
			c.Check(!seen[g.Exit], rule, key, at(ix.M, fn.Pos()), "no path from entry to exit avoids the walk over values",
				"a path returns what the destination already held without walking values ("+g.pathLines(par, g.Exit)+"): the destination is scratch memory paired with instruments by position, so the stream can report another stream's points — a cumulative total that goes down, or values it never recorded")
		}
	}
}

func c02(c *Ctx) {
	c.FollowDelegates = true
	defer func() { c.FollowDelegates = false }()
	ax := c.Index("sdk/metric", aggPkg)
	mx := c.Index("sdk/metric", sdkMetric)
	if ax == nil || mx == nil {
		return
	}
	ainfo := ax.Pkg.TypesInfo
	minfo := mx.Pkg.TypesInfo

	c.Rule("R1", "E1 guarded-by", "aggregator state (values, start, reported) only under the aggregator's mutex; pipeline collections only under the pipeline mutex", 60)
	ale := c.Locks(ax)
	for _, gs := range aggGuards() {
		ale.GuardedBy(c.Run, "R1", gs)
	}
	mle := c.Locks(mx)
	mle.GuardedBy(c.Run, "R1", GuardSpec{Type: "pipeline", Mutex: ".Mutex", Fields: []string{"aggregations", "callbacks", "multiCallbacks", "int64Measures", "float64Measures"},
		Exempt: map[string]string{
			"observer.ObserveInt64|int64Measures":     "runs only inside a multi-callback, which pipeline.produce invokes while holding the pipeline lock (escape of the observer checked below)",
			"observer.ObserveFloat64|float64Measures": "runs only inside a multi-callback, which pipeline.produce invokes while holding the pipeline lock (escape of the observer checked below)",
		}})
	// the checkable half of the exemption: newObserver's result only reaches the closure handed to addMultiCallback; multiCallbacks run only in produce
	if rc := c.Fn(mx, "R1", "(*meter).RegisterCallback"); rc != nil {
		newObs := mx.Func("newObserver")
		addMC := mx.Func("(*pipeline).addMultiCallback")
		sites := mx.Calls[newObs.Obj.Origin()]
		good := len(sites) == 1 && mx.Outer(sites[0].In) == rc
		var reg types.Object
		if good {
			inspectNoLit(rc.Body(), func(n ast.Node) bool {
				if as, ok := n.(*ast.AssignStmt); ok && len(as.Lhs) == 1 && len(as.Rhs) == 1 && unparen(as.Rhs[0]) == ast.Expr(sites[0].Call) {
					reg = objOf(minfo, as.Lhs[0])
				}
				return true
			})
		}
		// uses of reg: method calls registerInt64/registerFloat64 on it, or inside a literal assigned to a var that is passed to addMultiCallback
		if reg == nil {
			good = false
		} else {
			var cbVar types.Object
			direct := false
			for _, f := range mx.All {
				if mx.Outer(f) != rc {
					continue
				}
				inspectNoLit(f.Body(), func(n ast.Node) bool {
					id, ok := n.(*ast.Ident)
					if !ok || minfo.Uses[id] != reg {
						return true
					}
					if f.Lit != nil {
						// the literal must be the callback
						par := mx.Parent[f.Lit]
						handed := false
						inspectNoLit(par.Body(), func(m ast.Node) bool {
							if as, ok := m.(*ast.AssignStmt); ok && len(as.Rhs) == 1 && unparen(as.Rhs[0]) == ast.Expr(f.Lit) {
								cbVar = objOf(minfo, as.Lhs[0])
								handed = true
							}
							// … or the literal is handed to addMultiCallback where it stands
							if call, ok := m.(*ast.CallExpr); ok && callToDecl(minfo, addMC)(call) && len(call.Args) == 1 && unparen(call.Args[0]) == ast.Expr(f.Lit) {
								direct = true
								handed = true
							}
							return true
						})
						if !handed {
							good = false
						}
						return true
					}
					use, ctx := classifyUseIdent(f, id)
					if use == "call" {
						if cf := callee(minfo, ctx.(*ast.CallExpr)); cf != nil && strings.HasPrefix(cf.Name(), "register") {
							return true
						}
					}
					good = false
					return true
				})
			}
			if cbVar == nil {
				good = good && direct
			} else {
				n := 0
				for _, f := range mx.All {
					if mx.Outer(f) != rc {
						continue
					}
					inspectNoLit(f.Body(), func(m ast.Node) bool {
						id, ok := m.(*ast.Ident)
						if ok && minfo.Uses[id] == cbVar {
							n++
							use, ctx := classifyUseIdent(f, id)
							if use != "arg" || !callToDecl(minfo, addMC)(ctx) {
								good = false
							}
						}
						return true
					})
				}
				if n != 1 {
					good = false
				}
			}
		}
		c.Check(good, "R1", "sdk/metric|(*meter).RegisterCallback|observer escapes only into the multi-callback", at(mx.M, rc.Pos()),
			"newObserver() result is used for registration and inside the closure passed to addMultiCallback only", "an observer can be used outside a callback run by produce: its unlocked reads of the pipeline's measure maps race")
		// multiCallbacks elements are invoked only in produce
		fMC := lookupField(mx.Pkg, "pipeline", "multiCallbacks")
		okOnly := true
		for _, a := range mx.fieldAccesses(map[*types.Var]bool{fMC.Origin(): true}) {
			o := mx.Outer(a.F).Name
			if o != "(*pipeline).produce" && o != "(*pipeline).addMultiCallback" {
				okOnly = false
			}
		}
		c.Check(okOnly, "R1", "sdk/metric|pipeline.multiCallbacks|used only by addMultiCallback and produce", at(mx.M, rc.Pos()), "callbacks run only under the pipeline lock", "multi-callbacks can be invoked outside produce")
	}

	c.Rule("R2", "E1 atomic section + E3 must-pass", "every delta method reads out, empties values and advances start inside one critical section on every path; every measure looks its entry up and writes it back inside one critical section", 10)
	ruleDeltaAtomic(c, ax, "R2")
	ruleMeasureAtomic(c, ax, "R2")

	c.Rule("R3", "E5 who-may-write", "cumulative of the synchronous aggregators (sum, histogram, expoHistogram, lastValue) writes neither values nor start", 4)
	ruleCumulativeRetains(c, ax, "R3")

	c.Rule("R4", "E2/E3 operator table", "accumulation operators: sum n += v; last value = v; histogram counts[idx]++ with count++ and total += v; the map entry is written back under the key it was read with", 5)
	{
		// valueMap.measure and lastValue.measure
		for _, sp := range []struct {
			fn, elemT, fld string
			add            bool
		}{
			{"(*valueMap).measure", "sumValue", "n", true}, {"(*lastValue).measure", "datapoint", "value", false},
		} {
			fn := c.Fn(ax, "R4", sp.fn)
			f := lookupField(ax.Pkg, sp.elemT, sp.fld)
			if fn == nil || f == nil {
				c.Missing("R4", "aggregate."+sp.elemT+"."+sp.fld)
				continue
			}
			val := fn.Obj.Type().(*types.Signature).Params().At(1)
			g := ax.FG(fn)
			upd := g.Match(func(n ast.Node) bool {
				as, ok := n.(*ast.AssignStmt)
				if !ok || len(as.Lhs) != 1 || len(as.Rhs) != 1 || !isField(ainfo, as.Lhs[0], f) {
					return false
				}
				if sp.add {
					if as.Tok == token.ADD_ASSIGN && sameVar(ainfo, as.Rhs[0], val) {
						return true
					}
					if be, ok := unparen(as.Rhs[0]).(*ast.BinaryExpr); ok && as.Tok == token.ASSIGN && be.Op == token.ADD {
						return (isField(ainfo, be.X, f) && sameVar(ainfo, be.Y, val)) || (isField(ainfo, be.Y, f) && sameVar(ainfo, be.X, val))
					}
					return false
				}
				return as.Tok == token.ASSIGN && sameVar(ainfo, as.Rhs[0], val)
			})
			all := g.Match(func(n ast.Node) bool {
				as, ok := n.(*ast.AssignStmt)
				if ok {
					for _, l := range as.Lhs {
						if isField(ainfo, l, f) {
							return true
						}
					}
				}
				if ids, ok := n.(*ast.IncDecStmt); ok && isField(ainfo, ids.X, f) {
					return true
				}
				return false
			})
			s, _ := g.ReachFromEntry(func(x *GNode) bool { return toSet(upd)[x] }, nil)
			op := "="
			if sp.add {
				op = "+="
			}
			c.Check(len(upd) == 1 && len(all) == 1 && !s[g.Exit], "R4", "aggregate|"+sp.fn+"|"+sp.fld+" "+op+" value on every path", at(ax.M, fn.Pos()), "single accumulation statement",
				"the accumulation operator of "+sp.fn+" changed (expected exactly one `"+sp.fld+" "+op+" value` on every path): measurements are lost or miscounted")
			// write-back key equals read key
			fVals := aggField(ax, strings.TrimSuffix(strings.TrimPrefix(sp.fn, "(*"), ").measure"), "values")
			var readKey, writeKey []string
			var readVar, writeVar types.Object
			inspectNoLit(fn.Body(), func(n ast.Node) bool {
				as, ok := n.(*ast.AssignStmt)
				if !ok {
					return true
				}
				if len(as.Rhs) == 1 {
					if ie, ok := unparen(as.Rhs[0]).(*ast.IndexExpr); ok && isField(ainfo, ie.X, fVals) {
						readKey = append(readKey, exprStr(ie.Index))
						readVar = objOf(ainfo, as.Lhs[0])
					}
				}
				for i, l := range as.Lhs {
					if ie, ok := unparen(l).(*ast.IndexExpr); ok && isField(ainfo, ie.X, fVals) && len(as.Lhs) == len(as.Rhs) {
						writeKey = append(writeKey, exprStr(ie.Index))
						writeVar = objOf(ainfo, as.Rhs[i])
					}
				}
				return true
			})
			sameKey := len(readKey) >= 1 && len(writeKey) == 1 && readVar != nil && readVar == writeVar
			for _, rk := range readKey {
				if len(writeKey) == 1 && rk != writeKey[0] {
					sameKey = false
				}
			}
			if sameKey && len(readKey) > 1 {
				// several look-ups through one key variable (a fast path for known sets, then the limited key): the write-back uses the
				// key of the LAST look-up on each path — wherever the key variable changes, another look-up comes before the write
				isRead := func(n ast.Node) bool {
					as, ok := n.(*ast.AssignStmt)
					if !ok || len(as.Rhs) != 1 {
						return false
					}
					ie, isIx := unparen(as.Rhs[0]).(*ast.IndexExpr)
					return isIx && isField(ainfo, ie.X, fVals)
				}
				reads := toSet(g.Match(isRead))
				var wnode *GNode
				var wkey ast.Expr
				for _, x := range g.Nodes {
					if as, ok := x.N.(*ast.AssignStmt); ok {
						for _, l := range as.Lhs {
							if ie, isIx := unparen(l).(*ast.IndexExpr); isIx && isField(ainfo, ie.X, fVals) {
								wnode, wkey = x, ie.Index
							}
						}
					}
				}
				for _, x := range g.Nodes {
					as, ok := x.N.(*ast.AssignStmt)
					if !ok || wnode == nil || reads[x] {
						continue
					}
					touches := false
					for _, l := range as.Lhs {
						if id, isID := unparen(l).(*ast.Ident); isID {
							o := ainfo.ObjectOf(id)
							ast.Inspect(wkey, func(m ast.Node) bool {
								if kid, isK := m.(*ast.Ident); isK && o != nil && ainfo.Uses[kid] == o {
									touches = true
								}
								return !touches
							})
						}
					}
					if !touches {
						continue
					}
					if s2, _ := g.Reach([]*GNode{x}, func(y *GNode) bool { return reads[y] }, nil); s2[wnode] {
						sameKey = false
					}
				}
			}
			c.Check(sameKey, "R4", "aggregate|"+sp.fn+"|entry written back under the key it was read with", at(ax.M, fn.Pos()),
				"values["+strings.Join(readKey, "")+"] read-modify-write", "the updated entry is stored under a different key than it was read from (or not stored): the measurement lands in another series or is lost")
		}
		if fn := c.Fn(ax, "R4", "(*buckets).bin"); fn != nil {
			g := ax.FG(fn)
			fCounts, fCount := lookupField(ax.Pkg, "buckets", "counts"), lookupField(ax.Pkg, "buckets", "count")
			idx := fn.Obj.Type().(*types.Signature).Params().At(0)
			incC := g.Match(func(n ast.Node) bool {
				s, ok := n.(*ast.IncDecStmt)
				if !ok || s.Tok != token.INC {
					return false
				}
				ie, ok := unparen(s.X).(*ast.IndexExpr)
				return ok && isField(ainfo, ie.X, fCounts) && sameVar(ainfo, ie.Index, idx)
			})
			incN := g.Match(func(n ast.Node) bool {
				s, ok := n.(*ast.IncDecStmt)
				return ok && s.Tok == token.INC && isField(ainfo, s.X, fCount)
			})
			s1, _ := g.ReachFromEntry(func(x *GNode) bool { return toSet(incC)[x] }, nil)
			s2, _ := g.ReachFromEntry(func(x *GNode) bool { return toSet(incN)[x] }, nil)
			c.Check(len(incC) == 1 && len(incN) == 1 && !s1[g.Exit] && !s2[g.Exit] && !g.InCycle(incC[0]) && !g.InCycle(incN[0]), "R4", "aggregate|(*buckets).bin|counts[idx]++ and count++ once on every path", at(ax.M, fn.Pos()),
				"bucket count and total count move together", "count and the bucket counts can diverge (count must equal the sum of the bucket counts)")
		}
		if fn := c.Fn(ax, "R4", "(*buckets).sum"); fn != nil {
			fT := lookupField(ax.Pkg, "buckets", "total")
			val := fn.Obj.Type().(*types.Signature).Params().At(0)
			n := 0
			inspectNoLit(fn.Body(), func(nd ast.Node) bool {
				if as, ok := nd.(*ast.AssignStmt); ok && len(as.Lhs) == 1 && isField(ainfo, as.Lhs[0], fT) && as.Tok == token.ADD_ASSIGN && sameVar(ainfo, as.Rhs[0], val) {
					n++
				}
				return true
			})
			c.Check(n == 1, "R4", "aggregate|(*buckets).sum|total += value", at(ax.M, fn.Pos()), "histogram sum accumulates", "histogram sum no longer accumulates the recorded value")
		}
	}

	c.Rule("R12", "E3 must-pass", "every collect method (delta and cumulative, all aggregators) walks its own values on every path from entry to exit: nothing is reported from what the scratch destination happened to hold", 8)
	ruleCollectRebuilds(c, ax, "R12")

	// R11 one measure per distinct aggregator (shared with C12.R5)
	c.Rule("R11", "E3 dominance", "inserter.Instrument: no nil measure is appended, and a measure whose aggregator was already added for this instrument is not appended again (the set is keyed by the aggregator id): every Add reaches each aggregator once", 3)
	ruleInserterDedup(c, mx, "R11")

	c.Rule("R5", "E3 total fan-out", "every loop that delivers a measurement (or builds the aggregators) for each reader pipeline is total", 8)
	fan := func(ix *PkgIndex, fname string, isTarget func(info *types.Info, call *ast.CallExpr) bool, what string) {
		ruleFanout(c, ix, "R5", fname, isTarget, what)
	}
	rangeVarCall := func(info *types.Info, call *ast.CallExpr) bool {
		// call of a func-typed local (the range variable over a []Measure)
		v, ok := objOf(info, call.Fun).(*types.Var)
		if !ok {
			return false
		}
		n := namedOf(v.Type())
		return n != nil && n.Obj().Name() == "Measure"
	}
	fan(mx, "(*int64Inst).aggregate", rangeVarCall, "measure call")
	fan(mx, "(*float64Inst).aggregate", rangeVarCall, "measure call")
	fan(mx, "measures.observe", rangeVarCall, "measure call")
	fan(mx, "observer.ObserveInt64", rangeVarCall, "measure call")
	fan(mx, "observer.ObserveFloat64", rangeVarCall, "measure call")
	isAppendMeasures := func(info *types.Info, call *ast.CallExpr) bool {
		return builtinName(info, call) == "append" && call.Ellipsis.IsValid()
	}
	fan(mx, "resolver.Aggregators", isAppendMeasures, "append(measures, in...)")
	fan(mx, "resolver.HistogramAggregators", isAppendMeasures, "append(measures, in...)")
	fan(mx, "newPipelines", func(info *types.Info, call *ast.CallExpr) bool {
		return isCallTo(info, call, "("+sdkMetric+".Reader).register")
	}, "reader.register(pipeline)")

	c.Rule("R10", "E4 pass-through (siblings int64/float64)", "Add/Record hand (ctx, value, configured attributes) to aggregate on every path; aggregate/observe hand the same value and set to every measure", 8)
	for _, typ := range []string{"int64Inst", "float64Inst"} {
		agg := mx.Func("(*" + typ + ").aggregate")
		for _, m := range []string{"Add", "Record"} {
			fn := c.Fn(mx, "R10", "(*"+typ+")."+m)
			if fn == nil || agg == nil {
				continue
			}
			g := mx.FG(fn)
			sig := fn.Obj.Type().(*types.Signature)
			calls := g.Match(callToDecl(minfo, agg))
			good := len(calls) == 1
			if good {
				inspectNoLit(calls[0].N, func(n ast.Node) bool {
					if call, ok := n.(*ast.CallExpr); ok && callToDecl(minfo, agg)(call) {
						good = len(call.Args) == 3 && sameVar(minfo, call.Args[0], sig.Params().At(0)) && sameVar(minfo, call.Args[1], sig.Params().At(1))
						if good {
							ac, isCall := unparen(call.Args[2]).(*ast.CallExpr)
							cf := (*types.Func)(nil)
							if isCall {
								cf = callee(minfo, ac)
							}
							good = cf != nil && cf.Name() == "Attributes"
						}
					}
					return true
				})
				s2, _ := g.ReachFromEntry(func(x *GNode) bool { return x == calls[0] }, nil)
				good = good && !s2[g.Exit]
			}
			c.Check(good, "R10", "sdk/metric|(*"+typ+")."+m+"|aggregate(ctx, val, config.Attributes()) on every path", at(mx.M, fn.Pos()), "the measurement is forwarded unchanged", "a measurement can be dropped or altered before it reaches the aggregators (value or attribute set not passed through)")
		}
	}
	for _, nm := range []string{"(*int64Inst).aggregate", "(*float64Inst).aggregate", "measures.observe", "observer.ObserveInt64", "observer.ObserveFloat64"} {
		fn := c.Fn(mx, "R10", nm)
		if fn == nil {
			continue
		}
		sig := fn.Obj.Type().(*types.Signature)
		// the value parameter: the first parameter of numeric type
		var valP *types.Var
		for i := 0; i < sig.Params().Len(); i++ {
			if b, ok := sig.Params().At(i).Type().Underlying().(*types.Basic); ok && b.Info()&types.IsNumeric != 0 && valP == nil {
				valP = sig.Params().At(i)
			}
			if _, ok := sig.Params().At(i).Type().(*types.TypeParam); ok && valP == nil {
				valP = sig.Params().At(i)
			}
		}
		// the measure call receives the value parameter — here, or in a helper of the package that is handed the value unchanged
		var passes func(f *FuncInfo, vp *types.Var, depth int) bool
		passes = func(f *FuncInfo, vp *types.Var, depth int) bool {
			ok2 := false
			inspectNoLit(f.Body(), func(n ast.Node) bool {
				call, ok := n.(*ast.CallExpr)
				if !ok {
					return true
				}
				if v, isV := objOf(minfo, call.Fun).(*types.Var); isV && len(call.Args) == 3 {
					if nn := namedOf(v.Type()); nn != nil && nn.Obj().Name() == "Measure" {
						ok2 = vp != nil && sameVar(minfo, call.Args[1], vp)
						return true
					}
				}
				if depth > 0 {
					if h := mx.declByObj(callee(minfo, call)); h != nil && h != f {
						hs := h.Obj.Type().(*types.Signature)
						for i, a := range call.Args {
							if vp != nil && sameVar(minfo, a, vp) && i < hs.Params().Len() && passes(h, hs.Params().At(i), depth-1) {
								ok2 = true
							}
						}
					}
				}
				return true
			})
			return ok2
		}
		good := passes(fn, valP, 1)
		c.Check(good, "R10", "sdk/metric|"+nm+"|measure called with the caller's value", at(mx.M, fn.Pos()), "value passed through", "the value handed to the aggregators is not the recorded one")
	}

	c.Rule("R6", "E3 ordering + E1", "pipeline.produce: callbacks (both kinds) run before the aggregations are computed, all under the pipeline lock; every instrument's compAgg is called and its output is not discarded afterwards", 4)
	rulePipelineProduce(c, mx, "R6")

	c.Rule("R7", "E3 ordering", "PeriodicReader.Shutdown: cancel → <-done → producer swap → collect → export only if collect succeeded → exporter.Shutdown; collectAndExport exports only on err == nil; run answers every flush request", 3)
	rulePeriodicReader(c, mx, "R7")

	c.Rule("R8", "E2 + E9 siblings", "temporality → compute dispatch in the six Builder methods: Delta ↦ X.delta, otherwise X.cumulative; the measure is the same X's, wrapped by b.filter", 12)
	ruleBuilderDispatch(c, ax, "R8")

	c.Rule("R9", "E2 decision table", "aggregateFunc: (aggregation, instrument kind) ↦ builder method and monotonic flag per the metrics SDK default-aggregation table; compatible with isAggregatorCompatible", 20)
	ruleAggregateFunc(c, mx, "R9")
}

// classifyUseIdent is classifyUse for an identifier.
func classifyUseIdent(f *FuncInfo, id *ast.Ident) (string, ast.Node) {
	var use string
	var ctx ast.Node
	var stack []ast.Node
	ast.Inspect(f.Body(), func(n ast.Node) bool {
		if n == nil {
			stack = stack[:len(stack)-1]
			return false
		}
		if n == ast.Node(id) {
			for i := len(stack) - 1; i >= 0; i-- {
				switch x := stack[i].(type) {
				case *ast.ParenExpr:
					continue
				case *ast.SelectorExpr:
					if i > 0 {
						if call, ok := stack[i-1].(*ast.CallExpr); ok && unparen(call.Fun) == ast.Expr(x) {
							use, ctx = "call", call
							return false
						}
					}
					use = "field"
				case *ast.CallExpr:
					if unparen(x.Fun) == ast.Expr(id) {
						use, ctx = "invoke", x
					} else {
						use, ctx = "arg", x
					}
				default:
					use = "other"
				}
				return false
			}
			return false
		}
		stack = append(stack, n)
		return true
	})
	if use == "" {
		use = "other"
	}
	return use, ctx
}

func rulePeriodicReader(c *Ctx, mx *PkgIndex, rule string) {
	info := mx.Pkg.TypesInfo
	sh := c.Fn(mx, rule, "(*PeriodicReader).Shutdown")
	if sh == nil {
		return
	}
	// the once literal
	var lit *FuncInfo
	for _, f := range mx.All {
		if f.Lit != nil && mx.Parent[f.Lit] == sh && mx.Use[f.Lit] == LitOnceDo {
			lit = f
		}
	}
	if lit == nil {
		c.Violation(rule, "sdk/metric|(*PeriodicReader).Shutdown|inside shutdownOnce.Do", at(mx.M, sh.Pos()), "Shutdown body is not inside sync.Once.Do")
		return
	}
	g := mx.FG(lit)
	fCancel := lookupField(mx.Pkg, "PeriodicReader", "cancel")
	fDone := lookupField(mx.Pkg, "PeriodicReader", "done")
	fProd := lookupField(mx.Pkg, "PeriodicReader", "sdkProducer")
	collect, export := mx.Func("(*PeriodicReader).collect"), mx.Func("(*PeriodicReader).export")
	pCancel := func(n ast.Node) bool { call, ok := n.(*ast.CallExpr); return ok && isField(info, call.Fun, fCancel) }
	pDone := func(n ast.Node) bool { return isRecvFrom(n, func(e ast.Expr) bool { return isField(info, e, fDone) }) }
	pSwap := func(n ast.Node) bool { return fieldMethodCall(info, n, fProd, "Swap") != nil }
	pCol := callToDecl(info, collect)
	pExp := callToDecl(info, export)
	pEsd := func(n ast.Node) bool {
		call, ok := n.(*ast.CallExpr)
		return ok && isCallTo(info, call, "("+sdkMetric+".Exporter).Shutdown")
	}
	// the chain, each effect performed directly or through a declared helper of the package
	good, why := mx.orderedEffects(lit, []func(ast.Node) bool{pCancel, pDone, pSwap, pCol, pExp},
		[]string{"cancel()", "<-done", "sdkProducer.Swap", "collect", "export"}, 1)
	if good {
		esd, _ := mx.effectNodes(lit, pEsd)
		col, _ := mx.effectNodes(lit, pCol)
		exp, _ := mx.effectNodes(lit, pExp)
		swap, _ := mx.effectNodes(lit, pSwap)
		if len(esd) != 1 {
			good, why = false, "exporter.Shutdown call sites: "+itoa(len(esd))
		} else {
			if d, _ := g.DominatedByNodes(esd[0], toSet(swap)); !d {
				good, why = false, "exporter.Shutdown not preceded by the stop sequence"
			}
			// the exporter is not shut down before the final export: neither collect nor export is reachable from exporter.Shutdown
			s, _ := g.Reach([]*GNode{esd[0]}, nil, nil)
			if s[exp[0]] || s[col[0]] {
				good, why = false, "exporter is shut down before the final export"
			}
		}
	}
	c.Check(good, rule, "sdk/metric|(*PeriodicReader).Shutdown|cancel → <-done → swap → collect → export → exporter.Shutdown", at(mx.M, sh.Pos()), "final collection happens after the run loop stopped and before the exporter is shut down", "shutdown order broken: "+why)
	// what was collected is handed to the exporter: a delta collection has already consumed the aggregators' state, so a way out of
	// export() that skips exporter.Export (a context that is already done, say) loses those measurements for good — Shutdown
	// cancels the run loop's context first, and its own final collection then finds nothing
	if exp := export; exp != nil {
		eg := mx.FG(exp)
		calls := toSet(eg.Match(func(n ast.Node) bool {
			call, ok := n.(*ast.CallExpr)
			return ok && isCallTo(info, call, "("+sdkMetric+".Exporter).Export")
		}))
		if len(calls) == 0 {
			c.Violation(rule, "sdk/metric|(*PeriodicReader).export|every path hands the data to the exporter", at(mx.M, exp.Pos()), "export does not call Exporter.Export")
		} else {
			seen, par := eg.ReachFromEntry(func(y *GNode) bool { return calls[y] }, nil)
			c.Check(!seen[eg.Exit], rule, "sdk/metric|(*PeriodicReader).export|every path hands the data to the exporter", at(mx.M, exp.Pos()), "no return before Exporter.Export",
				"export can return without calling the exporter ("+eg.pathLines(par, eg.Exit)+"): the delta state was consumed by the collection that precedes it, so those measurements appear in no export")
		}
	}
	// the memory the final collection writes into is not shared with a run loop that may still be exporting: it comes from the
	// pool / is fresh, or Shutdown has joined the run goroutine unconditionally (a receive from done that is not one arm of a
	// select with a way out) before it touches it
	{
		sharedArg := ""
		var argPos token.Pos
		inspectNoLit(lit.Body(), func(n ast.Node) bool {
			call, ok := n.(*ast.CallExpr)
			if !ok || !(pCol(call) || pExp(call)) || len(call.Args) == 0 {
				return true
			}
			a := unparen(call.Args[len(call.Args)-1])
			if id, isID := a.(*ast.Ident); isID {
				if d := g.LocalDef(info.Uses[id]); d != nil {
					a = unparen(d)
				}
			}
			if u, isU := a.(*ast.UnaryExpr); isU && u.Op == token.AND {
				a = unparen(u.X)
			}
			if fv, b := fieldOf(info, a); fv != nil && b != nil && sh.Recv() != nil && sameVar(info, b, sh.Recv()) {
				sharedArg, argPos = exprStr(call.Args[len(call.Args)-1])+" (= the reader's field "+fv.Name()+")", call.Pos()
			}
			return true
		})
		if sharedArg != "" {
			// every receive from done in the literal: is one of them a plain statement that dominates the use?
			joined := false
			comm := map[ast.Stmt]bool{}
			inspectNoLit(lit.Body(), func(n ast.Node) bool {
				if cc, ok := n.(*ast.CommClause); ok && cc.Comm != nil {
					comm[cc.Comm] = true
				}
				return true
			})
			for _, x := range g.Nodes {
				es, ok := x.N.(*ast.ExprStmt)
				if !ok || comm[es] || !pDone(es.X) {
					continue
				}
				joined = true
			}
			c.Check(joined, rule, "sdk/metric|(*PeriodicReader).Shutdown|scratch memory shared with the run loop is used only after an unconditional join", at(mx.M, argPos), "plain receive from done",
				"the final collection writes into "+sharedArg+" while the run goroutine may still be exporting from it (the wait for done has a way out): the in-flight delta batch is overwritten — lost — and the final batch is exported twice")
		}
	}
	// export only if collect succeeded (both in Shutdown and collectAndExport)
	errNil := func(g *FG, info *types.Info, errVar types.Object) func(*GEdge) bool {
		return func(e *GEdge) bool {
			return edgeImplies(e, func(cnd ast.Expr, pol int) bool {
				nn, ok := nilCmp(info, cnd, pol, func(x ast.Expr) bool { return sameVar(info, x, errVar) })
				return ok && !nn
			})
		}
	}
	nExp := 0
	for _, s := range mx.FindCalls(func(f *FuncInfo, call *ast.CallExpr) bool { return export != nil && callToDecl(info, export)(call) }) {
		f := s.F
		if mx.Outer(f).Recv() == nil || !typeIs(mx.Outer(f).Recv().Type(), sdkMetric, "PeriodicReader") {
			continue
		}
		nExp++
		gg := mx.FG(f)
		var errVar types.Object
		inspectNoLit(f.Body(), func(n ast.Node) bool {
			if as, ok := n.(*ast.AssignStmt); ok && len(as.Lhs) == 1 && len(as.Rhs) == 1 {
				if call, ok := unparen(as.Rhs[0]).(*ast.CallExpr); ok {
					if cf := callee(info, call); cf != nil && (cf.Name() == "collect" || cf.Name() == "Collect") {
						errVar = objOf(info, as.Lhs[0])
					}
				}
			}
			return true
		})
		x := gg.NodeOf(s.N)
		good := errVar != nil && x != nil
		if good {
			good, _ = gg.DominatedByEdges(x, errNil(gg, info, errVar))
		}
		c.Check(good, rule, "sdk/metric|"+mx.Outer(f).Name+"|export only when collect returned nil", at(mx.M, s.N.Pos()), "export dominated by err == nil", "a failed or partial collection is exported")
	}
	if nExp == 0 {
		c.Missing(rule, "sdk/metric: no call of (*PeriodicReader).export found")
	}
	if run := c.Fn(mx, rule, "(*PeriodicReader).run"); run != nil {
		g := mx.FG(run)
		fFlush := lookupField(mx.Pkg, "PeriodicReader", "flushCh")
		cae := mx.Func("(*PeriodicReader).collectAndExport")
		// on the edge into the flush clause, a send of collectAndExport's result on the received channel must be passed before the next select / exit
		ok := false
		for _, x := range g.Nodes {
			for _, e := range x.Succs {
				if e.Comm == nil || e.Comm.Comm == nil {
					continue
				}
				as, isAs := e.Comm.Comm.(*ast.AssignStmt)
				if !isAs || len(as.Rhs) != 1 || !isRecvFrom(unparen(as.Rhs[0]), func(x ast.Expr) bool { return isField(info, x, fFlush) }) {
					continue
				}
				ch := objOf(info, as.Lhs[0])
				sends := toSet(g.Match(func(n ast.Node) bool {
					s, isSend := n.(*ast.SendStmt)
					return isSend && sameVar(info, s.Chan, ch) && callToDecl(info, cae)(unparen(s.Value))
				}))
				s, _ := g.ReachFromEdge(e, func(y *GNode) bool { return sends[y] })
				reachedNext := s[g.Exit]
				for y := range s {
					if y.N == nil && y.Blk != nil && y.Blk.Kind.String() == "ForBody" && y != e.To {
						reachedNext = true
					}
				}
				ok = len(sends) > 0 && !reachedNext
			}
		}
		c.Check(ok, rule, "sdk/metric|(*PeriodicReader).run|every flush request is answered with collectAndExport's result", at(mx.M, run.Pos()), "errCh <- r.collectAndExport(ctx)", "a ForceFlush caller can wait forever or is answered without a collection")
	}
}

// ruleBuilderDispatch: for each Builder method, under Temporality=Delta the return is (b.filter(X.measure), X.delta), otherwise (b.filter(X.measure), X.cumulative).
func ruleBuilderDispatch(c *Ctx, ax *PkgIndex, rule string) {
	info := ax.Pkg.TypesInfo
	fTemp := lookupField(ax.Pkg, "Builder", "Temporality")
	md := ax.M.Pkg(metricdata)
	if fTemp == nil || md == nil {
		c.Missing(rule, "aggregate.Builder.Temporality / metricdata")
		return
	}
	tempT := lookupType(md, "Temporality")
	filter := ax.Func("Builder.filter")
	for _, m := range []string{"LastValue", "PrecomputedLastValue", "PrecomputedSum", "Sum", "ExplicitBucketHistogram", "ExponentialBucketHistogram"} {
		fn := c.Fn(ax, rule, "Builder."+m)
		if fn == nil {
			continue
		}
		g := ax.FG(fn)
		vals := append([]*types.Const{}, enumConsts(tempT)...)
		for _, k := range vals {
			env := func(e ast.Expr) (constant.Value, bool) {
				if isField(info, e, fTemp) {
					return k.Val(), true
				}
				return nil, false
			}
			seen := g.ReachUnder(env)
			var got []string
			// classify one (measure, compute) pair; subst maps an expression of a dispatch helper to the caller's argument
			classify := func(r0, r1 ast.Expr, subst func(ast.Expr) ast.Expr) {
				call, ok := unparen(r0).(*ast.CallExpr)
				meas := "?"
				if ok && callToDecl(info, filter)(call) && len(call.Args) == 1 {
					if sel, ok := unparen(subst(call.Args[0])).(*ast.SelectorExpr); ok {
						meas = exprStr(sel.X) + "." + sel.Sel.Name
					}
				}
				comp := "?"
				if sel, ok := unparen(subst(r1)).(*ast.SelectorExpr); ok {
					comp = exprStr(sel.X) + "." + sel.Sel.Name
				}
				got = append(got, meas+"/"+comp)
			}
			ident := func(e ast.Expr) ast.Expr { return e }
			for x := range seen {
				rs, ok := x.N.(*ast.ReturnStmt)
				if !ok {
					continue
				}
				if len(rs.Results) == 2 {
					classify(rs.Results[0], rs.Results[1], ident)
					continue
				}
				// return b.dispatch(X.measure, X.delta, X.cumulative): the helper's returns under the same temporality, with its
				// parameters replaced by this call's arguments
				if len(rs.Results) != 1 {
					continue
				}
				hc, isC := unparen(rs.Results[0]).(*ast.CallExpr)
				if !isC {
					got = append(got, "?/?")
					continue
				}
				h := ax.declByObj(callee(info, hc))
				if h == nil || h == fn || h.Body() == nil {
					got = append(got, "?/?")
					continue
				}
				hps := h.Obj.Type().(*types.Signature).Params()
				subst := func(e ast.Expr) ast.Expr {
					for j := 0; j < hps.Len() && j < len(hc.Args); j++ {
						if sameVar(info, e, hps.At(j)) && !assignedIn(info, h.Body(), hps.At(j)) {
							return hc.Args[j]
						}
					}
					return e
				}
				hg := ax.FG(h)
				for y := range hg.ReachUnder(env) {
					if hrs, isR := y.N.(*ast.ReturnStmt); isR {
						if len(hrs.Results) == 2 {
							classify(hrs.Results[0], hrs.Results[1], subst)
						} else {
							got = append(got, "?/?")
						}
					}
				}
			}
			sort.Strings(got)
			want := "cumulative"
			if k.Name() == "DeltaTemporality" {
				want = "delta"
			}
			good := len(got) == 1
			if good {
				parts := strings.Split(got[0], "/")
				mp, cp := strings.Split(parts[0], "."), strings.Split(parts[1], ".")
				good = len(mp) == 2 && len(cp) == 2 && mp[0] == cp[0] && mp[1] == "measure" && cp[1] == want
			}
			c.Check(good, rule, "aggregate|Builder."+m+"|Temporality="+k.Name(), at(ax.M, fn.Pos()), "→ "+strings.Join(got, ","),
				"with "+k.Name()+" the builder returns "+strings.Join(got, ",")+"; expected filter(X.measure)/X."+want+" of the same aggregator")
		}
	}
	// b.filter passes both results of a.Filter(fltr) on, and the unfiltered path passes the set unchanged
	if filter != nil {
		good := 0
		for _, f := range ax.All {
			if f.Lit == nil || ax.Parent[f.Lit] != filter {
				continue
			}
			params := f.Lit.Type.Params.List
			var pnames []types.Object
			for _, p := range params {
				for _, nm := range p.Names {
					pnames = append(pnames, info.Defs[nm])
				}
			}
			if len(pnames) != 3 {
				continue
			}
			var fa, dr types.Object
			inspectNoLit(f.Body(), func(n ast.Node) bool {
				if as, ok := n.(*ast.AssignStmt); ok && len(as.Lhs) == 2 && len(as.Rhs) == 1 {
					if call, ok := unparen(as.Rhs[0]).(*ast.CallExpr); ok && isCallTo(info, call, "(*go.opentelemetry.io/otel/attribute.Set).Filter") {
						fa, dr = objOf(info, as.Lhs[0]), objOf(info, as.Lhs[1])
					}
				}
				return true
			})
			inspectNoLit(f.Body(), func(n ast.Node) bool {
				call, ok := n.(*ast.CallExpr)
				if !ok || len(call.Args) != 4 {
					return true
				}
				if !sameVar(info, call.Args[0], pnames[0]) || !sameVar(info, call.Args[1], pnames[1]) {
					return true
				}
				if fa != nil && sameVar(info, call.Args[2], fa) && sameVar(info, call.Args[3], dr) {
					good++
				} else if fa == nil && sameVar(info, call.Args[2], pnames[2]) && isNilIdent(info, call.Args[3]) {
					good++
				}
				return true
			})
		}
		c.Check(good == 2, rule, "aggregate|Builder.filter|value and attribute sets are forwarded unchanged (filtered set + dropped on the filter path)", at(ax.M, filter.Pos()),
			"both closures forward (ctx, n, attrs, dropped)", "the filter wrapper does not forward the measurement faithfully")
	}
}

// ruleAggregateFunc: evaluates aggregateFunc's nested switch for every (aggregation type, kind).
func ruleAggregateFunc(c *Ctx, mx *PkgIndex, rule string) {
	info := mx.Pkg.TypesInfo
	fn := c.Fn(mx, rule, "(*inserter).aggregateFunc")
	kindT := lookupType(mx.Pkg, "InstrumentKind")
	if fn == nil || kindT == nil {
		c.Missing(rule, "sdk/metric aggregateFunc / InstrumentKind")
		return
	}
	kindParam := fn.Obj.Type().(*types.Signature).Params().At(2)
	// locate the type switch and its clauses
	var ts *ast.TypeSwitchStmt
	inspectNoLit(fn.Body(), func(n ast.Node) bool {
		if s, ok := n.(*ast.TypeSwitchStmt); ok && ts == nil {
			ts = s
		}
		return true
	})
	if ts == nil {
		c.Undecided(rule, "sdk/metric|(*inserter).aggregateFunc|type switch", at(mx.M, fn.Pos()), "aggregateFunc is no longer a type switch over the aggregation: table extraction not possible")
		return
	}
	want := map[string]map[string]string{
		"AggregationSum": {
			"InstrumentKindCounter": "Sum(true)", "InstrumentKindHistogram": "Sum(true)", "InstrumentKindUpDownCounter": "Sum(false)",
			"InstrumentKindObservableCounter": "PrecomputedSum(true)", "InstrumentKindObservableUpDownCounter": "PrecomputedSum(false)",
		},
		"AggregationLastValue": {"InstrumentKindGauge": "LastValue()", "InstrumentKindObservableGauge": "PrecomputedLastValue()"},
	}
	noSumKinds := map[string]bool{"InstrumentKindUpDownCounter": true, "InstrumentKindObservableUpDownCounter": true, "InstrumentKindObservableGauge": true, "InstrumentKindGauge": true}
	kinds := enumConsts(kindT)
	for _, cl := range ts.Body.List {
		cc := cl.(*ast.CaseClause)
		for _, te := range cc.List {
			tn := exprStr(te)
			sub := &FuncInfo{M: fn.M, Pkg: fn.Pkg, Lit: &ast.FuncLit{Type: &ast.FuncType{Params: &ast.FieldList{}}, Body: &ast.BlockStmt{List: cc.Body, Lbrace: cc.Colon, Rbrace: cc.End()}}, Name: fn.Name + "$case " + tn}
			g := NewFG(sub)
			for _, k := range kinds {
				if k.Name() == "instrumentKindUndefined" {
					continue
				}
				env := func(e ast.Expr) (constant.Value, bool) {
					if sameVar(info, e, kindParam) {
						return k.Val(), true
					}
					return nil, false
				}
				seen := g.ReachUnder(env)
				var builders []string
				noSum := "false"
				for x := range seen {
					if x.N == nil {
						continue
					}
					inspectNoLit(x.N, func(n ast.Node) bool {
						call, ok := n.(*ast.CallExpr)
						if !ok {
							return true
						}
						if cf := callee(info, call); cf != nil {
							if rv := cf.Type().(*types.Signature).Recv(); rv != nil && typeIs(rv.Type(), aggPkg, "Builder") {
								arg := ""
								if len(call.Args) == 1 {
									if tv := info.Types[call.Args[0]]; tv.Value != nil {
										arg = tv.Value.String()
									} else if v, known := evalConst(info, call.Args[0], g.withLocals(env)); known {
										// the argument folds under this instrument kind (a table entry, a field of a per-kind record)
										arg = v.String()
									}
								}
								if len(call.Args) > 1 {
									arg = "…"
									// the histogram builders take noSum as their last argument: when it folds here, that is its value
									last := call.Args[len(call.Args)-1]
									if lv, isV := objOf(info, last).(*types.Var); isV && !lv.IsField() {
										// a local flag: what the assignments that can run for this kind give it (its declaration gives false)
										for y := range seen {
											if y.N == nil {
												continue
											}
											if r := assignRHS(y.N, func(e ast.Expr) bool { return sameVar(info, e, lv) }); r != nil {
												if tv := info.Types[r]; tv.Value != nil {
													noSum = tv.Value.String()
												} else if v, known := evalConst(info, r, g.withLocals(env)); known && v.Kind() == constant.Bool {
													noSum = v.String()
												}
											}
										}
									} else if v, known := evalConst(info, last, g.withLocals(env)); known && v.Kind() == constant.Bool {
										noSum = v.String()
									}
								}
								builders = append(builders, cf.Name()+"("+arg+")")
							}
						}
						return true
					})
				}
				sort.Strings(builders)
				got := strings.Join(builders, ",")
				key := "sdk/metric|(*inserter).aggregateFunc|" + tn + " × " + k.Name()
				switch tn {
				case "AggregationSum", "AggregationLastValue":
					w, compatible := want[tn][k.Name()]
					if !compatible {
						// incompatible pairs are rejected earlier by isAggregatorCompatible (checked below); nothing to assert here
						continue
					}
					c.Check(got == w, rule, key, at(mx.M, cc.Pos()), "→ "+got, "builds "+got+", specification (default aggregation / instrument semantics) says "+w)
				case "AggregationExplicitBucketHistogram", "AggregationBase2ExponentialHistogram":
					wantB := map[string]string{"AggregationExplicitBucketHistogram": "ExplicitBucketHistogram(…)", "AggregationBase2ExponentialHistogram": "ExponentialBucketHistogram(…)"}[tn]
					wantNoSum := boolStr(noSumKinds[k.Name()])
					gotNoSum := boolStr(noSum == "true")
					c.Check(got == wantB && gotNoSum == wantNoSum, rule, key, at(mx.M, cc.Pos()), "→ "+got+" noSum="+gotNoSum,
						"builds "+got+" with noSum="+gotNoSum+"; expected "+wantB+" with noSum="+wantNoSum+" (sums of non-monotonic instruments are not meaningful)")
				case "AggregationDrop":
					c.Check(got == "", rule, key, at(mx.M, cc.Pos()), "no aggregator", "drop aggregation builds "+got)
				}
			}
		}
	}
	// compatibility table
	if ic := c.Fn(mx, rule, "isAggregatorCompatible"); ic != nil {
		var ts2 *ast.TypeSwitchStmt
		inspectNoLit(ic.Body(), func(n ast.Node) bool {
			if s, ok := n.(*ast.TypeSwitchStmt); ok && ts2 == nil {
				ts2 = s
			}
			return true
		})
		kp := ic.Obj.Type().(*types.Signature).Params().At(0)
		if ts2 != nil {
			for _, cl := range ts2.Body.List {
				cc := cl.(*ast.CaseClause)
				for _, te := range cc.List {
					tn := exprStr(te)
					if tn != "AggregationSum" && tn != "AggregationLastValue" {
						continue
					}
					sub := &FuncInfo{M: ic.M, Pkg: ic.Pkg, Lit: &ast.FuncLit{Type: &ast.FuncType{Params: &ast.FieldList{}}, Body: &ast.BlockStmt{List: cc.Body, Lbrace: cc.Colon, Rbrace: cc.End()}}, Name: ic.Name + "$case " + tn}
					g := NewFG(sub)
					for _, k := range kinds {
						if k.Name() == "instrumentKindUndefined" {
							continue
						}
						env := func(e ast.Expr) (constant.Value, bool) {
							if sameVar(info, e, kp) {
								return k.Val(), true
							}
							return nil, false
						}
						seen := g.ReachUnder(env)
						okRet, errRet := false, false
						for x := range seen {
							if rs, ok := x.N.(*ast.ReturnStmt); ok && len(rs.Results) == 1 {
								if isNilIdent(info, rs.Results[0]) {
									okRet = true
								} else {
									errRet = true
								}
							}
						}
						_, wantOK := want[tn][k.Name()]
						c.Check(okRet == wantOK && errRet == !wantOK, rule, "sdk/metric|isAggregatorCompatible|"+tn+" × "+k.Name(), at(mx.M, cc.Pos()), "compatible="+boolStr(okRet),
							"compatibility of "+tn+" with "+k.Name()+" is "+boolStr(okRet)+" but aggregateFunc's table has "+boolStr(wantOK)+": an accepted pair would build no aggregator (measurements silently dropped)")
					}
				}
			}
		}
	}
}

// ruleMeasureAtomic: in each aggregator's measure the read-modify-write of the map entry is one critical section: the
// aggregator's lock is not released between a read of the values map and a later write-back (otherwise two concurrent first
// measurements of one attribute set each start from the zero entry and one overwrites the other: a measurement is lost).
func ruleMeasureAtomic(c *Ctx, ax *PkgIndex, rule string) {
	info := ax.Pkg.TypesInfo
	le := c.Locks(ax)
	for _, sp := range []struct{ fn, typ, mu string }{
		{"(*valueMap).measure", "valueMap", ".Mutex"}, {"(*lastValue).measure", "lastValue", ".Mutex"},
		{"(*histValues).measure", "histValues", ".valuesMu"}, {"(*expoHistogram).measure", "expoHistogram", ".valuesMu"},
	} {
		fn := c.Fn(ax, rule, sp.fn)
		fVals := aggField(ax, sp.typ, "values")
		if fn == nil || fVals == nil {
			continue
		}
		isWrite0 := func(n ast.Node) bool {
			as, ok := n.(*ast.AssignStmt)
			if !ok {
				return false
			}
			for _, l := range as.Lhs {
				if ie, ok := unparen(l).(*ast.IndexExpr); ok && isField(info, ie.X, fVals) {
					return true
				}
			}
			return false
		}
		// the look-up-or-create step may live in a helper measure calls with the lock held: read and write-back are then both
		// in that helper, which takes and releases no lock itself
		fn, _ = ax.workFunc(fn, isWrite0)
		g := ax.FG(fn)
		mu := varKey(fn.Recv()) + resolvePath(ax.Pkg, sp.typ, sp.mu)
		isWrite := func(n ast.Node) bool {
			as, ok := n.(*ast.AssignStmt)
			if !ok {
				return false
			}
			for _, l := range as.Lhs {
				if ie, ok := unparen(l).(*ast.IndexExpr); ok && isField(info, ie.X, fVals) {
					return true
				}
			}
			return false
		}
		writes := g.Match(isWrite)
		// reads: vertices that mention the map and are not pure write-backs
		var reads []*GNode
		for _, x := range g.Nodes {
			if x.N == nil {
				continue
			}
			hit := false
			inspectNoLit(x.N, func(n ast.Node) bool {
				if e, ok := n.(ast.Expr); ok && isField(info, e, fVals) {
					hit = true
				}
				return true
			})
			if hit && !isWrite(x.N) {
				reads = append(reads, x)
			}
		}
		bad := ""
		for _, r := range reads {
			for _, w := range writes {
				if rel := le.ReleasesBetween(fn, r, w, mu); rel != nil {
					bad = "the lock is released at " + ax.M.posStr(rel.N.Pos()) + " between the look-up at " + ax.M.posStr(r.N.Pos()) + " and the write-back at " + ax.M.posStr(w.N.Pos())
				}
			}
		}
		c.Check(bad == "" && len(reads) > 0 && len(writes) > 0, rule, "aggregate|"+sp.fn+"|look-up and write-back of the entry in one critical section", at(ax.M, fn.Pos()),
			itoa(len(reads))+" read(s), "+itoa(len(writes))+" write-back(s), no release in between", "a concurrent first measurement of the same attribute set is lost (two goroutines start from the zero entry, the second store overwrites the first): "+bad)
	}
}

// ruleFanout: the loop in fname that performs the target call once per element (reader pipeline, measure) is total — nothing
// leaves the iteration ahead of the call. Shared by C02.R5 and C12.R7.
func ruleFanout(c *Ctx, ix *PkgIndex, rule, fname string, isTarget func(info *types.Info, call *ast.CallExpr) bool, what string) {
	fn := c.Fn(ix, rule, fname)
	if fn == nil {
		return
	}
	info := ix.Pkg.TypesInfo
	g := ix.FG(fn)
	calls := g.Match(func(n ast.Node) bool {
		call, ok := n.(*ast.CallExpr)
		return ok && isTarget(info, call)
	})
	key := shortPkg(ix.Pkg.PkgPath) + "|" + fname + "|" + what + " on every iteration"
	if len(calls) == 0 {
		// the loop may live in a helper of the package that this function calls on every path
		for _, x := range g.Match(func(n ast.Node) bool {
			call, ok := n.(*ast.CallExpr)
			if !ok {
				return false
			}
			h := ix.declByObj(callee(info, call))
			return h != nil && h != fn && len(ix.FG(h).Match(func(m ast.Node) bool { hc, ok := m.(*ast.CallExpr); return ok && isTarget(info, hc) })) > 0
		}) {
			var h *FuncInfo
			inspectNoLit(x.N, func(n ast.Node) bool {
				if call, ok := n.(*ast.CallExpr); ok {
					if d := ix.declByObj(callee(info, call)); d != nil && d != fn {
						h = d
					}
				}
				return true
			})
			if h != nil {
				fn, g = h, ix.FG(h)
				calls = g.Match(func(n ast.Node) bool {
					call, ok := n.(*ast.CallExpr)
					return ok && isTarget(info, call)
				})
				break
			}
		}
	}
	if len(calls) == 0 {
		c.Violation(rule, key, at(ix.M, fn.Pos()), "fan-out call not found")
		return
	}
	good, why := true, ""
	for _, x := range calls {
		if ok, w := totalFanout(g, x); !ok {
			good, why = false, w
		}
	}
	c.Check(good, rule, key, at(ix.M, calls[0].N.Pos()), "no break/continue/return ahead of the call", "a reader's pipeline can be skipped: "+why)
}

// rulePipelineProduce: pipeline.produce runs the callbacks before the aggregations, calls every instrument's compute function under
// the pipeline lock, and delivers what they handed out (a delta compute function empties its state: discarding the output
// afterwards, or leaving the loop early, loses those measurements for good). Shared by C02.R6 and C12.R8.
func rulePipelineProduce(c *Ctx, mx *PkgIndex, rule string) {
	minfo := mx.Pkg.TypesInfo
	mle := c.Locks(mx)
	if fn := c.Fn(mx, rule, "(*pipeline).produce"); fn != nil {
		g := mx.FG(fn)
		fCB := lookupField(mx.Pkg, "pipeline", "callbacks")
		fMC := lookupField(mx.Pkg, "pipeline", "multiCallbacks")
		fComp := lookupField(mx.Pkg, "instrumentSync", "compAgg")
		cb := g.Match(func(n ast.Node) bool { e, ok := n.(ast.Expr); return ok && isField(minfo, e, fCB) })
		mc := g.Match(func(n ast.Node) bool { e, ok := n.(ast.Expr); return ok && isField(minfo, e, fMC) })
		comp := g.Match(func(n ast.Node) bool {
			call, ok := n.(*ast.CallExpr)
			return ok && isField(minfo, call.Fun, fComp)
		})
		good := len(cb) > 0 && len(mc) > 0 && len(comp) == 1
		if good {
			d1, _ := g.DominatedByNodes(comp[0], toSet(cb))
			d2, _ := g.DominatedByNodes(comp[0], toSet(mc))
			// no path from compAgg back to a callback loop
			s, _ := g.Reach([]*GNode{comp[0]}, nil, nil)
			back := false
			for _, x := range append(cb, mc...) {
				if s[x] {
					back = true
				}
			}
			good = d1 && d2 && !back
		}
		// one collection cycle is one critical section: the callbacks run with the pipeline lock held, like the aggregations that
		// follow them (two overlapping Collect calls would otherwise both observe before either aggregates: one cycle reports the
		// sum of two observations, the other nothing)
		{
			muKey := varKey(fn.Recv()) + resolvePath(mx.Pkg, "pipeline", ".Mutex")
			nCalls, unheld := 0, ""
			for _, x := range g.Nodes {
				if x.N == nil {
					continue
				}
				inspectNoLit(x.N, func(n ast.Node) bool {
					call, ok := n.(*ast.CallExpr)
					if !ok {
						return true
					}
					v, isV := objOf(minfo, call.Fun).(*types.Var)
					if !isV || v.IsField() {
						return true
					}
					if _, isSig := v.Type().Underlying().(*types.Signature); !isSig {
						return true
					}
					nCalls++
					if !mle.Held(fn)[x][muKey] {
						unheld = mx.M.posStr(call.Pos())
					}
					return true
				})
			}
			c.Check(nCalls >= 1 && unheld == "", rule, "sdk/metric|(*pipeline).produce|callbacks are invoked with the pipeline lock held", at(mx.M, fn.Pos()), itoa(nCalls)+" callback invocation(s) under the lock",
				"callbacks run outside the critical section that computes the aggregations (at "+unheld+"): two overlapping collections interleave observe/observe/aggregate/aggregate — a cycle reports observations of another cycle's callbacks")
		}
		c.Check(good, rule, "sdk/metric|(*pipeline).produce|callbacks precede compAgg", at(mx.M, fn.Pos()), "observable instruments are observed before they are collected",
			"aggregations are computed before (or interleaved with) the callbacks that feed them: this cycle's observations are reported a cycle late or split")
		// the scratch value is read from and written back to the same output slot: one index variable on …Metrics[·]
		{
			idx := map[types.Object]bool{}
			inspectNoLit(fn.Body(), func(n ast.Node) bool {
				ie, ok := n.(*ast.IndexExpr)
				if !ok {
					return true
				}
				if sel, ok := unparen(ie.X).(*ast.SelectorExpr); ok && sel.Sel.Name == "Metrics" {
					if o := objOf(minfo, ie.Index); o != nil {
						idx[o] = true
					}
				}
				return true
			})
			c.Check(len(idx) == 1, rule, "sdk/metric|(*pipeline).produce|one index variable addresses the output slot (read of the scratch Data and all writes)", at(mx.M, fn.Pos()), "same slot read and written",
				"the aggregation's scratch memory is taken from another output slot than the one it is written to: with a re-used ResourceMetrics two instruments end up sharing one DataPoints array")
		}
		if len(comp) == 1 {
			ok, why := totalFanout(g, comp[0])
			c.Check(ok, rule, "sdk/metric|(*pipeline).produce|compAgg called for every instrument", at(mx.M, comp[0].N.Pos()), "the n > 0 test only filters output", "an instrument's aggregation can be skipped (its delta state is never reset / values never reported): "+why)
			held := mle.Held(fn)[comp[0]]
			c.Check(held[varKey(fn.Recv())+resolvePath(mx.Pkg, "pipeline", ".Mutex")], rule, "sdk/metric|(*pipeline).produce|collection under the pipeline lock", at(mx.M, comp[0].N.Pos()), "pipeline lock held", "collection runs without the pipeline lock")
			// what the aggregations handed out is delivered: after compAgg ran (delta state is consumed by it) no path discards the
			// output (empties/clears ScopeMetrics or drops the Resource)
			rm := fn.Obj.Type().(*types.Signature).Params().At(1)
			isOut := func(e ast.Expr, fld string) bool {
				sel, ok := unparen(e).(*ast.SelectorExpr)
				return ok && sel.Sel.Name == fld && sameVar(minfo, sel.X, rm)
			}
			discards := g.Match(func(n ast.Node) bool {
				switch s := n.(type) {
				case *ast.AssignStmt:
					for i, l := range s.Lhs {
						if len(s.Lhs) != len(s.Rhs) {
							continue
						}
						r := unparen(s.Rhs[i])
						if isOut(l, "Resource") && isNilIdent(minfo, r) {
							return true
						}
						if isOut(l, "ScopeMetrics") {
							if isNilIdent(minfo, r) {
								return true
							}
							if se, ok := r.(*ast.SliceExpr); ok && se.High != nil {
								if tv := minfo.Types[se.High]; tv.Value != nil && tv.Value.ExactString() == "0" {
									return true
								}
							}
						}
						if st, ok := unparen(l).(*ast.StarExpr); ok && sameVar(minfo, st.X, rm) {
							return true
						}
					}
				case *ast.CallExpr:
					if builtinName(minfo, s) == "clear" && len(s.Args) == 1 && isOut(s.Args[0], "ScopeMetrics") {
						return true
					}
				}
				return false
			})
			after, _ := g.Reach([]*GNode{comp[0]}, nil, nil)
			lost := ""
			for _, d := range discards {
				if after[d] {
					lost = mx.M.posStr(d.N.Pos())
				}
			}
			c.Check(lost == "", rule, "sdk/metric|(*pipeline).produce|nothing discards the output once an aggregation has been computed", at(mx.M, fn.Pos()), itoa(len(discards))+" discard site(s), all before the first compAgg",
				"the collected data is thrown away at "+lost+" after the aggregations ran: a delta aggregation has already emptied its state, so those measurements are never reported")
		}
	}
}
