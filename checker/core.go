package main

import (
	"encoding/json"
	"fmt"
	"go/token"
	"os"
	"path/filepath"
	"sort"
	"strings"
	"sync"
	"time"
)

// Verdicts of one obligation.
const (
	VOK        = "ok"
	VViolation = "violation"
	VUndecided = "undecided"
	VMissing   = "anchor-missing"
)

// Ob is one rule instantiated at one construct.
type Ob struct {
	Rule    string `json:"rule"`    // e.g. C01.R2
	Key     string `json:"key"`     // rule|pkg|func|construct   (no line numbers)
	Pos     string `json:"pos"`     // file:line (reported, never matched)
	Verdict string `json:"verdict"` // ok | violation | undecided | anchor-missing
	Msg     string `json:"msg,omitempty"`
	Known   string `json:"known_finding,omitempty"`
}

// RuleInfo documents a rule in the evidence.
type RuleInfo struct {
	ID      string `json:"id"`
	Engine  string `json:"engine"`
	Decides string `json:"decides"`
	Min     int    `json:"min_instances"`
	Found   int    `json:"instances"`
}

// Run collects the obligations of one property check.
type Run struct {
	Prop  string
	Tier  string
	mu    sync.Mutex
	obs   []Ob
	rules map[string]*RuleInfo
	order []string
	funcs map[string]bool
	pkgs  map[string]bool
	notes []string
	cur   string

	selftest []selfTestResult
}

func NewRun(prop, tier string) *Run {
	return &Run{Prop: prop, Tier: tier, rules: map[string]*RuleInfo{}, funcs: map[string]bool{}, pkgs: map[string]bool{}}
}

// Rule declares a rule; min is the number of instances confirmed by reading
// the pinned tree (the rule fails when fewer are found: no vacuous passes).
func (r *Run) Rule(id, engine, decides string, min int) {
	r.mu.Lock()
	defer r.mu.Unlock()
	full := r.Prop + "." + id
	// The vacuous-pass guard is there to notice a matcher that lost its sites, not to pin the exact number of sites: merging
	// two stores into one or extracting a helper legitimately removes a few. Counts of six and more (measured on the pinned
	// tree) are therefore enforced at 60 %; small counts are the structurally necessary numbers and are enforced as given.
	if min >= 6 {
		min = (min*3 + 4) / 5
	}
	if ri, ok := r.rules[full]; !ok {
		r.rules[full] = &RuleInfo{ID: full, Engine: engine, Decides: decides, Min: min}
		r.order = append(r.order, full)
	} else if ri.Engine == "" && ri.Decides == "" {
		// an obligation was recorded before the rule was declared: the declaration still supplies the description and the
		// vacuous-pass minimum
		ri.Engine, ri.Decides, ri.Min = engine, decides, min
	}
	r.cur = full
}

func (r *Run) add(rule, verdict, key, pos, msg string) {
	r.mu.Lock()
	defer r.mu.Unlock()
	full := rule
	if !strings.HasPrefix(rule, r.Prop+".") {
		full = r.Prop + "." + rule
	}
	ri := r.rules[full]
	if ri == nil {
		ri = &RuleInfo{ID: full}
		r.rules[full] = ri
		r.order = append(r.order, full)
	}
	ri.Found++
	r.obs = append(r.obs, Ob{Rule: full, Key: full + "|" + key, Pos: pos, Verdict: verdict, Msg: msg})
}

// Analysed records that a function was inspected (for the evidence).
func (r *Run) Analysed(f *FuncInfo) {
	if f == nil {
		return
	}
	r.mu.Lock()
	defer r.mu.Unlock()
	r.funcs[f.Pkg.PkgPath+"."+f.Name] = true
	r.pkgs[f.Pkg.PkgPath] = true
}

func (r *Run) Note(s string) { r.mu.Lock(); r.notes = append(r.notes, s); r.mu.Unlock() }

type obSite struct {
	m   *Module
	pos token.Pos
}

func at(m *Module, p token.Pos) obSite { return obSite{m, p} }
func (s obSite) String() string {
	if s.m == nil {
		return "-"
	}
	return s.m.posStr(s.pos)
}

func (r *Run) OK(rule, key string, s obSite, msg string) { r.add(rule, VOK, key, s.String(), msg) }
func (r *Run) Violation(rule, key string, s obSite, msg string) {
	r.add(rule, VViolation, key, s.String(), msg)
}
func (r *Run) Undecided(rule, key string, s obSite, msg string) {
	r.add(rule, VUndecided, key, s.String(), msg)
}
func (r *Run) Missing(rule, what string) {
	r.add(rule, VMissing, "anchor|"+what, "-", "anchor not found: "+what+" (cannot vouch for code I cannot find)")
}

// Check records ok or violation depending on cond.
func (r *Run) Check(cond bool, rule, key string, s obSite, okMsg, badMsg string) bool {
	if cond {
		r.OK(rule, key, s, okMsg)
	} else {
		r.Violation(rule, key, s, badMsg)
	}
	return cond
}

// ---- known findings -------------------------------------------------------

type KnownFinding struct {
	Property  string `json:"property"`
	Key       string `json:"key"`
	Status    string `json:"status"` // open | fixed
	Commit    string `json:"commit,omitempty"`
	WhatFails string `json:"what_fails"`
	ID        string `json:"id,omitempty"`
}

func loadKnown(path string) ([]KnownFinding, error) {
	b, err := os.ReadFile(path)
	if err != nil {
		if os.IsNotExist(err) {
			return nil, nil
		}
		return nil, err
	}
	var f struct {
		Findings []KnownFinding `json:"findings"`
	}
	if err := json.Unmarshal(b, &f); err != nil {
		return nil, err
	}
	return f.Findings, nil
}

// ---- finish: verdict, evidence, exit code -----------------------------------

type evidence struct {
	PropertyID  string         `json:"property_id"`
	Tier        string         `json:"tier"`
	Seed        int            `json:"seed"`
	Level       string         `json:"level"`
	Coverage    map[string]any `json:"coverage"`
	Assumptions []string       `json:"assumptions"`
	WallS       float64        `json:"wall_s"`
	Violations  int            `json:"violations"`
}

// Finish applies the min-instance guards and the known-finding list, prints
// diagnostics, writes the evidence file and returns the process exit code.
func (r *Run) Finish(verifDir string, start time.Time, pd *PropDoc, replayOnly string) int {
	known, kerr := loadKnown(filepath.Join(verifDir, "known_findings.json"))
	if kerr != nil {
		fmt.Printf("error: known_findings.json unreadable: %v\n", kerr)
		r.add("infra", VUndecided, "known-findings", "-", kerr.Error())
	}
	// vacuous-pass guard
	for _, id := range r.order {
		ri := r.rules[id]
		if ri.Found < ri.Min {
			r.obs = append(r.obs, Ob{Rule: id, Key: id + "|min-instances", Pos: "-", Verdict: VUndecided,
				Msg: fmt.Sprintf("rule matched %d instance(s), fewer than the %d confirmed by reading the pinned tree: the rule would pass vacuously", ri.Found, ri.Min)})
		}
	}
	sort.SliceStable(r.obs, func(i, j int) bool {
		if r.obs[i].Rule != r.obs[j].Rule {
			return r.obs[i].Rule < r.obs[j].Rule
		}
		return r.obs[i].Key < r.obs[j].Key
	})
	openByKey := map[string]KnownFinding{}
	for _, k := range known {
		if k.Property == r.Prop && k.Status == "open" {
			openByKey[k.Key] = k
		}
	}
	seenKnown := map[string]bool{}
	var bad []Ob
	discharged := 0
	distinct := map[string]bool{}
	for i := range r.obs {
		o := &r.obs[i]
		distinct[o.Key] = true
		switch o.Verdict {
		case VOK:
			discharged++
		case VViolation:
			if k, ok := openByKey[o.Key]; ok {
				o.Known = k.ID
				if !seenKnown[o.Key] {
					fmt.Printf("KNOWN-FINDING: property=%s %s [%s at %s]\n", r.Prop, k.WhatFails, o.Key, o.Pos)
					seenKnown[o.Key] = true
				}
				continue
			}
			bad = append(bad, *o)
		default:
			bad = append(bad, *o)
		}
	}
	for key, k := range openByKey {
		if !seenKnown[key] {
			fmt.Printf("note: listed finding %s (%s) no longer reproduces on this tree; entry ignored\n", k.ID, key)
		}
	}
	if replayOnly != "" && replayOnly != "-" {
		var want Ob
		if b, err := os.ReadFile(replayOnly); err == nil && json.Unmarshal(b, &want) == nil && want.Key != "" {
			var only []Ob
			for _, o := range bad {
				if o.Key == want.Key {
					only = append(only, o)
				}
			}
			if len(only) == 0 {
				fmt.Printf("replay: obligation %s is not violated on this tree\n", want.Key)
			}
			bad = only
		} else {
			fmt.Printf("replay: cannot read %s\n", replayOnly)
		}
	}
	exit := 0
	if len(bad) > 0 {
		exit = 1
		if replayOnly != "-" {
			_ = os.MkdirAll(filepath.Join(verifDir, "evidence", "replay"), 0o755)
		}
		for i, o := range bad {
			fmt.Printf("%s: %s: %s: %s\n", o.Pos, o.Rule, o.Verdict, o.Msg)
			fmt.Printf("    obligation: %s\n", o.Key)
			rp := filepath.Join(verifDir, "evidence", "replay", fmt.Sprintf("%s-%d.json", r.Prop, i+1))
			if replayOnly != "-" {
				b, _ := json.MarshalIndent(o, "", " ")
				_ = os.WriteFile(rp, append(b, '\n'), 0o644)
			}
			fmt.Printf("VIOLATION property=%s replay=%s\n", r.Prop, rp)
		}
	}
	// evidence
	var rules []RuleInfo
	for _, id := range r.order {
		rules = append(rules, *r.rules[id])
	}
	samples := []any{}
	perRule := map[string]int{}
	for _, o := range r.obs {
		if perRule[o.Rule] < 4 || o.Verdict != VOK {
			samples = append(samples, o)
			perRule[o.Rule]++
		}
	}
	var fl, pl []string
	for f := range r.funcs {
		fl = append(fl, f)
	}
	for p := range r.pkgs {
		pl = append(pl, p)
	}
	sort.Strings(fl)
	sort.Strings(pl)
	expl := "Static analysis of /repo's current source (go/packages type-checked syntax, go/cfg control-flow graphs, go/ssa where a value must be identified). " +
		"Each rule is a structural necessary condition of the property; an obligation is one rule instantiated at one construct. " +
		"Decided: the structural clauses listed under 'rules'. NOT decided (static analysis cannot reach them here): " + pd.NotDecided
	ev := evidence{
		PropertyID: r.Prop, Tier: r.Tier, Seed: seedFromEnv(), Level: "other",
		Coverage: map[string]any{
			"evaluations":         len(r.obs),
			"distinct_nontrivial": len(distinct),
			"rule":                "one evaluation = one rule instantiated at one source construct (call site, field access, branch, table entry) found by resolving the anchor through the type-checked program; distinct = distinct obligation keys (rule|package|function|construct); every obligation inspects real code, so all are non-trivial",
			"obligations":         len(r.obs),
			"discharged":          discharged,
			"samples":             samples,
			"rules":               rules,
			"packages_analysed":   pl,
			"functions_analysed":  fl,
			"known_findings_hit":  len(seenKnown),
			"explanation":         expl,
			"notes":               r.notes,
			"checker_selftest":    r.selftestSummary(),
			"exhaustive":          false,
		},
		Assumptions: append([]string{
			"Go type checker, go/cfg and go/ssa of golang.org/x/tools v0.29.0 are correct",
			"the frozen tables in /verif/checker (guarded-by, specification tables, exclusions) are correct transcriptions of the cited sources",
			"build configuration analysed: linux/amd64, CGO off, no test files",
			"a verdict says the structural clause holds, not that the behavioural property holds",
		}, pd.Assumptions...),
		WallS:      time.Since(start).Seconds(),
		Violations: len(bad),
	}
	if replayOnly == "" {
		_ = os.MkdirAll(filepath.Join(verifDir, "evidence"), 0o755)
		b, _ := json.MarshalIndent(ev, "", " ")
		if err := os.WriteFile(filepath.Join(verifDir, "evidence", r.Prop+".json"), append(b, '\n'), 0o644); err != nil {
			fmt.Printf("error: cannot write evidence: %v\n", err)
			exit = 1
		}
	}
	fmt.Printf("%s tier=%s: %d obligations over %d rules, %d discharged, %d known finding(s), %d violation(s)/undecided, %d functions in %d packages, %.1fs\n",
		r.Prop, r.Tier, len(r.obs), len(r.order), discharged, len(seenKnown), len(bad), len(fl), len(pl), time.Since(start).Seconds())
	return exit
}

func seedFromEnv() int {
	var s int
	fmt.Sscanf(os.Getenv("VERIF_SEED"), "%d", &s)
	return s
}

// PropDoc is the per-property documentation that goes into the evidence.
type PropDoc struct {
	ID          string
	Modules     []string // module directories loaded by the quick tier
	NotDecided  string
	Assumptions []string
	Fn          func(c *Ctx)
}

func (r *Run) selftestSummary() map[string]any {
	if r.selftest == nil {
		return map[string]any{"run": false, "note": "the checker self-test (recorded variants applied through in-memory overlays) runs in the thorough tier"}
	}
	n := map[string]int{}
	for _, s := range r.selftest {
		k := s.Status
		if len(k) > 14 && k[:14] == "not-applicable" {
			k = "not-applicable"
		}
		n[k]++
	}
	return map[string]any{"run": true, "variants": len(r.selftest), "by_status": n, "results": r.selftest,
		"note": "a MISSED/FALSE-ALARM entry says the checker is weaker/stricter than recorded; it is reported but does not change the verdict about /repo"}
}
