package main

import (
	"fmt"
	"go/ast"
	"go/token"
	"go/types"
	"sort"
	"strings"
)

// E1 — lockheld: must-held lock sets per program point, interprocedural
// "requires lock" discharge at static call sites, guarded-by tables.

type LockEngine struct {
	ix   *PkgIndex
	held map[*FuncInfo]map[*GNode]FactSet
	may  map[*FuncInfo]map[*GNode]FactSet
}

func NewLockEngine(ix *PkgIndex) *LockEngine {
	return &LockEngine{ix: ix, held: map[*FuncInfo]map[*GNode]FactSet{}, may: map[*FuncInfo]map[*GNode]FactSet{}}
}

// lockOp classifies a call as a mutex operation: op ∈ lock, rlock, unlock, runlock.
func lockOp(info *types.Info, call *ast.CallExpr) (key, op string) {
	f := callee(info, call)
	if f == nil {
		return "", ""
	}
	switch f.FullName() {
	case "(*sync.Mutex).Lock", "(*sync.RWMutex).Lock":
		op = "lock"
	case "(*sync.RWMutex).RLock":
		op = "rlock"
	case "(*sync.Mutex).Unlock", "(*sync.RWMutex).Unlock":
		op = "unlock"
	case "(*sync.RWMutex).RUnlock":
		op = "runlock"
	default:
		return "", ""
	}
	key = recvPathKey(info, call)
	return key, op
}

func lockTrans(info *types.Info) func(x *GNode, in FactSet) FactSet {
	return func(x *GNode, in FactSet) FactSet {
		switch x.N.(type) {
		case *ast.DeferStmt, *ast.GoStmt:
			return in // a deferred unlock keeps the lock held up to every exit
		}
		inspectNoLit(x.N, func(n ast.Node) bool {
			call, ok := n.(*ast.CallExpr)
			if !ok {
				return true
			}
			key, op := lockOp(info, call)
			if key == "" {
				return true
			}
			switch op {
			case "lock":
				in[key] = true
			case "rlock":
				in[key+"#r"] = true
			case "unlock":
				delete(in, key)
			case "runlock":
				delete(in, key+"#r")
			}
			return true
		})
		return in
	}
}

// entryOf computes the locks held on entry of f: for literals that run in
// place, the locks held where the literal is written.
func (le *LockEngine) entryOf(f *FuncInfo) FactSet {
	if f.Lit == nil {
		return FactSet{}
	}
	switch le.ix.Use[f.Lit] {
	case LitCalled, LitOnceDo:
		p := le.ix.Parent[f.Lit]
		return le.HeldAt(p, f.Lit).clone()
	}
	return FactSet{}
}

// Held returns the must-held lock set before every vertex of f.
func (le *LockEngine) Held(f *FuncInfo) map[*GNode]FactSet {
	if h, ok := le.held[f]; ok {
		return h
	}
	le.held[f] = map[*GNode]FactSet{} // recursion guard
	g := le.ix.FG(f)
	h := g.MustFlow(le.entryOf(f), nil, lockTrans(f.Info()))
	le.held[f] = h
	return h
}

// HeldAt returns the locks held on every path just before the vertex containing n.
func (le *LockEngine) HeldAt(f *FuncInfo, n ast.Node) FactSet {
	g := le.ix.FG(f)
	x := g.NodeOf(n)
	if x == nil {
		return FactSet{}
	}
	s := le.Held(f)[x]
	if s == nil {
		return FactSet{}
	}
	return s
}

// MayHeldAt returns the locks held on SOME path just before the vertex containing n
// (own function only; literals running in place inherit).
func (le *LockEngine) MayHeldAt(f *FuncInfo, n ast.Node) FactSet {
	m, ok := le.may[f]
	if !ok {
		g := le.ix.FG(f)
		entry := FactSet{}
		if f.Lit != nil {
			switch le.ix.Use[f.Lit] {
			case LitCalled, LitOnceDo:
				entry = le.MayHeldAt(le.ix.Parent[f.Lit], f.Lit).clone()
			}
		}
		m = g.MayFlow(entry, lockTrans(f.Info()))
		le.may[f] = m
	}
	x := le.ix.FG(f).NodeOf(n)
	if x == nil {
		return FactSet{}
	}
	return m[x]
}

// MayFlow: forward may-analysis (union at joins).
func (g *FG) MayFlow(entry FactSet, trans func(x *GNode, in FactSet) FactSet) map[*GNode]FactSet {
	in := map[*GNode]FactSet{}
	out := map[*GNode]FactSet{}
	for _, x := range g.Nodes {
		in[x] = FactSet{}
		out[x] = FactSet{}
	}
	in[g.Entry] = entry.clone()
	if in[g.Entry] == nil {
		in[g.Entry] = FactSet{}
	}
	changed := true
	for iter := 0; changed && iter < 1000; iter++ {
		changed = false
		for _, x := range g.Nodes {
			acc := in[x].clone()
			for _, e := range x.Preds {
				for k := range out[e.From] {
					acc[k] = true
				}
			}
			if !eqSet(acc, in[x]) {
				in[x] = acc
				changed = true
			}
			o := in[x]
			if trans != nil && x.N != nil {
				o = trans(x, in[x].clone())
			}
			if !eqSet(o, out[x]) {
				out[x] = o
				changed = true
			}
		}
	}
	return in
}

func keyRoot(key string) (root, rest string) {
	at := strings.Index(key, "@")
	if at < 0 {
		return key, ""
	}
	dot := strings.Index(key[at:], ".")
	if dot < 0 {
		return key, ""
	}
	return key[:at+dot], key[at+dot:]
}

func varKey(v *types.Var) string { return v.Name() + "@" + itoa(int(v.Pos())) }

// Require decides whether lock `key` (an access path in f's scope) is held at
// node n of f on every path — locally, or because every static caller holds it.
func (le *LockEngine) Require(f *FuncInfo, n ast.Node, key string, write bool, depth int) (bool, string) {
	held := le.HeldAt(f, n)
	if held[key] || (!write && held[key+"#r"]) {
		return true, ""
	}
	where := fmt.Sprintf("%s (%s)", f.Name, f.M.posStr(n.Pos()))
	if depth > 6 {
		return false, "lock not held at " + where + " (caller chain too deep)"
	}
	if f.Lit != nil {
		switch le.ix.Use[f.Lit] {
		case LitCalled, LitOnceDo:
			return le.Require(le.ix.Parent[f.Lit], f.Lit, key, write, depth+1)
		case LitGo:
			return false, "lock not held at " + where + ": the literal runs in its own goroutine"
		case LitDefer:
			return false, "lock not held at " + where + ": deferred literal (locks at exit not tracked)"
		}
		return false, "lock not held at " + where + ": the literal is stored or passed on and may run anywhere"
	}
	// declaration: can every caller be shown to hold it?
	if f.Obj == nil {
		return false, "lock not held at " + where
	}
	root, rest := keyRoot(key)
	sig := f.Obj.Type().(*types.Signature)
	argIdx := -2
	if rv := sig.Recv(); rv != nil && varKey(rv) == root {
		argIdx = -1
	} else {
		for i := 0; i < sig.Params().Len(); i++ {
			if varKey(sig.Params().At(i)) == root {
				argIdx = i
			}
		}
	}
	if argIdx == -2 {
		return false, "lock not held at " + where
	}
	if ast.IsExported(f.Obj.Name()) {
		return false, "lock not held at " + where + ": exported function, callers unknown"
	}
	if esc := le.ix.Escapes[f.Obj.Origin()]; len(esc) > 0 {
		return false, "lock not held at " + where + ": function value taken at " + f.M.posStr(esc[0])
	}
	sites := le.ix.Calls[f.Obj.Origin()]
	if len(sites) == 0 {
		return false, "lock not held at " + where + ": no static call site establishes it"
	}
	for _, cs := range sites {
		if cs.Go {
			return false, "lock not held at " + where + ": started with go at " + f.M.posStr(cs.Call.Pos())
		}
		var base string
		if argIdx == -1 {
			base = recvPathKey(cs.In.Info(), cs.Call)
		} else if argIdx < len(cs.Call.Args) {
			base = pathKey(cs.In.Info(), cs.Call.Args[argIdx])
		}
		if base == "" {
			return false, "lock not held at " + where + ": cannot name the lock at call site " + f.M.posStr(cs.Call.Pos())
		}
		// ".^" names the object holding the receiver: x.attrs.^.mu is x.mu
		r2 := rest
		for strings.HasPrefix(r2, ".^") {
			i := strings.LastIndex(base, ".")
			if i < 0 {
				break
			}
			base, r2 = base[:i], strings.TrimPrefix(r2, ".^")
		}
		if ok, why := le.Require(cs.In, cs.Call, base+r2, write, depth+1); !ok {
			return false, why + " ← needed by " + where
		}
	}
	return true, ""
}

// ---- guarded-by -----------------------------------------------------------

type GuardSpec struct {
	Type   string   // struct type declaring the fields
	Mutex  string   // suffix naming the mutex relative to the same base, e.g. ".mu" or ".Mutex"
	Fields []string // guarded fields
	// Exempt: "func" or "func|field" → reason. func is a declaration name; its literals are included.
	Exempt map[string]string
	// ReadsFree: fields whose reads need no lock (only writes are guarded), with reason.
	ReadsFree map[string]string
}

type fieldAccess struct {
	F     *FuncInfo
	Sel   *ast.SelectorExpr
	Field *types.Var
	Write bool
}

// fieldAccesses lists every selector in the package that resolves to one of the fields.
func (ix *PkgIndex) fieldAccesses(fields map[*types.Var]bool) []fieldAccess {
	var out []fieldAccess
	info := ix.Pkg.TypesInfo
	for _, f := range ix.All {
		writes := map[ast.Expr]bool{}
		markW := func(e ast.Expr) {
			// the written location is e; every selector prefix reached through index/star is "written through"
			for {
				e = unparen(e)
				writes[e] = true
				switch x := e.(type) {
				case *ast.IndexExpr:
					e = x.X
					continue
				case *ast.StarExpr:
					e = x.X
					continue
				case *ast.SliceExpr:
					e = x.X
					continue
				}
				break
			}
		}
		inspectNoLit(f.Body(), func(n ast.Node) bool {
			switch s := n.(type) {
			case *ast.AssignStmt:
				for _, l := range s.Lhs {
					markW(l)
				}
			case *ast.IncDecStmt:
				markW(s.X)
			case *ast.RangeStmt:
				if s.Tok == token.ASSIGN {
					if s.Key != nil {
						markW(s.Key)
					}
					if s.Value != nil {
						markW(s.Value)
					}
				}
			case *ast.CallExpr:
				switch builtinName(info, s) {
				case "delete", "clear":
					if len(s.Args) > 0 {
						markW(s.Args[0])
					}
				case "copy":
					if len(s.Args) > 0 {
						markW(s.Args[0])
					}
				}
			case *ast.UnaryExpr:
				if s.Op == token.AND {
					markW(s.X) // address taken: may be written through
				}
			}
			return true
		})
		inspectNoLit(f.Body(), func(n ast.Node) bool {
			sel, ok := n.(*ast.SelectorExpr)
			if !ok {
				return true
			}
			v, _ := fieldOf(info, sel)
			if v == nil || !fields[v] {
				return true
			}
			out = append(out, fieldAccess{F: f, Sel: sel, Field: v, Write: writes[sel]})
			return true
		})
	}
	return out
}

// freshLocal reports whether the root variable of key is a local of the
// enclosing declaration initialised from a composite literal / new (the object
// is still private to its constructor).
func (ix *PkgIndex) freshLocal(f *FuncInfo, e ast.Expr) bool {
	info := f.Info()
	root := e
	for {
		switch x := unparen(root).(type) {
		case *ast.SelectorExpr:
			if s := info.Selections[x]; s != nil && s.Kind() == types.FieldVal {
				root = x.X
				continue
			}
		case *ast.StarExpr:
			root = x.X
			continue
		}
		break
	}
	id, ok := unparen(root).(*ast.Ident)
	if !ok {
		return false
	}
	obj, _ := objOf(info, id).(*types.Var)
	if obj == nil {
		return false
	}
	outer := ix.Outer(f)
	if outer == nil || outer.Decl == nil {
		return false
	}
	// must not be a parameter/receiver/result
	if !definedIn(outer.Info(), outer.Decl.Body, obj) {
		return false
	}
	fresh := false
	isFreshExpr := func(rhs ast.Expr) bool {
		rhs = unparen(rhs)
		if u, ok := rhs.(*ast.UnaryExpr); ok && u.Op == token.AND {
			rhs = unparen(u.X)
		}
		switch r := rhs.(type) {
		case *ast.CompositeLit:
			return true
		case *ast.CallExpr:
			return builtinName(info, r) == "new"
		}
		return false
	}
	ast.Inspect(outer.Decl.Body, func(n ast.Node) bool {
		switch s := n.(type) {
		case *ast.AssignStmt:
			for i, l := range s.Lhs {
				if lid, ok := l.(*ast.Ident); ok && info.Defs[lid] == obj && i < len(s.Rhs) && len(s.Lhs) == len(s.Rhs) {
					fresh = isFreshExpr(s.Rhs[i])
				}
			}
		case *ast.ValueSpec:
			for i, nm := range s.Names {
				if info.Defs[nm] == obj {
					if len(s.Values) == 0 {
						// zero value of a struct type declared locally: fresh
						if _, isStruct := obj.Type().Underlying().(*types.Struct); isStruct {
							fresh = true
						}
					} else if i < len(s.Values) {
						fresh = isFreshExpr(s.Values[i])
					}
				}
			}
		}
		return true
	})
	return fresh
}

// GuardedBy checks a guarded-by table entry over the whole package.
func (le *LockEngine) GuardedBy(r *Run, rule string, spec GuardSpec) int {
	ix := le.ix
	spec.Mutex = resolvePath(ix.Pkg, spec.Type, spec.Mutex)
	fields := map[*types.Var]bool{}
	for _, fn := range spec.Fields {
		v := lookupField(ix.Pkg, spec.Type, fn)
		if v == nil {
			// a guarded field that no longer exists needs no guarding: when the struct is there and holds no field of the
			// recorded type any more (neither directly nor in a new nested struct), the field was removed, not hidden
			if fieldRemoved(ix.Pkg, spec.Type, fn) {
				r.Note("guarded field " + spec.Type + "." + fn + " no longer exists (no field of its recorded type is left in the struct): nothing to guard")
				continue
			}
			r.Missing(rule, shortPkg(ix.Pkg.PkgPath)+"."+spec.Type+"."+fn)
			continue
		}
		fields[v.Origin()] = true
	}
	usedExempt := map[string]bool{}
	n := 0
	accs := ix.fieldAccesses(fields)
	// count per (func, field, rw) to build stable keys
	cnt := map[string]int{}
	for _, a := range accs {
		outer := ix.Outer(a.F)
		r.Analysed(outer)
		rw := "read"
		if a.Write {
			rw = "write"
		}
		kbase := fmt.Sprintf("%s|%s|%s %s.%s", shortPkg(ix.Pkg.PkgPath), a.F.Name, rw, spec.Type, a.Field.Name())
		cnt[kbase]++
		key := fmt.Sprintf("%s #%d", kbase, cnt[kbase])
		site := at(ix.M, a.Sel.Pos())
		if reason, ok := spec.Exempt[outer.Name]; ok {
			usedExempt[outer.Name] = true
			r.OK(rule, key, site, "exempt: "+reason)
			n++
			continue
		}
		if reason, ok := spec.Exempt[outer.Name+"|"+a.Field.Name()]; ok {
			usedExempt[outer.Name+"|"+a.Field.Name()] = true
			r.OK(rule, key, site, "exempt: "+reason)
			n++
			continue
		}
		if !a.Write {
			if reason, ok := spec.ReadsFree[a.Field.Name()]; ok {
				r.OK(rule, key, site, "read needs no lock: "+reason)
				n++
				continue
			}
		}
		if ix.freshLocal(a.F, a.Sel.X) {
			r.OK(rule, key, site, "object is a fresh local of its constructor (not yet shared)")
			n++
			continue
		}
		// the object whose mutex guards the field: the selector's operand, or — when the field lives in a nested struct of the
		// guarded type (x.pending.spans) — the enclosing value of that type
		owner := ast.Expr(a.Sel.X)
		if want := lookupType(ix.Pkg, spec.Type); want != nil {
			for e := owner; ; {
				if n := namedOf(a.F.Info().TypeOf(e)); n != nil && n.Origin() == want.Origin() {
					owner = e
					break
				}
				sel, isSel := unparen(e).(*ast.SelectorExpr)
				if !isSel {
					break
				}
				e = sel.X
			}
		}
		base := pathKey(a.F.Info(), owner)
		if s := a.F.Info().Selections[a.Sel]; s != nil && base != "" && owner == ast.Expr(a.Sel.X) {
			base += implicitPath(s, len(s.Index())-1)
		}
		// the field lives in a nested struct of the guarded type and is accessed in a method of that nested struct (sa.kvs): the
		// mutex is the one of the object that holds sa — written ".^" and resolved at the call sites (Require)
		if owner == ast.Expr(a.Sel.X) && base != "" {
			if want := lookupType(ix.Pkg, spec.Type); want != nil {
				if st, isS := want.Underlying().(*types.Struct); isS {
					direct := false
					for i := 0; i < st.NumFields(); i++ {
						if st.Field(i) == a.Field || st.Field(i).Origin() == a.Field.Origin() {
							direct = true
						}
					}
					if n := namedOf(a.F.Info().TypeOf(a.Sel.X)); !direct && n != nil && n.Origin() != want.Origin() {
						if _, isStruct := n.Underlying().(*types.Struct); isStruct && implicitFieldOf(st, n) {
							base += ".^"
						}
					}
				}
			}
		}
		if base == "" {
			r.Undecided(rule, key, site, "cannot name the object whose "+spec.Mutex+" must be held for "+exprStr(a.Sel))
			n++
			continue
		}
		ok, why := le.Require(a.F, a.Sel, base+spec.Mutex, a.Write, 0)
		if ok {
			r.OK(rule, key, site, spec.Mutex+" held")
		} else {
			r.Violation(rule, key, site, fmt.Sprintf("%s of %s.%s without %s%s held: %s", rw, spec.Type, a.Field.Name(), "", strings.TrimPrefix(spec.Mutex, "."), why))
		}
		n++
	}
	var ex []string
	for k := range spec.Exempt {
		if !usedExempt[k] {
			ex = append(ex, k)
		}
	}
	sort.Strings(ex)
	for _, k := range ex {
		r.Note(rule + ": exemption '" + k + "' matched nothing on this tree")
	}
	return n
}

// ReleasesBetween reports a vertex that releases lock key on some path from
// (after) a to b (b excluded), or nil.
func (le *LockEngine) ReleasesBetween(f *FuncInfo, a, b *GNode, key string) *GNode {
	g := le.ix.FG(f)
	seen, _ := g.Reach([]*GNode{a}, func(x *GNode) bool { return x == b }, nil)
	var hit *GNode
	for x := range seen {
		if x.N == nil {
			continue
		}
		if _, isDefer := x.N.(*ast.DeferStmt); isDefer {
			continue
		}
		inspectNoLit(x.N, func(n ast.Node) bool {
			if call, ok := n.(*ast.CallExpr); ok {
				if k, op := lockOp(f.Info(), call); k == key && (op == "unlock" || op == "runlock") {
					if hit == nil || x.N.Pos() < hit.N.Pos() {
						hit = x
					}
				}
			}
			return true
		})
	}
	return hit
}

// implicitFieldOf: does struct st hold a value of named type n directly in one of its fields?
func implicitFieldOf(st *types.Struct, n *types.Named) bool {
	for i := 0; i < st.NumFields(); i++ {
		if fn := namedOf(st.Field(i).Type()); fn != nil && fn.Origin() == n.Origin() {
			if _, isPtr := st.Field(i).Type().(*types.Pointer); !isPtr {
				return true
			}
		}
	}
	return false
}

// ownerExpr: e itself when it has type want, otherwise the nearest enclosing operand of e's selector chain that has it
// (x.inner.f with want = type of x gives x); e when there is none.
func ownerExpr(info *types.Info, want *types.Named, e ast.Expr) ast.Expr {
	if want == nil || e == nil {
		return e
	}
	for cur := e; ; {
		if n := namedOf(info.TypeOf(cur)); n != nil && n.Origin() == want.Origin() {
			return cur
		}
		switch x := unparen(cur).(type) {
		case *ast.SelectorExpr:
			cur = x.X
			continue
		case *ast.UnaryExpr:
			if x.Op == token.AND {
				cur = x.X
				continue
			}
		case *ast.StarExpr:
			cur = x.X
			continue
		}
		return e
	}
}
