package main

import (
	"go/ast"
	"go/types"
	"sort"
	"strings"
)

const otelGlobal = "go.opentelemetry.io/otel/internal/global"

func init() {
	register(&PropDoc{
		ID:         "C16",
		Modules:    []string{"."},
		NotDecided: "'every measurement made afterwards reaches the SDK' as a happens-before statement; data-race freedom beyond the listed fields; locks taken inside the installed SDK (external callees are opaque to the lock-order graph).",
		Fn:         c16,
	})
}

var meterCtors = []string{
	"Int64Counter", "Int64UpDownCounter", "Int64Histogram", "Int64Gauge", "Int64ObservableCounter", "Int64ObservableUpDownCounter", "Int64ObservableGauge",
	"Float64Counter", "Float64UpDownCounter", "Float64Histogram", "Float64Gauge", "Float64ObservableCounter", "Float64ObservableUpDownCounter", "Float64ObservableGauge",
}

func c16(c *Ctx) {
	gx := c.Index(".", otelGlobal)
	if gx == nil {
		return
	}
	info := gx.Pkg.TypesInfo
	le := c.Locks(gx)

	c.Rule("R1", "E1 guarded-by + atomic section", "placeholder collections and delegates of the global providers/meter only under their mutex; the delegate test is inside the critical section that registers the placeholder", 40)
	le.GuardedBy(c.Run, "R1", GuardSpec{Type: "meterProvider", Mutex: ".mtx", Fields: []string{"meters", "delegate"}})
	le.GuardedBy(c.Run, "R1", GuardSpec{Type: "meter", Mutex: ".mtx", Fields: []string{"instruments", "registry", "delegate"}})
	le.GuardedBy(c.Run, "R1", GuardSpec{Type: "tracerProvider", Mutex: ".mtx", Fields: []string{"tracers", "delegate"}})
	le.GuardedBy(c.Run, "R1", GuardSpec{Type: "registration", Mutex: ".unregMu", Fields: []string{"unreg"}})
	// atomic: delegate test → placeholder registration, no release in between
	atomicReg := func(fname, typ, coll string) {
		fn := c.Fn(gx, "R1", fname)
		fDel := lookupField(gx.Pkg, typ, "delegate")
		fColl := lookupField(gx.Pkg, typ, coll)
		if fn == nil || fDel == nil || fColl == nil {
			return
		}
		g := gx.FG(fn)
		// the points where the delegate is looked at: every read of the field (a direct nil test, or a copy into a local that is tested later)
		tests := g.Match(func(n ast.Node) bool {
			se, ok := n.(*ast.SelectorExpr)
			return ok && isField(info, se, fDel)
		})
		isDel := func(x ast.Expr) bool {
			if isField(info, x, fDel) {
				return true
			}
			if id, ok := unparen(x).(*ast.Ident); ok {
				if o := info.Uses[id]; o != nil {
					if def := g.LocalDef(o); def != nil && isField(info, def, fDel) {
						return true
					}
				}
			}
			return false
		}
		regs := g.Match(func(n ast.Node) bool {
			if as, ok := n.(*ast.AssignStmt); ok {
				for _, l := range as.Lhs {
					if ie, ok := unparen(l).(*ast.IndexExpr); ok && isField(info, ie.X, fColl) {
						return true
					}
				}
				// a slice-backed collection: <coll>[.f] = append(<coll>[.f], placeholder)
				if len(as.Lhs) == 1 && len(as.Rhs) == 1 {
					through := false
					for cur := unparen(as.Lhs[0]); ; {
						if isField(info, cur, fColl) {
							through = true
							break
						}
						se, isSel := cur.(*ast.SelectorExpr)
						if !isSel {
							break
						}
						cur = unparen(se.X)
					}
					if call, isC := unparen(as.Rhs[0]).(*ast.CallExpr); through && isC && builtinName(info, call) == "append" && len(call.Args) >= 2 && exprStr(call.Args[0]) == exprStr(as.Lhs[0]) {
						return true
					}
				}
			}
			if call, ok := n.(*ast.CallExpr); ok {
				if recv, m := methodCall(info, call); m != nil && m.Name() == "PushBack" && isField(info, recv, fColl) {
					return true
				}
			}
			return false
		})
		key := "global|" + fname + "|delegate test and placeholder registration in one critical section"
		if len(tests) == 0 || len(regs) == 0 {
			c.Violation("R1", key, at(gx.M, fn.Pos()), "delegate test or placeholder registration not found")
			return
		}
		mu := varKey(fn.Recv()) + resolvePath(gx.Pkg, typ, ".mtx")
		bad := ""
		for _, r := range regs {
			d, _ := g.DominatedByNodes(r, toSet(tests))
			if !d {
				bad = "a placeholder is registered without testing the delegate first"
			}
			for _, t := range tests {
				if rel := le.ReleasesBetween(fn, t, r, mu); rel != nil {
					bad = "the lock is released at " + gx.M.posStr(rel.N.Pos()) + " between the delegate test and the registration"
				}
			}
			// registered only when no delegate: dominated by the delegate == nil edge
			dn, _ := g.DominatedByEdges(r, func(e *GEdge) bool {
				return edgeImplies(e, func(cnd ast.Expr, pol int) bool {
					nn, ok := nilCmp(info, cnd, pol, isDel)
					return ok && !nn
				})
			})
			if !dn {
				bad = "a placeholder can be registered although a delegate is already installed (it would never be connected)"
			}
		}
		c.Check(bad == "", "R1", key, at(gx.M, fn.Pos()), "test → insert under "+typ+".mtx", "an instrument created while installation is in progress can be left permanently unconnected: "+bad)
	}
	// Unregister claims the registration atomically: the read of unreg (the decision "still registered") and its clearing are
	// one critical section — otherwise installation can find the registration live while an Unregister is already under way
	if fn := c.Fn(gx, "R1", "(*registration).Unregister"); fn != nil {
		fU := lookupField(gx.Pkg, "registration", "unreg")
		// read-and-clear may be a helper of its own (takeUnreg): it is then that function's critical section that is judged
		markers := unregMarkers(gx)
		fn, _ = gx.workFunc(fn, func(n ast.Node) bool {
			as, ok := n.(*ast.AssignStmt)
			if !ok {
				return false
			}
			for _, l := range as.Lhs {
				if isField(info, l, fU) {
					return true
				}
				if fv, _ := fieldOf(info, l); fv != nil && markers[fv] {
					return true
				}
			}
			return false
		})
		g := gx.FG(fn)
		mu := varKey(fn.Recv()) + resolvePath(gx.Pkg, "registration", ".unregMu")
		var reads, clears []*GNode
		for _, x := range g.Nodes {
			if x.N == nil {
				continue
			}
			as, isAs := x.N.(*ast.AssignStmt)
			isClear := false
			if isAs {
				for i, l := range as.Lhs {
					if isField(info, l, fU) && len(as.Lhs) == len(as.Rhs) && isNilIdent(info, as.Rhs[i]) {
						isClear = true
					}
					// the explicit flag set: the claim "this registration is being unregistered"
					if fv, _ := fieldOf(info, l); fv != nil && markers[fv] && len(as.Lhs) == len(as.Rhs) {
						if tv, has := info.Types[as.Rhs[i]]; has && tv.Value != nil && tv.Value.String() == "true" {
							isClear = true
						}
					}
				}
			}
			if isClear {
				clears = append(clears, x)
				// `err, c.unreg = c.unreg(), nil` reads and clears in one statement
			}
			hit := false
			inspectNoLit(x.N, func(n ast.Node) bool {
				if e, ok := n.(ast.Expr); ok && isField(info, e, fU) {
					hit = true
				}
				if e, ok := n.(ast.Expr); ok {
					if fv, _ := fieldOf(info, e); fv != nil && markers[fv] {
						hit = true
					}
				}
				return true
			})
			if hit && !isClear {
				reads = append(reads, x)
			}
		}
		bad := ""
		for _, r := range reads {
			for _, w := range clears {
				if rel := le.ReleasesBetween(fn, r, w, mu); rel != nil {
					bad = "unregMu is released at " + gx.M.posStr(rel.N.Pos()) + " between reading unreg and clearing it"
				}
			}
		}
		c.Check(bad == "" && len(clears) > 0, "R1", "global|(*registration).Unregister|unreg read and cleared in one critical section", at(gx.M, fn.Pos()), itoa(len(reads))+" read(s), "+itoa(len(clears))+" clear(s) under one hold of unregMu",
			"an Unregister that has started is still seen as a live registration by a concurrent installation (the callback is registered with the SDK although the user unregistered it, and can never be removed): "+bad)
	}
	atomicReg("(*meterProvider).Meter", "meterProvider", "meters")
	atomicReg("(*tracerProvider).Tracer", "tracerProvider", "tracers")
	atomicReg("(*meter).RegisterCallback", "meter", "registry")
	for _, n := range meterCtors {
		atomicReg("(*meter)."+n, "meter", "instruments")
	}

	c.Rule("R2", "E1b lock order (package-local, calls through func-valued fields and local interfaces resolved)", "the lock order between meterProvider.mtx, meter.mtx, registration.unregMu, tracerProvider.mtx is acyclic", 3)
	{
		lo := newLockOrder(gx, le)
		lo.Build()
		var xs []string
		for x := range lo.Edges {
			xs = append(xs, x)
		}
		sort.Strings(xs)
		n := 0
		for _, x := range xs {
			var ys []string
			for y := range lo.Edges[x] {
				ys = append(ys, y)
			}
			sort.Strings(ys)
			for _, y := range ys {
				if x == y {
					c.Violation("R2", "global|lock order|"+x+" re-acquired while held", at(gx.M, gx.Pkg.Syntax[0].Pos()), "self-deadlock: "+lo.Edges[x][y])
					n++
					continue
				}
				back := lo.pathWitness(y, x)
				c.Check(back == "", "R2", "global|lock order|"+x+" → "+y+" has no reverse path", at(gx.M, gx.Pkg.Syntax[0].Pos()), lo.Edges[x][y],
					"lock-order inversion (deadlock between two goroutines): "+lo.Edges[x][y]+"  AND  "+back)
				n++
			}
		}
		if n == 0 {
			c.Violation("R2", "global|lock order|edges", at(gx.M, gx.Pkg.Syntax[0].Pos()), "no lock-order edges found: the analysis no longer sees the nested acquisitions it was built on")
		}
	}

	c.Rule("R3", "E9 sibling agreement", "the 14 meter constructors and the 14 placeholder instruments agree: same-named delegate method, same placeholder type in reflect.TypeOf and in the literal, setDelegate calls the constructor that created it, forwarding methods forward to the loaded delegate", 42)
	meterIface := gx.M.Pkg("go.opentelemetry.io/otel/metric")
	for _, n := range meterCtors {
		fn := c.Fn(gx, "R3", "(*meter)."+n)
		if fn == nil {
			continue
		}
		fDel := lookupField(gx.Pkg, "meter", "delegate")
		// (a) delegate call
		delCall := ""
		var kindT, litT string
		inspectNoLit(fn.Body(), func(nd ast.Node) bool {
			switch x := nd.(type) {
			case *ast.CallExpr:
				if recv, m := methodCall(info, x); m != nil && isField(info, recv, fDel) {
					delCall = m.Name()
				}
				if isCallTo(info, x, "reflect.TypeOf") && len(x.Args) == 1 {
					if tv, ok := info.Types[x.Args[0]]; ok {
						if nn := namedOf(tv.Type); nn != nil {
							kindT = nn.Obj().Name()
						}
					}
				}
			case *ast.CompositeLit:
				if nn := namedOf(info.Types[x].Type); nn != nil && nn.Obj().Pkg() == gx.Pkg.Types && nn.Obj().Name() != "instID" {
					litT = nn.Obj().Name()
				}
			}
			return true
		})
		c.Check(delCall == n, "R3", "global|(*meter)."+n+"|delegates to the same-named method", at(gx.M, fn.Pos()), "m.delegate."+n, "with a delegate installed the constructor calls delegate."+delCall)
		c.Check(kindT != "" && kindT == litT, "R3", "global|(*meter)."+n+"|identity type = instantiated type", at(gx.M, fn.Pos()), kindT,
			"instrument identity uses "+kindT+" but the placeholder created is "+litT+": two different instruments share an identity (type assertion panic or wrong instrument returned)")
		// (d) placeholder's setDelegate calls Meter.N
		if litT != "" {
			sd := c.Fn(gx, "R3", "(*"+litT+").setDelegate")
			if sd != nil {
				called := ""
				inspectNoLit(sd.Body(), func(nd ast.Node) bool {
					if call, ok := nd.(*ast.CallExpr); ok {
						if cf := callee(info, call); cf != nil && meterIface != nil {
							if rv := cf.Type().(*types.Signature).Recv(); rv != nil && typeIs(rv.Type(), "go.opentelemetry.io/otel/metric", "Meter") {
								called = cf.Name()
							}
						}
					}
					return true
				})
				c.Check(called == n, "R3", "global|(*"+litT+").setDelegate|creates the delegate with Meter."+n, at(gx.M, sd.Pos()), "same constructor", "placeholder created by "+n+" connects itself through Meter."+called)
				// stores the result
				stored := false
				fD := lookupField(gx.Pkg, litT, "delegate")
				inspectNoLit(sd.Body(), func(nd ast.Node) bool {
					if fieldMethodCall(info, nd, fD, "Store") != nil {
						stored = true
					}
					return true
				})
				c.Check(stored, "R3", "global|(*"+litT+").setDelegate|delegate stored atomically", at(gx.M, sd.Pos()), "delegate.Store", "the created SDK instrument is not stored: the placeholder never forwards")
			}
			// forwarding methods
			for _, m := range sortedFuncs(gx.Funcs) {
				if m.Obj == nil || !ast.IsExported(m.Obj.Name()) {
					continue
				}
				if rn, _ := recvTypeName(m.Decl); rn != litT {
					continue
				}
				fD := lookupField(gx.Pkg, litT, "delegate")
				g := gx.FG(m)
				fw := g.Match(func(nd ast.Node) bool {
					call, ok := nd.(*ast.CallExpr)
					if !ok {
						return false
					}
					cf := callee(info, call)
					return cf != nil && cf.Name() == m.Obj.Name() && cf != m.Obj
				})
				loads := 0
				inspectNoLit(m.Body(), func(nd ast.Node) bool {
					if fieldMethodCall(info, nd, fD, "Load") != nil {
						loads++
					}
					return true
				})
				// the forward must happen on every path on which the loaded delegate is non-nil (negative form)
				good := len(fw) == 1 && loads == 1
				if good {
					// comma-ok flags of a type assertion on the loaded delegate: false exactly when nothing (of that type) is stored,
					// i.e. when no delegate is installed — the delegate's only writer stores that very type
					okFlags := map[types.Object]bool{}
					inspectNoLit(m.Body(), func(nd ast.Node) bool {
						if as, isAs := nd.(*ast.AssignStmt); isAs && len(as.Lhs) == 2 && len(as.Rhs) == 1 {
							if ta, isTA := unparen(as.Rhs[0]).(*ast.TypeAssertExpr); isTA && fieldMethodCall(info, unparen(ta.X), fD, "Load") != nil {
								if o := objOf(info, as.Lhs[1]); o != nil {
									okFlags[o] = true
								}
							}
						}
						return true
					})
					s, _ := g.ReachFromEntry(func(x *GNode) bool { return x == fw[0] }, func(e *GEdge) bool {
						return edgeImplies(e, func(cnd ast.Expr, pol int) bool {
							if id, isID := cnd.(*ast.Ident); isID && pol < 0 && okFlags[info.Uses[id]] {
								return true
							}
							nn, ok := nilCmp(info, cnd, pol, func(ast.Expr) bool { return true })
							return ok && !nn
						})
					})
					good = !s[g.Exit]
				}
				c.Check(good, "R3", "global|(*"+litT+")."+m.Obj.Name()+"|forwards to the loaded delegate whenever it is set", at(gx.M, m.Pos()), "Load → non-nil → same-named call",
					"a measurement made after installation can be dropped by the placeholder")
			}
		}
	}

	// "No call panics": a position that may be −1 (slices.Index and friends: "not found") is not used as an index or bound
	// without that case being excluded — an Unregister that finds its registration already handed over must be a no-op.
	defer func() {
		bad := unguardedIndexResults(gx)
		c.Check(len(bad) == 0, "R4", "global|package|a 'position or -1' result is tested before it indexes", at(gx.M, gx.Pkg.Syntax[0].Pos()), "no unguarded use",
			"a search result that is -1 when nothing is found is used as an index or slice bound: "+joinStr(bad)+" — the call panics when the element is not (or no longer) there, e.g. an Unregister racing with the hand-over to the delegate")
	}()
	// Publishing the delegate to readers that do not take the lock (an atomic Store into a field of the placeholder holder) is
	// only safe once every placeholder has been handed its delegate: a reader that sees the delegate early bypasses the
	// placeholders, and what it passes on (a not yet delegated observable, a callback) reaches the SDK unresolved.
	defer func() {
		for _, typ := range []string{"meterProvider", "meter", "tracerProvider"} {
			fn := gx.Func("(*" + typ + ").setDelegate")
			if fn == nil || fn.Recv() == nil {
				continue
			}
			sig := fn.Obj.Type().(*types.Signature)
			if sig.Params().Len() < 1 {
				continue
			}
			del := sig.Params().At(0)
			g := gx.FG(fn)
			// the delegate itself, or something obtained from it (meter := provider.Meter(…))
			var mentionsDelD func(e ast.Node, d int) bool
			mentionsDelD = func(e ast.Node, d int) bool {
				hit := false
				ast.Inspect(e, func(n ast.Node) bool {
					if id, ok := n.(*ast.Ident); ok {
						o := info.Uses[id]
						if o == types.Object(del) {
							hit = true
						} else if o != nil && d < 3 && definedIn(info, fn.Body(), o) {
							inspectNoLit(fn.Body(), func(m ast.Node) bool {
								if as, isAs := m.(*ast.AssignStmt); isAs && len(as.Lhs) == len(as.Rhs) {
									for i, l := range as.Lhs {
										if lid, isID := unparen(l).(*ast.Ident); isID && info.ObjectOf(lid) == o && mentionsDelD(as.Rhs[i], d+1) {
											hit = true
										}
									}
								}
								return !hit
							})
						}
					}
					return !hit
				})
				return hit
			}
			mentionsDel := func(e ast.Node) bool { return mentionsDelD(e, 0) }
			stores := g.Match(func(n ast.Node) bool {
				call, ok := n.(*ast.CallExpr)
				if !ok {
					return false
				}
				recv, m := methodCall(info, call)
				if m == nil || m.Name() != "Store" || m.Pkg() == nil || m.Pkg().Path() != "sync/atomic" || recv == nil {
					return false
				}
				_, base := fieldOf(info, recv)
				if base == nil || objOf(info, base) != types.Object(fn.Recv()) {
					return false
				}
				for _, a := range call.Args {
					if mentionsDel(a) {
						return true
					}
				}
				return false
			})
			if len(stores) == 0 {
				continue
			}
			walks := toSet(g.Match(func(n ast.Node) bool {
				call, ok := n.(*ast.CallExpr)
				if !ok {
					return false
				}
				cf := callee(info, call)
				return cf != nil && cf.Name() == "setDelegate" && cf.Origin() != fn.Obj.Origin()
			}))
			early := ""
			for _, st := range stores {
				after, _ := g.Reach([]*GNode{st}, nil, nil)
				for y := range after {
					if walks[y] {
						early = gx.M.posStr(st.N.Pos()) + " is followed by the placeholder walk at " + gx.M.posStr(y.N.Pos())
					}
				}
			}
			c.Check(early == "", "R4", "global|(*"+typ+").setDelegate|lock-free publication of the delegate comes after the placeholders were delegated", at(gx.M, fn.Pos()),
				itoa(len(stores))+" atomic publication(s), none ahead of a placeholder's setDelegate",
				"the delegate is published to lock-free readers before the placeholders have theirs ("+early+"): a concurrent call that takes the fast path hands a not yet delegated instrument or callback to the SDK, which rejects or loses it")
		}
	}()
	// a walk that advances through a look-ahead variable (for e := l.Front(); e != nil; e = n { …; n = e.Next(); l.Remove(e) })
	// refreshes that variable in every iteration: a path to the post statement that skips the refresh re-visits the same element
	// for ever (SetMeterProvider never returns, with the provider's and the meter's mutexes held) or skips the rest of the list
	for _, f := range sortedFuncs(gx.Funcs) {
		if f.Body() == nil {
			continue
		}
		g := gx.FG(f)
		inspectNoLit(f.Body(), func(nd ast.Node) bool {
			fs, ok := nd.(*ast.ForStmt)
			if !ok || fs.Post == nil {
				return true
			}
			post, ok := fs.Post.(*ast.AssignStmt)
			if !ok || len(post.Lhs) != 1 || len(post.Rhs) != 1 {
				return true
			}
			ahead, isV := objOf(info, post.Rhs[0]).(*types.Var)
			if !isV || ahead.IsField() || definedIn(info, fs.Body, ahead) {
				return true
			}
			refresh := toSet(g.Match(func(n ast.Node) bool {
				as, ok := n.(*ast.AssignStmt)
				if !ok || !containsNoLit(fs.Body, as) {
					return false
				}
				for _, l := range as.Lhs {
					if sameVar(info, l, ahead) {
						return true
					}
				}
				return false
			}))
			var body *GNode
			for b, h := range g.head {
				if b.Kind.String() == "ForBody" && b.Stmt == ast.Stmt(fs) {
					body = h
				}
			}
			if body == nil {
				return true
			}
			seen, par := g.Reach([]*GNode{body}, func(y *GNode) bool { return refresh[y] }, nil)
			bad := ""
			for y := range seen {
				if y.Blk != nil && y.Blk.Stmt == ast.Stmt(fs) && y.Blk.Kind.String() == "ForPost" {
					bad = g.pathLines(par, y)
				}
			}
			c.Check(bad == "" && len(refresh) > 0, "R4", "global|"+f.Name+"|the look-ahead "+ahead.Name()+" of the list walk is refreshed in every iteration", at(gx.M, fs.Pos()), "every path to the post statement passes "+ahead.Name()+" = …",
				"an iteration can reach `"+exprStr(post.Lhs[0])+" = "+ahead.Name()+"` without having refreshed "+ahead.Name()+" ("+bad+"): the walk re-visits the same element for ever, or jumps over the remaining ones — callbacks registered before the installation are never registered with the SDK, or SetMeterProvider never returns")
			return true
		})
	}

	// R5 no panic while installing: atomic.Value.Store(nil) panics, and it panics inside the once-only installation
	c.Rule("R5", "E3 dominance (nil-guard)", "every value stored into an atomic.Value of the global package that comes from a call which also returns an error (the delegate's constructor) is stored only after that error was found nil or the value found non-nil: Store(nil) panics inside the sync.Once of Set*Provider, which leaves every later placeholder unconnected for good", 14)
	{
		nStores := 0
		for _, f := range sortedFuncs(gx.Funcs) {
			if f.Body() == nil {
				continue
			}
			for _, lf := range append([]*FuncInfo{f}, litsOf(gx, f)...) {
				g := gx.FG(lf)
				for _, x := range g.Nodes {
					if x.N == nil {
						continue
					}
					var store *ast.CallExpr
					inspectNoLit(x.N, func(n ast.Node) bool {
						if call, ok := n.(*ast.CallExpr); ok && isCallTo(info, call, "(*sync/atomic.Value).Store") && len(call.Args) == 1 {
							store = call
						}
						return true
					})
					if store == nil {
						continue
					}
					v := objOf(info, store.Args[0])
					if v == nil {
						continue
					}
					if _, isIface := v.Type().Underlying().(*types.Interface); !isIface {
						continue
					}
					// defined together with an error by one call?
					var errObj types.Object
					inspectNoLit(lf.Body(), func(n ast.Node) bool {
						as, ok := n.(*ast.AssignStmt)
						if !ok || len(as.Rhs) != 1 || len(as.Lhs) != 2 {
							return true
						}
						if _, isCall := unparen(as.Rhs[0]).(*ast.CallExpr); !isCall {
							return true
						}
						if objOf(info, as.Lhs[0]) == v && isErrVar(info, as.Lhs[1]) {
							errObj = objOf(info, as.Lhs[1])
						}
						return true
					})
					isParam := false
					if errObj == nil {
						// a helper that receives the value and the error as parameters
						var errParam types.Object
						for _, p := range lf.ParamObjs(info) {
							if p == v {
								isParam = true
							}
							if pv, ok := p.(*types.Var); ok && types.Identical(pv.Type(), types.Universe.Lookup("error").Type()) {
								errParam = p
							}
						}
						if !isParam || errParam == nil {
							continue
						}
						errObj = errParam
					}
					nStores++
					ok, why := g.DominatedByEdges(x, func(e *GEdge) bool {
						return edgeImplies(e, func(cnd ast.Expr, pol int) bool {
							if nn, good := nilCmp(info, cnd, pol, func(z ast.Expr) bool { return sameVar(info, z, errObj) }); good && !nn {
								return true // err == nil
							}
							if nn, good := nilCmp(info, cnd, pol, func(z ast.Expr) bool { return sameVar(info, z, v) }); good && nn {
								return true // value != nil
							}
							return false
						})
					})
					c.Check(ok, "R5", "global|"+gx.Outer(lf).Name+"|Store("+exprStr(store.Args[0])+") only after the error was found nil", at(gx.M, store.Pos()), "guarded by the constructor's error",
						"a delegate that fails with (nil, err) makes atomic.Value.Store(nil) panic out of Set*Provider: the Once is consumed, the provider is not installed and the remaining placeholders are never connected: "+why)
				}
			}
		}
		if nStores == 0 {
			c.Violation("R5", "global|atomic.Value stores|sites", at(gx.M, gx.Pkg.Syntax[0].Pos()), "no store of a constructor result into an atomic.Value found: the analysis no longer sees the setDelegate methods it was built on")
		}
	}

	c.Rule("R4", "E3 total fan-out + ordering", "setDelegate visits every placeholder/registration and then clears the collections; Set*Provider: setDelegate only inside the sync.Once, global Store after it; registration.setDelegate skips unregistered callbacks", 8)
	for _, sp := range []struct{ fn, target string }{
		{"(*meterProvider).setDelegate", "(*meter).setDelegate"}, {"(*tracerProvider).setDelegate", "(*tracer).setDelegate"},
	} {
		fn := c.Fn(gx, "R4", sp.fn)
		tg := gx.Func(sp.target)
		if fn == nil || tg == nil {
			continue
		}
		g := gx.FG(fn)
		calls := g.Match(callToDecl(info, tg))
		good, why := len(calls) == 1, "fan-out call not found"
		if good {
			good, why = totalFanout(g, calls[0])
		}
		c.Check(good, "R4", "global|"+sp.fn+"|every placeholder gets setDelegate", at(gx.M, fn.Pos()), "total loop", "a tracer/meter created before installation is never connected: "+why)
		// publishing the delegate, walking the placeholders and forgetting them is one critical section of the provider's
		// mutex: a Tracer()/Meter() call that gets the lock in between would see "no delegate" and add a placeholder to a
		// collection nobody walks any more
		if len(calls) == 1 {
			typ := strings.TrimSuffix(strings.TrimPrefix(sp.fn, "(*"), ").setDelegate")
			coll := map[string]string{"meterProvider": "meters", "tracerProvider": "tracers"}[typ]
			fDel, fColl := lookupField(gx.Pkg, typ, "delegate"), lookupField(gx.Pkg, typ, coll)
			mu := varKey(fn.Recv()) + resolvePath(gx.Pkg, typ, ".mtx")
			le := c.Locks(gx)
			var store, clear *GNode
			for _, x := range g.Nodes {
				if x.N == nil {
					continue
				}
				if assignRHS(x.N, func(e ast.Expr) bool { return isField(info, e, fDel) }) != nil {
					store = x
				}
				if r := assignRHS(x.N, func(e ast.Expr) bool { return isField(info, e, fColl) }); r != nil && isNilIdent(info, r) {
					clear = x
				}
			}
			key := "global|" + sp.fn + "|delegate published, placeholders walked and forgotten in one critical section"
			switch {
			case fDel == nil || fColl == nil:
				c.Missing("R4", "global."+typ+".delegate/"+coll)
			case store == nil || clear == nil:
				c.Violation("R4", key, at(gx.M, fn.Pos()), "the store of the delegate or the clearing of the placeholder collection is not part of setDelegate's own critical section (moved into a helper that locks for itself?): a placeholder created in between is never connected")
			default:
				walk := calls[0]
				held := le.Held(fn)
				okHeld := held[store][mu] && held[walk][mu] && held[clear][mu]
				var rel *GNode
				for _, pr := range [][2]*GNode{{store, walk}, {walk, clear}, {store, clear}, {walk, store}, {clear, store}} {
					if r := le.ReleasesBetween(fn, pr[0], pr[1], mu); r != nil {
						if s, _ := g.Reach([]*GNode{pr[0]}, nil, nil); s[pr[1]] {
							rel = r
						}
					}
				}
				c.Check(okHeld && rel == nil, "R4", key, at(gx.M, fn.Pos()), "mtx held throughout",
					"the provider's mutex is not held (or is released) between publishing the delegate, walking the placeholders and clearing them: a Tracer()/Meter() call in the gap creates a placeholder that is never connected")
				// the caller runs setDelegate inside the once-only installation: it installs on every path (a setDelegate that can
				// decline consumes the Once and leaves every placeholder unconnected for good)
				seenNoStore, par := g.ReachFromEntry(func(y *GNode) bool { return y == store }, nil)
				c.Check(!seenNoStore[g.Exit], "R4", "global|"+sp.fn+"|the delegate is stored on every path (the call happens once)", at(gx.M, store.N.Pos()), "no path through setDelegate skips the store",
					"setDelegate can return without installing the delegate ("+g.pathLines(par, g.Exit)+") although its caller has consumed the sync.Once for it: a later installation of a real SDK connects nothing")
			}
		}
	}
	if fn := c.Fn(gx, "R4", "(*meter).setDelegate"); fn != nil {
		g := gx.FG(fn)
		inst := g.Match(func(n ast.Node) bool {
			call, ok := n.(*ast.CallExpr)
			return ok && isCallTo(info, call, "("+otelGlobal+".delegatedInstrument).setDelegate")
		})
		regSD := callToDecl(info, gx.Func("(*registration).setDelegate"))
		reg := g.Match(regSD)
		gReg := g
		if len(reg) == 0 {
			// the walk over the registry may have been moved into a helper that setDelegate calls (with the lock held) on every path
			if w, _ := gx.workFunc(fn, regSD); w != nil && w != fn {
				hc := g.Match(callToDecl(info, w))
				if len(hc) == 1 {
					if s, _ := g.ReachFromEntry(func(x *GNode) bool { return x == hc[0] }, nil); !s[g.Exit] {
						gReg = gx.FG(w)
						reg = gReg.Match(regSD)
					}
				}
			}
		}
		good := len(inst) == 1 && len(reg) == 1
		why := ""
		if good {
			ok1, w1 := totalFanout(g, inst[0])
			ok2, w2 := totalFanout(gReg, reg[0])
			good, why = ok1 && ok2, w1+w2
		}
		c.Check(good, "R4", "global|(*meter).setDelegate|every instrument and every registration is connected", at(gx.M, fn.Pos()), "two total loops", "an instrument or callback registered before installation is skipped: "+why)
		// the meter delegate is stored before/with the loops, under the lock
		fDel := lookupField(gx.Pkg, "meter", "delegate")
		st := g.Match(func(n ast.Node) bool {
			return assignRHS(n, func(e ast.Expr) bool { return isField(info, e, fDel) }) != nil
		})
		s, _ := g.ReachFromEntry(func(x *GNode) bool { return toSet(st)[x] }, nil)
		c.Check(len(st) == 1 && !s[g.Exit], "R4", "global|(*meter).setDelegate|m.delegate set on every path", at(gx.M, fn.Pos()), "later constructors go straight to the SDK", "the meter's delegate is not always recorded: instruments created afterwards stay placeholders forever")
	}
	if fn := c.Fn(gx, "R4", "(*registration).setDelegate"); fn != nil {
		g := gx.FG(fn)
		fU := lookupField(gx.Pkg, "registration", "unreg")
		regCalls := g.Match(func(n ast.Node) bool {
			call, ok := n.(*ast.CallExpr)
			return ok && isCallTo(info, call, "(go.opentelemetry.io/otel/metric.Meter).RegisterCallback")
		})
		good := len(regCalls) == 1
		if good {
			markers := unregMarkers(gx)
			good, _ = g.DominatedByEdges(regCalls[0], func(e *GEdge) bool {
				return edgeImplies(e, func(cnd ast.Expr, pol int) bool {
					nn, ok := nilCmp(info, cnd, pol, func(x ast.Expr) bool { return isField(info, x, fU) })
					if ok && nn {
						return true
					}
					// … or the explicit "unregistered" flag read as false
					if fv, _ := fieldOf(info, cnd); fv != nil && markers[fv] && pol < 0 {
						return true
					}
					return false
				})
			})
		}
		c.Check(good, "R4", "global|(*registration).setDelegate|unregistered callbacks are not registered with the SDK", at(gx.M, fn.Pos()), "RegisterCallback dominated by unreg != nil", "a callback unregistered before installation is registered with the SDK anyway")
	}
	for _, sp := range []struct{ fn, typ string }{{"SetMeterProvider", "meterProvider"}, {"SetTracerProvider", "tracerProvider"}, {"SetTextMapPropagator", "textMapPropagator"}} {
		fn := c.Fn(gx, "R4", sp.fn)
		if fn == nil {
			continue
		}
		// setDelegate call sites: only inside a Once literal of this function
		good := true
		n := 0
		var onceLit *ast.FuncLit
		for _, f := range gx.All {
			if gx.Outer(f) != fn {
				continue
			}
			inspectNoLit(f.Body(), func(nd ast.Node) bool {
				call, ok := nd.(*ast.CallExpr)
				if !ok {
					return true
				}
				cf := callee(info, call)
				if cf == nil || !strings.EqualFold(cf.Name(), "setDelegate") {
					return true
				}
				n++
				if ok, _ := gx.onceAncestor(f); !ok {
					good = false
				} else {
					onceLit = f.Lit
				}
				return true
			})
		}
		// global Store after the Once
		g := gx.FG(fn)
		stores := g.Match(func(nd ast.Node) bool {
			call, ok := nd.(*ast.CallExpr)
			if !ok {
				return false
			}
			cf := callee(info, call)
			return cf != nil && cf.FullName() == "(*sync/atomic.Value).Store"
		})
		after := len(stores) == 1 && onceLit != nil
		if after {
			ox := g.NodeOf(onceLit)
			d, _ := g.DominatedByNodes(stores[0], map[*GNode]bool{ox: true})
			after = d && ox != stores[0]
		}
		c.Check(good && n == 1 && after, "R4", "global|"+sp.fn+"|setDelegate inside sync.Once, global Store after it", at(gx.M, fn.Pos()), "placeholders are connected once, before the SDK becomes the global", "placeholders can be connected twice / never, or the SDK is published before they are connected")
	}
}

// unregMarkers (C16): the boolean fields of registration that record "Unregister has been called" — an explicit flag next to the
// unreg function (the historical marker is unreg == nil itself). A field qualifies when it is assigned the constant true in a
// function of the package that also touches unreg.
func unregMarkers(gx *PkgIndex) map[*types.Var]bool {
	info := gx.Pkg.TypesInfo
	fU := lookupField(gx.Pkg, "registration", "unreg")
	out := map[*types.Var]bool{}
	n := lookupType(gx.Pkg, "registration")
	if n == nil || fU == nil {
		return out
	}
	st, ok := n.Underlying().(*types.Struct)
	if !ok {
		return out
	}
	cands := map[*types.Var]bool{}
	for i := 0; i < st.NumFields(); i++ {
		if b, isB := st.Field(i).Type().Underlying().(*types.Basic); isB && b.Info()&types.IsBoolean != 0 {
			cands[st.Field(i)] = true
		}
	}
	for _, f := range gx.All {
		touches := false
		var set []*types.Var
		inspectNoLit(f.Body(), func(nd ast.Node) bool {
			if e, isE := nd.(ast.Expr); isE && isField(info, e, fU) {
				touches = true
			}
			if as, isAs := nd.(*ast.AssignStmt); isAs && len(as.Lhs) == len(as.Rhs) {
				for i, l := range as.Lhs {
					if fv, _ := fieldOf(info, l); fv != nil && cands[fv] {
						if tv, has := info.Types[as.Rhs[i]]; has && tv.Value != nil && tv.Value.String() == "true" {
							set = append(set, fv)
						}
					}
				}
			}
			return true
		})
		if touches {
			for _, fv := range set {
				out[fv] = true
			}
		}
	}
	return out
}

// litsOf: the function literals nested (at any depth) in f.
func litsOf(ix *PkgIndex, f *FuncInfo) []*FuncInfo {
	var out []*FuncInfo
	for _, g := range ix.All {
		if g.Lit != nil && g != f && ix.Outer(g) == f {
			out = append(out, g)
		}
	}
	return out
}
