package main

import (
	"fmt"
	"go/ast"
	"go/constant"
	"go/token"
	"go/types"
	"os"
	"path/filepath"
	"sort"
	"strings"
	"sync"

	"golang.org/x/tools/go/packages"
	"golang.org/x/tools/go/ssa"
	"golang.org/x/tools/go/ssa/ssautil"
)

// RepoRoot is the tree under analysis. It is read on every run; nothing is cached.
var RepoRoot = "/repo"

const otelPrefix = "go.opentelemetry.io/otel"

// Module is one `packages.Load` of one Go module directory of the repository.
// Separate loads have separate types.Object universes: rules work inside one
// Module; cross-module comparisons are done on extracted facts.
type Module struct {
	Dir    string // relative to RepoRoot ("." for the root module)
	Fset   *token.FileSet
	Pkgs   []*packages.Package          // packages matched by ./...
	ByPath map[string]*packages.Package // every package in the import graph
	GOARCH string

	ssaOnce sync.Once
	ssaProg *ssa.Program
	ssaPkgs map[*types.Package]*ssa.Package
}

func loaderEnv(goarch string) []string {
	env := os.Environ()
	out := env[:0:0]
	for _, e := range env {
		if strings.HasPrefix(e, "GOWORK=") || strings.HasPrefix(e, "GOFLAGS=") ||
			strings.HasPrefix(e, "GOPROXY=") || strings.HasPrefix(e, "GOSUMDB=") ||
			strings.HasPrefix(e, "GOTOOLCHAIN=") || strings.HasPrefix(e, "CGO_ENABLED=") ||
			strings.HasPrefix(e, "GOARCH=") || strings.HasPrefix(e, "GOOS=") {
			continue
		}
		out = append(out, e)
	}
	out = append(out, "GOWORK=off", "GOFLAGS=-mod=mod", "GOPROXY=off", "GOSUMDB=off",
		"GOTOOLCHAIN=local", "CGO_ENABLED=0", "GOOS=linux")
	if goarch != "" {
		out = append(out, "GOARCH="+goarch)
	} else {
		out = append(out, "GOARCH=amd64")
	}
	return out
}

var loadSem = make(chan struct{}, 8)

// LoadModule loads every package of the module rooted at RepoRoot/dir with
// full syntax and type information for the whole import graph that lies inside
// the repository (dependencies outside it are loaded from export data / source
// as go/packages decides; only their types are used).
func LoadModule(dir, goarch string, overlay map[string][]byte) (*Module, error) {
	loadSem <- struct{}{}
	defer func() { <-loadSem }()
	abs := filepath.Join(RepoRoot, dir)
	if _, err := os.Stat(filepath.Join(abs, "go.mod")); err != nil {
		return nil, fmt.Errorf("module %s: %v", dir, err)
	}
	fset := token.NewFileSet()
	cfg := &packages.Config{
		Mode:    packages.LoadAllSyntax,
		Dir:     abs,
		Env:     loaderEnv(goarch),
		Fset:    fset,
		Tests:   false,
		Overlay: overlay,
	}
	pkgs, err := packages.Load(cfg, "./...")
	if err != nil {
		return nil, fmt.Errorf("module %s: load: %v", dir, err)
	}
	if len(pkgs) == 0 {
		return nil, fmt.Errorf("module %s: no packages matched", dir)
	}
	m := &Module{Dir: dir, Fset: fset, Pkgs: pkgs, ByPath: map[string]*packages.Package{}, GOARCH: goarch}
	var errs []string
	packages.Visit(pkgs, nil, func(p *packages.Package) {
		m.ByPath[p.PkgPath] = p
		if strings.HasPrefix(p.PkgPath, otelPrefix) {
			for _, e := range p.Errors {
				errs = append(errs, e.Error())
			}
			if p.Types == nil || p.TypesInfo == nil || (len(p.Syntax) == 0 && len(p.GoFiles) > 0) {
				errs = append(errs, "package "+p.PkgPath+": no syntax/types")
			}
		}
	})
	if len(errs) > 0 {
		sort.Strings(errs)
		if len(errs) > 8 {
			errs = errs[:8]
		}
		return nil, fmt.Errorf("module %s: %d load/type errors: %s", dir, len(errs), strings.Join(errs, "; "))
	}
	return m, nil
}

// SSA builds (once) the SSA form of every package in the import graph.
func (m *Module) SSA() *ssa.Program {
	m.ssaOnce.Do(func() {
		prog, _ := ssautil.AllPackages(m.Pkgs, ssa.InstantiateGenerics)
		prog.Build()
		m.ssaProg = prog
	})
	return m.ssaProg
}

// Pkg returns the package with the given import path, or nil.
func (m *Module) Pkg(path string) *packages.Package { return m.ByPath[path] }

// RepoPkgs returns all packages of this load whose sources live in the repository, sorted.
func (m *Module) RepoPkgs() []*packages.Package {
	var out []*packages.Package
	for path, p := range m.ByPath {
		if strings.HasPrefix(path, otelPrefix) && !strings.Contains(path, "/otel/sdk/internal/internaltest") {
			out = append(out, p)
		}
	}
	sort.Slice(out, func(i, j int) bool { return out[i].PkgPath < out[j].PkgPath })
	return out
}

// posStr renders a position relative to the repository root.
func (m *Module) posStr(p token.Pos) string {
	if !p.IsValid() {
		return "-"
	}
	pos := m.Fset.Position(p)
	rel, err := filepath.Rel(RepoRoot, pos.Filename)
	if err != nil || strings.HasPrefix(rel, "..") {
		rel = pos.Filename
	}
	return fmt.Sprintf("%s:%d", rel, pos.Line)
}

// ---- function lookup ------------------------------------------------------

// FuncInfo is a source function (declaration or literal) with its package.
type FuncInfo struct {
	M    *Module
	Pkg  *packages.Package
	Decl *ast.FuncDecl // nil for literals
	Lit  *ast.FuncLit  // nil for declarations
	Obj  *types.Func   // nil for literals
	Name string        // "(*T).m", "T.m", "f", or "outer$lit@line"
	// Spec is set on a specialised view of a shared implementation (PkgIndex.delegateUnder): the parameters that hold a
	// compile-time constant at the delegating call, with that constant; the body is pruned accordingly.
	Spec map[types.Object]constant.Value
}

func (f *FuncInfo) Body() *ast.BlockStmt {
	if f.Decl != nil {
		return f.Decl.Body
	}
	return f.Lit.Body
}
func (f *FuncInfo) Info() *types.Info { return f.Pkg.TypesInfo }
func (f *FuncInfo) Pos() token.Pos {
	if f.Decl != nil {
		return f.Decl.Pos()
	}
	return f.Lit.Pos()
}

// Recv returns the receiver variable of a method declaration, or nil.
func (f *FuncInfo) Recv() *types.Var {
	if f.Obj == nil {
		return nil
	}
	return f.Obj.Type().(*types.Signature).Recv()
}

func recvTypeName(fd *ast.FuncDecl) (name string, ptr bool) {
	if fd.Recv == nil || len(fd.Recv.List) == 0 {
		return "", false
	}
	t := fd.Recv.List[0].Type
	if s, ok := t.(*ast.StarExpr); ok {
		ptr = true
		t = s.X
	}
	for {
		switch x := t.(type) {
		case *ast.IndexExpr:
			t = x.X
			continue
		case *ast.IndexListExpr:
			t = x.X
			continue
		case *ast.ParenExpr:
			t = x.X
			continue
		}
		break
	}
	if id, ok := t.(*ast.Ident); ok {
		return id.Name, ptr
	}
	return "", ptr
}

func declName(fd *ast.FuncDecl) string {
	rn, ptr := recvTypeName(fd)
	if rn == "" {
		return fd.Name.Name
	}
	if ptr {
		return "(*" + rn + ")." + fd.Name.Name
	}
	return rn + "." + fd.Name.Name
}

// Funcs returns every function declaration with a body of the package, keyed by declName.
func pkgFuncs(m *Module, p *packages.Package) map[string]*FuncInfo {
	out := map[string]*FuncInfo{}
	for _, f := range p.Syntax {
		for _, d := range f.Decls {
			fd, ok := d.(*ast.FuncDecl)
			if !ok || fd.Body == nil {
				continue
			}
			obj, _ := p.TypesInfo.Defs[fd.Name].(*types.Func)
			if isInlinedAway(obj) {
				continue
			}
			name := declName(fd)
			out[name] = &FuncInfo{M: m, Pkg: p, Decl: fd, Obj: obj, Name: name}
		}
	}
	return out
}

// lookupFunc finds "(*T).m" / "T.m" / "f" in the package; a method is found
// regardless of pointer-ness of the receiver given in name.
func lookupFunc(m *Module, p *packages.Package, name string) *FuncInfo {
	fs := pkgFuncs(m, p)
	if f, ok := fs[name]; ok {
		recordFunc(p, name, f)
		return f
	}
	alt := name
	if strings.HasPrefix(name, "(*") {
		alt = strings.Replace(strings.TrimPrefix(name, "(*"), ").", ".", 1)
	} else if i := strings.Index(name, "."); i > 0 {
		alt = "(*" + name[:i] + ")" + name[i:]
	}
	if f := fs[alt]; f != nil {
		recordFunc(p, name, f)
		return f
	}
	// consistently renamed? (see anchors.go)
	if f := renamedFunc(m, p, name); f != nil {
		return f
	}
	// a method of a renamed type: T.m / (*T).m with T resolved through the type fall-back
	recvName, meth := "", ""
	if strings.HasPrefix(name, "(*") {
		if i := strings.Index(name, ")."); i > 0 {
			recvName, meth = name[2:i], name[i+2:]
		}
	} else if i := strings.Index(name, "."); i > 0 {
		recvName, meth = name[:i], name[i+1:]
	}
	if recvName != "" {
		if n := lookupType(p, recvName); n != nil && n.Obj().Name() != recvName {
			for _, cand := range []string{n.Obj().Name() + "." + meth, "(*" + n.Obj().Name() + ")." + meth} {
				if f := fs[cand]; f != nil {
					return f
				}
			}
		}
	}
	return nil
}

// lookupType returns the named type declared in the package, or nil.
func lookupType(p *packages.Package, name string) *types.Named {
	o := p.Types.Scope().Lookup(name)
	if o == nil {
		return renamedType(p, name)
	}
	tn, ok := o.(*types.TypeName)
	if !ok {
		return nil
	}
	n, _ := tn.Type().(*types.Named)
	recordType(p, name, n)
	return n
}

// lookupField returns field `name` of struct type `typ` declared in p, or nil.
func lookupField(p *packages.Package, typ, name string) *types.Var {
	n := lookupType(p, typ)
	if n == nil {
		return nil
	}
	st, ok := n.Underlying().(*types.Struct)
	if !ok {
		return nil
	}
	for i := 0; i < st.NumFields(); i++ {
		if st.Field(i).Name() == name {
			recordField(p, typ, name, st.Field(i))
			return st.Field(i)
		}
	}
	// consistently renamed? (see anchors.go)
	return renamedField(p, typ, name, st)
}
